"""C02 failing-input search on the REAL code, independent of the Lean model:
push-forward quadrature of the real `jump()` / `birth` against the reported
`pdf`, the symmetric claim, and history independence of `logpdf`.

How the real code is driven
---------------------------
All randomness of epsie goes through `BaseRandom.random_generator`.  Inside
`with scripted():` that property is replaced (in this process only) by one that
returns the stand-in generator attached to the instance (`obj._verif_gen`), if
any.  The stand-in hands out a deterministic *quantile grid* of base draws
`z_k = Phi^-1((k+1/2)/N)` (uniform families: `u_k = (k+1/2)/N`) in increasing
order; rejected draws consume grid points exactly as in the real loop.

One parameter is measured at a time.  Which generator call belongs to which
parameter is *learned from the real code* by a probe jump in which every
parameter gets a draw that is accepted at once: the k-th call then belongs to
parameter k and its `scale` argument is that parameter's signature (the check
uses unequal scales; a configuration whose scales tie is skipped and counted).
The other parameters stay frozen at their probe draw, so that

    reported pdf(x'_i, frozen others | x) = C_i * law_i(x'_i),

with `C_i` obtained by summing / integrating the reported values themselves.
`prod_i C_i = pdf(frozen point)^(n-1)` checks that the reported joint density is
the product of correctly normalised one-parameter laws.

Error bounds (so that correct code cannot alarm)
------------------------------------------------
The grid has exactly one point per quantile interval of width 1/N, so for any
interval J of base draws  |#(grid in J)/N - P(J)| <= 1/N.

* integer outputs: the draws giving output k (inside the accepted region, an
  interval) form one interval; with N_acc accepted grid points
      |emp_k - law_k| <= (1 + law_k)/(N_acc - 1) <= 2/(N_acc - 1).
  The reported masses are normalised by their sum over the scanned range, which
  misses at most the two tails beyond the extreme grid points (<= 1/N each).
  Tolerance used: 3/(N_acc - 2) + 2/N.
* continuous outputs (monotone map, or monotone then wrapped once): the draws
  giving an output <= b are at most two intervals; |empCDF(b) - CDF(b)| <=
  3/(N_acc - 1).  The integral of the reported pdf is composite Simpson on a
  fixed fine grid; its error is bounded by the difference to Simpson on every
  other node (Richardson; the reported pdf is assumed piecewise smooth between
  the declared break points, which is all a density of these families can be).
  Tolerance used: 4/(N_acc - 2) + 2/N + 2*(Richardson difference)/C.
* solid angle: base draws are the Hammersley net (i+1/2)/N, vdc_2(i), N = 2^m.
  Caps around the centre have pre-images that are intervals in one coordinate
  (a regular 1/N grid): tolerance 2/N + quadrature.  Cap x sector cells are
  rectangles (two after wrapping); a (0,m,2)-net has N*D* <= m/3 + 19/9, a
  rectangle costs at most 4 D* plus one point per edge: tolerance
  2*(4*(m/3 + 19/9) + 4)/N + quadrature.
* exact comparisons: history independence (bit-identical logpdf values),
  parameters that should not move, reported symmetric values (1e-9 relative:
  the two orders evaluate the same formula at arguments equal up to rounding).

What counts as a failing input
------------------------------
The property is about the Hastings factor.  Hence
* a reported density that is a *constant* multiple of the jump law is accepted (the constant
  is measured and must be the same from two different from-points; it is listed in the notes:
  `Angular` with n parameters reports pi^(n-1) times the law);
* for a family that declares itself symmetric a reported density of another *shape* than the
  law is not a violation by itself: the mismatch is held back and decided on the measured law
  alone (displacements distributed evenly about 0 and identically from both from-points, for
  the sphere: same distance law from both from-points and uniform azimuth); if that holds and
  the reported values are symmetric the Hastings factor is unaffected (note), otherwise the
  finding is `<family>:symmetric-law`;
* for the eigenvector families the constant may differ between eigen-directions (a jump and
  its reverse share the direction).
Keys of findings name the family and the kind of failure; three call-site keys exist for
defects found on the pinned tree: `cdfcache-one-dict-shared-by-all-parameters` (set in
props/C02.py), `BoundedEigenvector:isclose-band-not-in-reported-density` and
`BoundedEigenvector:nan-density-outside-box`.

Settings histories (units of kind `settings-history`, see the section of that name)
-----------------------------------------------------------------------------------
The same comparisons on real objects *after* every path that changes the settings a jump
uses: Chain.reset_proposals (once, twice, after re-adaptation, plus one more step), set_state
with the state of another instance (into a fresh and into an adapted one), assignment to
std / cov / boundaries / kappa / successive / eigvals + eigvects, set_jump_interval (walk
through the whole schedule), copy.deepcopy / pickle; the metamorphic form (same current
settings by construction, other history => same logpdf / pdf to 1e-12, same jump from the
same scripted draws); and interleaved queries (the same point pairs asked of one live object
before and after every state-changing step, each answer against a never-queried object with
the same current settings).  The law is always derived from the object's own jump() under
scripted draws.  There every mismatch is a finding, symmetric family or not; keys
`<family>:stale-density-after-<reset|setter|set-state|copy|jump-interval|adaptation>`
(a mismatch that a freshly constructed object shows as well keeps its ordinary key).
"""
import contextlib
import copy
import itertools
import math
import pickle
import random

import numpy
from scipy.special import ndtri

import common  # noqa: F401  (puts /repo on sys.path)
import families as F
import forcing
from epsie import proposals as P
from epsie.chain import Chain
from epsie.proposals import base as pbase

TWO_PI = 2 * math.pi


# --------------------------------------------------------------------------
# the stand-in generator
# --------------------------------------------------------------------------

class Runaway(Exception):
    """more generator calls in one jump than any accepted-at-once probe can need"""


class Exhausted(Exception):
    """the quantile grid is used up"""


class Gen:
    """Stand-in for numpy.random.Generator driven by a `plan` object."""

    def __init__(self, plan):
        self.plan = plan
        self.calls = []          # (kind, args) of the current jump
        self.returned = []       # what scalar `normal` calls returned (the candidates the code saw)
        self.limit = None

    def _note(self, kind, *args):
        self.calls.append((kind,) + args)
        if self.limit is not None and len(self.calls) > self.limit:
            raise Runaway()

    def normal(self, loc=0.0, scale=1.0, size=None):
        self._note('normal', loc, scale)
        if isinstance(loc, (list, tuple, numpy.ndarray)) or isinstance(scale, numpy.ndarray):
            loc = numpy.asarray(loc, dtype=float)
            scale = numpy.asarray(scale, dtype=float) * numpy.ones_like(loc)
            z = numpy.array([self.plan.z(len(self.calls) - 1, k, float(scale[k])) for k in range(loc.size)])
            return loc + scale * z
        z = self.plan.z(len(self.calls) - 1, None, float(scale))
        v = loc + scale * z
        self.returned.append(float(v))
        return v

    def multivariate_normal(self, mean, cov, size=None):
        self._note('mvn', numpy.array(mean, dtype=float), numpy.array(cov, dtype=float))
        mean = numpy.asarray(mean, dtype=float)
        L = numpy.linalg.cholesky(numpy.asarray(cov, dtype=float))
        z = numpy.array([self.plan.z(len(self.calls) - 1, k, None) for k in range(mean.size)])
        return mean + L @ z

    def lognormal(self, mean=0.0, sigma=1.0, size=None):
        self._note('lognormal', mean, sigma)
        return math.exp(mean + sigma * self.plan.z(len(self.calls) - 1, None, float(sigma)))

    def uniform(self, low=0.0, high=1.0, size=None):
        self._note('uniform', low, high)
        return low + (high - low) * self.plan.u(len(self.calls) - 1)

    def random(self, size=None):
        self._note('random', size)
        return numpy.array(self.plan.u2())

    def shuffle(self, arr):
        self._note('shuffle', numpy.array(arr))
        perm = self.plan.perm(len(arr))
        arr[:] = arr[perm]

    def choice(self, a, p=None, size=None):
        self._note('choice', numpy.array(a), None if p is None else numpy.array(p))
        return a[self.plan.pick(len(a))]


@contextlib.contextmanager
def scripted():
    """Route `random_generator` of instances carrying `_verif_gen` to the stand-in."""
    orig = pbase.BaseRandom.random_generator

    def getter(self_):
        g = self_.__dict__.get('_verif_gen')
        if g is not None:
            return g
        return orig.fget(self_)

    pbase.BaseRandom.random_generator = property(getter)
    try:
        yield
    finally:
        pbase.BaseRandom.random_generator = orig


def zgrid(N):
    return ndtri((numpy.arange(N) + 0.5) / N)


class ParamPlan:
    """Normal draws: parameter `tested` gets the grid, the others their frozen draw.
    Parameters are recognised by call position (vector call) or by `scale` signature."""

    def __init__(self, n):
        self.n = n
        self.frozen = [0.6] * n
        self.sig = None          # list of scale signatures, learned by the probe
        self.tested = None
        self.grid = None
        self.pos = 0
        self.seq = 0             # probe mode: scalar calls are numbered

    def start_jump(self):
        self.seq = 0

    def z(self, callno, k, scale):
        if k is None:                                  # scalar call
            if self.sig is None:                       # probe: k-th call = k-th parameter
                k = min(self.seq, self.n - 1)
                self.seq += 1
            elif self.sig == 'frames':                 # scales tie: read the loop index of `_jump`
                k = _loop_index()
            else:
                k = self.sig.index(scale) if scale in self.sig else None
                if k is None:
                    raise KeyError('generator called with an unknown scale %r' % (scale,))
        if self.tested is not None and k == self.tested:
            if self.pos >= len(self.grid):
                raise Exhausted()
            v = self.grid[self.pos]
            self.pos += 1
            return float(v)
        return self.frozen[k]

    def u(self, callno):
        return 0.5


def _loop_index():
    """Fallback used only when two parameters have the same scale: the local `ii` of the
    calling `_jump` frame (all per-parameter loops of epsie are `for ii, p in enumerate(...)`)."""
    import sys
    f = sys._getframe(2)
    for _ in range(4):
        if f is None:
            break
        if f.f_code.co_name == '_jump' and 'ii' in f.f_locals:
            return int(f.f_locals['ii'])
        f = f.f_back
    raise KeyError('scales tie and the loop index of _jump is not visible')


FROZEN_TRIES = [0.6, -0.6, 0.2, -0.2, 1.3, -1.3, 0.05, -0.05]


def learn_routing(p, plan, x, names, vector):
    """Probe jumps on the real code until every parameter accepts its frozen draw at
    once; returns (signatures, frozen outputs) or None when scales tie / no probe works."""
    n = len(names)
    gen = p._verif_gen
    tries = [0] * n
    for _ in range(40):
        plan.sig = None
        plan.tested = None
        plan.frozen = [FROZEN_TRIES[t] for t in tries]
        gen.calls = []
        gen.limit = 8 * n + 8
        plan.start_jump()
        try:
            out = p.jump(x)
            calls = list(gen.calls)
        except Runaway:
            out, calls = None, list(gen.calls)
        finally:
            gen.limit = None
        if vector:
            if out is not None and len(calls) == 1:
                return [None] * n, out
            return None
        scalar = [c for c in calls if c[0] == 'normal']
        if out is not None and len(scalar) == n:
            sig = [float(c[2]) for c in scalar]
            if len(set(sig)) != n:
                return 'frames', out                   # tie: tell parameters apart by the loop index
            return sig, out
        # find the first parameter that rejected its draw: in probe mode call k belongs to
        # parameter min(k, n-1); a rejection shows as a repeated scale.
        bad = None
        for k in range(1, len(scalar)):
            if float(scalar[k][2]) == float(scalar[k - 1][2]):
                bad = min(k - 1, n - 1)
                break
        if bad is None:
            bad = min(len(scalar), n) - 1
        tries[bad] += 1
        if tries[bad] >= len(FROZEN_TRIES):
            return None
    return None


# --------------------------------------------------------------------------
# numerical integration of a black-box reported pdf
# --------------------------------------------------------------------------

def simpson_cum(vals, h, per):
    """Cumulative composite Simpson over consecutive blocks of `per` intervals of width h
    (`per` divisible by 4).  Returns (cum, cum - err) at the block ends, where
    err = |S_h - S_2h| + |S_2h - S_4h|/16 accumulated over the blocks: in the asymptotic regime the
    second term repeats the first (error of S_h is about |S_h - S_2h|/15); if the grid is too
    coarse for the integrand it is the larger one, so an accidental agreement of S_h and S_2h does
    not shrink the tolerance."""
    nb = (len(vals) - 1) // per
    cum = [0.0]
    err = [0.0]

    def simp(v, hh):
        return (v[0] + v[-1] + 4 * v[1:-1:2].sum() + 2 * v[2:-1:2].sum()) * hh / 3

    for b in range(nb):
        v = vals[b * per:(b + 1) * per + 1]
        s1 = simp(v, h)
        s2 = simp(v[::2], 2 * h)
        s4 = simp(v[::4], 4 * h) if per % 4 == 0 and per >= 8 else s2
        cum.append(cum[-1] + s1)
        err.append(err[-1] + abs(s1 - s2) + abs(s2 - s4) / 16.0)
    cum = numpy.array(cum)
    return cum, cum - numpy.array(err)


# --------------------------------------------------------------------------
# per-parameter families
# --------------------------------------------------------------------------

PERPARAM = {
    # family -> (output kind, vector call)
    'normal': ('cont', True), 'adaptive_normal': ('cont', True), 'ss_adaptive_normal': ('cont', True),
    'at_adaptive_normal': ('cont', True),
    'bounded_normal': ('cont', False), 'adaptive_bounded_normal': ('cont', False),
    'ss_adaptive_bounded_normal': ('cont', False), 'at_adaptive_bounded_normal': ('cont', False),
    'angular': ('cont', False), 'adaptive_angular': ('cont', False), 'ss_adaptive_angular': ('cont', False),
    'at_adaptive_angular': ('cont', False),
    'discrete': ('int', False), 'ss_adaptive_discrete': ('int', False), 'adaptive_discrete': ('int', False),
    'bounded_discrete': ('int', False), 'ss_adaptive_bounded_discrete': ('int', False),
    'adaptive_bounded_discrete': ('int', False),
}
DISCRETE = {f for f, (k, _) in PERPARAM.items() if k == 'int'}
EIGEN = ('eigenvector', 'adaptive_eigenvector', 'bounded_eigenvector', 'adaptive_bounded_eigenvector')
SPHERE = ('isotropic_solid_angle', 'adaptive_isotropic_solid_angle')


def pristine(p0, family):
    """An object that has answered no density query yet.  Only the discrete families keep
    state between queries; the others are queried in place (deepcopy costs 0.6 ms)."""
    if family in DISCRETE:
        return copy.deepcopy(p0)
    return p0


def describe(family, p, x):
    d = {'family': family, 'parameters': list(p.parameters), 'from': {k: float(v) for k, v in x.items()}}
    for attr in ('_std', '_lowerbnd', '_upperbnd', '_cov', 'eigvals', 'kappa'):
        v = getattr(p, attr, None)
        if v is not None:
            d[attr.lstrip('_')] = numpy.asarray(v, dtype=float).tolist()
    if hasattr(p, 'successive'):
        d['successive'] = dict(p.successive)
    if hasattr(p, 'isradec'):
        d['radec'], d['degs'] = bool(p.isradec), bool(p.isdegs)
    return d


def perparam_law(family, p0, x, N, findings, stats, tag):
    """Push-forward quadrature of one proposal instance from one point, every parameter."""
    kind, vector = PERPARAM[family]
    names = list(p0.parameters)
    n = len(names)
    if not getattr(p0, 'isdiagonal', True):        # (a numpy.bool_ after the `cov` setter)
        full_cov_args(family, p0, x, findings, stats, tag)
        return None
    # settings histories: jump on the very object that went through the history (no copy in
    # between), unless the family keeps query caches (its pdf is read from copies anyway)
    inplace = bool(tag.get('inplace')) and family not in DISCRETE
    p = p0 if inplace else copy.deepcopy(p0)
    plan = ParamPlan(n)
    p._verif_gen = Gen(plan)
    try:
        return _perparam_law(family, p0, p, plan, x, N, findings, stats, tag, kind, vector, names, n)
    finally:
        if inplace:
            p.__dict__.pop('_verif_gen', None)


def _perparam_law(family, p0, p, plan, x, N, findings, stats, tag, kind, vector, names, n):
    learned = learn_routing(p, plan, x, names, vector)
    if learned is None:
        stats['skipped_tie_or_probe'] = stats.get('skipped_tie_or_probe', 0) + 1
        return None
    plan.sig, frozen_out = learned
    frozen_out = {k: (int(v) if kind == 'int' else float(v)) for k, v in frozen_out.items()}
    base = float(pristine(p0, family).pdf(frozen_out, x))
    consts = []
    grid = zgrid(N)
    for i, name in enumerate(names):
        plan.tested = i
        plan.grid = grid
        plan.pos = 0
        outs = []
        moved = None
        gen = p._verif_gen
        while True:
            gen.calls = []
            plan.start_jump()
            try:
                out = p.jump(x)
            except Exhausted:
                break
            outs.append(out[name])
            for j, other in enumerate(names):
                if j != i and out[other] != frozen_out[other] and moved is None:
                    moved = (other, float(out[other]), float(frozen_out[other]))
        stats['jumps'] = stats.get('jumps', 0) + len(outs)
        stats['grid_points'] = stats.get('grid_points', 0) + N
        if moved is not None:
            findings.append(('%s:cross-parameter' % family,
                             '%s: the draws of parameter %s moved parameter %s (%r instead of %r)' % (
                                 family, name, moved[0], moved[1], moved[2]),
                             dict(describe(family, p0, x), tested=name, kind='cross-parameter')))
        nacc = len(outs)
        if nacc < 50:
            stats['skipped_low_acceptance'] = stats.get('skipped_low_acceptance', 0) + 1
            stats['skipped_low_acceptance:' + family] = stats.get('skipped_low_acceptance:' + family, 0) + 1
            consts.append(None)
            continue
        outs = numpy.array(outs)
        _note_disp(p0, stats, ('param', i), tag.get('which', 0), outs.astype(float) - float(x[name]),
                   TWO_PI if 'angular' in family else None)

        def rep(y, _i=i, _name=name):
            q = dict(frozen_out)
            q[_name] = y
            return float(pristine(p0, family).pdf(q, x))

        if kind == 'int':
            c = int_compare(family, p0, x, name, outs, nacc, N, rep, findings, stats, n, tag)
        else:
            cells_, per_ = tag.get('nodes', (32, 16))
            c = cont_compare(family, p0, x, name, outs, nacc, N, rep, findings, stats, n, tag,
                             cells=cells_, per=per_)
        consts.append(c)
    # The reported joint density is c(x) * prod_i law_i: C_i = c * prod_{j != i} law_j(frozen_j) and
    # pdf(frozen) = c * prod_j law_j(frozen_j), hence c(x) = prod_i C_i / pdf(frozen)^(n-1).
    # The Hastings factor is right iff c does not depend on the from-point (checked by the caller).
    if all(c is not None and c[0] > 0 for c in consts) and base > 0:
        c_x = float(numpy.prod([c[0] for c in consts]) / base ** (n - 1))
        rel = sum(c[1] / c[0] for c in consts) * 1.5 + 2.0 * n / N + 1e-9
        stats['normaliser_estimates'] = stats.get('normaliser_estimates', 0) + 1
        return c_x, rel
    return None


def int_compare(family, p0, x, name, outs, nacc, N, rep, findings, stats, n, tag):
    outs = outs.astype(int)
    lo_b = getattr(p0, '_lowerbnd', None)
    if lo_b is not None:
        i = list(p0.parameters).index(name)
        ks = list(range(int(p0._lowerbnd[i]), int(p0._upperbnd[i]) + 1))
    else:
        ks = list(range(int(outs.min()) - 3, int(outs.max()) + 4))
    vals = numpy.array([rep(k) for k in ks])
    stats['pdf_evaluations'] = stats.get('pdf_evaluations', 0) + len(ks)
    C = float(vals.sum())
    tol = 3.0 / (nacc - 2) + 2.0 / N
    worst = None
    outside = int(((outs < ks[0]) | (outs > ks[-1])).sum())
    for k, v in zip(ks, vals):
        emp = float((outs == k).sum()) / nacc
        r = v / C if C > 0 else float('nan')
        stats['cells'] = stats.get('cells', 0) + 1
        if not abs(emp - r) <= tol:
            if worst is None or abs(emp - r) > worst[0]:
                worst = (abs(emp - r), k, emp, r)
    if outside:
        worst = (outside / nacc, 'outside the bounds', outside / nacc, 0.0)
    if worst is not None:
        _law_mismatch(family, p0, stats, findings, ('param', list(p0.parameters).index(name)), (
                         '%s:law' % family,
                         '%s: reported mass of %s=%s from %s is %.5f, the jump law (quantile grid N=%d, %d accepted) '
                         'gives %.5f; |diff| %.2g > tolerance %.2g' % (
                             family, name, worst[1], {k: float(v) for k, v in x.items()}, worst[3], N, nacc,
                             worst[2], worst[0], tol),
                         dict(describe(family, p0, x), tested=name, kind='law-int', N=N, cell=str(worst[1]),
                              reported=worst[3], measured=worst[2], tolerance=tol,
                              reported_all=(vals / C).tolist() if C > 0 else None,
                              measured_all=[float((outs == k).sum()) / nacc for k in ks], cells=ks)))
    return (C, 2.0 / N * C)


def cont_compare(family, p0, x, name, outs, nacc, N, rep, findings, stats, n, tag,
                 cells=32, per=16):
    i = list(p0.parameters).index(name)
    if hasattr(p0, '_lowerbnd') and p0._lowerbnd is not None:
        a, b = float(p0._lowerbnd[i]), float(p0._upperbnd[i])
    elif 'angular' in family:
        a, b = 0.0, TWO_PI
    else:
        pad = 0.02 * (outs.max() - outs.min())
        a, b = float(outs.min()) - pad, float(outs.max()) + pad
    M = cells * per
    ys = numpy.linspace(a, b, M + 1)
    vals = numpy.array([rep(float(y)) for y in ys])
    stats['pdf_evaluations'] = stats.get('pdf_evaluations', 0) + len(ys)
    if not numpy.isfinite(vals).all():
        bad = float(ys[~numpy.isfinite(vals)][0])
        findings.append(('%s:nonfinite' % family,
                         '%s: reported pdf of %s=%r is not finite inside the support' % (family, name, bad),
                         dict(describe(family, p0, x), tested=name, kind='nonfinite', at=bad)))
        return None
    h = (b - a) / M
    cum, cumc = simpson_cum(vals, h, per)
    C = float(cum[-1])
    qerr = numpy.abs(cum - cumc)
    srt = numpy.sort(outs)
    tol_count = 4.0 / (nacc - 2) + 2.0 / N
    worst = None
    outside = int(((outs < a - 1e-12) | (outs > b + 1e-12)).sum())
    for k in range(cells + 1):
        edge = ys[k * per]
        emp = float(numpy.searchsorted(srt, edge, side='right')) / nacc
        r = cum[k] / C if C > 0 else float('nan')
        tol = tol_count + 2.0 * (qerr[k] + qerr[-1]) / C if C > 0 else tol_count
        stats['cells'] = stats.get('cells', 0) + 1
        if not abs(emp - r) <= tol:
            if worst is None or abs(emp - r) - tol > worst[0]:
                worst = (abs(emp - r) - tol, float(edge), emp, float(r), tol)
    if outside and not hasattr(p0, '_halfwidth'):
        worst = (outside / nacc, 'outside', outside / nacc, 0.0, 0.0)
    if worst is not None:
        _law_mismatch(family, p0, stats, findings, ('param', i), (
                         '%s:law' % family,
                         '%s: integral of the reported pdf of %s up to %s from %s is %.5f, the jump law '
                         '(quantile grid N=%d, %d accepted) gives %.5f; tolerance %.2g' % (
                             family, name, worst[1], {k: float(v) for k, v in x.items()}, worst[3], N, nacc,
                             worst[2], worst[4]),
                         dict(describe(family, p0, x), tested=name, kind='law-cont', N=N, edge=worst[1],
                              reported_cdf=worst[3], measured_cdf=worst[2], tolerance=worst[4])))
    return (C, 2.0 * qerr[-1] + 2.0 / N * C)


# --------------------------------------------------------------------------
# families that declare themselves symmetric: what a law mismatch means
# --------------------------------------------------------------------------
# For a symmetric family the chain never uses the reported density; the property asks that
# the reported values are symmetric (checked directly) and that the *jump law* is symmetric.
# A reported density of a different shape than the law is then not a violation by itself.
# A mismatch found for such a family is therefore held back and decided by looking at the
# measured law alone: it is symmetric if the displacement x' - x is distributed evenly about 0
# and in the same way from both from-points (every symmetric family here is a translation /
# rotation family).  Counting error of each one-sided mass: 3/(n-1).

def _law_mismatch(family, p0, stats, findings, keyp, finding):
    # `_strict` (settings histories): the object is in a state reached through a reset / setter /
    # set_state / copy; there a reported density that is not the law of the jumps is stale, not
    # "another shape by design", whatever the family declares
    if getattr(p0, 'symmetric', False) and not stats.get('_strict'):
        stats.setdefault('_pending', []).append((keyp, finding))
    else:
        findings.append(finding)


def _note_disp(p0, stats, keyp, which, d, period=None):
    if getattr(p0, 'symmetric', False):
        d = numpy.asarray(d, dtype=float)
        if period:
            d = (d + period / 2.0) % period - period / 2.0
        stats.setdefault('_disp', []).append((keyp, which, numpy.sort(d)))


def _even(srt):
    n = len(srt)
    tol = 7.0 / (n - 2)
    for t in numpy.quantile(numpy.abs(srt), numpy.linspace(0.05, 0.95, 13)):
        up = 1.0 - float(numpy.searchsorted(srt, t, side='right')) / n       # P(d > t)
        dn = float(numpy.searchsorted(srt, -t, side='left')) / n             # P(d < -t)
        if not abs(up - dn) <= tol:
            return False, (float(t), up, dn, tol)
    return True, None


def _same(a, b):
    tol = 4.0 / (len(a) - 2) + 4.0 / (len(b) - 2)
    for t in numpy.quantile(numpy.concatenate([a, b]), numpy.linspace(0.04, 0.96, 17)):
        fa = float(numpy.searchsorted(a, t, side='right')) / len(a)
        fb = float(numpy.searchsorted(b, t, side='right')) / len(b)
        # integer displacements: compare strictly below as well
        if not abs(fa - fb) <= tol:
            return False, (float(t), fa, fb, tol)
    return True, None


def resolve_symmetric(family, findings, stats):
    pend = stats.pop('_pending', [])
    disp = stats.pop('_disp', [])
    az = stats.pop('_az', [])
    stats['_az'] = az
    for keyp, finding in pend:
        arrs = [d for kp, w, d in disp if kp == keyp and len(d) > 50]
        why = None
        if keyp == ('sphere',) and not all(stats.get('_az', [True])):
            why = 'the azimuth of the jumps about the from-point is not uniform'
        for d in ([] if keyp == ('sphere',) else arrs):
            ok, info = _even(d)
            if not ok:
                why = 'the displacement is not distributed evenly: P(d > %.4g) = %.5f, P(d < -%.4g) = %.5f ' \
                      '(tolerance %.2g)' % (info[0], info[1], info[0], info[2], info[3])
                break
        if why is None and len(arrs) >= 2:
            ok, info = _same(arrs[0], arrs[1])
            if not ok:
                why = 'the displacement law depends on the from-point: CDF at %.4g is %.5f from one point, %.5f ' \
                      'from the other (tolerance %.2g)' % info
        if why is None and arrs:
            stats.setdefault('notes', []).append(
                '%s: the reported density differs in shape from the jump law (%s), but the family is symmetric, '
                'the reported values are symmetric and the measured jump law is even and position independent: '
                'the Hastings factor is unaffected' % (family, finding[1][:160]))
        else:
            key, text, payload = finding
            payload = dict(payload)
            payload['kind'] = 'symmetric-law'
            findings.append(('%s:symmetric-law' % family,
                             '%s declares symmetric=True but its jump law is not symmetric: %s. [%s]' % (
                                 family, why or 'no displacement sample', text[:300]), payload))
    stats.pop('_az', None)


def normaliser_check(family, p0, ests, findings, stats, band=None):
    """`ests`: [(from-point, (c, relative error) or None)].  A reported density that is a constant
    multiple of the jump law gives the right Hastings factor; one whose factor depends on the
    from-point does not."""
    ests = [(x, e) for x, e in ests if e is not None]
    for x, (c, rel) in ests[:1]:
        if not abs(c - 1.0) <= rel * max(c, 1.0):
            stats.setdefault('notes', []).append(
                '%s (%d parameters): reported pdf = %.5g x jump law (a factor that is the same from every '
                'from-point does not change the Hastings ratio; that it is the same is checked separately)' % (
                    family, len(p0.parameters), c))
    for (x, (c1, r1)), (y, (c2, r2)) in zip(ests[:-1], ests[1:]):
        stats['normaliser_pairs'] = stats.get('normaliser_pairs', 0) + 1
        if not abs(c1 - c2) <= (r1 + r2) * max(c1, c2):
            key = '%s:normaliser' % family
            extra = ''
            if band and band.get('accepted_outside_box'):
                # the accepted region is the chord plus the isclose band of __contains__, the reported
                # density is normalised on the chord only
                key = 'BoundedEigenvector:isclose-band-not-in-reported-density'
                extra = ' (%d accepted jumps ended outside the box, by up to %.3g: __contains__ accepts an isclose ' \
                        'band beyond the faces, the reported density is normalised on the chord inside the box)' % (
                            band['accepted_outside_box'], band['max_excess'])
            findings.append((key,
                             '%s: reported pdf / jump law = %.6g from %r but %.6g from %r: the Hastings factor '
                             'q(x|x\')/q(x\'|x) is off by %.6g%s' % (family, c1, x, c2, y,
                                                                    c1 / c2 if c2 else float('nan'), extra),
                             dict(describe(family, p0, x), kind='normaliser', other=y, c_from=c1, c_other=c2,
                                  tolerance=(r1 + r2) * max(c1, c2), **(band or {}))))
            return


def full_cov_args(family, p0, x, findings, stats, tag):
    """Non-diagonal Normal: the law of `multivariate_normal(mean, cov)` is numpy's; what the
    code decides is the arguments.  Jump must use mean = from-point and the covariance the
    frozen `_proposal` reports the density of."""
    p = copy.deepcopy(p0)
    plan = ParamPlan(len(p.parameters))
    plan.sig = [None] * len(p.parameters)
    p._verif_gen = Gen(plan)
    p._verif_gen.calls = []
    p.jump(x)
    calls = p._verif_gen.calls
    stats['full_cov_checks'] = stats.get('full_cov_checks', 0) + 1
    ok = len(calls) == 1 and calls[0][0] == 'mvn'
    rep_cov = getattr(p0._proposal, 'cov', None)      # (a frozen univariate normal has none)
    if rep_cov is None:
        rep_cov = 'that of %r%r' % (getattr(getattr(p0._proposal, 'dist', None), 'name', type(p0._proposal).__name__),
                                   {k_: numpy.asarray(v_).tolist() for k_, v_ in getattr(p0._proposal, 'kwds', {}).items()})
        ok = False
    else:
        rep_cov = numpy.asarray(rep_cov, dtype=float)
    if ok:
        mean, cov = calls[0][1], calls[0][2]
        want = numpy.array([x[k] for k in p.parameters], dtype=float)
        ok = numpy.array_equal(mean, want) and cov.shape == rep_cov.shape and \
            numpy.allclose(cov, rep_cov, rtol=1e-12, atol=0)
    if not ok:
        findings.append(('%s:full-cov-arguments' % family,
                         '%s: jump draws with %r but logpdf reports the density of cov=%s' % (
                             family, calls, rep_cov.tolist() if isinstance(rep_cov, numpy.ndarray) else rep_cov),
                         dict(describe(family, p0, x), kind='full-cov-arguments')))
    elif tag.get('inplace'):
        # settings histories: the reported values themselves against the normal law with the
        # arguments the jump really passed (numpy's law of multivariate_normal(mean, cov))
        from scipy import stats as _st
        L = numpy.linalg.cholesky(cov)
        for zz in ((0.3, -0.7, 1.1), (-1.2, 0.4, 0.2), (0.05, 0.9, -0.6)):
            d = L @ numpy.array(zz[:len(want)])
            xi = {k: float(want[i] + d[i]) for i, k in enumerate(p.parameters)}
            rep = float(p0.logpdf(xi, x))
            law = float(_st.multivariate_normal.logpdf(d, mean=numpy.zeros(len(want)), cov=cov, allow_singular=True))
            stats['pdf_evaluations'] = stats.get('pdf_evaluations', 0) + 1
            if not abs(rep - law) <= 1e-9 * max(1.0, abs(law)):
                findings.append(('%s:full-cov-density' % family,
                                 '%s: jump draws multivariate_normal(from-point, cov=%r) but logpdf(%r | %r) = %r; that '
                                 'normal law gives %r' % (family, cov.tolist(), xi, x, rep, law),
                                 dict(describe(family, p0, x), kind='full-cov-density', to=xi, reported=rep, law=law)))
                break


# --------------------------------------------------------------------------
# symmetric claim and history independence
# --------------------------------------------------------------------------

def symmetric_reported(family, p0, pairs, findings, stats):
    """A family that declares itself symmetric must report q(x'|x) = q(x|x')."""
    if not p0.symmetric or family in EIGEN:
        return
    for a, b in pairs:
        f = float(pristine(p0, family).logpdf(b, a))
        r = float(pristine(p0, family).logpdf(a, b))
        stats['symmetric_pairs'] = stats.get('symmetric_pairs', 0) + 1
        if f == r or (math.isinf(f) and math.isinf(r)):
            continue
        if not abs(f - r) <= 1e-9 * max(1.0, abs(f)):
            findings.append(('%s:symmetric' % family,
                             '%s declares symmetric=True but logpdf(x\'|x)=%r, logpdf(x|x\')=%r at x=%r x\'=%r' % (
                                 family, f, r, a, b),
                             dict(describe(family, p0, a), kind='symmetric', other=b, fwd=f, rev=r)))
            return


def symmetric_measured_int(family, p0, x, y, N, findings, stats):
    """Discrete symmetric families, one parameter: measured mass x->y against y->x."""
    if not p0.symmetric or len(p0.parameters) != 1 or family not in DISCRETE:
        return
    name = p0.parameters[0]
    masses = []
    for a, b in ((x, y), (y, x)):
        p = copy.deepcopy(p0)
        plan = ParamPlan(1)
        plan.sig = None                    # one parameter: every call is its own
        plan.tested = 0
        plan.grid = zgrid(N)
        p._verif_gen = Gen(plan)
        outs = []
        while True:
            try:
                outs.append(int(p.jump(a)[name]))
            except Exhausted:
                break
        outs = numpy.array(outs)
        masses.append(float((outs == int(b[name])).sum()) / len(outs))
    stats['symmetric_measured'] = stats.get('symmetric_measured', 0) + 1
    if not abs(masses[0] - masses[1]) <= 4.0 / (N - 1):
        findings.append(('%s:symmetric-law' % family,
                         '%s declares symmetric=True but jumps %r->%r with mass %.5f and back with %.5f' % (
                             family, x, y, masses[0], masses[1]),
                         dict(describe(family, p0, x), kind='symmetric-law', other=y, masses=masses, N=N)))


def history_independence(family, p0, queries, findings, stats, maxlen=4):
    """Every order of up to `maxlen` queries (repeats included) from a pool: each answer must be
    bit-identical to the answer of an object that was never queried before."""
    if family in EIGEN:
        return
    two = len(queries[0]) == 2
    fresh = []
    for q in queries:
        o = copy.deepcopy(p0)
        fresh.append(float(o.logpdf(*q)))
    for L in range(2, maxlen + 1):
        for seq in itertools.product(range(len(queries)), repeat=L):
            o = copy.deepcopy(p0)
            for pos, qi in enumerate(seq):
                v = float(o.logpdf(*queries[qi]))
                stats['history_queries'] = stats.get('history_queries', 0) + 1
                same = v == fresh[qi] or (math.isnan(v) and math.isnan(fresh[qi]))
                if not same:
                    hist = [queries[k] for k in seq[:pos + 1]]
                    findings.append(('%s:history' % family,
                                     '%s: logpdf%r = %r when asked first, but %r after the queries %r' % (
                                         family, queries[qi], fresh[qi], v, hist[:-1]),
                                     dict(describe(family, p0, queries[qi][-1] if two else queries[qi][0]),
                                          kind='history', query=queries[qi], first_answer=fresh[qi],
                                          later_answer=v, earlier_queries=hist[:-1],
                                          caches_shared=_shared(p0))))
                    return
    stats['history_sequences'] = stats.get('history_sequences', 0) + sum(
        len(queries) ** L for L in range(2, maxlen + 1))


def _shared(p):
    c = getattr(p, '_cdfcache', None)
    if c is None or len(c) < 2:
        return None
    return bool(c[0] is c[1])


def history_with_adaptation(family, seed, pattern, nparams, findings, stats):
    """Two identically seeded real chains take the same forced steps; one of them is asked
    extra density queries between the steps.  The final answers must be bit-identical."""
    if family in EIGEN or family not in F.ADAPTIVE:
        return
    chains = []
    for _ in range(2):
        ch, prop, model = forcing.make_chain(family, random.Random(seed), pattern=pattern,
                                             nparams=nparams, window=12, seed=seed % 1000 + 3)
        chains.append((ch, prop))
    rng = random.Random(seed + 1)
    (ca, pa), (cb, pb) = chains
    pool = None
    for block in range(3):
        k = rng.randint(1, 4)
        for _ in range(k):
            ca.step()
            cb.step()
        if pool is None:
            pool = query_pool(family, pb, rng)
        for q in rng.sample(pool, min(3, len(pool))) * 2:
            pb.logpdf(*q)
            stats['history_queries'] = stats.get('history_queries', 0) + 1
    for q in pool + pool:
        va, vb = float(pa.logpdf(*q)), float(pb.logpdf(*q))
        # the pristine twin: same adapted settings, asked nothing before this block
        if not (va == vb or (math.isnan(va) and math.isnan(vb))):
            findings.append(('%s:history' % family,
                             '%s after %d forced steps (%s): logpdf%r = %r on the chain that was only stepped, %r on '
                             'the identically seeded chain that also answered earlier queries' % (
                                 family, int(pb.nsteps), pattern, q, va, vb),
                             dict(describe(family, pb, q[1]), kind='history-adaptive', query=q, plain=va,
                                  queried=vb, seed=seed, pattern=pattern, caches_shared=_shared(pb))))
            return
    stats['history_adaptive_runs'] = stats.get('history_adaptive_runs', 0) + 1


# --------------------------------------------------------------------------
# configurations
# --------------------------------------------------------------------------

CONVENTIONS = [(False, False), (False, True), (True, False), (True, True)]      # (radec, degs)


def build(family, rng, nparams, adapt_steps=0, pattern='AR', successive=None, seed=7, same_bounds=False,
          offset=0.0, conv=None):
    """A real proposal instance (adaptive ones after `adapt_steps` real forced steps) together
    with its parameter names and domains."""
    cls, kind, lo, hi = F.FAMILIES[family]
    n = max(lo, min(hi, nparams))
    if family in SPHERE and conv is not None:
        # the angle convention (radec, degs) travels as the "domain" of both parameters: families.make
        # passes it to the constructor, families.start_value / point() express points in it
        conv = (bool(conv[0]), bool(conv[1]))
        names = ['x0', 'x1']
        doms = {nm: conv for nm in names}
        if family in F.ADAPTIVE and adapt_steps > 0:
            start = {nm: F.start_value(kind, conv, rng, i) for i, nm in enumerate(names)}
            ch, prop = _hchain(family, names, doms, rng.randrange(1 << 30), pattern=pattern,
                               window=max(adapt_steps + 3, 6), start=start)
            for _ in range(adapt_steps):
                ch.step()
            return copy.deepcopy(prop), names, doms, kind
        return F.make(family, names, doms, rng), names, doms, kind
    if family in F.ADAPTIVE and adapt_steps > 0:
        ch, prop, model = forcing.make_chain(family, rng, pattern=pattern, nparams=n,
                                             window=max(adapt_steps + 3, 6), seed=seed)
        for _ in range(adapt_steps):
            ch.step()
        p = copy.deepcopy(prop)
        names = list(p.parameters)
        doms = {}
        for i, nm in enumerate(names):
            if hasattr(p, '_lowerbnd') and p._lowerbnd is not None:
                conv = int if kind == 'intbox' else float
                doms[nm] = (conv(p._lowerbnd[i]), conv(p._upperbnd[i]))
            else:
                doms[nm] = F.domain_for(kind, rng, i)
        return p, names, doms, kind
    names = ['x%d' % i for i in range(n)]
    doms = {p: F.domain_for(kind, rng, i) for i, p in enumerate(names)}
    if same_bounds:                      # equal bounds, unequal scales: cache keys of the parameters coincide
        doms = {p: doms[names[0]] for p in names}
    if offset and kind == 'box':         # bounds far from the origin (a time, a distance in pc, ...)
        d0 = doms[names[0]]
        doms[names[0]] = (d0[0] + offset, d0[1] + offset)
    p = F.make(family, names, doms, rng, successive=successive)
    return p, names, doms, kind


def point(kind, doms, names, rng, where='inside'):
    x = {}
    for i, nm in enumerate(names):
        d = doms[nm]
        if kind in ('box', 'intbox') and where in ('lower', 'upper'):
            v = d[0] if where == 'lower' else d[1]
        elif kind == 'angle' and where in ('lower', 'upper'):
            v = 0.0 if where == 'lower' else TWO_PI - 1e-9
        else:
            v = F.start_value(kind, d, rng, i)
        x[nm] = int(v) if kind in ('int', 'intbox') else float(v)
    return x


def query_pool(family, p, rng):
    """Three distinct (xi, givenx) queries inside the domain of a live proposal; for the
    discrete families every parameter is asked at the same coordinates so that the cache keys
    of different parameters coincide (the situation a shared cache gets wrong)."""
    names = list(p.parameters)
    cls, kind, _, _ = F.FAMILIES[family]
    if kind in ('int', 'intbox'):
        if kind == 'intbox':
            lo = int(max(p._lowerbnd))
            hi = int(min(p._upperbnd))
            if hi - lo < 2:
                lo, hi = int(p._lowerbnd[0]), int(p._upperbnd[0])
            if hi - lo < 1:
                # (non-integer cached bounds: use the integers the class documents, floor / ceil)
                import math as _m
                lo, hi = int(_m.floor(float(p._lowerbnd[0]))), int(_m.ceil(float(p._upperbnd[0])))
            if hi - lo < 1:
                return []
        else:
            lo, hi = -3, 3
        pts = []
        for _ in range(3):
            a = rng.randint(lo, hi)
            b = a
            while b == a:
                b = rng.randint(lo, hi)
            pts.append(({nm: b for nm in names}, {nm: a for nm in names}))
        return pts
    doms = {}
    for i, nm in enumerate(names):
        if hasattr(p, '_lowerbnd') and p._lowerbnd is not None:
            doms[nm] = (float(p._lowerbnd[i]), float(p._upperbnd[i]))
        else:
            doms[nm] = F.domain_for(kind, rng, i)
    return [(point(kind, doms, names, rng), point(kind, doms, names, rng)) for _ in range(3)]


# --------------------------------------------------------------------------
# eigenvector families
# --------------------------------------------------------------------------

class EigenPlan:
    def __init__(self, ind, grid):
        self.ind = ind
        self.grid = grid
        self.pos = 0
        self.fixed = None

    def u(self, callno):
        return 0.999999            # never shuffle

    def perm(self, n):
        return numpy.arange(n)

    def pick(self, n):
        return self.ind

    def z(self, callno, k, scale):
        if self.fixed is not None:
            return self.fixed
        if self.pos >= len(self.grid):
            raise Exhausted()
        v = self.grid[self.pos]
        self.pos += 1
        return float(v)


def eigen_law(family, p0, x, N, findings, stats, every=40, on_boundary=False, cells=32, per=16, which=0):
    """Most recent jump and its reverse, per eigen-direction: the law of the step along the
    chosen direction against the density reported right after a jump with that step.

    The reported density exists only for the most recent jump, so it is read on a uniform grid of
    steps by scripting one jump per node (the step is the generator's return value)."""
    names = list(p0.parameters)
    n = len(names)
    probs_seen = []
    cs = []
    for ind in range(n):
        scale = float(p0.eigvals[ind])
        if not scale > 0:
            continue
        try:
            _eigen_direction(family, p0, x, N, findings, stats, every, on_boundary, cells, per, which, ind, scale,
                             names, probs_seen, cs)
        except _PdfRaised as e:
            findings.append(('BoundedEigenvector:isclose-band-not-in-reported-density' if 'bounded' in family
                             else '%s:pdf-raises' % family,
                             '%s: pdf of a jump the proposal itself produced (from %r, eigenvector %d) raised: %s' % (
                                 family, x, ind, str(e)[:400]),
                             dict(describe(family, p0, x), kind='pdf-raises', ind=ind, error=str(e)[:600])))
    if len(probs_seen) >= 2:
        stats['direction_prob_checks'] = stats.get('direction_prob_checks', 0) + 1
        if not all(numpy.array_equal(probs_seen[0], q_) for q_ in probs_seen[1:]):
            findings.append(('%s:direction-probabilities' % family,
                             '%s: the probabilities of the eigen-directions differ between jumps from the same '
                             'state: %r' % (family, [list(map(float, q_)) for q_ in probs_seen]),
                             dict(describe(family, p0, x), kind='direction-probabilities')))
    return cs


class _PdfRaised(Exception):
    pass


def _rpdf(obj, a, b):
    try:
        return float(obj.pdf(a, b))
    except ValueError as e:
        raise _PdfRaised(str(e))


def _eigen_direction(family, p0, x, N, findings, stats, every, on_boundary, cells, per, which, ind, scale,
                     names, probs_seen, cs):
    if True:
        p = copy.deepcopy(p0)
        plan = EigenPlan(ind, zgrid(N))
        p._verif_gen = Gen(plan)
        steps, some = [], []
        lob = numpy.asarray(p0._lowerbnd, dtype=float) if getattr(p0, '_lowerbnd', None) is not None else None
        hib = numpy.asarray(p0._upperbnd, dtype=float) if lob is not None else None
        n_out, max_out, probe_out = 0, 0.0, []
        k = 0
        while True:
            p._verif_gen.calls = []
            try:
                out = p.jump(x)
            except Exhausted:
                break
            for c in p._verif_gen.calls:
                if c[0] == 'choice' and len(probs_seen) < 4:
                    probs_seen.append(c[2])
            steps.append(float(p._dx))
            if lob is not None:
                ov = numpy.array([float(out[k_]) for k_ in names])
                ex = float(max(numpy.max(lob - ov), numpy.max(ov - hib), 0.0))
                if ex > 0:
                    n_out += 1
                    max_out = max(max_out, ex)
                    if len(probe_out) < 6:
                        probe_out.append(out)
            if k % every == 0 and len(some) < 40:
                some.append((float(p._dx), _rpdf(p, out, x), _rpdf(p, x, out), out))
            k += 1
        stats['jumps'] = stats.get('jumps', 0) + len(steps)
        stats['grid_points'] = stats.get('grid_points', 0) + N
        nacc = len(steps)
        band = dict(accepted_outside_box=n_out, max_excess=max_out) if lob is not None else {}
        # jumps that ended outside the declared box (accepted through the `isclose` band of
        # `__contains__`): the density reported for them must at least be a number
        for o_ in probe_out:
            v_ = _rpdf(p, o_, x)
            stats['pdf_evaluations'] = stats.get('pdf_evaluations', 0) + 1
            if not math.isfinite(v_):
                findings.append(('BoundedEigenvector:nan-density-outside-box',
                                 '%s: jump from %r along eigenvector %d returned %r, outside the box by %.3g (accepted by '
                                 'the isclose band of __contains__), and pdf(x\'|x) = %r' % (
                                     family, x, ind, {k_: float(w_) for k_, w_ in o_.items()}, max_out, v_),
                                 dict(describe(family, p0, x), kind='nan-density-outside-box', ind=ind, **band)))
                break
        if nacc < 200:
            stats['skipped_low_acceptance'] = stats.get('skipped_low_acceptance', 0) + 1
            stats['skipped_low_acceptance:' + family] = stats.get('skipped_low_acceptance:' + family, 0) + 1
            return
        steps = numpy.sort(numpy.array(steps))
        _note_disp(p0, stats, ('eig', ind), which, steps)
        a, b = float(steps[0]), float(steps[-1])
        # integration segments: the accepted range, cut where the line leaves the *declared* box
        # (a density need not be smooth across a face of its domain)
        cuts = [a, b]
        if lob is not None:
            xv = numpy.array([float(x[k_]) for k_ in names])
            vec = (numpy.array([float(some[0][3][k_]) for k_ in names]) - xv) / some[0][0] if some and some[0][0] != 0 \
                else None
            if vec is not None:
                for i_ in range(len(names)):
                    if abs(vec[i_]) > 1e-300:
                        for bnd in (lob[i_], hib[i_]):
                            t_ = (bnd - xv[i_]) / vec[i_]
                            if a + 1e-9 * (b - a) < t_ < b - 1e-9 * (b - a):
                                cuts.append(float(t_))
        cuts = sorted(set(cuts))
        segs = []
        for c0, c1 in zip(cuts[:-1], cuts[1:]):
            nc = cells if (c1 - c0) > 0.25 * (b - a) else 2
            segs.append((c0, c1, nc))
        q = copy.deepcopy(p0)
        pl = EigenPlan(ind, [])
        q._verif_gen = Gen(pl)
        ok = True
        edges, cum, qerr = [a], [0.0], [0.0]
        seg_idx = []
        allfinite = True
        for c0, c1, nc in segs:
            M = nc * per
            ts = numpy.linspace(c0, c1, M + 1)
            d_ = 1e-9 * (c1 - c0)
            ts[0], ts[-1] = c0 + d_, c1 - d_          # stay on this side of a face
            vals = numpy.empty(M + 1)
            for m_, t in enumerate(ts):
                pl.fixed = float(t) / scale
                q._verif_gen.calls = []
                q._verif_gen.limit = 50
                try:
                    o = q.jump(x)
                except (Runaway, Exhausted):
                    ok = False
                    break
                vals[m_] = _rpdf(q, o, x)
            stats['pdf_evaluations'] = stats.get('pdf_evaluations', 0) + M + 1
            if not ok:
                break
            if not numpy.isfinite(vals).all():
                allfinite = False
                break
            cs_, cc_ = simpson_cum(vals, (c1 - c0) / M, per)
            base_c, base_e = cum[-1], qerr[-1]
            seg_idx.append((len(edges) - 1, len(edges) - 1 + nc))
            for k_ in range(1, nc + 1):
                edges.append(float(ts[k_ * per]) if k_ < nc else c1)
                cum.append(base_c + float(cs_[k_]))
                qerr.append(base_e + abs(float(cs_[k_]) - float(cc_[k_])))
        q._verif_gen.limit = None
        if not ok:
            stats['machinery_trouble'] = stats.get('machinery_trouble', 0) + 1
            stats.setdefault('trouble', []).append('%s: a step inside the accepted range was rejected' % family)
            return
        if not allfinite:
            findings.append((('BoundedEigenvector:nan-density-outside-box' if n_out else '%s:nonfinite' % family),
                             '%s: reported pdf of the most recent jump is not finite for a step inside the accepted '
                             'range (eigenvector %d, from %r; %d accepted jumps ended outside the box, by up to %.3g)' % (
                                 family, ind, x, n_out, max_out),
                             dict(describe(family, p0, x), kind='nonfinite', ind=ind, **band)))
            return
        cum = numpy.array(cum)
        qerr = numpy.array(qerr)
        C = float(cum[-1])
        # [a, b] carries all accepted grid points; the law puts at most 2/(nacc-1) outside
        cs.append((ind, C, 2.0 * qerr[-1] / C + 3.0 / (nacc - 2) + 1e-9, band))
        worst = None
        for kk in range(len(edges)):
            edge = edges[kk]
            emp = float(numpy.searchsorted(steps, edge, side='right')) / nacc
            r = cum[kk] / C
            tol = 5.0 / (nacc - 2) + 2.0 / N + 2.0 * (qerr[kk] + qerr[-1]) / C
            stats['cells'] = stats.get('cells', 0) + 1
            if not abs(emp - r) <= tol:
                if worst is None or abs(emp - r) - tol > worst[0]:
                    worst = (abs(emp - r) - tol, float(edge), emp, float(r), tol)
        explained = False
        if worst is not None and n_out:
            # is the mismatch explained by the jumps accepted outside the box alone?  Compare the
            # laws conditional on ending inside the declared box.
            i0, i1 = max(seg_idx, key=lambda se: edges[se[1]] - edges[se[0]])
            n0 = int(numpy.searchsorted(steps, edges[i0], side='left'))
            nin = int(numpy.searchsorted(steps, edges[i1], side='right')) - n0
            Cin = float(cum[i1] - cum[i0])
            explained = nin > 50 and Cin > 0
            for kk in range(i0, i1 + 1):
                if not explained:
                    break
                emp = (float(numpy.searchsorted(steps, edges[kk], side='right')) - n0) / nin
                r = float(cum[kk] - cum[i0]) / Cin
                tol = 6.0 / (nin - 2) + 2.0 / N + 2.0 * float(qerr[kk] - qerr[i0] + qerr[i1] - qerr[i0]) / Cin
                if not abs(emp - r) <= tol:
                    explained = False
        if worst is not None:
            _law_mismatch(family, p0, stats, findings, ('eig', ind), (
                             ('BoundedEigenvector:isclose-band-not-in-reported-density' if explained else '%s:law' % family),
                             '%s: along eigenvector %d from %r the reported density of the most recent jump '
                             'integrates to %.5f up to step %.4f, the jump law gives %.5f (tolerance %.2g)%s' % (
                                 family, ind, x, worst[3], worst[1], worst[2], worst[4],
                                 ('; %d of %d accepted jumps ended outside the box, by up to %.3g: __contains__ accepts '
                                  'an isclose band of rtol*|bound| beyond the faces, the reported density is normalised '
                                  'on the chord inside the box' % (n_out, nacc, max_out)) if n_out else ''),
                             dict(describe(family, p0, x), kind='law-eigen', ind=ind, N=N, step=worst[1],
                                  reported_cdf=worst[3], measured_cdf=worst[2], tolerance=worst[4], total=C, **band)))
        # the reverse: density reported for x' -> x right after x -> x' must be the density the
        # proposal reports for the jump x' -> x itself (same direction, step -dx)
        for dx, fw, rv, out in some[2:-2:max(1, len(some) // 12)]:
            if on_boundary:
                break       # a from-point exactly on a face: the way back ends within rounding of the face
            q = copy.deepcopy(p0)
            pl = EigenPlan(ind, [])
            q._verif_gen = Gen(pl)
            pl.fixed = -dx / scale
            q._verif_gen.limit = 50
            try:
                back = q.jump(out)
            except (Exhausted, Runaway, ValueError):
                return
            want = _rpdf(q, back, out)
            stats['reverse_checks'] = stats.get('reverse_checks', 0) + 1
            if p0.symmetric and not abs(fw - rv) <= 1e-12 * max(fw, rv):
                findings.append(('%s:symmetric' % family,
                                 '%s declares symmetric=True but reports %r forward and %r for the reverse of the '
                                 'most recent jump' % (family, fw, rv),
                                 dict(describe(family, p0, x), kind='symmetric', ind=ind, step=dx)))
                break
            if not abs(rv - want) <= 1e-6 * max(rv, want):
                findings.append(('%s:reverse' % family,
                                 '%s: after the jump %r -> %r (eigenvector %d, step %.6g) the reverse density is '
                                 'reported as %r, but the jump back reports %r for itself' % (
                                     family, x, out, ind, dx, rv, want),
                                 dict(describe(family, p0, x), kind='reverse', ind=ind, step=dx,
                                      to={k_: float(v_) for k_, v_ in out.items()},
                                      reverse_reported=rv, reverse_jump_reports=want)))
                break


def eigen_normalisers(family, p0, x, y, cs, cs2, findings, stats):
    """reported / law may be any constant per eigen-direction (a jump and its reverse use the same
    direction), but it has to be the same from both from-points."""
    for i, c, r, b in cs:
        for i2, c2, r2, b2 in cs2:
            if i2 == i:
                band = {'accepted_outside_box': b.get('accepted_outside_box', 0) + b2.get('accepted_outside_box', 0),
                        'max_excess': max(b.get('max_excess', 0.0), b2.get('max_excess', 0.0))}
                normaliser_check(family, p0, [(dict(x, eigenvector=i), (c, r)), (dict(y, eigenvector=i), (c2, r2))],
                                 findings, stats, band)


def beigen_probes(family, N, findings, stats):
    """Two fixed configurations of the bounded eigenvector families.

    (a) bounds far from the origin (a time stamp, say): the law of the jumps against the reported
        density, as everywhere else;
    (b) a start exactly on a corner of the box: a ladder of ever smaller steps; whichever the
        proposal accepts must have a finite reported density."""
    cls = F.FAMILIES[family][0]

    def make(bnds, cov):
        names = list(bnds)
        if 'adaptive' in family:
            return cls(names, bnds, 10, cov0=numpy.array(cov))
        return cls(names, bnds, cov=numpy.array(cov))

    # (a)
    p0 = make({'t': (1000.0, 1001.0), 'y': (-1.0, 1.0)}, [[1.0, 0.0], [0.0, 0.25]])
    x = {'t': 1000.5, 'y': 0.1}
    cs = eigen_law(family, p0, x, N, findings, stats, every=15, cells=16, per=8)
    y = {'t': 1000.2, 'y': -0.4}
    cs2 = eigen_law(family, p0, y, N, findings, stats, every=15, cells=16, per=8, which=1)
    eigen_normalisers(family, p0, x, y, cs, cs2, findings, stats)
    # (b)
    p0 = make({'a': (0.27, 1.5), 'b': (0.69, 2.0)}, [[0.5, 0.2], [0.2, 0.8]])
    corner = {'a': 0.27, 'b': 0.69}
    for ind in range(2):
        scale = float(p0.eigvals[ind])
        for k in range(1, 11):
            for sign in (1.0, -1.0):
                q = copy.deepcopy(p0)
                pl = EigenPlan(ind, [])
                pl.fixed = sign * 10.0 ** (-k)
                q._verif_gen = Gen(pl)
                q._verif_gen.limit = 3
                try:
                    out = q.jump(corner)
                except Runaway:
                    continue
                stats['corner_probes_accepted'] = stats.get('corner_probes_accepted', 0) + 1
                try:
                    v = float(q.pdf(out, corner))
                except ValueError as e:
                    v = 'raised ' + str(e)[:200]
                if not (isinstance(v, float) and math.isfinite(v)):
                    findings.append(('BoundedEigenvector:nan-density-outside-box',
                                     '%s(%r, cov=[[0.5,0.2],[0.2,0.8]]): jump from the corner %r with step %.1e*%.4g along '
                                     'eigenvector %d is accepted and returns %r (outside the box), pdf(x\'|x) = %r' % (
                                         family, {'a': (0.27, 1.5), 'b': (0.69, 2.0)}, corner, pl.fixed, scale, ind,
                                         {k_: float(w_) for k_, w_ in out.items()}, v),
                                     dict(describe(family, p0, corner), kind='nan-density-outside-box', ind=ind,
                                          step=pl.fixed * scale)))
                    return


# --------------------------------------------------------------------------
# solid angle
# --------------------------------------------------------------------------

def vdc(i, m):
    """radical inverse of i in base 2 with m digits"""
    r = 0
    for _ in range(m):
        r = (r << 1) | (i & 1)
        i >>= 1
    return r / float(1 << m)


class SpherePlan:
    def __init__(self, m):
        self.m = m
        self.N = 1 << m
        self.i = 0

    def u2(self):
        if self.i >= self.N:
            raise Exhausted()
        i = self.i
        self.i += 1
        return ((i + 0.5) / self.N, vdc(i, self.m) + 0.5 / self.N)


def to_cart(p, phi, theta):
    """unit vector of a point in the proposal's own angle convention (done here, not by epsie)"""
    if p.isradec:
        theta = theta + (90.0 if p.isdegs else math.pi / 2)
    if p.isdegs:
        phi, theta = math.radians(phi), math.radians(theta)
    return numpy.array([math.sin(theta) * math.cos(phi), math.sin(theta) * math.sin(phi), math.cos(theta)])


def from_cart(p, v):
    phi = math.atan2(v[1], v[0]) % TWO_PI
    theta = math.acos(max(-1.0, min(1.0, v[2])))
    if p.isdegs:
        phi, theta = math.degrees(phi), math.degrees(theta)
    if p.isradec:
        theta -= 90.0 if p.isdegs else math.pi / 2
    return phi, theta


def sphere_law(family, p0, x, m, findings, stats, ncap=10, nsec=4, which=0):
    """von Mises-Fisher: masses of caps around the from-point and of cap x sector cells against
    the integral of the reported pdf with respect to solid angle.

    Conventions (radec, degs): points go in and come out in the proposal's own coordinates; the
    harness's own `to_cart` / `from_cart` translate them.  The comparison is made on *geometric*
    regions (caps and cap x sector cells about the from-point): the jump law gives their mass by
    counting, the reported pdf by integration in the frame (c = cos of the distance, a = azimuth about
    the from-point), where the solid-angle element is exactly dc da, evaluating the pdf at the
    convention coordinates of each node.  So no Jacobian is fitted: per coordinate cell the element is
    sin(theta) dtheta dphi in radians, cos(dec) ddec dra for declinations, times (pi/180)^2 in degrees,
    and none of them enters because the nodes are laid out in (c, a), not in the coordinates.  A
    reported density per square degree instead of per steradian would show as the constant
    (pi/180)^2 in the normaliser note; what is *required* is that the constant is the same from
    every from-point and that the shape is the law of the jumps."""
    names = list(p0.parameters)
    mu = to_cart(p0, x[names[0]], x[names[1]])
    # an orthonormal frame at mu, built here
    helper = numpy.array([1.0, 0, 0]) if abs(mu[0]) < 0.9 else numpy.array([0, 1.0, 0])
    e1 = numpy.cross(mu, helper)
    e1 /= numpy.linalg.norm(e1)
    e2 = numpy.cross(mu, e1)
    p = copy.deepcopy(p0)
    plan = SpherePlan(m)
    p._verif_gen = Gen(plan)
    N = plan.N
    cosd = numpy.empty(N)
    azim = numpy.empty(N)
    k = 0
    # the ranges the convention defines its coordinates on: azimuth [0, 2 pi) / [0, 360); polar angle
    # [0, pi] / [0, 180], as a declination shifted down by a quarter turn
    unit_ = 180.0 / math.pi if p0.isdegs else 1.0
    az_period = TWO_PI * unit_
    pol_lo = (-math.pi / 2 if p0.isradec else 0.0) * unit_
    pol_hi = (math.pi / 2 if p0.isradec else math.pi) * unit_
    pol_slack = 1e-12 * 180.0
    out_of_range = None
    while True:
        try:
            out = p.jump(x)
        except Exhausted:
            break
        o0, o1 = float(out[names[0]]), float(out[names[1]])
        if not (0.0 <= o0 <= az_period * (1 + 1e-12) and pol_lo - pol_slack <= o1 <= pol_hi + pol_slack) \
                and out_of_range is None:
            out_of_range = (o0, o1)
        v = to_cart(p0, o0, o1)
        cosd[k] = float(v @ mu)
        azim[k] = math.atan2(float(v @ e2), float(v @ e1)) % TWO_PI
        k += 1
    stats['jumps'] = stats.get('jumps', 0) + k
    stats['grid_points'] = stats.get('grid_points', 0) + N
    if not numpy.isfinite(cosd[:k]).all():
        findings.append(('%s:nonfinite' % family, '%s: jump from %r produced a non-finite point' % (family, x),
                         dict(describe(family, p0, x), kind='nonfinite')))
        return None
    stats['sphere_convention:radec=%d,degs=%d' % (p0.isradec, p0.isdegs)] = \
        stats.get('sphere_convention:radec=%d,degs=%d' % (p0.isradec, p0.isdegs), 0) + 1
    if out_of_range is not None:
        findings.append(('%s:coordinate-range' % family,
                         '%s (radec=%r, degs=%r) from %r: jump returned (%r, %r); the convention puts the azimuth in '
                         '[0, %.6g) and the polar coordinate in [%.6g, %.6g]' % (
                             family, p0.isradec, p0.isdegs, x, out_of_range[0], out_of_range[1], az_period, pol_lo,
                             pol_hi),
                         dict(describe(family, p0, x), kind='coordinate-range', radec=bool(p0.isradec),
                              degs=bool(p0.isdegs), returned=list(out_of_range))))
    # kept for the decision about symmetric families: distance law and isotropy of the jump law itself
    _note_disp(p0, stats, ('sphere',), which, cosd[:k])
    secs = [float(((azim[:k] >= s_ * TWO_PI / 8) & (azim[:k] < (s_ + 1) * TWO_PI / 8)).sum()) / N for s_ in range(8)]
    stats.setdefault('_az', []).append(max(abs(v_ - 0.125) for v_ in secs) <= 3.0 / N + 1e-9)
    # cap levels at equal-probability quantiles of the measured cosines
    srt = numpy.sort(cosd)
    levels = [float(srt[int(N * q)]) for q in numpy.linspace(0.08, 0.92, ncap)]

    def integrate(c_lo, c_hi, a_lo, a_hi, nc, na):
        """integral of the reported pdf over {c_lo <= cos <= c_hi, a_lo <= azimuth <= a_hi} d(solid angle)"""
        xs, ws = numpy.polynomial.legendre.leggauss(nc)
        cs = 0.5 * (c_hi - c_lo) * xs + 0.5 * (c_hi + c_lo)
        ax, aw = numpy.polynomial.legendre.leggauss(na)
        az = 0.5 * (a_hi - a_lo) * ax + 0.5 * (a_hi + a_lo)
        tot = 0.0
        for c, w in zip(cs, ws):
            s = math.sqrt(max(0.0, 1 - c * c))
            for a, wa in zip(az, aw):
                v = c * mu + s * (math.cos(a) * e1 + math.sin(a) * e2)
                ph, th = from_cart(p0, v)
                tot += w * wa * float(p0.pdf({names[0]: ph, names[1]: th}, x))
        stats['pdf_evaluations'] = stats.get('pdf_evaluations', 0) + nc * na
        return tot * 0.5 * (c_hi - c_lo) * 0.5 * (a_hi - a_lo)

    edges = [-1.0] + levels + [1.0]
    bands = []
    berr = []
    for lo_, hi_ in zip(edges[:-1], edges[1:]):
        v1 = integrate(lo_, hi_, 0.0, TWO_PI, 12, 6)
        v2 = integrate(lo_, hi_, 0.0, TWO_PI, 20, 10)
        bands.append(v2)
        berr.append(abs(v2 - v1))
    total = sum(bands)
    qtot = sum(berr)
    cum = numpy.cumsum(bands) / total
    worst = None
    for j, lev in enumerate(levels):
        emp = float((cosd[:k] <= lev).sum()) / N
        r = cum[j]
        tol = 2.0 / N + 10 * qtot + 1e-7
        stats['cells'] = stats.get('cells', 0) + 1
        if not abs(emp - r) <= tol:
            if worst is None or abs(emp - r) > worst[0]:
                worst = (abs(emp - r), lev, emp, float(r), tol)
    if worst is not None:
        _law_mismatch(family, p0, stats, findings, ('sphere',), (
                         '%s:law' % family,
                         '%s (kappa=%.4g) from %r: the reported pdf puts mass %.5f on angular distances with '
                         'cos <= %.4f, the jump law (Hammersley net, N=%d) gives %.5f; tolerance %.2g' % (
                             family, float(p0.kappa), x, worst[3], worst[1], N, worst[2], worst[4]),
                         dict(describe(family, p0, x), kind='law-sphere', N=N, cos_level=worst[1],
                              reported=worst[3], measured=worst[2], tolerance=worst[4])))
    # cap x sector cells (isotropy about the centre, correctness of the rotation)
    disc = 2 * (4 * (m / 3.0 + 19.0 / 9.0) + 4) / N
    mid = levels[len(levels) // 2]
    for part, (c_lo, c_hi) in enumerate(((-1.0, mid), (mid, 1.0))):
        for s in range(nsec):
            a_lo, a_hi = s * TWO_PI / nsec, (s + 1) * TWO_PI / nsec
            sel = (cosd[:k] > c_lo) & (cosd[:k] <= c_hi) & (azim[:k] >= a_lo) & (azim[:k] < a_hi)
            emp = float(sel.sum()) / N
            v1 = integrate(c_lo, c_hi, a_lo, a_hi, 16, 8) / total
            v2 = integrate(c_lo, c_hi, a_lo, a_hi, 24, 12) / total
            tol = disc + 10 * abs(v2 - v1) + 10 * qtot + 1e-7
            stats['cells'] = stats.get('cells', 0) + 1
            if not abs(emp - v2) <= tol:
                _law_mismatch(family, p0, stats, findings, ('sphere',), (
                                 '%s:law' % family,
                                 '%s from %r: cell cos in (%.3f, %.3f], azimuth sector %d/%d about the centre: '
                                 'reported mass %.5f, jump law %.5f (tolerance %.2g)' % (
                                     family, x, c_lo, c_hi, s, nsec, v2, emp, tol),
                                 dict(describe(family, p0, x), kind='law-sphere-sector', N=N, reported=v2,
                                      measured=emp, tolerance=tol)))
                return (total, 10 * qtot + 1e-7)
    return (total, 10 * qtot + 1e-7)


# --------------------------------------------------------------------------
# births
# --------------------------------------------------------------------------

class BirthPlan:
    """call k of `birth` belongs to parameter k (one generator call per parameter)."""

    def __init__(self, n, tested, N):
        self.n = n
        self.tested = tested
        self.N = N
        self.pos = 0
        self.zg = zgrid(N)

    def _next(self):
        if self.pos >= self.N:
            raise Exhausted()
        self.pos += 1
        return self.pos - 1

    def z(self, callno, k, scale):
        if callno == self.tested:
            return float(self.zg[self._next()])
        return 0.3

    def u(self, callno):
        if callno == self.tested:
            return (self._next() + 0.5) / self.N
        return 0.37


def birth_law(name, b0, N, findings, stats):
    names = list(b0.parameters)
    n = len(names)
    for i, nm in enumerate(names):
        b = copy.deepcopy(b0)
        plan = BirthPlan(n, i, N)
        b._verif_gen = Gen(plan)
        outs = []
        frozen = None
        while True:
            b._verif_gen.calls = []
            try:
                o = b.birth
            except Exhausted:
                break
            outs.append(float(o[nm]))
            frozen = o
        stats['jumps'] = stats.get('jumps', 0) + len(outs)
        stats['grid_points'] = stats.get('grid_points', 0) + N
        outs = numpy.array(outs)
        a, bb = float(outs.min()), float(outs.max())
        pad = 0.5 * (bb - a) / N
        if name == 'uniform_birth':
            a, bb = a - pad, bb + pad       # the grid stops half a step short of the ends
        cells, per = 32, 16
        logspace = name == 'log_normal_birth' and a > 0      # substitute y = e^t (quadrature choice only)
        if logspace:
            ts = numpy.linspace(math.log(a), math.log(bb), cells * per + 1)
            ys = numpy.exp(ts)
            ys[0], ys[-1] = a, bb
        else:
            ys = numpy.linspace(a, bb, cells * per + 1)

        def rep(y):
            q = dict(frozen)
            q[nm] = y
            return float(b0.pdf(q))

        vals = numpy.array([rep(float(y)) for y in ys])
        stats['pdf_evaluations'] = stats.get('pdf_evaluations', 0) + len(ys)
        if logspace:
            vals = vals * ys
            h = (math.log(bb) - math.log(a)) / (cells * per)
        else:
            h = (bb - a) / (cells * per)
        cum, cumc = simpson_cum(vals, h, per)
        C = float(cum[-1])
        qerr = numpy.abs(cum - cumc)
        srt = numpy.sort(outs)
        base = float(numpy.searchsorted(srt, a, side='left')) / N
        worst = None
        for k in range(cells + 1):
            edge = ys[k * per]
            emp = float(numpy.searchsorted(srt, edge, side='right')) / N - base
            r = cum[k] / C * (1.0 if n > 1 else 1.0) if C > 0 else float('nan')
            tol = 4.0 / N + 2.0 * (qerr[k] + qerr[-1]) / C if C > 0 else 4.0 / N
            stats['cells'] = stats.get('cells', 0) + 1
            if not abs(emp - r) <= tol:
                if worst is None or abs(emp - r) > worst[0]:
                    worst = (abs(emp - r), float(edge), emp, float(r), tol)
        if worst is not None:
            findings.append(('%s:law' % name,
                             '%s: reported pdf of %s integrates to %.5f up to %.4f, births (quantile grid N=%d) '
                             'give %.5f; tolerance %.2g' % (name, nm, worst[3], worst[1], N, worst[2], worst[4]),
                             dict(kind='law-birth', family=name, parameter=nm, N=N, edge=worst[1],
                                  reported_cdf=worst[3], measured_cdf=worst[2], tolerance=worst[4],
                                  settings=_birth_settings(b0))))
        if n == 1 and not abs(C - 1.0) <= 2 * qerr[-1] + 3.0 / N + 1e-9:
            stats.setdefault('notes', []).append('%s: reported pdf integrates to %.8f over the range of the births'
                                                 % (name, C))


def _birth_settings(b):
    out = {}
    for a in ('_boundaries', '_mu', '_std'):
        v = getattr(b, a, None)
        if v is not None:
            out[a] = {k: (list(map(float, vv)) if isinstance(vv, tuple) else float(vv)) for k, vv in v.items()}
    return out


def make_birth(name, rng, n):
    names = ['b%d' % i for i in range(n)]
    if name == 'uniform_birth':
        bnds = {}
        for nm in names:
            lo = round(rng.uniform(-3, 2), 2)
            bnds[nm] = (lo, lo + round(rng.uniform(0.3, 4), 2))
        return P.UniformBirth(names, bnds)
    if name == 'normal_birth':
        return P.NormalBirth(names, {nm: round(rng.uniform(-2, 2), 2) for nm in names},
                             {nm: round(rng.uniform(0.2, 3), 2) for nm in names})
    return P.LogNormalBirth(names, {nm: round(rng.uniform(0.5, 4), 2) for nm in names},
                            {nm: round(rng.uniform(0.2, 2), 2) for nm in names})


def birth_history(name, b0, rng, findings, stats):
    names = list(b0.parameters)
    pts = []
    for _ in range(3):
        o = copy.deepcopy(b0)
        o._verif_gen = None
        pts.append(({nm: float(v) for nm, v in o.birth.items()},))
    history_independence(name, b0, pts, findings, stats, maxlen=3)


# --------------------------------------------------------------------------
# settings histories: every path that changes the settings a jump uses
# --------------------------------------------------------------------------
# The units above examine a proposal right after construction or right after an adaptation run.
# A proposal's settings also change through `_reset_adaptation` (Chain.reset_proposals, the PT
# sampler's reset_after_swap), `set_state`, the public setters (std, cov, boundaries, kappa,
# successive, eigvals / eigvects, set_jump_interval) and survive copy.deepcopy / pickle.  If the
# reported density and the jump read *different copies* of a setting (a cached frozen
# distribution, cached bound arrays, ...) and one of these paths refreshes only one of them, the
# reported density is stale.  A unit of kind `settings-history` brings a real object into such a
# state and then
#   (law)   runs the same push-forward quadrature as everywhere else on that very object: the law
#           is derived from the object's own jump() under scripted draws, never from an attribute;
#   (twin)  compares it with a second real object that has the same current settings by
#           construction but reached them another way (fresh constructor / set_state / the original
#           of a copy): logpdf and pdf of the same point pairs equal to 1e-12 relative, the same
#           scripted draws give the same generator calls and the same jump.
# In these units every mismatch is a finding, also for families that declare symmetric=True
# (a density that is stale after a reset is not "another shape by design").  Keys:
# `<family>:stale-density-after-<reset|setter|set-state|copy|jump-interval>`; the two recorded
# BoundedEigenvector call-site keys are kept as they are.

HIST_GROUP = {
    'reset': 'reset', 'reset-reset': 'reset', 'reset-adapt-reset': 'reset', 'reset-step': 'reset',
    'set-state-fresh': 'set-state', 'set-state-adapted': 'set-state',
    'setter-std': 'setter', 'setter-cov': 'setter', 'setter-boundaries': 'setter', 'setter-kappa': 'setter',
    'setter-successive': 'setter', 'setter-eigen': 'setter', 'setter-cov-eigen': 'setter',
    'setter-convention': 'setter',
    'jump-interval': 'jump-interval', 'pickle': 'copy', 'deepcopy': 'copy',
    'interleaved-queries': None,       # named after the step that preceded the mismatch, see OP_GROUP
}
KNOWN_SITE_KEYS = ('BoundedEigenvector:isclose-band-not-in-reported-density',
                   'BoundedEigenvector:nan-density-outside-box')


def history_kinds(fam):
    """The histories that exist for a family (read off the classes: which setters / state keys /
    adaptation support each one has)."""
    adaptive = fam in F.ADAPTIVE
    ks = []
    if adaptive:
        ks += ['reset', 'reset-reset', 'reset-adapt-reset', 'reset-step', 'set-state-adapted']
    ks += ['set-state-fresh']
    if fam in PERPARAM:
        ks += ['setter-std', 'setter-cov']
    if 'bounded' in fam:
        ks += ['setter-boundaries']
    if fam in DISCRETE:
        ks += ['setter-successive']
    if fam in EIGEN:
        ks += ['setter-eigen', 'setter-cov-eigen']
    if fam in SPHERE:
        ks += ['setter-kappa', 'setter-convention']
    ks += ['jump-interval', 'pickle', 'deepcopy', 'interleaved-queries']
    return ks


class ScriptPlan:
    """Draws from lists (twin comparisons: two objects get the same draws)."""

    def __init__(self, zs, us, ind=0):
        self.zs, self.us, self.ind = zs, us, ind
        self.i = 0
        self.j = 0

    def z(self, callno, k, scale):
        if self.i >= len(self.zs):
            raise Exhausted()
        self.i += 1
        return self.zs[self.i - 1]

    def u(self, callno):
        return 0.999999            # never shuffle the eigen-directions

    def u2(self):
        if self.j + 2 > len(self.us):
            raise Exhausted()
        self.j += 2
        return (self.us[self.j - 2], self.us[self.j - 1])

    def perm(self, n):
        return numpy.arange(n)

    def pick(self, n):
        return self.ind % n


def _hchain(fam, names, doms, seed, pattern='AR', window=24, jump_interval=1, successive=None, start=None):
    """A real one-proposal chain under a forced accept/reject pattern.  Every constructor argument
    that `families.make` draws (variances, covariance matrix, kappa, successive flags, AT's diagonal
    flag) is a function of `seed` alone: the same seed gives the same arguments whatever `doms`."""
    prop = F.make(fam, names, doms, random.Random(seed), window=window, jump_interval=jump_interval,
                  successive=successive)
    ch = Chain(names, forcing.ForcedModel(pattern), [prop], bit_generator=seed % 100003 + 11)
    ch.start_position = dict(start)
    return ch, prop


def _with_cov(fam, names, doms, var, successive):
    """Constructor call with a given diagonal covariance (the families whose constructor takes one)."""
    cls, kind, _, _ = F.FAMILIES[fam]
    kw = {}
    if kind in ('int', 'intbox'):
        kw['successive'] = dict(successive)
    if kind in ('box', 'intbox'):
        return cls(names, {p: doms[p] for p in names}, cov=numpy.array(var, dtype=float), **kw)
    return cls(names, cov=numpy.array(var, dtype=float), **kw)


TAKES_COV = ('normal', 'ss_adaptive_normal', 'bounded_normal', 'ss_adaptive_bounded_normal', 'angular',
             'ss_adaptive_angular', 'discrete', 'ss_adaptive_discrete', 'bounded_discrete',
             'ss_adaptive_bounded_discrete')


def _settings(p):
    """What the classes keep as settings (for the replay text and to see whether a history moved them;
    never used as the truth of a comparison)."""
    out = {}
    for attr in ('_std', '_cov', '_eigvals', '_eigvects', '_kappa', '_lowerbnd', '_upperbnd'):
        v = getattr(p, attr, None)
        if v is not None and not (attr == '_cov' and getattr(p, 'isdiagonal', False)):
            out[attr.lstrip('_')] = numpy.asarray(v, dtype=float).tolist()
    if getattr(p, '_successive', None) is not None:
        out['successive'] = {k: bool(v) for k, v in p.successive.items()}
    if getattr(p, '_jump_interval', 1) not in (1, None):
        out['jump_interval'] = int(p.jump_interval)
    if hasattr(p, 'isradec'):
        out['radec'], out['degs'] = bool(p.isradec), bool(p.isdegs)
    return out


def _live_doms(p, kind, names, doms):
    """Where from-points may be drawn: inside the bounds the object has now (integer families: the
    integers inside them, whether or not the cached bounds are integers)."""
    out = {}
    for i, nm in enumerate(names):
        if getattr(p, '_lowerbnd', None) is not None:
            if kind == 'intbox':
                out[nm] = (int(math.ceil(float(p._lowerbnd[i]))), int(math.floor(float(p._upperbnd[i]))))
            else:
                out[nm] = (float(p._lowerbnd[i]), float(p._upperbnd[i]))
        else:
            out[nm] = doms[nm]
    return out


def _new_doms(kind, doms, names, rng, inside=None):
    """Other bounds for the `boundaries` setter; `inside`: a point that has to stay inside them.
    Integer families get non-integer bounds as well (the class rounds them outward, in the
    constructor and in the setter: the twin is built by the constructor with the same numbers)."""
    out = {}
    for nm in names:
        lo, hi = doms[nm]
        if kind == 'intbox':
            lo, hi = int(math.floor(lo)), int(math.ceil(hi))
            nlo, nhi = lo + rng.randint(-2, 1), hi + rng.randint(-1, 2)
            if inside is not None:
                v = float(inside[nm])
                nlo, nhi = min(nlo, int(math.floor(v)) - 1), max(nhi, int(math.ceil(v)) + 1)
            if nhi - nlo < 2:
                nlo, nhi = lo - 1, hi + 1
            r = rng.random()
            if r < 0.3:
                out[nm] = (nlo - 0.5, nhi + 0.5)
            elif r < 0.55:
                out[nm] = (nlo + 0.25, nhi - 0.25)
            elif r < 0.7:
                out[nm] = (nlo + 0.5, nhi)
            else:
                out[nm] = (nlo, nhi)
        else:
            w = hi - lo
            nlo, nhi = round(lo - rng.uniform(-0.2, 0.5) * w, 3), round(hi + rng.uniform(-0.2, 0.5) * w, 3)
            if inside is not None:
                v = float(inside[nm])
                nlo, nhi = min(nlo, v - 0.05), max(nhi, v + 0.05)
            out[nm] = (nlo, nhi)
    return out


def _warm(fam, p, kind):
    """The discrete families memoise cell probabilities between queries: fill the caches with the
    answers for the settings the object has *now* (every pair of a small integer range, all
    parameters at the same coordinates), so that a later change of settings meets warm caches."""
    if fam not in DISCRETE:
        return
    names = list(p.parameters)
    if kind == 'intbox':
        lo, hi = int(math.floor(float(min(p._lowerbnd)))), int(math.ceil(float(max(p._upperbnd))))
        lo, hi = max(lo, -8), min(hi, 8)
    else:
        lo, hi = -4, 4
    for a in range(lo, hi + 1):
        for b in range(lo, hi + 1):
            try:
                p.logpdf({nm: b for nm in names}, {nm: a for nm in names})
            except ValueError:
                pass


def _start_doms(fam, kind, names, rng, conv):
    doms = {p: F.domain_for(kind, rng, i) for i, p in enumerate(names)}
    if fam in SPHERE:
        # the angle convention (radec, degs) travels as the "domain" of both parameters
        doms = {p: (bool((conv or (0, 0))[0]), bool((conv or (0, 0))[1])) for p in names}
    return doms


def build_history(fam, hist, rng, nparams, conv=None):
    """Bring a real proposal of `fam` into the state at the end of history `hist`.
    Returns dict(R=object under test, T=twin or None, steps=[text], names, kind, doms) or None."""
    cls, kind, lo, hi = F.FAMILIES[fam]
    n = max(lo, min(hi, nparams))
    names = ['x%d' % i for i in range(n)]
    doms = _start_doms(fam, kind, names, rng, conv)
    start = {p: F.start_value(kind, doms[p], rng, i if kind == 'sphere' else 0) for i, p in enumerate(names)}
    adaptive = fam in F.ADAPTIVE
    carries = adaptive or fam in EIGEN               # the state dictionary carries settings
    s0, s1 = rng.randrange(1 << 30), rng.randrange(1 << 30)
    pats = ['AR', 'A', 'R', 'AAR', 'RRA', 'ARR']
    pat = rng.choice(pats)
    pat2 = rng.choice([q for q in pats if q != pat])
    k1, k2 = rng.randint(3, 9), rng.randint(3, 8)
    steps = []

    def fresh(seed=s0, pattern=pat, doms_=None, **kw):
        ch, p = _hchain(fam, names, doms_ or doms, seed, pattern=pattern, start=start, **kw)
        _warm(fam, p, kind)
        return ch, p

    def adapted(seed=s0, pattern=pat, k=k1, **kw):
        ch, p = fresh(seed, pattern, **kw)
        for _ in range(k):
            ch.step()
        _warm(fam, p, kind)
        return ch, p

    def said(text):
        steps.append(text)

    R = T = None
    said('%s over %s, domains %r, constructor arguments from seed %d' % (cls.__name__, names, doms, s0))
    if hist in ('reset', 'reset-reset', 'reset-adapt-reset', 'reset-step'):
        ch, R = adapted()
        said('%d forced chain steps, pattern %s -> %r' % (k1, pat, _settings(R)))
        ch.reset_proposals()
        said('Chain.reset_proposals()')
        if hist == 'reset-reset':
            ch.reset_proposals()
            said('Chain.reset_proposals() again')
        if hist == 'reset-adapt-reset':
            for _ in range(k2):
                ch.step()
            said('%d more forced steps -> %r' % (k2, _settings(R)))
            ch.reset_proposals()
            said('Chain.reset_proposals() again')
        if hist == 'reset-step':
            ch.step()
            said('one more forced step')
        else:
            T = fresh()[1]
            said('twin: the same constructor call, never adapted')
    elif hist == 'set-state-fresh':
        if carries:
            dch, donor = adapted() if adaptive else adapted(seed=s1)
            said('donor: %s instance, %d forced steps (%s) -> %r' % (
                'the same constructor call' if adaptive else 'another covariance (seed %d)' % s1, k1, pat, _settings(donor)))
            R = fresh()[1]
            R.set_state(donor.state)
            said('fresh instance .set_state(donor.state)')
            T = donor
            said('twin: the donor')
        else:
            dch, donor = adapted(seed=s1)
            R = fresh()[1]
            R.set_state(donor.state)
            said('fresh instance .set_state(state of an instance built with other scales (seed %d) after %d steps); '
                 'the state of this family carries no settings' % (s1, k1))
            T = fresh()[1]
            said('twin: the same constructor call, no set_state')
    elif hist == 'set-state-adapted':
        dch, donor = adapted()
        ch, R = adapted(pattern=pat2, k=k2)
        said('receiver: %d forced steps (%s) -> %r' % (k2, pat2, _settings(R)))
        said('donor: same constructor call, %d forced steps (%s) -> %r' % (k1, pat, _settings(donor)))
        R.set_state(donor.state)
        said('receiver.set_state(donor.state)')
        T = donor
        said('twin: the donor')
    elif hist in ('setter-std', 'setter-cov'):
        full_ok = fam in ('normal', 'ss_adaptive_normal')
        if adaptive:
            ch, R = adapted()
            said('%d forced chain steps, pattern %s -> %r' % (k1, pat, _settings(R)))
        else:
            R = fresh()[1]
        if not R.isdiagonal:
            # Andrieu-Thoms with a full covariance: assign a full matrix through `cov`
            a = numpy.array([[rng.uniform(-0.5, 0.5) for _ in range(n)] for _ in range(n)])
            full = a @ a.T + numpy.diag([rng.uniform(0.1, 0.5) for _ in range(n)])
            full = (full + full.T) / 2
            T = copy.deepcopy(R)
            st = T.state
            st['cov'] = full.copy()
            T.set_state(st)
            R.cov = full.copy()
            said('.cov = %r (full matrix)' % full.tolist())
            said('twin: a copy made before the assignment, .set_state(its own state with cov replaced)')
        elif hist == 'setter-cov' and full_ok and n > 1 and rng.random() < 0.4:
            a = numpy.array([[rng.uniform(-0.5, 0.5) for _ in range(n)] for _ in range(n)])
            full = a @ a.T + numpy.diag([rng.uniform(0.1, 0.5) for _ in range(n)])
            full = (full + full.T) / 2
            R.cov = full.copy()
            said('.cov = %r (full matrix)' % full.tolist())
            T = cls(names, cov=full.copy())
            said('twin: %s(%r, cov=that matrix)' % (cls.__name__, names))
        else:
            if kind in ('int', 'intbox'):
                var = numpy.array([round(rng.uniform(0.5, 6.0), 2) for _ in names])
            else:
                var = numpy.array([round(rng.uniform(0.02, 0.8), 3) for _ in names])
            if adaptive and fam not in TAKES_COV or (adaptive and rng.random() < 0.5):
                T = copy.deepcopy(R)
                st = T.state
                st['std'] = var ** 0.5
                T.set_state(st)
                twin = 'twin: a copy made before the assignment, .set_state(its own state with std replaced)'
            else:
                T = _with_cov(fam, names, doms, var, getattr(R, 'successive', None))
                twin = 'twin: %s(..., cov=%r) built by the constructor' % (cls.__name__, var.tolist())
            if hist == 'setter-std':
                R.std = var ** 0.5
                said('.std = %r' % (var ** 0.5).tolist())
            elif rng.random() < 0.5:
                R.cov = var.copy()
                said('.cov = %r (variances)' % var.tolist())
            else:
                R.cov = numpy.diag(var)
                said('.cov = diag(%r)' % var.tolist())
            said(twin)
    elif hist == 'setter-boundaries':
        if adaptive:
            ch, R = adapted()
            said('%d forced chain steps, pattern %s -> %r' % (k1, pat, _settings(R)))
        else:
            R = fresh()[1]
        nd = _new_doms(kind, doms, names, rng)
        R.boundaries = {p: nd[p] for p in names}
        said('.boundaries = %r' % nd)
        succ = getattr(R, 'successive', None)
        T = fresh(doms_=nd, successive=dict(succ) if succ is not None else None)[1]
        if adaptive:
            T.set_state(R.state)
            said('twin: the same constructor call with the new boundaries, .set_state(state of the object)')
        else:
            said('twin: the same constructor call with the new boundaries')
        doms = nd
    elif hist == 'setter-kappa':
        if adaptive:
            ch, R = adapted()
            said('%d forced chain steps, pattern %s -> kappa %r' % (k1, pat, float(R.kappa)))
            kap = float(rng.uniform(2, 40))
            T = copy.deepcopy(R)
            st = T.state
            st['kappa'], st['log_kappa'] = kap, math.log(kap)
            T.set_state(st)
            said('twin: a copy made before the assignment, .set_state(its own state with kappa replaced)')
        else:
            R = fresh()[1]
            T = fresh(seed=s1)[1]
            kap = float(T.kappa)
            said('twin: constructor call with kappa=%r' % kap)
        R.kappa = kap
        said('.kappa = %r' % kap)
    elif hist == 'setter-convention':
        if adaptive:
            ch, R = adapted()
            said('%d forced chain steps, pattern %s -> kappa %r' % (k1, pat, float(R.kappa)))
        else:
            R = fresh()[1]
        old_conv = doms[names[0]]
        new_conv = rng.choice([c for c in CONVENTIONS if c != old_conv])
        R.isradec, R.isdegs = new_conv
        said('.isradec, .isdegs = %r (built with %r)' % (new_conv, old_conv))
        doms = {p: new_conv for p in names}
        T = fresh(doms_=doms)[1]
        if adaptive:
            T.set_state(R.state)
        said('twin: the same constructor call with radec=%r, degs=%r' % new_conv +
             (', .set_state(state of the object)' if adaptive else ''))
    elif hist == 'setter-successive':
        if adaptive:
            ch, R = adapted()
            said('%d forced chain steps, pattern %s -> %r' % (k1, pat, _settings(R)))
        else:
            R = fresh()[1]
        flipped = {p: not bool(v) for p, v in R.successive.items()}
        if n > 1 and rng.random() < 0.5:
            flipped[names[0]] = bool(R.successive[names[0]])
        T = fresh(successive=dict(flipped))[1]
        if adaptive:
            T.set_state(R.state)
        R.successive = dict(flipped)
        said('.successive = %r' % flipped)
        said('twin: the same constructor call with these flags' + (', .set_state(state of the object)' if adaptive else ''))
    elif hist in ('setter-eigen', 'setter-cov-eigen'):
        if adaptive:
            ch, R = adapted()
            said('%d forced chain steps, pattern %s -> %r' % (k1, pat, _settings(R)))
        else:
            R = fresh()[1]
        other = fresh(seed=s1)[1]
        newcov = numpy.array(other.cov, dtype=float)
        if hist == 'setter-eigen':
            vals, vecs = numpy.linalg.eigh(newcov)
            R.eigvals, R.eigvects = vals, vecs
            said('.eigvals, .eigvects = numpy.linalg.eigh(%r)' % newcov.tolist())
            T = other
            said('twin: constructor call with that covariance')
        else:
            R.cov = newcov.copy()
            said('.cov = %r (law of the jumps against the reported density only: whether `cov` takes effect '
                 'before the next adaptation step is not a matter of this property)' % newcov.tolist())
    elif hist in ('pickle', 'deepcopy'):
        if adaptive:
            ch, base = adapted()
            said('%d forced chain steps, pattern %s -> %r' % (k1, pat, _settings(base)))
            if rng.random() < 0.5:
                ch.reset_proposals()
                said('Chain.reset_proposals()')
        else:
            base = fresh()[1]
            if fam in PERPARAM:
                var = numpy.array([round(rng.uniform(0.5, 6.0) if kind in ('int', 'intbox') else rng.uniform(0.02, 0.8), 3)
                                   for _ in names])
                base.std = var ** 0.5
                said('.std = %r' % (var ** 0.5).tolist())
            elif fam in SPHERE:
                base.kappa = float(rng.uniform(2, 40))
                said('.kappa = %r' % float(base.kappa))
        if hist == 'pickle':
            R = pickle.loads(pickle.dumps(base))
            said('pickle.loads(pickle.dumps(.))')
        else:
            R = copy.deepcopy(base)
            said('copy.deepcopy(.)')
        T = base
        said('twin: the original')
    else:
        raise KeyError(hist)
    # for the attribution of a mismatch: objects earlier in the history, most recent first, with the
    # history group the mismatch belongs to if that object shows it as well (None: no history needed)
    baselines = [(lambda: fresh()[1], None)]
    if hist in ('pickle', 'deepcopy'):
        prev = 'reset' if any('reset_proposals' in t for t in steps) else \
            'setter' if any(t.startswith('.std') or t.startswith('.kappa') for t in steps) else None
        baselines.insert(0, (lambda: base, prev))
    return dict(R=R, T=T, steps=steps, names=names, kind=kind, doms=_live_doms(R, kind, names, doms),
                start_doms=doms, baselines=baselines)


def _num_same(a, b, amp=1.0):
    if isinstance(a, str) or isinstance(b, str):
        return a == b
    if a == b or (math.isnan(a) and math.isnan(b)):
        return True
    if math.isinf(a) or math.isinf(b) or math.isnan(a) or math.isnan(b):
        return False
    return abs(a - b) <= 1e-12 * amp * max(1.0, abs(a), abs(b))


def _calls_same(ca, cb):
    if len(ca) != len(cb):
        return False
    for a, b in zip(ca, cb):
        if a[0] != b[0] or len(a) != len(b):
            return False
        for u, v in zip(a[1:], b[1:]):
            if u is None or v is None:
                if u is not v:
                    return False
                continue
            u, v = numpy.asarray(u, dtype=float), numpy.asarray(v, dtype=float)
            if u.shape != v.shape or not numpy.allclose(u, v, rtol=1e-12, atol=0, equal_nan=True):
                return False
    return True


def _safe(f, *a):
    try:
        return float(f(*a))
    except ValueError as e:
        return 'raised ValueError: ' + str(e)[:120]


def _scripted_jumps(obj, fam, x, zs, us, ind, njumps):
    """`njumps` jumps of a copy of `obj` from x under the scripted draws; for the eigenvector
    families also the density reported for each jump and its reverse right after it."""
    o = copy.deepcopy(obj)
    gen = Gen(ScriptPlan(zs, us, ind))
    gen.limit = len(zs) - 5
    o._verif_gen = gen
    outs, dens = [], []
    for _ in range(njumps):
        try:
            out = o.jump(x)
        except (Runaway, Exhausted):
            outs.append('rejected every scripted draw')
            break
        outs.append({k: float(v) for k, v in out.items()})
        if fam in EIGEN:
            dens.append((_safe(o.logpdf, out, x), _safe(o.logpdf, x, out), _safe(o.pdf, out, x)))
    return outs, dens, list(gen.calls)


def twin_check(fam, H, x, pairs, rng, findings, stats):
    """Same current settings by construction, different histories: same reported density, same jumps."""
    R, T = H['R'], H['T']
    n = len(H['names'])
    zs = [rng.gauss(0.0, 1.1) for _ in range(400)]
    us = [rng.random() for _ in range(16)]
    ind = rng.randrange(n)
    oR, dR, cR = _scripted_jumps(R, fam, x, zs, us, ind, 3)
    oT, dT, cT = _scripted_jumps(T, fam, x, zs, us, ind, 3)
    stats['twin_pairs'] = stats.get('twin_pairs', 0) + 1
    stats['twin_jumps'] = stats.get('twin_jumps', 0) + len(oR) + len(oT)
    jumps_same = len(oR) == len(oT) and _calls_same(cR, cT)
    for a, b in zip(oR, oT):
        if isinstance(a, str) or isinstance(b, str):
            jumps_same = jumps_same and a == b
        else:
            jumps_same = jumps_same and all(_num_same(a[k], b[k]) for k in a)
    if bool(getattr(R, 'isdiagonal', True)) != bool(getattr(T, 'isdiagonal', True)):
        # one object draws componentwise, the other through multivariate_normal (a 1 x 1 "full" matrix
        # is diagonal for the setter, not for a restored state): the same law from other generator
        # calls, the draws are not comparable one by one; the densities still are
        jumps_same = True
        stats['twin_jumps_not_comparable'] = stats.get('twin_jumps_not_comparable', 0) + 1
    bad = None
    if fam in EIGEN:
        for j, (a, b) in enumerate(zip(dR, dT)):
            stats['twin_queries'] = stats.get('twin_queries', 0) + 6
            amp = max(1.0, abs(a[0])) if not isinstance(a[0], str) else 1.0
            if not (_num_same(a[0], b[0]) and _num_same(a[1], b[1]) and _num_same(a[2], b[2], amp)):
                bad = ('of scripted jump %d (%r -> %r) and its reverse' % (j, x, oR[j]), a, b)
                break
    else:
        for xi, given in pairs:
            a = (_safe(pristine(R, fam).logpdf, xi, given), _safe(pristine(R, fam).pdf, xi, given))
            b = (_safe(pristine(T, fam).logpdf, xi, given), _safe(pristine(T, fam).pdf, xi, given))
            stats['twin_queries'] = stats.get('twin_queries', 0) + 4
            amp = max(1.0, abs(a[0])) if not isinstance(a[0], str) else 1.0
            if not (_num_same(a[0], b[0]) and _num_same(a[1], b[1], amp)):
                bad = ('(%r | %r)' % (xi, given), a, b)
                break
    if bad is None and jumps_same:
        return
    if bad is not None and jumps_same:
        text = ('%s: two objects with the same current settings make the same jumps from the same draws but report '
                'different densities: logpdf, pdf %s = %r after the history, %r on the twin' % (fam, bad[0], bad[1], bad[2]))
    elif bad is not None:
        text = ('%s: two objects with the same current settings by construction neither jump alike (same scripted '
                'draws: %r / %r) nor report the same density: logpdf, pdf %s = %r after the history, %r on the twin' % (
                    fam, oR[:1], oT[:1], bad[0], bad[1], bad[2]))
    else:
        text = ('%s: two objects with the same current settings by construction report the same density but jump '
                'differently from the same scripted draws: %r (generator calls %r) after the history, %r (%r) on the '
                'twin' % (fam, oR[:1], cR[:2], oT[:1], cT[:2]))
    findings.append(('%s:twin' % fam, text,
                     dict(describe(fam, R, x), kind='settings-history-twin', twin_settings=_settings(T),
                          jumps_same=bool(jumps_same), density=None if bad is None else [str(bad[1]), str(bad[2])])))


def jump_interval_walk(fam, rng, nparams, N, nodes, findings, stats, steps, conv=None):
    """jump_interval > 1: on the iterations in between, jump() returns the point it was given and
    logpdf() reports 0; both decide that from the step counter.  Walk a real chain through the
    whole schedule; at every iteration the two must agree (no draw made <=> log density exactly 0
    in both directions).  Returns a history dict for the law / twin comparison of the state the
    walk starts from (interval k, counter 0: a real jump)."""
    cls, kind, lo, hi = F.FAMILIES[fam]
    n = max(lo, min(hi, nparams))
    names = ['x%d' % i for i in range(n)]
    doms = _start_doms(fam, kind, names, rng, conv)
    start = {p: F.start_value(kind, doms[p], rng, i if kind == 'sphere' else 0) for i, p in enumerate(names)}
    s0 = rng.randrange(1 << 30)
    k = rng.choice([2, 3])
    window = rng.randint(4, 6)
    pat = rng.choice(['AR', 'A', 'RRA', 'AAR'])
    ch, R = _hchain(fam, names, doms, s0, pattern=pat, window=window, jump_interval=k, start=start)
    steps.append('%s over %s, domains %r, constructor arguments from seed %d, jump_interval=%d for %d proposal steps' % (
        cls.__name__, names, doms, s0, k, window))
    first = copy.deepcopy(R)
    live = _live_doms(R, kind, names, doms)
    zs = [rng.gauss(0.0, 0.8) for _ in range(400)]
    us = [rng.random() for _ in range(8)]
    changed = None
    total = k * window + 3
    switch_at = rng.randint(1, k * window - 1)
    for it in range(total):
        x = point(kind, live, names, rng)
        y = point(kind, live, names, rng)
        o = copy.deepcopy(R)
        gen = Gen(ScriptPlan(zs, us, 0))
        gen.limit = 390
        o._verif_gen = gen
        try:
            out = o.jump(x)
        except (Runaway, Exhausted):
            continue
        drew = len(gen.calls) > 0
        # (the eigenvector families define their density for the most recent jump only)
        to = out if (drew and fam in EIGEN) else y
        vals = [_safe(o.logpdf, to, x), _safe(o.logpdf, x, to)]
        zero = all((not isinstance(v, str)) and v == 0.0 for v in vals)
        stats['jump_interval_states'] = stats.get('jump_interval_states', 0) + 1
        stats['jump_interval_states_' + ('real' if drew else 'skipped')] = \
            stats.get('jump_interval_states_' + ('real' if drew else 'skipped'), 0) + 1
        stats['twin_queries'] = stats.get('twin_queries', 0) + 2
        moved = any(out[k_] != x[k_] for k_ in names)
        if drew == zero or (not drew and moved):
            findings.append(('%s:jump-interval' % fam,
                             '%s with jump_interval=%d, %d chain iterations in (%s): jump(%r) %s and returned %r, while '
                             'logpdf(%r | x), logpdf(x | .) = %r' % (
                                 fam, int(R.jump_interval), it, changed or 'schedule as constructed', x,
                                 'made %d generator call(s)' % len(gen.calls) if drew else 'made no draw',
                                 {k_: float(v_) for k_, v_ in out.items()}, to, vals),
                             dict(describe(fam, R, x), kind='jump-interval', iteration=it, drew=drew, reported=str(vals))))
            break
        if it == switch_at and changed is None:
            # the public way to change the schedule of a live object
            if rng.random() < 0.5:
                R.set_jump_interval(1)
                changed = 'set_jump_interval(1) after %d iterations' % it
            else:
                k2 = 5 - k
                R.set_jump_interval(k2, window)
                changed = 'set_jump_interval(%d, %d) after %d iterations' % (k2, window, it)
            steps.append(changed)
            continue
        ch.step()
    steps.append('walked %d chain iterations (%s), comparing at each whether jump() draws with whether logpdf() is 0' % (
        total, pat))
    T = _hchain(fam, names, doms, s0, pattern=pat, window=window, jump_interval=1, start=start)[1]
    steps.append('law / twin comparison on the object as constructed (counter 0); twin: the same constructor call '
                 'with jump_interval=1')
    return dict(R=first, T=T, steps=steps, names=names, kind=kind, doms=live, start_doms=doms,
                baselines=[(lambda: T, None)])


def _history_law(fam, R, kind, names, doms, rng, unit, stats):
    """The law-of-the-jumps comparison of this family on the object R as it is (strict: every
    mismatch is a finding).  Returns (findings, x, point pairs for the twin comparison)."""
    mine = []
    tag = {'which': 0, 'inplace': True, 'nodes': unit.get('nodes', (16, 16))}
    x = point(kind, doms, names, rng)
    y = point(kind, doms, names, rng)
    keep = stats.get('_strict')
    stats['_strict'] = True
    try:
        if fam in PERPARAM:
            cx = perparam_law(fam, R, x, unit['N'], mine, stats, tag)
            cy = perparam_law(fam, R, y, unit['N'], mine, stats, dict(tag, which=1)) if y != x else None
            normaliser_check(fam, R, [(x, cx), (y, cy)], mine, stats)
            pool = query_pool(fam, R, rng)
            symmetric_reported(fam, R, [(x, y)] + [(q[1], q[0]) for q in pool[:1]], mine, stats)
            if fam in DISCRETE and pool:
                history_independence(fam, R, pool[:2], mine, stats, 2)
            pairs = [(y, x), (x, y)] + pool[:2]
        elif fam in EIGEN:
            cells, per = unit.get('enodes', (16, 8))
            cs = eigen_law(fam, R, x, unit['N'], mine, stats, every=unit.get('every', 15), cells=cells, per=per)
            if unit.get('two_points'):
                cs2 = eigen_law(fam, R, y, unit['N'], mine, stats, every=unit.get('every', 15), cells=cells, per=per,
                                which=1)
                eigen_normalisers(fam, R, x, y, cs, cs2, mine, stats)
            pairs = []
        else:
            ncap, nsec = unit.get('caps', (10, 4))
            cx = sphere_law(fam, R, x, unit['m'], mine, stats, ncap=ncap, nsec=nsec)
            cy = sphere_law(fam, R, y, unit['m'], mine, stats, ncap=ncap, nsec=nsec, which=1)
            normaliser_check(fam, R, [(x, cx), (y, cy)], mine, stats)
            symmetric_reported(fam, R, [(x, y)], mine, stats)
            pairs = [(y, x), (x, y), (x, x)]
    finally:
        if keep is None:
            stats.pop('_strict', None)
        else:
            stats['_strict'] = keep
        for k_ in ('_pending', '_disp'):
            stats.pop(k_, None)
    return mine, x, pairs


def settings_history_unit(unit, findings, stats):
    fam, hist = unit['family'], unit['hist']
    rng = random.Random(unit['seed'])
    steps = []
    mine = []
    if hist == 'jump-interval':
        H = jump_interval_walk(fam, rng, unit['nparams'], unit['N'], unit.get('nodes', (16, 16)), mine, stats, steps,
                               conv=unit.get('conv'))
    else:
        H = build_history(fam, hist, rng, unit['nparams'], conv=unit.get('conv'))
    R, names, kind = H['R'], H['names'], H['kind']
    law, x, pairs = _history_law(fam, R, kind, names, H['doms'], rng, unit, stats)
    mine.extend(law)
    if H['T'] is not None:
        twin_check(fam, H, x, pairs, rng, mine, stats)
    stats.pop('_strict', None)
    stats['settings_history_units'] = stats.get('settings_history_units', 0) + 1
    stats['hist:%s:%s' % (hist, fam)] = stats.get('hist:%s:%s' % (hist, fam), 0) + 1
    group = HIST_GROUP[hist]
    where = None
    if any(f[0] not in KNOWN_SITE_KEYS and f[0] != '%s:jump-interval' % fam for f in law):
        # attribution (only ever run after a mismatch): does an object earlier in the history show a
        # mismatch of the same comparison already?
        scratch = {}
        for make, g in H['baselines']:
            obj = make()
            doms = _live_doms(obj, kind, names, H['start_doms'])
            earlier, _, _ = _history_law(fam, obj, kind, names, doms, random.Random(unit['seed'] + 1), unit, scratch)
            if not any(f[0] not in KNOWN_SITE_KEYS for f in earlier):
                break
            group = g
            where = 'the same comparison fails on the object before the last step of the history as well' \
                if g is not None else 'the same comparison fails on a freshly constructed object as well: the ' \
                'history is not what breaks it'
    for key, text, payload in mine:
        payload = dict(payload)
        payload['history'] = H['steps']
        payload['history_kind'] = hist
        payload['settings_after_history'] = _settings(R)
        if key not in KNOWN_SITE_KEYS:
            payload['check'] = key
            if key == '%s:jump-interval' % fam:
                key = '%s:stale-density-after-jump-interval' % fam
            elif group is not None:
                key = '%s:stale-density-after-%s' % (fam, group)
            text = '[history %s: %s%s] %s' % (hist, ' ; '.join(H['steps'][1:])[:700],
                                             (' ; NOTE ' + where) if where else '', text)
        findings.append((key, text, payload))


# ---- interleaved queries: query -> settings change through ANY path -> the same queries again --------
# Several families memoise between queries (cell probabilities of the discrete families keyed by the
# scale they were computed for, the chord of the bounded eigenvector family keyed by the point pair, the
# direction and step of the eigenvector families).  A memo that does not notice a change of settings
# answers the second query with the density of the *earlier* settings.  The unit below keeps ONE live
# object (attached to a real chain), asks it the same pool of point pairs before and after every
# state-changing step (real adaptation steps, which update in place or rebind, reset_proposals, the
# setters, set_state from another chain) and compares each answer with the answer of a never-queried
# object that has the same current settings, built through the constructor (+ set_state where the
# state dictionary carries the settings).  Run for every family, memoising or not.

OP_GROUP = {'step': 'adaptation', 'reset': 'reset', 'std': 'setter', 'cov': 'setter', 'boundaries': 'setter',
            'successive': 'setter', 'kappa': 'setter', 'eigen': 'setter', 'set_state': 'set-state'}


def _twin_now(fam, R, ctx):
    """A never-queried object with the current settings of R."""
    cls = F.FAMILIES[fam][0]
    names = ctx['names']
    succ = {k: bool(v) for k, v in R.successive.items()} if fam in DISCRETE else None
    if fam in F.ADAPTIVE or fam in EIGEN:
        T = F.make(fam, names, ctx['doms'], random.Random(ctx['seed']), window=ctx['window'], successive=succ)
        T.set_state(R.state)
        return T
    if fam in PERPARAM:
        if ctx.get('full') is not None:
            return cls(names, cov=ctx['full'].copy())
        return _with_cov(fam, names, ctx['doms'], ctx['var'], succ)
    return cls(names[0], names[1], kappa=ctx['kappa'], radec=ctx['doms'][names[0]][0], degs=ctx['doms'][names[0]][1])


def interleaved_unit(unit, findings, stats):
    fam = unit['family']
    rng = random.Random(unit['seed'])
    cls, kind, lo, hi = F.FAMILIES[fam]
    n = max(lo, min(hi, unit['nparams']))
    names = ['x%d' % i for i in range(n)]
    doms = _start_doms(fam, kind, names, rng, unit.get('conv'))
    start = {p: F.start_value(kind, doms[p], rng, i if kind == 'sphere' else 0) for i, p in enumerate(names)}
    adaptive = fam in F.ADAPTIVE
    seed = rng.randrange(1 << 30)
    window = 40
    pats = ['AR', 'A', 'R', 'AAR', 'RRA', 'ARR']
    pat = rng.choice(pats)
    ctx = dict(names=names, kind=kind, doms=dict(doms), seed=seed, window=window)
    steps = []
    # the object: non-adaptive families with settings this unit knows exactly (for the constructor of the twin)
    if not adaptive and fam in PERPARAM:
        ctx['var'] = numpy.array([round(rng.uniform(0.6, 4.0), 2) if kind in ('int', 'intbox') else
                                  round(rng.uniform(0.05, 0.6), 3) for _ in names])
        succ = {p: rng.random() < 0.5 for p in names} if fam in DISCRETE else None
        R = _with_cov(fam, names, doms, ctx['var'], succ)
    elif not adaptive and fam in SPHERE:
        ctx['kappa'] = float(round(rng.uniform(2, 30), 3))
        R = cls(names[0], names[1], kappa=ctx['kappa'], radec=doms[names[0]][0], degs=doms[names[0]][1])
    else:
        R = F.make(fam, names, doms, random.Random(seed), window=window)
    ch = Chain(names, forcing.ForcedModel(pat), [R], bit_generator=seed % 100003 + 11)
    ch.start_position = dict(start)
    dch, donor = _hchain(fam, names, doms, seed, pattern=rng.choice([q for q in pats if q != pat]), window=window,
                         start=start, successive=dict(R.successive) if fam in DISCRETE else None)
    steps.append('%s over %s, domains %r, settings %r, attached to a real chain (forced pattern %s)' % (
        cls.__name__, names, doms, _settings(R), pat))

    def pool():
        live = _live_doms(R, kind, names, ctx['doms'])
        if fam in DISCRETE:
            if kind == 'intbox':
                a0 = int(math.floor(float(min(R._lowerbnd))))
                a1 = int(math.ceil(float(max(R._upperbnd))))
                a0, a1 = max(a0, -6), min(a1, 6)
            else:
                a0, a1 = -3, 3
            out = [({nm: b for nm in names}, {nm: a for nm in names}) for a in range(a0, a1 + 1)
                   for b in range(a0, a1 + 1)]
            return out
        return [(point(kind, live, names, rng), point(kind, live, names, rng)) for _ in range(4)]

    P = pool()
    if fam not in DISCRETE:
        P = P + [(b, a) for a, b in P]
    zs = [rng.gauss(0.0, 0.5) for _ in range(300)]
    us = [rng.random() for _ in range(8)]

    def ask(obj, eig_from, ind):
        """the answers of `obj` itself (no copy: its memo is the point)"""
        if fam in EIGEN:
            gen = Gen(ScriptPlan(zs, us, ind))
            gen.limit = 290
            obj._verif_gen = gen
            try:
                out = obj.jump(eig_from)
                # the order of the chain: reverse first
                return [('jump', {k: float(v) for k, v in out.items()}), _safe(obj.logpdf, eig_from, out),
                        _safe(obj.logpdf, out, eig_from), _safe(obj.logpdf, eig_from, out)]
            except (Runaway, Exhausted):
                return ['rejected every scripted draw']
            finally:
                obj.__dict__.pop('_verif_gen', None)
        return [_safe(obj.logpdf, xi, given) for xi, given in P]

    def same(a, b):
        if isinstance(a, tuple) or isinstance(b, tuple):
            return isinstance(a, tuple) and isinstance(b, tuple) and all(_num_same(a[1][k], b[1][k]) for k in a[1])
        return _num_same(a, b)

    # which steps exist for this family
    ops = ['set_state']
    if adaptive:
        ops += ['reset', 'reset']
    if fam in PERPARAM:
        ops += ['std', 'cov']
    if 'bounded' in fam:
        ops += ['boundaries']
    if fam in DISCRETE:
        ops += ['successive']
    if fam in SPHERE:
        ops += ['kappa']
    if fam in EIGEN:
        ops += ['eigen']
    rng.shuffle(ops)
    seq = ['step'] * rng.randint(1, 3)
    for op in ops:
        seq.append(op)
        seq.extend(['step'] * rng.randint(0, 2))
    live = _live_doms(R, kind, names, ctx['doms'])
    ask(R, point(kind, live, names, rng), 0)                   # the first round of queries
    stats['interleaved_queries'] = stats.get('interleaved_queries', 0) + len(P)
    bad = None
    for op in seq:
        if op == 'step':
            ch.step()
            text = 'one forced chain step'
        elif op == 'reset':
            ch.reset_proposals()
            text = 'Chain.reset_proposals()'
        elif op in ('std', 'cov'):
            if not R.isdiagonal:
                a = numpy.array([[rng.uniform(-0.5, 0.5) for _ in range(n)] for _ in range(n)])
                full = a @ a.T + numpy.diag([rng.uniform(0.1, 0.5) for _ in range(n)])
                full = (full + full.T) / 2
                if n == 1:
                    continue
                R.cov = full.copy()
                ctx['full'] = full
                text = '.cov = %r' % full.tolist()
            else:
                var = numpy.array([round(rng.uniform(0.5, 6.0), 2) if kind in ('int', 'intbox') else
                                   round(rng.uniform(0.02, 0.8), 3) for _ in names])
                ctx['var'] = var
                if op == 'std':
                    R.std = var ** 0.5
                    text = '.std = %r' % (var ** 0.5).tolist()
                else:
                    R.cov = var.copy()
                    text = '.cov = %r' % var.tolist()
        elif op == 'boundaries':
            cur = _live_doms(R, kind, names, ctx['doms'])
            nd = _new_doms(kind, cur, names, rng, inside=ch.current_position)   # the chain goes on from where it is
            R.boundaries = {p: nd[p] for p in names}
            ctx['doms'] = nd
            text = '.boundaries = %r' % nd
        elif op == 'successive':
            flipped = {p: (not bool(v)) if rng.random() < 0.7 else bool(v) for p, v in R.successive.items()}
            R.successive = dict(flipped)
            text = '.successive = %r' % flipped
        elif op == 'kappa':
            kap = float(round(rng.uniform(2, 40), 3))
            R.kappa = kap
            ctx['kappa'] = kap
            text = '.kappa = %r' % kap
        elif op == 'eigen':
            newcov = F._spd(n, rng)
            vals, vecs = numpy.linalg.eigh(newcov)
            lam = R.state.get('log_lambda', 0.0)
            R.cov = newcov.copy()
            R.eigvals, R.eigvects = (vals * numpy.exp(lam) if adaptive else vals), vecs
            text = '.cov = %r; .eigvals, .eigvects = its eigenpairs (times the current global scale)' % newcov.tolist()
        elif op == 'set_state':
            for _ in range(rng.randint(2, 6)):
                dch.step()
            R.set_state(donor.state)
            text = '.set_state(state of a second chain of the same constructor call after %d steps)' % int(donor._nsteps)
        steps.append(text)
        T = _twin_now(fam, R, ctx)
        live = _live_doms(R, kind, names, ctx['doms'])
        x = point(kind, live, names, rng)
        ind = rng.randrange(n)
        got, want = ask(R, x, ind), ask(T, x, ind)
        stats['interleaved_queries'] = stats.get('interleaved_queries', 0) + len(got) + len(want)
        stats['interleaved_steps'] = stats.get('interleaved_steps', 0) + 1
        stats['interleaved_step:' + op] = stats.get('interleaved_step:' + op, 0) + 1
        for j, (a, b) in enumerate(zip(got, want)):
            if not same(a, b):
                what = 'the scripted jump from %r and the density of its reverse / itself / its reverse' % (x,) \
                    if fam in EIGEN else 'logpdf(%r | %r)' % P[j]
                bad = (op, '%s: after %s, %s is %r on the object that answered the same queries before, %r on a '
                           'never-queried object with the same current settings %r (all answers: %r / %r)' % (
                               fam, text[:200], what, a, b, _settings(T), got[:6], want[:6]))
                break
        if len(got) != len(want) and bad is None:
            bad = (op, '%s: after %s the object that answered queries before and a never-queried object with the '
                       'same settings behave differently: %r / %r' % (fam, text[:200], got[:3], want[:3]))
        if bad:
            break
    stats['settings_history_units'] = stats.get('settings_history_units', 0) + 1
    stats['hist:interleaved-queries:%s' % fam] = stats.get('hist:interleaved-queries:%s' % fam, 0) + 1
    mine = []
    if bad:
        mine.append(('%s:stale-density-after-%s' % (fam, OP_GROUP[bad[0]]), bad[1],
                     dict(describe(fam, R, start), kind='interleaved-queries', step=bad[0])))
    else:
        # the law of the jumps of the object as it is now, memo included
        live = _live_doms(R, kind, names, ctx['doms'])
        law, _, _ = _history_law(fam, R, kind, names, live, rng, unit, stats)
        for key, text, payload in law:
            if key not in KNOWN_SITE_KEYS:
                payload = dict(payload, check=key)
                key = '%s:stale-density-after-%s' % (fam, OP_GROUP[seq[-1]])
            mine.append((key, text, payload))
    for key, text, payload in mine:
        payload = dict(payload)
        payload['history'] = steps
        payload['history_kind'] = 'interleaved-queries'
        payload['settings_after_history'] = _settings(R)
        if key not in KNOWN_SITE_KEYS:
            text = '[history interleaved-queries: the same %d point pairs asked after every step: %s] %s' % (
                len(P), ' ; '.join(steps[1:])[:900], text)
        findings.append((key, text, payload))


# --------------------------------------------------------------------------
# one unit of work (picklable: runs in a worker process)
# --------------------------------------------------------------------------

def _raised_in_repo(e):
    import os
    import traceback
    repo = os.path.realpath(common.REPO) + os.sep
    fr = traceback.extract_tb(e.__traceback__)
    return bool(fr) and os.path.realpath(fr[-1].filename).startswith(repo)


def _raised_under_repo(e):
    """The exception came out of the code under test: some frame is /repo code and nothing below the
    last such frame is harness code (an exception the harness raises inside a callback, e.g. the
    scripted generator running out of script, is not the code's)."""
    import os
    import traceback
    repo = os.path.realpath(common.REPO) + os.sep
    here = os.path.dirname(os.path.realpath(__file__)) + os.sep
    fr = [os.path.realpath(f_.filename) for f_ in traceback.extract_tb(e.__traceback__)]
    idx = [i for i, f_ in enumerate(fr) if f_.startswith(repo)]
    return bool(idx) and not any(f_.startswith(here) for f_ in fr[idx[-1] + 1:])


def run_unit(unit):
    """unit = dict(kind=..., family=..., seed=..., N=..., ...) -> (findings, stats)"""
    numpy.seterr(all='ignore')
    import warnings
    warnings.filterwarnings('ignore')
    findings, stats = [], {}
    rng = random.Random(unit['seed'])
    fam = unit['family']
    try:
        with scripted():
            if unit['kind'] == 'birth':
                b0 = make_birth(fam, rng, unit['nparams'])
                birth_law(fam, b0, unit['N'], findings, stats)
                birth_history(fam, b0, rng, findings, stats)
            elif unit['kind'] == 'beigen-probe':
                beigen_probes(fam, unit['N'], findings, stats)
            elif unit['kind'] == 'adaptive-history':
                history_with_adaptation(fam, unit['seed'], unit['pattern'], unit['nparams'], findings, stats)
            elif unit['kind'] == 'settings-history':
                if unit['hist'] == 'interleaved-queries':
                    interleaved_unit(unit, findings, stats)
                else:
                    settings_history_unit(unit, findings, stats)
            else:
                p0, names, doms, kind = build(fam, rng, unit['nparams'], unit.get('adapt_steps', 0),
                                              unit.get('pattern', 'AR'), unit.get('successive'),
                                              seed=unit['seed'] % 997 + 5, same_bounds=unit.get('same_bounds', False),
                                              offset=unit.get('offset', 0.0), conv=unit.get('conv'))
                x = point(kind, doms, names, rng, unit.get('where', 'inside'))
                if fam in PERPARAM:
                    cx = perparam_law(fam, p0, x, unit['N'], findings, stats, {'which': 0})
                    y = point(kind, doms, names, rng)
                    cy = perparam_law(fam, p0, y, unit['N'], findings, stats, {'which': 1}) if y != x else None
                    normaliser_check(fam, p0, [(x, cx), (y, cy)], findings, stats)
                    pool = query_pool(fam, p0, rng)
                    symmetric_reported(fam, p0, [(x, y)] + [(q[1], q[0]) for q in pool], findings, stats)
                    if unit.get('history', True):
                        history_independence(fam, p0, pool, findings, stats, unit.get('maxlen', 3))
                    if fam in DISCRETE and len(names) == 1 and y != x:
                        symmetric_measured_int(fam, p0, x, y, min(unit['N'], 20000), findings, stats)
                elif fam in EIGEN:
                    onb = unit.get('where', 'inside') != 'inside' and 'bounded' in fam
                    cells, per = unit.get('nodes', (32, 16))
                    cs = eigen_law(fam, p0, x, unit['N'], findings, stats, every=unit.get('every', 40),
                                   on_boundary=onb, cells=cells, per=per)
                    y = point(kind, doms, names, rng)
                    cs2 = eigen_law(fam, p0, y, unit['N'], findings, stats, every=unit.get('every', 40),
                                    cells=cells, per=per, which=1)
                    eigen_normalisers(fam, p0, x, y, cs, cs2, findings, stats)
                elif fam in SPHERE:
                    if unit.get('where') == 'lower':                     # next to the pole
                        x = {names[0]: x[names[0]], names[1]: from_cart(p0, numpy.array([math.sin(1e-3), 0.0,
                                                                                         math.cos(1e-3)]))[1]}
                    cx = sphere_law(fam, p0, x, unit['m'], findings, stats)
                    y = point(kind, doms, names, rng)
                    cy = sphere_law(fam, p0, y, unit['m'], findings, stats, which=1)
                    normaliser_check(fam, p0, [(x, cx), (y, cy)], findings, stats)
                    symmetric_reported(fam, p0, [(x, y)], findings, stats)
                    history_independence(fam, p0, [(y, x), (x, y), (x, x)], findings, stats, 3)
    except (Runaway, KeyError) as e:
        stats['machinery_trouble'] = stats.get('machinery_trouble', 0) + 1
        stats.setdefault('trouble', []).append('%s %r: %r' % (fam, unit, e))
    except Exception as e:
        if isinstance(e, ValueError) and 'NaN acceptance' in str(e):
            pass
        elif unit.get('kind') == 'settings-history':
            # a history the unchanged code goes through could not be driven (the real code raised on a
            # public call, or the object is not built the way this harness reads it): not a crash of
            # the check; props/C02.py reports units that could not be driven
            import traceback
            fr = traceback.extract_tb(e.__traceback__)[-1]
            stats['machinery_trouble'] = stats.get('machinery_trouble', 0) + 1
            stats.setdefault('trouble', []).append('%s history %s (unit seed %d): %r at %s:%d in %s' % (
                fam, unit.get('hist'), unit['seed'], e, fr.filename, fr.lineno, fr.name))
            stats['units'] = 1
            stats['family:' + fam] = 1
            for k_ in ('_strict', '_pending', '_disp', '_az'):
                stats.pop(k_, None)
            return findings, stats
        elif isinstance(e, (AttributeError, TypeError, IndexError, AssertionError)) and not _raised_in_repo(e):
            # the harness itself could not read the object (a private attribute it looks at was renamed,
            # a value has another shape): the unit was not driven; reported by props/C02.py as machinery
            # that no longer checks, not as a crash of the check.  Exceptions raised inside the code under
            # test keep propagating (run_check.py reports them).
            import traceback
            fr = traceback.extract_tb(e.__traceback__)[-1]
            stats['machinery_trouble'] = stats.get('machinery_trouble', 0) + 1
            stats.setdefault('trouble', []).append('%s unit %r: %r at %s:%d in %s' % (
                fam, {k_: unit[k_] for k_ in ('kind', 'seed', 'N') if k_ in unit}, e, fr.filename, fr.lineno, fr.name))
            for k_ in ('_strict', '_pending', '_disp', '_az'):
                stats.pop(k_, None)
            stats['units'] = 1
            stats['family:' + fam] = 1
            return findings, stats
        elif _raised_under_repo(e):
            # the code under test raised on a legal public call of this unit (construction with legal
            # settings, jump / birth from a legal point, a density query): a failing input -- kept with
            # whatever the unit had found before (a worker process would lose the /repo frames otherwise)
            import traceback
            fr = [f_ for f_ in traceback.extract_tb(e.__traceback__)][-1]
            findings.append(('%s:real-code-raised:%s' % (fam, type(e).__name__),
                             '%s: the code under test raised %r at %s:%d in %s while unit %r was exercising it' % (
                                 fam, e, fr.filename.split('/')[-1], fr.lineno, fr.name,
                                 {k_: unit[k_] for k_ in ('kind', 'seed', 'N', 'nparams') if k_ in unit}),
                             dict(kind='real-code-raised', family=fam, unit={k_: v_ for k_, v_ in unit.items()},
                                  traceback=traceback.format_exception(type(e), e, e.__traceback__)[-6:])))
            for k_ in ('_strict', '_pending', '_disp', '_az'):
                stats.pop(k_, None)
            stats['units'] = 1
            stats['family:' + fam] = 1
            return findings, stats
        else:
            raise
        if 'NaN acceptance' in str(e):
            # a real chain died because a reported density was NaN at a point its own jump produced
            findings.append(('%s:nan-acceptance' % fam,
                             '%s: a real chain (forced history %s) raised "NaN acceptance!": the reported density of a '
                             'proposed jump is NaN' % (fam, unit.get('pattern')),
                             dict(kind='nan-acceptance', family=fam, error=str(e)[:600])))
        else:
            raise
    resolve_symmetric(fam, findings, stats)
    stats['units'] = 1
    stats['family:' + fam] = 1
    return findings, stats


def plan_units(seed, tier, full=False):
    """The list of work units of a tier (deterministic in `seed`)."""
    rng = random.Random(seed * 1000003 + 17)
    units = []
    quick = tier == 'quick' and not full
    bigN, smallN = (20000, 2500) if quick else (20000, 20000)
    nbig, nsmall = (3, 6) if quick else (0, 30)
    hugeN, nhuge = (0, 0) if quick else (1000000, 2)
    wheres = ['inside', 'lower', 'upper', 'inside']
    for fam in sorted(F.FAMILIES):
        cls, kind, lo, hi = F.FAMILIES[fam]
        adaptive = fam in F.ADAPTIVE
        cfgs = [(bigN, j) for j in range(nbig)] + [(smallN, j + nbig) for j in range(nsmall)] \
            + [(hugeN, j + nbig + nsmall) for j in range(nhuge)]
        if fam in EIGEN and 'bounded' in fam:         # 0.15 ms per draw (numpy.isclose in __contains__)
            cfgs = cfgs[:4] if quick else cfgs[:14] + cfgs[-1:]
        for N, j in cfgs:
            u = dict(kind='proposal', family=fam, seed=rng.randrange(1 << 30), N=N,
                     nparams=lo + (j % (hi - lo + 1)), where=wheres[j % 4])
            if adaptive:
                u['adapt_steps'] = [0, 3, 7, 12, 5][j % 5]
                u['pattern'] = ['AR', 'A', 'R', 'AAR', 'RRA'][j % 5]
            if kind in ('int', 'intbox'):
                u['successive'] = [None, 'off', None][j % 3]
            if kind == 'intbox' and j % 3 == 1:
                u['same_bounds'] = True
                u['nparams'] = hi
                u['adapt_steps'] = 0
            if fam in EIGEN:
                u['N'] = min(N, 200000) if N >= 20000 else N
                u['every'] = 40 if N >= 20000 else 10
                if 'bounded' in fam:
                    u['N'] = min(u['N'], (3000 if j < 2 else 1500) if quick else 60000)
                    u['every'] = 15 if quick else 60
                    u['nodes'] = (16, 8) if quick else (32, 16)
            if fam in SPHERE:
                u['conv'] = list(CONVENTIONS[(j + seed) % 4])     # (radec, degs): all four, whatever the seed
                u['m'] = 14 if N <= 20000 else 18
                if N < 20000:
                    u['m'] = 11
            if N >= 1000000:
                u['history'] = False
            units.append(u)
        if fam in EIGEN and 'bounded' in fam:
            units.append(dict(kind='beigen-probe', family=fam, seed=1, N=3000 if quick else 20000))
        if kind == 'box':
            # bounds far from the origin: absolute width of any relative tolerance grows with |bound|
            u = dict(kind='proposal', family=fam, seed=rng.randrange(1 << 30), N=bigN if fam not in EIGEN else 3000,
                     nparams=hi if fam in EIGEN else lo, where='inside', offset=1000.0, adapt_steps=0)
            if fam in EIGEN:
                u['every'], u['nodes'] = 15, (16, 8)
            units.append(u)
        if adaptive and fam not in EIGEN and fam not in SPHERE:
            for j in range(2 if quick else 12):
                units.append(dict(kind='adaptive-history', family=fam, seed=rng.randrange(1 << 30),
                                  pattern=['AR', 'AAR', 'A', 'RA'][j % 4], nparams=hi, N=0))
    for name in ('uniform_birth', 'normal_birth', 'log_normal_birth'):
        for j in range(3 if quick else 24):
            units.append(dict(kind='birth', family=name, seed=rng.randrange(1 << 30),
                              N=bigN if j < 2 or not quick else smallN, nparams=1 + j % 3))
        if not quick:
            units.append(dict(kind='birth', family=name, seed=rng.randrange(1 << 30), N=1000000, nparams=1))
    units.extend(plan_history_units(seed, quick))
    return units


def plan_history_units(seed, quick):
    """Settings histories (own random stream: the units above keep their seeds): every history kind
    that exists for a family, once in the quick tier, four times with the full grid otherwise."""
    rng = random.Random(seed * 1000003 + 29)
    units = []
    for fi, fam in enumerate(sorted(F.FAMILIES)):
        cls, kind, lo, hi = F.FAMILIES[fam]
        for hi_, hist in enumerate(history_kinds(fam)):
            for rep in range(1 if quick else 4):
                u = dict(kind='settings-history', family=fam, hist=hist, seed=rng.randrange(1 << 30),
                         N=800 if quick else 20000, nparams=lo + ((fi + hi_ + rep + seed) % (hi - lo + 1)),
                         nodes=(16, 8) if quick else (32, 16))
                if fam in EIGEN:
                    u['every'] = 15 if quick else 40
                    u['enodes'] = (16, 8) if quick else (32, 16)
                    if 'bounded' in fam:           # 0.15 ms per draw (numpy.isclose in __contains__)
                        u['N'] = 800 if quick else 6000
                        u['enodes'] = (8, 8) if quick else (16, 8)
                        u['every'] = 15 if quick else 60
                    u['two_points'] = not quick
                if fam in SPHERE:
                    u['m'] = 10 if quick else 14
                    u['caps'] = (6, 2) if quick else (10, 4)
                    u['conv'] = list(CONVENTIONS[(hi_ + rep + seed) % 4])   # (radec, degs): the kinds go round
                units.append(u)
    return units


def start_units(units, workers=16):
    """Start the units on a process pool; returns a handle for `finish_units`."""
    import multiprocessing as mp
    order = sorted(range(len(units)), key=lambda k: -units[k].get('N', 0) * (8 if 'bounded_eig' in units[k]['family'] else 1))
    ordered = [units[k] for k in order]
    if workers <= 1 or len(units) < 4:
        return ordered, None, None
    ctx = mp.get_context('fork')
    pool = ctx.Pool(min(workers, len(units)))
    return ordered, pool, pool.map_async(run_unit, ordered, chunksize=1)


def finish_units(handle):
    """Collect: (findings, aggregated stats)."""
    ordered, pool, res = handle
    if pool is None:
        results = [run_unit(u) for u in ordered]
    else:
        try:
            results = res.get()
        finally:
            pool.close()
            pool.join()
    findings, agg = [], {}
    for u, (f, st) in zip(ordered, results):
        for key, text, payload in f:
            payload = dict(payload)
            payload['unit'] = u
            findings.append((key, text, payload))
        for k, v in st.items():
            if isinstance(v, list):
                agg.setdefault(k, []).extend(v)
            else:
                agg[k] = agg.get(k, 0) + v
    return findings, agg


def run_units(units, workers=16):
    return finish_units(start_units(units, workers))


def replay_unit(unit):
    f, st = run_unit(unit)
    return f, st
