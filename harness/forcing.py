"""Forced acceptance histories on real chains: a model whose prior decides the
outcome of every step in advance (independent of the random stream)."""
import random

import numpy

import families as F
from epsie.chain import Chain


class ForcedModel:
    """logp = -inf on steps that must be rejected; strictly increasing logl on
    steps that must be accepted (so `logar > 0`, no uniform is drawn).

    pattern: string over {'A','R'} repeated cyclically, or a callable step -> bool.
    """

    def __init__(self, pattern='A', hastings_margin=1e6):
        self.pattern = pattern
        self.n = 0          # number of calls so far (call 0 = start position)
        self.margin = hastings_margin

    def outcome(self, step):
        if callable(self.pattern):
            return self.pattern(step)
        return self.pattern[step % len(self.pattern)] == 'A'

    def __call__(self, **kw):
        k = self.n
        self.n += 1
        if k == 0:
            return 0.0, 0.0
        if self.outcome(k - 1):
            return self.margin * k, 0.0
        return 0.0, -numpy.inf


def make_chain(family, rng=None, pattern='A', nparams=None, window=8, start_step=1,
               jump_interval=1, beta=1.0, seed=11):
    """A real one-proposal Chain of the given family under a forced history."""
    rng = rng or random.Random(5)
    cls, kind, lo, hi = F.FAMILIES[family]
    n = nparams or lo
    names = ['x%d' % i for i in range(n)]
    doms = {p: F.domain_for(kind, rng, i) for i, p in enumerate(names)}
    prop = F.make(family, names, doms, rng, window=window, start_step=start_step,
                  jump_interval=jump_interval)
    model = ForcedModel(pattern)
    ch = Chain(names, model, [prop], bit_generator=seed, beta=beta)
    start = {}
    for i, p in enumerate(names):
        k = kind
        which = 0
        if kind == 'sphere':
            which = i
        v = F.start_value(k, doms[p], rng, which)
        start[p] = v
    ch.start_position = start
    return ch, prop, model
