#!/venv/bin/python
"""gen_source.py -- translator: Python AST of selected epsie methods  ->  Lean 4 definitions.

Run at the start of every check (common.GENERATORS).  For each *kernel* listed in KERNELS it parses
the method's source in /repo's CURRENT working tree (ast, no import), translates its statements into a
Lean term over `EpsieModel/SrcPrelude.lean`, and writes all of them to
`lean/EpsieModel/Generated/Source.lean`.  The hand-written modules `EpsieProps/CxxSource.lean` prove,
for ALL arguments, that each generated definition equals the corresponding definition of the
hand-written model (about which the property theorems are proved).  A change to the code of a kernel
therefore changes the generated definition and the tie theorem is re-checked against what the code says
now; if it no longer checks, the check goes to the failing-input search (DESIGN.md section 11).

The translated subset: integer / rational arithmetic, comparisons (chained), and/or/not, conditional
expressions, local assignment, augmented assignment, item assignment on lists, if/elif/else with early
returns (the continuation is copied into the branches), `for v in range(a, b[, -1])` loops (loop-carried
variables become a tuple folded over the range), `try: ... except AttributeError: ...` around ONE
optional attribute (an `Option` parameter), `return`.  Everything else the kernel mentions must be named
in its `bind` table (attribute reads, oracle calls) and is a parameter of the Lean definition; a
construct that is neither raises `Unsupported`, which is written into the generated file as
`def <kernel>_untranslatable : String := "..."` in place of the definition, so that the tie theorem of
that kernel stops compiling (a broken obligation, never a silent pass).
"""
import ast
import hashlib
import os
import sys
from fractions import Fraction

HERE = os.path.dirname(os.path.abspath(__file__))
VERIF = os.path.dirname(HERE)
REPO = os.environ.get('EPSIE_REPO', '/repo')
LEAN_DIR = os.environ.get('EPSIE_LEAN_DIR', os.path.join(VERIF, 'lean'))
OUT = os.path.join(LEAN_DIR, 'EpsieModel', 'Generated', 'Source.lean')

LEAN_KEYWORDS = {'at', 'from', 'end', 'in', 'do', 'then', 'else', 'fun', 'let', 'have', 'show', 'open',
                 'section', 'namespace', 'def', 'theorem', 'if', 'match', 'with', 'where', 'by', 'Type',
                 'instance', 'structure', 'class', 'mutual', 'local', 'prefix', 'infix', 'notation',
                 'universe', 'variable', 'import', 'export', 'private', 'protected', 'partial', 'unsafe',
                 'return', 'for', 'try', 'catch', 'finally', 'mut', 'unless', 'break', 'continue', 'macro',
                 'syntax', 'deriving', 'extends', 'using', 'calc', 'this', 'set', 'get'}


class Unsupported(Exception):
    pass


ALIASES = [('self.jump_interval', 'self._jump_interval'),
           ('self.jump_interval_duration', 'self._jump_interval_duration'),
           ('self.iteration', 'self._iteration'), ('self.lastclear', 'self._lastclear'),
           ('self.hasblobs', 'self._hasblobs'), ('self.scratchlen', 'self._scratchlen'),
           ('self.betas', 'self._betas'), ('chain.betas', 'chain._betas')]


def lname(n):
    return n + '_' if n in LEAN_KEYWORDS else n


def src(node):
    return ast.unparse(node)


class Tr:
    def __init__(self, spec):
        self.spec = spec
        self.bind = dict(spec.get('bind', {}))
        self.types = dict(spec.get('types', {}))
        for p, t in spec['params']:
            self.types.setdefault(p, t)
        # a public read-only property and the private attribute it returns are the same value: a rewrite
        # from one to the other must not make a kernel untranslatable
        for a, b in ALIASES:
            if a in self.bind and b not in self.bind:
                self.bind[b] = self.bind[a]
            elif b in self.bind and a not in self.bind:
                self.bind[a] = self.bind[b]
        self.opt = spec.get('opt', {})
        self.assume_false = set(spec.get('assume_false', []))
        self.effects = spec.get('effects', {})
        self.skip = set(spec.get('skip', []))
        self.lists = set(spec.get('lists', []))
        self.notes = []
        self.loopn = 0
        self.maskvars = {}
        self.unpack_alias = {}
        import re as _re
        self.defined = set(p for p, _ in spec['params']) | set(_re.findall(r'let (\w+)', spec.get('prelude', '')))

    # ---------------------------------------------------------------- expressions
    def ty(self, node):
        """Best-effort type of a Python expression (only used to pick AR operations)."""
        s = src(node)
        if s in self.bind and self.bind[s] in self.types:
            return self.types[self.bind[s]]
        if isinstance(node, ast.Name):
            return self.types.get(lname(node.id))
        if isinstance(node, ast.Call) and src(node.func) == 'numpy.exp':
            return self.spec.get('exp_ty', 'AR' if 'exp_fn' not in self.spec else 'Rat')
        if isinstance(node, ast.Subscript):
            t = self.ty(node.value)
            if t and t.startswith('List '):
                return t[5:]
        return None

    def expr(self, node, want=None):
        s = src(node)
        if s in self.bind:
            return '(' + self.bind[s] + ')' if ' ' in self.bind[s] else self.bind[s]
        if isinstance(node, ast.Constant):
            v = node.value
            if v is None:
                return 'none'
            if v is True:
                return 'true'
            if v is False:
                return 'false'
            if isinstance(v, int):
                return str(v) if v >= 0 else '(%d)' % v
            if isinstance(v, float):
                if want in ('AR', 'ARX'):
                    if v == 1.0:
                        return want + '.one'
                    if v == 0.0:
                        return want + '.zero'
                    raise Unsupported('float literal %r as an acceptance probability' % v)
                f = Fraction(v)
                if f.denominator == 1:
                    return '(%d : Rat)' % f.numerator
                return '((%d : Rat) / %d)' % (f.numerator, f.denominator)
            raise Unsupported('constant %r' % (v,))
        if isinstance(node, ast.Name):
            return lname(node.id)
        if isinstance(node, ast.Tuple):
            return '(' + ', '.join(self.expr(e) for e in node.elts) + ')'
        if isinstance(node, ast.UnaryOp):
            if isinstance(node.op, ast.USub):
                return '(-' + self.expr(node.operand) + ')'
            if isinstance(node.op, ast.Not):
                return '(!' + self.expr(node.operand) + ')'
            raise Unsupported('unary ' + s)
        if isinstance(node, ast.BinOp):
            a, b = self.expr(node.left), self.expr(node.right)
            op = node.op
            if isinstance(op, ast.Add):
                return '(%s + %s)' % (a, b)
            if isinstance(op, ast.Sub):
                return '(%s - %s)' % (a, b)
            if isinstance(op, ast.Mult):
                return '(%s * %s)' % (a, b)
            if isinstance(op, ast.FloorDiv):
                return '(Src.fdiv %s %s)' % (a, b)
            if isinstance(op, ast.Mod):
                return '(Src.pmod %s %s)' % (a, b)
            if isinstance(op, ast.Div):
                return '((%s : Rat) / (%s : Rat))' % (a, b)
            if isinstance(op, ast.Pow) and src(node.right) == '2':
                return '(%s * %s)' % (a, a)
            raise Unsupported('binary operator in ' + s)
        if isinstance(node, ast.BoolOp):
            j = ' && ' if isinstance(node.op, ast.And) else ' || '
            return '(' + j.join(self.expr(v) for v in node.values) + ')'
        if isinstance(node, ast.Compare):
            parts = []
            left = node.left
            for op, right in zip(node.ops, node.comparators):
                parts.append(self.compare(left, op, right))
                left = right
            return parts[0] if len(parts) == 1 else '(' + ' && '.join(parts) + ')'
        if isinstance(node, ast.IfExp):
            return '(if %s then %s else %s)' % (self.expr(node.test), self.expr(node.body, want),
                                                self.expr(node.orelse, want))
        if isinstance(node, ast.Subscript) and src(node.slice) == '0' and isinstance(node.value, ast.Call) \
                and src(node.value.func) == 'numpy.where' and len(node.value.args) == 1 and self.spec.get('masked_loops'):
            # numpy.where(<mask>)[0]: the indices at which the mask holds, in increasing order
            jv = 'jw'
            return '((Src.rangeUp 0 %s).filter (fun %s => %s))' % (self.spec['masked_loops']['count'], jv,
                                                                   self.mask_expr(node.value.args[0], jv))
        if isinstance(node, ast.Subscript):
            base = node.value
            if isinstance(node.slice, ast.Slice):
                raise Unsupported('slice ' + s)
            if self.ty(node.slice) == 'Bool':
                # boolean-mask read of a componentwise (scalar-modelled) array: the masked component
                return self.expr(base)
            return '(Src.get %s %s)' % (self.expr(base), self.expr(node.slice))
        if isinstance(node, ast.Dict):
            # a dictionary with literal keys: the tuple of its values, in key order
            if not all(isinstance(kx, ast.Constant) and isinstance(kx.value, str) for kx in node.keys):
                raise Unsupported('dictionary ' + s)
            note = 'dictionary %s as the tuple of its values' % [kx.value for kx in node.keys]
            if note not in self.notes:
                self.notes.append(note)
            return '(' + ', '.join(self.expr(v) for v in node.values) + ')'
        if isinstance(node, ast.ListComp):
            if len(node.generators) != 1 or node.generators[0].ifs or not isinstance(node.generators[0].target, ast.Name):
                raise Unsupported('comprehension ' + s)
            g = node.generators[0]
            return '(List.map (fun %s => %s) %s)' % (lname(g.target.id), self.expr(node.elt), self.expr(g.iter))
        if isinstance(node, ast.Call) and src(node.func) in self.spec.get('fbind', {}):
            if node.keywords:
                raise Unsupported('keyword arguments in ' + s)
            return '(%s %s)' % (self.spec['fbind'][src(node.func)], ' '.join(self.expr(a) for a in node.args))
        if isinstance(node, ast.Call):
            f = src(node.func)
            args = node.args
            if f == 'numpy.exp' and len(args) == 1:
                return '(%s %s)' % (self.spec.get('exp_fn', 'AR.exp'), self.expr(args[0]))
            if f == 'int' and len(args) == 1 and self.ty(args[0]) == 'Bool':
                return '(if %s then 1 else 0)' % self.expr(args[0])
            if f == 'numpy.diff' and len(args) == 1:
                return '(%s %s)' % (self.spec.get('diff_fn', 'Src.diff'), self.expr(args[0]))
            if f == 'numpy.arange' and len(args) == 1:
                return '(Src.arange %s)' % self.expr(args[0])
            if f == 'numpy.zeros' and len(args) == 1 and want == 'List AR':
                return '(Src.zerosAR %s)' % self.expr(args[0])
            if f == 'numpy.zeros' and len(args) == 1 and want == 'List ARX':
                return '(Src.zerosARX %s)' % self.expr(args[0])
            if f in ('int',) and len(args) == 1:
                return self.expr(args[0])
            if f == 'abs' and len(args) == 1:
                return '(Int.natAbs %s : Int)' % self.expr(args[0])
            if f == 'max' and len(args) == 2:
                return '(max %s %s)' % (self.expr(args[0]), self.expr(args[1]))
            if f == 'min' and len(args) == 2:
                return '(min %s %s)' % (self.expr(args[0]), self.expr(args[1]))
            if f.endswith('.copy') and not args:
                return self.expr(node.func.value)
            raise Unsupported('call ' + s)
        raise Unsupported('expression ' + s)

    def _assign_chain(self, st):
        """[(test, assignment)] if `st` is an if/elif chain (at least one elif, no final else) whose bodies
        are single assignments to one and the same plain name; else None."""
        chain = []
        node = st
        while True:
            if not (len(node.body) == 1 and isinstance(node.body[0], ast.Assign) and len(node.body[0].targets) == 1
                    and isinstance(node.body[0].targets[0], ast.Name)):
                return None
            if src(node.body[0]) in self.effects or (isinstance(node.body[0].value, ast.Call) and
                                                     src(node.body[0].value.func).startswith('numpy.logical_')):
                return None
            chain.append((node.test, node.body[0]))
            if not node.orelse:
                break
            if len(node.orelse) == 1 and isinstance(node.orelse[0], ast.If):
                node = node.orelse[0]
            else:
                return None
        if len(chain) < 2 or len({c[1].targets[0].id for c in chain}) != 1:
            return None
        return chain

    def mask_expr(self, node, jv):
        f = src(node.func) if isinstance(node, ast.Call) else None
        if f == 'numpy.logical_and' and len(node.args) == 2:
            return '(%s && %s)' % (self.mask_expr(node.args[0], jv), self.mask_expr(node.args[1], jv))
        if f == 'numpy.logical_not' and len(node.args) == 1:
            return '(!%s)' % self.mask_expr(node.args[0], jv)
        if isinstance(node, ast.Name) and node.id in self.maskvars:
            return self.mask_expr(self.maskvars[node.id], jv)
        if isinstance(node, ast.Name):
            return '(Src.get %s %s)' % (self.expr(node), jv)
        raise Unsupported('mask expression ' + src(node))

    def compare(self, left, op, right):
        if self.ty(right) == 'AR' and isinstance(op, ast.LtE):
            return '(Src.uLe %s %s)' % (self.expr(left), self.expr(right))
        if self.ty(right) == 'ARX' and isinstance(op, ast.LtE):
            return '(ARX.uLe %s %s)' % (self.expr(left), self.expr(right))
        a, b = self.expr(left), self.expr(right)
        sym = {ast.Eq: '=', ast.NotEq: '≠', ast.Lt: '<', ast.LtE: '≤', ast.Gt: '>', ast.GtE: '≥'}.get(type(op))
        if sym is None:
            raise Unsupported('comparison ' + src(left) + ' ? ' + src(right))
        return '(decide (%s %s %s))' % (a, sym, b)

    # ---------------------------------------------------------------- statements
    def assigned(self, stmts):
        """Names (Lean) assigned anywhere in a statement list."""
        out = []

        def add(n):
            if n not in out:
                out.append(n)

        def target(t):
            st = src(t)
            wl = self.spec.get('writelogs', {})
            if st in wl:
                add(wl[st][0])
            elif isinstance(t, ast.Subscript) and src(t.value) in wl:
                add(wl[src(t.value)][0])
            elif st in self.bind:
                add(self.bind[st])
            elif isinstance(t, ast.Name):
                add(lname(t.id))
            elif isinstance(t, ast.Subscript):
                target(t.value)
            elif isinstance(t, ast.Tuple):
                for e in t.elts:
                    target(e)
            else:
                raise Unsupported('assignment target ' + st)

        for st in stmts:
            for node in ast.walk(st):
                if isinstance(node, ast.Assign):
                    for t in node.targets:
                        target(t)
                elif isinstance(node, ast.AugAssign):
                    target(node.target)
                elif isinstance(node, ast.Expr) and src(node) in self.effects:
                    add(self.effects[src(node)].split(':=')[0].strip())
                elif isinstance(node, ast.Call) and src(node) in self.spec.get('draws', {}):
                    add(self.spec['draws'][src(node)])
        return out

    def let_target(self, t, val_text, rest, ind):
        st = src(t)
        wl = self.spec.get('writelogs', {})
        if isinstance(t, ast.Subscript) and self.ty(t.slice) == 'List Int' and isinstance(t.value, ast.Name) \
                and val_text == '__FLIP__':
            nm = lname(t.value.id)
            return '%slet %s := Src.flipAt %s %s\n%s' % (ind, nm, nm, self.expr(t.slice), rest)
        if isinstance(t, ast.Subscript) and src(t.value) in wl:
            log, idx = wl[src(t.value)]
            idx = idx.replace('$i', self.expr(t.slice))
            return '%slet %s := Src.wr %s %s %s\n%s' % (ind, log, log, idx, val_text, rest)
        if st in wl:
            log, idx = wl[st]
            return '%slet %s := Src.wr %s %s %s\n%s' % (ind, log, log, idx, val_text, rest)
        if isinstance(t, ast.Tuple) and all(isinstance(e, ast.Name) for e in t.elts):
            return '%slet (%s) := %s\n%s' % (ind, ', '.join(lname(e.id) for e in t.elts), val_text, rest)
        if st in self.bind or isinstance(t, ast.Name):
            nm = self.bind[st] if st in self.bind else lname(t.id)
            ann = ' : ' + self.types[nm] if nm in self.types else ''
            return '%slet %s%s := %s\n%s' % (ind, nm, ann, val_text, rest)
        if isinstance(t, ast.Subscript):
            base = t.value
            bname = self.bind.get(src(base)) or (lname(base.id) if isinstance(base, ast.Name) else None)
            if bname is None:
                raise Unsupported('item assignment to ' + src(base))
            if self.ty(t.slice) == 'Bool':
                # boolean-mask assignment on a componentwise (scalar-modelled) array
                return '%slet %s := if %s then %s else %s\n%s' % (ind, bname, self.expr(t.slice), val_text, bname, rest)
            return '%slet %s := Src.set %s %s %s\n%s' % (ind, bname, bname, self.expr(t.slice), val_text, rest)
        raise Unsupported('assignment target ' + st)

    def with_draws(self, node, ind):
        """Oracle draws inside an expression: returns (prefix lets, substitution) by temporarily
        binding the draw call to the head of its stream."""
        pre = ''
        for call, stream in self.spec.get('draws', {}).items():
            if any(isinstance(n, ast.Call) and src(n) == call for n in ast.walk(node)):
                tmp = 'drawn_%s' % stream
                pre += '%slet %s := Src.draw %s\n%slet %s := %s.tail\n' % (ind, tmp, stream, ind, stream, stream)
                self.bind[call] = tmp
        return pre

    def block(self, stmts, k, ind):
        """Translate a statement list; `k(ind)` yields the text of what follows it."""
        if not stmts:
            return k(ind)
        st, rest = stmts[0], stmts[1:]
        s = src(st)
        nxt = lambda i: self.block(rest, k, i)     # noqa: E731
        if self.spec.get('stop_after') and s.startswith(self.spec['stop_after']):
            nxt = lambda i: k(i)                   # noqa: E731   (the rest of the method is not part of this kernel)
        if self.spec.get('stop_before') and s.startswith(self.spec['stop_before']):
            return k(ind)
        if isinstance(st, ast.Expr) and isinstance(st.value, ast.Constant) and isinstance(st.value.value, str):
            return nxt(ind)
        if any(s == k or (k.endswith('...') and s.startswith(k[:-3])) for k in self.skip):
            note = 'statement not modelled: ' + s.split('\n')[0]
            if note not in self.notes:
                self.notes.append(note)
            return nxt(ind)
        if s in self.spec.get('pre_effects', {}) and not getattr(st, '_pre_done', False):
            st._pre_done = True
            try:
                return '%slet %s\n%s' % (ind, self.spec['pre_effects'][s], self.block(stmts, k, ind))
            finally:
                st._pre_done = False
        ebv = self.spec.get('effects_by_value', {})
        if isinstance(st, ast.Assign) and len(st.targets) == 1 and isinstance(st.targets[0], ast.Name) \
                and src(st.value) in ebv:
            # `<any local> = <oracle call>`: the effect is recorded, the local's name is free
            eff, alias = ebv[src(st.value)]
            self.unpack_alias[st.targets[0].id] = alias
            return '%slet %s\n%s' % (ind, eff, nxt(ind))
        ebc = self.spec.get('effects_by_callee', {})
        if isinstance(st, ast.Expr) and isinstance(st.value, ast.Call) and src(st.value.func) in ebc \
                and len(st.value.args) == 1 and not st.value.keywords:
            # `<callee>(<arg>)` as a statement: the effect is recorded with the translated argument
            return '%slet %s\n%s' % (ind, ebc[src(st.value.func)].replace('$0', self.expr(st.value.args[0])), nxt(ind))
        if isinstance(st, (ast.Expr, ast.Assign)) and s in self.effects:
            return '%slet %s\n%s' % (ind, self.effects[s], nxt(ind))
        if isinstance(st, (ast.Assign, ast.AugAssign)):
            self.defined.update(self.assigned([st]))
        if isinstance(st, ast.If) and self.spec.get('join_ifs') and self._assign_chain(st):
            # `if c1: x = e1 / elif c2: x = e2` (no final else): one conditional definition of `x`; where no
            # condition holds Python leaves `x` undefined (a NameError if it is used), here it is `default`
            chain = self._assign_chain(st)
            nm = lname(chain[0][1].targets[0].id)
            text = 'default'
            for test, asg in reversed(chain):
                text = 'if %s then %s else %s' % (self.expr(test), self.expr(asg.value, self.types.get(nm)), text)
            ann = ' : ' + self.types[nm] if nm in self.types else ''
            self.defined.add(nm)
            return '%slet %s%s := %s\n%s' % (ind, nm, ann, text, nxt(ind))
        if isinstance(st, ast.If) and not st.orelse and self.spec.get('join_ifs') and src(st.test) not in self.assume_false and all(
                (isinstance(b, ast.Assign) and len(b.targets) == 1) or
                (isinstance(b, ast.Expr) and src(b) in self.effects) for b in st.body):
            # `if c: x = e` without an else: `x := if c then e else <x as it was | default>`
            cond = self.expr(st.test)
            out = ''
            for b in st.body:
                if isinstance(b, ast.Expr):
                    nm, val = [x.strip() for x in self.effects[src(b)].split(':=', 1)]
                    out += '%slet %s := if %s then %s else %s\n' % (ind, nm, cond, val, nm)
                    continue
                names = self.assigned([b])
                if len(names) != 1:
                    raise Unsupported('conditional assignment ' + src(b))
                nm = names[0]
                prev = nm if nm in self.defined else 'default'
                inner = self.let_target(b.targets[0], self.expr(b.value), '', '').strip()
                # inner is `let nm := value`
                val = inner.split(':=', 1)[1].strip()
                out += '%slet %s := if %s then %s else %s\n' % (ind, nm, cond, val, prev)
                self.defined.add(nm)
            return out + nxt(ind)
        if isinstance(st, ast.Return):
            if st.value is None or (self.spec.get('return_self') and src(st.value) == 'self'):
                return k(ind)
            if self.spec.get('ret_override'):
                return ind + self.spec['ret_override'] + '\n'
            pre = self.with_draws(st.value, ind)
            rw = self.spec.get('ret_wants')
            if rw and isinstance(st.value, ast.Tuple) and len(st.value.elts) == len(rw):
                val = '(' + ', '.join(self.expr(e, w) for e, w in zip(st.value.elts, rw)) + ')'
            else:
                val = self.expr(st.value, self.spec.get('ret_want'))
            extra = self.spec.get('ret_extra')
            if extra:
                val = '(%s, %s)' % (val, extra)
            return pre + ind + val + '\n'
        if isinstance(st, ast.Assign) and len(st.targets) == 1 and isinstance(st.targets[0], ast.Name) \
                and self.spec.get('masked_loops') and isinstance(st.value, ast.Call) \
                and src(st.value.func) in ('numpy.logical_and', 'numpy.logical_not'):
            # a boolean mask over the components: kept symbolic, read per component in the masked loops
            self.maskvars[st.targets[0].id] = st.value
            return nxt(ind)
        if isinstance(st, ast.Assign) and len(st.targets) == 1 and isinstance(st.targets[0], ast.Subscript) \
                and src(st.value) == 'numpy.logical_not(%s)' % src(st.targets[0]) and self.ty(st.targets[0].slice) == 'List Int':
            return self.let_target(st.targets[0], '__FLIP__', nxt(ind), ind)
        if isinstance(st, ast.Assign) and len(st.targets) == 1:
            t = st.targets[0]
            pre = self.with_draws(st.value, ind)
            tn = self.bind.get(src(t)) or (lname(t.id) if isinstance(t, ast.Name) else None)
            want = self.types.get(tn) if tn else None
            if isinstance(t, ast.Subscript):
                bt = self.ty(t.value)
                want = bt[5:] if bt and bt.startswith('List ') else None
            up = self.spec.get('unpack', {}).get(self.unpack_alias.get(src(st.value), src(st.value)))
            if isinstance(t, ast.Tuple) and up and len(t.elts) in up:
                out = nxt(ind)
                for te, nm in reversed(list(zip(t.elts, up[len(t.elts)]))):
                    out = self.let_target(te, nm, out, ind)
                return out
            if isinstance(t, ast.Tuple) and isinstance(st.value, ast.Tuple) and len(t.elts) == len(st.value.elts):
                out = nxt(ind)
                for te, ve in reversed(list(zip(t.elts, st.value.elts))):
                    out = self.let_target(te, self.expr(ve), out, ind)
                return pre + out
            return pre + self.let_target(t, self.expr(st.value, want), nxt(ind), ind)
        if isinstance(st, ast.AugAssign):
            pre = self.with_draws(st.value, ind)
            fake = ast.BinOp(left=st.target, op=st.op, right=st.value)
            return pre + self.let_target(st.target, self.expr(fake), nxt(ind), ind)
        if isinstance(st, ast.If):
            c = src(st.test)
            if c in self.assume_false:
                if 'branch assumed not taken: if ' + c not in self.notes:
                    self.notes.append('branch assumed not taken: if ' + c)
                return self.block(list(st.orelse) + rest, k, ind)
            pre = self.with_draws(st.test, ind)
            cond = self.expr(st.test)
            a = self.block(list(st.body) + rest, k, ind + '  ')
            b = self.block(list(st.orelse) + rest, k, ind + '  ')
            return '%s%sif %s then\n%s%selse\n%s' % (pre, ind, cond, a, ind, b)
        if isinstance(st, ast.Try):
            if len(st.handlers) != 1 or src(st.handlers[0].type) != 'AttributeError' or st.orelse or st.finalbody:
                raise Unsupported('try statement ' + s.split('\n')[0])
            used = [a for a in self.opt if any(src(n) == a for b in st.body for n in ast.walk(b))]
            if len(used) != 1:
                raise Unsupported('try/except AttributeError around %d optional attributes' % len(used))
            attr = used[0]
            optname, local = self.opt[attr]
            saved = self.bind.get(attr)
            self.bind[attr] = local
            a = self.block(list(st.body) + rest, k, ind + '    ')
            if saved is None:
                del self.bind[attr]
            else:
                self.bind[attr] = saved
            b = self.block(list(st.handlers[0].body) + rest, k, ind + '    ')
            return '%smatch %s with\n%s| some %s =>\n%s%s| none =>\n%s' % (ind, optname, ind, local, a, ind, b)
        if isinstance(st, ast.For):
            return self.for_loop(st, rest, k, ind)
        if isinstance(st, ast.Raise):
            self.notes.append('raise modelled as unreachable: ' + s.split('\n')[0][:80])
            return ind + self.spec.get('raise_value', 'default') + '\n'
        raise Unsupported('statement ' + s.split('\n')[0])

    def for_loop(self, st, rest, k, ind):
        it = st.iter
        ml = self.spec.get('masked_loops')
        if ml and isinstance(it, ast.Subscript) and src(it.value) == ml['over'] and isinstance(st.target, ast.Name):
            # `for prop in self.proposals[<boolean mask>]:` -- a loop over the component index j with the
            # body guarded by the mask at j; `prop`-expressions are bound per component in `per_item`
            jv = ml['index']
            cond = self.mask_expr(it.slice, jv)
            saved = dict(self.bind)
            for text, lean in ml['per_item'].items():
                self.bind[text.replace('$v', st.target.id)] = lean.replace('$j', jv)
            body_assigned = self.assigned(st.body)
            carried = [c for c in self.spec['carried'] if c in body_assigned]
            if sorted(carried) != sorted(body_assigned):
                raise Unsupported('masked loop assigns %s' % body_assigned)
            tup = '(' + ', '.join(carried) + ')' if len(carried) != 1 else carried[0]
            body = self.block(list(st.body), lambda i: i + tup + '\n', ind + '      ')
            self.bind = saved
            return '%slet %s := Src.forIn (Src.rangeUp 0 %s) %s (fun %s %s =>\n%s    if %s then\n%s%s    else %s\n%s  )\n%s' % (
                ind, tup, ml['count'], tup, jv, tup, ind, cond, body, ind, tup, ind, self.block(rest, k, ind))
        en = self.spec.get('enumerate', {})
        if src(st.target) + ' in ' + src(it) in en:
            # `for (i, obj) in enumerate(<objects>)`: the loop runs over the index; what is done to
            # `obj` is recorded in write logs keyed by the index
            v, n = en[src(st.target) + ' in ' + src(it)]
            fake = ast.parse('for %s in range(%s):\n    pass' % (v, n)).body[0]
            fake.body = st.body
            fake.orelse = st.orelse
            fake._stop_after = bool(self.spec.get('stop_after') and src(st).startswith(self.spec['stop_after']))
            return self.for_loop(fake, rest, k, ind)
        if not (isinstance(it, ast.Call) and src(it.func) == 'range' and isinstance(st.target, ast.Name)):
            raise Unsupported('loop header ' + src(it))
        a = it.args
        if len(a) == 3 and src(a[2]) == '-1':
            vals = '(Src.rangeDown %s %s)' % (self.expr(a[0]), self.expr(a[1]))
        elif len(a) == 2:
            vals = '(Src.rangeUp %s %s)' % (self.expr(a[0]), self.expr(a[1]))
        elif len(a) == 1:
            vals = '(Src.rangeUp 0 %s)' % self.expr(a[0])
        else:
            raise Unsupported('loop header ' + src(it))
        if st.orelse:
            raise Unsupported('for/else')
        v = lname(st.target.id)
        body_assigned = self.assigned(st.body)
        # loop-carried: assigned in the body and (defined before the loop or needed afterwards);
        # the kernel names them explicitly so that the tuple has a stable order
        carried = [c for c in self.spec['carried'] if c in body_assigned]
        missing = [c for c in body_assigned if c not in self.spec['carried'] and c not in self.spec.get('loop_locals', [])]
        if missing:
            raise Unsupported('loop assigns %s, which the kernel description does not classify' % missing)
        tup = '(' + ', '.join(carried) + ')'
        body = self.block(list(st.body), lambda i: i + tup + '\n', ind + '    ')
        return '%slet %s := Src.forIn %s %s (fun %s %s =>\n%s%s  )\n%s' % (
            ind, tup, vals, tup, v, tup, body, ind, (k(ind) if getattr(st, '_stop_after', False) or (self.spec.get('stop_after') and src(st).startswith(self.spec['stop_after'])) else self.block(rest, k, ind)))


def find_func(tree, cls, func, which=0):
    nodes = tree.body
    if cls:
        cl = [n for n in tree.body if isinstance(n, ast.ClassDef) and n.name == cls]
        if not cl:
            raise Unsupported('class %s not found' % cls)
        nodes = cl[0].body
    fs = [n for n in nodes if isinstance(n, ast.FunctionDef) and n.name == func]
    if len(fs) <= which:
        raise Unsupported('function %s.%s not found' % (cls, func))
    return fs[which]


def translate(spec):
    path = os.path.join(REPO, spec['file'])
    tree = ast.parse(open(path).read())
    fn = find_func(tree, spec.get('cls'), spec['func'], spec.get('which', 0))
    tr = Tr(spec)
    body = list(fn.body)
    if spec.get('start_at'):
        idx = [i for i, s in enumerate(body) if src(s).startswith(spec['start_at'])]
        if not idx:
            raise Unsupported('start marker %r not found' % spec['start_at'])
        body = body[idx[0]:]
    result = spec.get('result')

    def k(ind):
        if result is None:
            raise Unsupported('control reaches the end of %s without a return' % spec['func'])
        return ind + result + '\n'

    text = tr.block(body, k, '  ')
    params = ' '.join('(%s : %s)' % (p, t) for p, t in spec['params'])
    ret = ' : ' + spec['ret'] if spec.get('ret') else ''
    digest = hashlib.sha256(ast.dump(fn).encode()).hexdigest()[:16]
    head = '/-- `%s%s` (%s:%d), AST digest %s.' % (
        (spec.get('cls') + '.') if spec.get('cls') else '', spec['func'], spec['file'], fn.lineno, digest)
    for n in tr.notes:
        head += '\n    NOTE ' + n.replace('-/', '- /')
    head += ' -/'
    return '%s\ndef %s %s%s :=\n%s' % (head, spec['name'], params, ret, text)


# ---------------------------------------------------------------------------------------------
# The kernels.  `bind` maps the source text of a Python sub-expression to the Lean parameter
# (or expression) that stands for it; everything else in the method is translated.
# ---------------------------------------------------------------------------------------------
KERNELS = [
    # --- epsie/proposals/base.py: the jump-interval schedule and the step counter (C15, C13, C05)
    dict(name='nsteps', file='epsie/proposals/base.py', cls='BaseProposal', func='nsteps',
         params=[('raw', 'Int'), ('k', 'Int')], ret='Int',
         bind={'self._nsteps': 'raw', 'self.jump_interval': 'k'}),
    dict(name='callJump', file='epsie/proposals/base.py', cls='BaseProposal', func='_call_jump',
         params=[('raw', 'Int'), ('k', 'Int'), ('dur', 'Int'), ('startStep', 'Option Int')], ret='Bool',
         bind={'self._nsteps': 'raw', 'self.jump_interval': 'k', 'self.jump_interval_duration': 'dur',
               'self.nsteps': 'nsteps raw k'},
         opt={'self.start_step': ('startStep', 'start_step')}),
    dict(name='update', file='epsie/proposals/base.py', cls='BaseProposal', func='update',
         params=[('raw', 'Int'), ('k', 'Int'), ('dur', 'Int'), ('startStep', 'Option Int')],
         ret='Bool × Int',
         bind={'self._nsteps': 'raw', 'self._call_jump()': 'callJump raw k dur startStep'},
         effects={'self._update(chain)': 'updated := true'},
         prelude='let updated := false', result='(updated, raw)'),
    dict(name='jump', file='epsie/proposals/base.py', cls='BaseProposal', func='jump',
         params=[('α', 'Type'), ('raw', 'Int'), ('k', 'Int'), ('dur', 'Int'), ('startStep', 'Option Int'),
                 ('fromx', 'α'), ('jumped', 'α')], ret='α',
         bind={'self._call_jump()': 'callJump raw k dur startStep', 'self._jump(fromx)': 'jumped'}),
    dict(name='logpdf', file='epsie/proposals/base.py', cls='BaseProposal', func='logpdf',
         params=[('raw', 'Int'), ('k', 'Int'), ('dur', 'Int'), ('startStep', 'Option Int'),
                 ('lp', 'Rat')], ret='Rat',
         bind={'self._call_jump()': 'callJump raw k dur startStep', 'self._logpdf(xi, givenx)': 'lp'}),
    # --- adaptation recursions (C13, C14, C19): window guards and the scalar update formulas; numpy arrays
    #     are modelled componentwise (one component shown), decays / exp / sqrt enter as oracle values
    dict(name='veitchUpdate', file='epsie/proposals/normal.py', cls='AdaptiveSupport', func='_update',
         params=[('nsteps', 'Int'), ('start_step', 'Int'), ('T', 'Int'), ('accepted', 'Bool'), ('xi', 'Rat'),
                 ('g', 'Rat'), ('delta', 'Rat'), ('sigma', 'Rat')], ret='Rat',
         bind={'self.nsteps': 'nsteps', 'self.start_step': 'start_step', 'self.adaptation_duration': 'T',
               'dk ** (-self.adaptation_decay) - self._decay_const': 'g', "chain.acceptance[-1]['accepted']": 'accepted',
               'self.target_rate': 'xi', 'self.deltas': 'delta', 'self._std': 'sigma'},
         types={'lzidx': 'Bool'}, skip=['self._update_proposal()'], result='sigma'),
    dict(name='atUpdate', file='epsie/proposals/normal.py', cls='ATAdaptiveSupport', func='_update',
         params=[('nsteps', 'Int'), ('start_step', 'Int'), ('T', 'Int'), ('componentwise', 'Bool'),
                 ('diagonal', 'Bool'), ('xi', 'Rat'), ('g', 'Rat'), ('ar', 'Rat'), ('cw', 'Rat'), ('x', 'Rat'),
                 ('dfdf', 'Rat'), ('log_lambda', 'Rat'), ('mean', 'Rat'), ('unit_cov', 'Rat')],
         ret='Rat × Rat × Rat',
         bind={'self.nsteps': 'nsteps', 'self.start_step': 'start_step', 'self.adaptation_duration': 'T',
               'dk ** (-0.6) - self._decay_const': 'g', "chain.acceptance['acceptance_ratio'][-1]": 'ar',
               'self.target_rate': 'xi', 'self._iscomponentwise': 'componentwise', 'self.isdiagonal': 'diagonal',
               'self._componentwise_scaling(chain, dk)': 'cw',
               'numpy.array([chain.current_position[p] for p in self.parameters])': 'x',
               'numpy.matmul(df, df.T)': 'dfdf',
               'self._log_lambda': 'log_lambda', 'self._mean': 'mean', 'self._unit_cov': 'unit_cov',
               'numpy.sqrt(numpy.exp(self._log_lambda) * self._unit_cov)': 'unit_cov',
               'numpy.exp(self._log_lambda) * self._unit_cov': 'unit_cov',
               'numpy.matmul(numpy.matmul(Lambda, self._unit_cov), Lambda)': 'unit_cov',
               'numpy.diag(numpy.exp(self._log_lambda)) ** 0.5': 'log_lambda',
               'self._std': 'derived_std', 'self._cov': 'derived_cov'},
         skip=['self._update_proposal()', 'df = df.reshape(-1, 1)'],
         result='(log_lambda, mean, unit_cov)'),
    dict(name='eigUpdate', file='epsie/proposals/eigenvector.py', cls='AdaptiveEigenvectorSupport', func='_update',
         params=[('nsteps', 'Int'), ('start_step', 'Int'), ('T', 'Int'), ('xi', 'Rat'), ('g', 'Rat'), ('ar', 'Rat'),
                 ('log_lambda', 'Rat')], ret='Bool × Rat',
         bind={'self.nsteps': 'nsteps', 'self.start_step': 'start_step', 'self.adaptation_duration': 'T',
               'dk ** (-0.6) - self._decay_const': 'g', "chain.acceptance['acceptance_ratio'][-1]": 'ar',
               'self.target_rate': 'xi', 'self._log_lambda': 'log_lambda'},
         effects={'self.recursive_covariance(chain)': 'covUpdated := true'},
         skip=['self.eigvals, self.eigvects = numpy.linalg.eigh(self._cov)',
               'self.eigvals *= numpy.exp(self._log_lambda)'],
         prelude='let covUpdated := false', result='(covUpdated, log_lambda)'),
    dict(name='vmfUpdate', file='epsie/proposals/solid_angle.py', cls='AdaptiveIsotropicSolidAngleSupport',
         func='_update',
         params=[('nsteps', 'Int'), ('start_step', 'Int'), ('T', 'Int'), ('xi', 'Rat'), ('g', 'Rat'), ('ar', 'Rat'),
                 ('log_kappa', 'Rat')], ret='Rat',
         bind={'self.nsteps': 'nsteps', 'self.start_step': 'start_step', 'self.adaptation_duration': 'T',
               'dk ** (-0.6) - self._decay_const': 'g', "chain.acceptance['acceptance_ratio'][-1]": 'ar',
               'self.target_rate': 'xi', 'self._log_kappa': 'log_kappa'},
         skip=['self.kappa = numpy.exp(self._log_kappa)', 'self.norm = self._normalisation(self.kappa)'],
         result='log_kappa'),
    dict(name='ssUpdate', file='epsie/proposals/normal.py', cls='SSAdaptiveSupport', func='_update',
         params=[('nsteps', 'Int'), ('start_step', 'Int'), ('accepted', 'Bool'), ('diagonal', 'Bool'), ('xi', 'Rat'),
                 ('EXP', 'Rat → Rat'), ('SQRT', 'Rat → Rat'), ('mx', 'Rat'), ('max_std', 'Rat'),
                 ('n_accepted', 'Int'), ('scale', 'Rat')], ret='Int × Rat',
         types={'accepted': 'Bool', 'alpha': 'Rat', 'cap': 'Rat'},
         bind={'self.nsteps': 'nsteps', 'self.start_step': 'start_step', "chain.acceptance[-1]['accepted']": 'accepted',
               'self.target_rate': 'xi', 'self.n_accepted': 'n_accepted', 'self.isdiagonal': 'diagonal',
               'alpha ** 0.5': 'SQRT alpha', 'self._std.max()': 'mx', 'self._cov.max()': 'mx',
               'self.max_std': 'max_std', 'self._std': 'scale', 'self._cov': 'scale', 'max_std': 'cap', 'max_cov': 'cap'},
         exp_fn='EXP', skip=['self._update_proposal()'], result='(n_accepted, scale)'),
    dict(name='resetStart', file='epsie/proposals/base.py', cls='BaseAdaptiveSupport', func='_reset_adaptation',
         params=[('raw', 'Int'), ('k', 'Int')], ret='Int',
         assume_false=['self._initial_proposal_params is None'],
         bind={'self.nsteps': 'nsteps raw k',
               'self.start_step': 'start_step'},
         skip=['for attr, val in self._initial_proposal_params.items():...'],
         result='start_step'),
    # --- epsie/chain/base.py, chain.py: length, index arithmetic, the acceptance rule (C08, C01)
    dict(name='chainLen', file='epsie/chain/base.py', cls='BaseChain', func='__len__',
         params=[('iteration', 'Int'), ('lastclear', 'Int')], ret='Int',
         bind={'self.iteration': 'iteration', 'self.lastclear': 'lastclear'}),
    dict(name='getitemReads', file='epsie/chain/chain.py', cls='Chain', func='__getitem__',
         params=[('index', 'Int'), ('len', 'Int'), ('hasblobs', 'Bool')], ret='List (String × Int)',
         bind={'len(self)': 'len', 'self._hasblobs': 'hasblobs',
               'self._positions[index]': '[("positions", index)]', 'self._stats[index]': '[("stats", index)]',
               'self._acceptance[index]': '[("acceptance", index)]', 'self._blobs[index]': '[("blobs", index)]',
               "{'positions': self._positions[index], 'stats': self._stats[index], "
               "'acceptance': self._acceptance[index]}":
                   '[("positions", index)] ++ [("stats", index)] ++ [("acceptance", index)]'},
         special='getitem'),
    dict(name='acceptanceRatio', file='epsie/chain/chain.py', cls='Chain', func='_acceptance_ratio',
         params=[('logp', 'Rat'), ('logl', 'Rat'), ('beta', 'Rat'), ('current_logp', 'Rat'),
                 ('current_logl', 'Rat'), ('symmetric', 'Bool'), ('rev', 'Rat'), ('fwd', 'Rat'),
                 ('us', 'List Rat')], ret='(Bool × AR) × List Rat',
         types={'ar': 'AR', 'logar': 'Rat'},
         bind={'self.beta': 'beta', 'self.proposal_dist.symmetric': 'symmetric',
               'self.proposal_dist.logpdf(current_pos, proposal)': 'rev',
               'self.proposal_dist.logpdf(proposal, current_pos)': 'fwd'},
         draws={'self.random_generator.uniform()': 'us'}, ret_wants=[None, 'AR'],
         assume_false=['numpy.isnan(ar)'], ret_extra='us'),
    # the same method over IEEE-extended values (vanishing likelihood, nan): what the code does where the
    # rational model has no value (C01, EpsieProps/C01SourceExt.lean)
    dict(name='acceptanceRatioX', file='epsie/chain/chain.py', cls='Chain', func='_acceptance_ratio',
         params=[('logp', 'EL'), ('logl', 'EL'), ('beta', 'EL'), ('current_logp', 'EL'),
                 ('current_logl', 'EL'), ('symmetric', 'Bool'), ('rev', 'EL'), ('fwd', 'EL'),
                 ('us', 'List Rat')], ret='(Bool × ARX) × List Rat',
         types={'ar': 'ARX', 'logar': 'EL'},
         bind={'self.beta': 'beta', 'self.proposal_dist.symmetric': 'symmetric',
               'self.proposal_dist.logpdf(current_pos, proposal)': 'rev',
               'self.proposal_dist.logpdf(proposal, current_pos)': 'fwd',
               'numpy.isnan(ar)': 'ARX.isNan ar'},
         draws={'self.random_generator.uniform()': 'us'}, exp_fn='ARX.ofExp', exp_ty='ARX', ret_wants=[None, 'ARX'],
         raise_value='((false, ARX.nan), us)', ret_extra='us'),
    # --- NestedTransdimensional._logpdf (C11): which densities the reported log-density sums
    dict(name='tdLogpdf', file='epsie/proposals/nested_transdimensional.py', cls='NestedTransdimensional',
         func='_logpdf',
         params=[('K', 'Int'), ('indexDensity', 'Rat'), ('kxi', 'Int'), ('kgiven', 'Int'),
                 ('current_state', 'List Bool'), ('proposed_state', 'List Bool'),
                 ('birth', 'List Rat'), ('inModel', 'List Rat')], ret='Rat',
         types={'lp': 'Rat'},
         bind={'self.model_proposal.logpdf({self._index: xi[self._index]}, {self._index: givenx[self._index]})': 'indexDensity',
               "givenx['_state']": 'current_state', "xi['_state']": 'proposed_state',
               'xi[self._index]': 'kxi', 'givenx[self._index]': 'kgiven'},
         masked_loops={'over': 'self.proposals', 'index': 'j', 'count': 'K',
                       'per_item': {'$v.birth_distribution.logpdf({p: xi[p] for p in $v.parameters})': 'Src.get birth $j',
                                    '$v.logpdf({p: xi[p] for p in $v.parameters}, {p: givenx[p] for p in $v.parameters})': 'Src.get inModel $j'}},
         carried=['lp']),
    # --- NestedTransdimensional._jump (C10): which components are candidates, how many are chosen, which are
    #     born / killed / moved, the proposed active set
    dict(name='tdJump', file='epsie/proposals/nested_transdimensional.py', cls='NestedTransdimensional', func='_jump',
         params=[('K', 'Int'), ('k', 'Int'), ('newk', 'Int'), ('current_state', 'List Bool'), ('chosen', 'List Int')],
         ret='Int × List Bool × List (List Int × Int) × List (Int × Unit) × List (Int × Unit) × List (Int × Unit)',
         types={'mask': 'List Int', 'proposed_state': 'List Bool', 'indx': 'List Int'},
         bind={"fromx['_state']": 'current_state', 'out[self._index]': 'newk', 'fromx[self._index]': 'k',
               'current_state.copy()': 'current_state',
               'self.random_generator.choice(indx, size=abs(dk), replace=False).reshape(-1)': 'chosen'},
         skip=['out = fromx.copy()', 'out.update(self.model_proposal.jump({self._index: fromx[self._index]}))',
               "out.update({'_state': proposed_state})"],
         effects={'out.update(prop.birth_distribution.birth)': 'bornW := Src.wr bornW j ()',
                  'out.update({p: numpy.nan for p in prop.parameters})': 'killedW := Src.wr killedW j ()',
                  'out.update(prop.jump({p: fromx[p] for p in prop.parameters}))': 'movedW := Src.wr movedW j ()'},
         pre_effects={'mask = self.random_generator.choice(indx, size=abs(dk), replace=False).reshape(-1)':
                      'choiceW := Src.wr choiceW indx (Int.natAbs dk : Int)'},
         masked_loops={'over': 'self.proposals', 'index': 'j', 'count': 'K', 'per_item': {}},
         carried=['bornW', 'killedW', 'movedW'], join_ifs=True,
         prelude='let choiceW : List (List Int × Int) := []\n  let bornW : List (Int × Unit) := []\n'
                 '  let killedW : List (Int × Unit) := []\n  let movedW : List (Int × Unit) := []',
         ret_override='(newk, proposed_state, choiceW, bornW, killedW, movedW)'),
    # --- Chain.step: what is evaluated, decided and written where (C01, C08, C18); the transdimensional
    #     bookkeeping (`_state` entries) is C10's model and is not translated here
    dict(name='stepCore', file='epsie/chain/chain.py', cls='Chain', func='step',
         params=[('α', 'Type'), ('β', 'Type'), ('hasblobs', 'Bool'), ('len', 'Int'), ('iteration', 'Int'),
                 ('current_pos', 'α'), ('current_stats', 'Rat × Rat'), ('current_blob', 'Option β'),
                 ('jumped', 'α'), ('r_logl', 'Rat'), ('r_logp', 'Rat'), ('r_blob', 'Option β'),
                 ('NEGINF', 'Rat → Bool'),
                 ('ACCEPT', 'Rat → Rat → α → Rat → Rat → α → Bool × AR')],
         ret='α × List (Int × α) × List (Int × (Rat × Rat)) × List (Int × (AR × Bool)) × List (Int × Option β) × Int × Nat × Nat',
         types={'ar': 'AR'},
         bind={'self.current_position': 'current_pos', 'self.current_stats': 'current_stats',
               'self.current_blob': 'current_blob', 'self.proposal_dist.jump(current_pos)': 'jumped',
               'self.proposed_position': 'proposed', 'self._hasblobs': 'hasblobs',
               "current_stats['logl']": 'current_stats.1', "current_stats['logp']": 'current_stats.2',
               'logp == -numpy.inf': 'NEGINF logp', 'len(self)': 'len', 'self._iteration': 'iteration'},
         fbind={'self._acceptance_ratio': 'ACCEPT'},
         unpack={'r': {3: ['r_logl', 'r_logp', 'r_blob'], 2: ['r_logl', 'r_logp']}},
         assume_false=['self.transdimensional'],
         effects={'self.proposal_dist.update(self)': 'updates := updates + 1'},
         effects_by_value={'self.model(**proposal)': ('calls := calls + 1', 'r')},
         writelogs={'self._positions': ('positionsW', '$i'), 'self._stats': ('statsW', '$i'),
                    'self._acceptance': ('acceptanceW', '$i'), 'self._blobs': ('blobsW', '$i')},
         prelude='let calls : Nat := 0\n  let updates : Nat := 0\n  let positionsW : List (Int × α) := []\n'
                 '  let statsW : List (Int × (Rat × Rat)) := []\n  let acceptanceW : List (Int × (AR × Bool)) := []\n'
                 '  let blobsW : List (Int × Option β) := []',
         return_self=True, join_ifs=True,
         result='(proposed, positionsW, statsW, acceptanceW, blobsW, iteration, calls, updates)'),
    # --- the apply block of swap_temperatures: what is moved by the swap index, what is not (C09, C19)
    dict(name='sweepApply', file='epsie/chain/ptchain.py', cls='ParallelTemperedChain', func='swap_temperatures',
         params=[('α', 'Type'), ('σ', 'Type'), ('β', 'Type'), ('γ', 'Type'),
                 ('inst1', 'Inhabited α'), ('inst2', 'Inhabited σ'), ('inst3', 'Inhabited β'), ('inst4', 'Inhabited γ'),
                 ('ntemps', 'Int'), ('transdimensional', 'Bool'), ('hasblobs', 'Bool'), ('reset_after_swap', 'Bool'),
                 ('iteration', 'Int'), ('lastclear', 'Int'),
                 ('swap_index', 'List Int'), ('cur_pos', 'List α'), ('cur_stats', 'List σ'), ('cur_blob', 'List β'),
                 ('cur_active', 'List γ')],
         ret='List ((Int × Int) × α) × List ((Int × Int) × σ) × List ((Int × Int) × β) × List (Int × γ) × List (Int × Unit)',
         bind={'self.chains[swk].current_position': 'Src.get cur_pos swk',
               'self.chains[swk].current_stats': 'Src.get cur_stats swk',
               'self.chains[swk].current_blob': 'Src.get cur_blob swk',
               'self.chains[swk]._active_props': 'Src.get cur_active swk',
               'self.transdimensional': 'transdimensional', 'self.hasblobs': 'hasblobs',
               'self.reset_after_swap': 'reset_after_swap', 'self.iteration': 'iteration',
               'self.lastclear': 'lastclear'},
         enumerate={'(tk, chain) in enumerate(self.chains)': ('tk', 'ntemps')},
         writelogs={'chain._positions': ('positionsW', '(tk, $i)'), 'chain._stats': ('statsW', '(tk, $i)'),
                    'chain._blobs': ('blobsW', '(tk, $i)'), 'chain._active_props': ('activeW', 'tk')},
         effects={'chain.reset_proposals()': 'resetW := Src.wr resetW tk ()'},
         carried=['positionsW', 'statsW', 'blobsW', 'activeW', 'resetW'],
         start_at='new_positions = ', stop_after='for tk, chain in enumerate(self.chains)', join_ifs=True,
         prelude='let positionsW : List ((Int × Int) × α) := []\n  let statsW : List ((Int × Int) × σ) := []\n'
                 '  let blobsW : List ((Int × Int) × β) := []\n  let activeW : List (Int × γ) := []\n'
                 '  let resetW : List (Int × Unit) := []',
         result='(positionsW, statsW, blobsW, activeW, resetW)'),
    # --- the ladder recursion of the dynamical annealer (C17): new betas in place, colder neighbour already
    #     updated, end points untouched, every intermediate LEVEL gets its new beta
    dict(name='annealLoop', file='epsie/chain/ptchain.py', cls='DynamicalAnnealer', func='__call__',
         params=[('ntemps', 'Int'), ('betas', 'List Rat'), ('es', 'List Rat')],
         ret='List Rat × List (Int × Rat)',
         bind={'chain.ntemps': 'ntemps', 'chain.betas': 'betas', 'numpy.exp(self._S[i - 1])': 'Src.get es (i - 1)'},
         writelogs={'chain.chains[i].beta': ('levelW', 'i')},
         carried=['betas', 'levelW'],
         skip=['iteration = ...', 'ii = ...', 'ars = ...', 'ars[ars > 1] = ...', 'self._S += ...'],
         prelude='let levelW : List (Int × Rat) := []', result='(betas, levelW)'),
    # --- memory management (C06): Chain.clear and the scratch growth requested by Sampler.run
    dict(name='chainClear', file='epsie/chain/chain.py', cls='Chain', func='clear',
         params=[('α', 'Type'), ('σ', 'Type'), ('β', 'Type'), ('hasblobs', 'Bool'), ('iteration', 'Int'),
                 ('lastclear', 'Int'), ('scratchlen', 'Int'), ('current_pos', 'α'), ('current_stats', 'σ'),
                 ('current_blob', 'β'), ('start', 'α'), ('stats0', 'σ'), ('blob0', 'β')],
         ret='α × σ × β × List (String × Int) × Int',
         bind={'self._iteration': 'iteration', 'self._lastclear': 'lastclear', 'self.scratchlen': 'scratchlen',
               'self.hasblobs': 'hasblobs', 'self.current_position': 'current_pos',
               'self.current_stats': 'current_stats', 'self.current_blob': 'current_blob',
               'self._start': 'start', 'self._stats0': 'stats0', 'self._blob0': 'blob0'},
         effects_by_callee={'self._positions.clear': 'cleared := Src.wr cleared "positions" $0',
                            'self._stats.clear': 'cleared := Src.wr cleared "stats" $0',
                            'self._acceptance.clear': 'cleared := Src.wr cleared "acceptance" $0',
                            'self._blobs.clear': 'cleared := Src.wr cleared "blobs" $0'},
         prelude='let cleared : List (String × Int) := []', return_self=True,
         result='(start, stats0, blob0, cleared, lastclear)'),
    dict(name='runGrowth', file='epsie/samplers/base.py', cls='BaseSampler', func='run',
         params=[('niterations', 'Int'), ('scratchlen', 'Int'), ('len', 'Int')], ret='Int',
         bind={'c.scratchlen': 'scratchlen', 'len(c)': 'len'}, special='rungrowth'),
    # --- Chain.state / Chain.set_state (C05): which keys are saved from what, which attribute is restored
    #     from which key, and that the memory is cleared before the counters are restored
    dict(name='chainStateFlow', file='epsie/chain/chain.py', cls='Chain', func='state', params=[], ret='',
         special='stateflow'),
    # --- epsie/chain/ptchain.py: sweep schedule, the sweep loop, row indices, the row views (C03, C09)
    dict(name='sweepDue', file='epsie/chain/ptchain.py', cls='ParallelTemperedChain', func='step',
         params=[('ntemps', 'Int'), ('iteration', 'Int'), ('swap_interval', 'Int')], ret='Bool',
         bind={'self.ntemps': 'ntemps', 'self.iteration': 'iteration', 'self.swap_interval': 'swap_interval'},
         skip=['for chain in self.chains:\n    chain.step()'],
         effects={'self.swap_temperatures()': 'swept := true'},
         prelude='let swept := false', result='swept'),
    dict(name='sweepLoop', file='epsie/chain/ptchain.py', cls='ParallelTemperedChain', func='swap_temperatures',
         params=[('ntemps', 'Int'), ('betas', 'List Rat'), ('logls', 'List Rat'), ('us', 'List Rat')],
         ret='List Int × List AR × Rat × List Rat',
         types={'ar': 'AR', 'logar': 'Rat', 'ars': 'List AR', 'swap_index': 'List Int', 'loglk': 'Rat',
                'dbetas': 'List Rat'},
         bind={'self.ntemps': 'ntemps', 'self.betas': 'betas', "stats['logl']": 'logls'},
         draws={'self.random_generator.uniform()': 'us'},
         skip=['stats = self.current_stats'],
         carried=['swap_index', 'loglk', 'ars', 'us'],
         loop_locals=['swk', 'tj', 'loglj', 'swj', 'logar', 'ar', 'swap', 'u', 'drawn_us'],
         stop_before='new_positions = ', result='(swap_index, ars, loglk, us)'),
    dict(name='sweepLoopX', file='epsie/chain/ptchain.py', cls='ParallelTemperedChain', func='swap_temperatures',
         params=[('ntemps', 'Int'), ('betas', 'List EL'), ('logls', 'List EL'), ('us', 'List Rat')],
         ret='List Int × List ARX × EL × List Rat',
         types={'ar': 'ARX', 'logar': 'EL', 'ars': 'List ARX', 'swap_index': 'List Int', 'loglk': 'EL',
                'dbetas': 'List EL'},
         bind={'self.ntemps': 'ntemps', 'self.betas': 'betas', "stats['logl']": 'logls'},
         draws={'self.random_generator.uniform()': 'us'}, exp_fn='ARX.ofExp', exp_ty='ARX', diff_fn='Src.diffX',
         skip=['stats = self.current_stats'],
         carried=['swap_index', 'loglk', 'ars', 'us'],
         loop_locals=['swk', 'tj', 'loglj', 'swj', 'logar', 'ar', 'swap', 'u', 'drawn_us'],
         stop_before='new_positions = ', result='(swap_index, ars, loglk, us)'),
    dict(name='sweepRow', file='epsie/chain/ptchain.py', cls='ParallelTemperedChain', func='swap_temperatures',
         params=[('iteration', 'Int'), ('lastclear', 'Int'), ('swap_interval', 'Int')], ret='Int × Int',
         bind={'self.iteration': 'iteration', 'self.lastclear': 'lastclear', 'self.swap_interval': 'swap_interval'},
         start_at='ii = ', special='sweeprow'),
    dict(name='swapRowsViewed', file='epsie/chain/ptchain.py', cls='ParallelTemperedChain', func='temperature_swaps',
         params=[('len', 'Int'), ('swap_interval', 'Int')], ret='Int',
         bind={'len(self)': 'len', 'self.swap_interval': 'swap_interval'}, special='rowsview'),
    dict(name='annealerRow', file='epsie/chain/ptchain.py', cls='DynamicalAnnealer', func='__call__',
         params=[('iteration', 'Int'), ('len', 'Int'), ('swap_interval', 'Int')], ret='Int × Int',
         bind={'chain.iteration': 'iteration', 'len(chain)': 'len', 'chain.swap_interval': 'swap_interval'},
         special='annealerrow'),
]


def special(spec):
    """Kernels that read only some statements of a method: the statements are selected by their
    assignment target and translated with the generic expression translator."""
    path = os.path.join(REPO, spec['file'])
    tree = ast.parse(open(path).read())
    fn = find_func(tree, spec.get('cls'), spec['func'], spec.get('which', 0))
    tr = Tr(spec)
    kind = spec['special']
    params = ' '.join('(%s : %s)' % (p, t) for p, t in spec['params'])
    digest = hashlib.sha256(ast.dump(fn).encode()).hexdigest()[:16]
    head = '/-- from `%s.%s` (%s:%d), AST digest %s. -/' % (spec.get('cls'), spec['func'], spec['file'], fn.lineno, digest)

    def assigns_to(name):
        out = []
        for n in ast.walk(fn):
            if isinstance(n, ast.Assign) and len(n.targets) == 1 and src(n.targets[0]) == name:
                out.append(n.value)
        return out

    if kind == 'getitem':
        # index = index % len(self); out = {...}; if self._hasblobs: out['blobs'] = ...; return out
        body = [s for s in fn.body if not (isinstance(s, ast.Expr) and isinstance(s.value, ast.Constant))]
        if len(body) != 4:
            raise Unsupported('__getitem__ has %d statements (expected 4)' % len(body))
        s0, s1, s2, s3 = body
        if not (isinstance(s0, ast.Assign) and src(s0.targets[0]) == 'index'):
            raise Unsupported('first statement of __getitem__: ' + src(s0))
        idx = tr.expr(s0.value)
        if not (isinstance(s1, ast.Assign) and src(s1.targets[0]) == 'out' and isinstance(s1.value, ast.Dict)):
            raise Unsupported('second statement of __getitem__: ' + src(s1))
        reads = []
        for kx, vx in zip(s1.value.keys, s1.value.values):
            if not (isinstance(vx, ast.Subscript) and src(vx.slice) == 'index' and src(vx.value).startswith('self._')):
                raise Unsupported('dictionary entry ' + src(vx))
            reads.append('(%s, index)' % json_str(src(vx.value)[6:]))
        if not (isinstance(s2, ast.If) and src(s2.test) == 'self._hasblobs' and len(s2.body) == 1 and not s2.orelse):
            raise Unsupported('third statement of __getitem__: ' + src(s2))
        b = s2.body[0]
        if not (isinstance(b, ast.Assign) and src(b.targets[0]) == "out['blobs']" and isinstance(b.value, ast.Subscript)
                and src(b.value.slice) == 'index'):
            raise Unsupported('blob entry ' + src(b))
        blob = '(%s, index)' % json_str(src(b.value.value)[6:])
        if not (isinstance(s3, ast.Return) and src(s3.value) == 'out'):
            raise Unsupported('return of __getitem__')
        return ('%s\ndef %s %s : %s :=\n  let index := %s\n  let out := [%s]\n  if hasblobs then out ++ [%s] else out\n'
                % (head, spec['name'], params, spec['ret'], idx, ', '.join(reads), blob))
    if kind == 'sweeprow':
        ii = assigns_to('ii')
        rows = []
        for n in ast.walk(fn):
            if isinstance(n, ast.Assign) and isinstance(n.targets[0], ast.Subscript) and \
                    src(n.targets[0].value) in ('self._temperature_acceptance', 'self._temperature_swaps'):
                rows.append(src(n.targets[0].slice))
        writes = []
        for n in ast.walk(fn):
            if isinstance(n, ast.Assign) and isinstance(n.targets[0], ast.Subscript) and \
                    src(n.targets[0].value) in ('chain._positions', 'chain._stats', 'chain._blobs'):
                writes.append(src(n.targets[0].slice))
        if len(ii) != 1 or len(rows) != 2 or len(set(rows)) != 1 or set(writes) != {'ii'} or len(writes) != 3:
            raise Unsupported('row bookkeeping of swap_temperatures: ii=%d rows=%r writes=%r' % (len(ii), rows, writes))
        rownode = ast.parse(rows[0], mode='eval').body
        if isinstance(rownode, ast.Name) and rownode.id != 'ii':
            # the row index kept in a local: its (single) definition is what is translated
            defs = assigns_to(rownode.id)
            if len(defs) != 1:
                raise Unsupported('row index %s is assigned %d times' % (rownode.id, len(defs)))
            rownode = defs[0]
        rowexpr = tr.expr(rownode)
        return '%s\ndef %s %s : %s :=\n  let ii := %s\n  (ii, %s)\n' % (head, spec['name'], params, spec['ret'],
                                                                  tr.expr(ii[0]), rowexpr)
    if kind == 'rowsview':
        outs = assigns_to('out')
        if len(outs) != 1 or not (isinstance(outs[0], ast.Subscript) and isinstance(outs[0].slice, ast.Slice)
                                  and outs[0].slice.lower is None and outs[0].slice.step is None
                                  and src(outs[0].value) == 'self._temperature_swaps'):
            raise Unsupported('temperature_swaps view: ' + '; '.join(src(o) for o in outs))
        def inline(node):
            # `self._helper()` -> the expression its single `return` gives (one level, no arguments)
            if isinstance(node, ast.Call) and not node.args and not node.keywords and isinstance(node.func, ast.Attribute) \
                    and src(node.func.value) == 'self':
                try:
                    h = find_func(tree, spec.get('cls'), node.func.attr)
                except Unsupported:
                    return node
                body = [b for b in h.body if not (isinstance(b, ast.Expr) and isinstance(b.value, ast.Constant))]
                if len(body) == 1 and isinstance(body[0], ast.Return) and body[0].value is not None and not h.args.args[1:]:
                    return body[0].value
            return node
        up = tr.expr(inline(outs[0].slice.upper))
        # the acceptance view must use the same count
        fn2 = find_func(tree, spec.get('cls'), 'temperature_acceptance')
        outs2 = [n.value for n in ast.walk(fn2) if isinstance(n, ast.Assign) and src(n.targets[0]) == 'out']
        if len(outs2) != 1 or not isinstance(outs2[0], ast.Subscript) or not isinstance(outs2[0].slice, ast.Slice) \
                or src(inline(outs2[0].slice.upper)) != src(inline(outs[0].slice.upper)):
            raise Unsupported('temperature_acceptance view differs from temperature_swaps')
        return '%s\ndef %s %s : %s :=\n  %s\n' % (head, spec['name'], params, spec['ret'], up)
    if kind == 'stateflow':
        # state: `state = {}` then `state['k'] = <expr>` (possibly through a local set in an if/else), return state
        keys = []
        local_defs = {}
        for st in fn.body:
            if isinstance(st, ast.Expr) and isinstance(st.value, ast.Constant):
                continue
            if isinstance(st, ast.Assign) and src(st.targets[0]) == 'state' and src(st.value) == '{}':
                continue
            if isinstance(st, ast.Assign) and isinstance(st.targets[0], ast.Subscript) and src(st.targets[0].value) == 'state' \
                    and isinstance(st.targets[0].slice, ast.Constant):
                v = src(st.value)
                keys.append((st.targets[0].slice.value, local_defs.get(v, v)))
                continue
            if isinstance(st, ast.If) and len(st.body) == 1 and len(st.orelse) == 1 and \
                    all(isinstance(b, ast.Assign) and isinstance(b.targets[0], ast.Name) for b in (st.body[0], st.orelse[0])) \
                    and src(st.body[0].targets[0]) == src(st.orelse[0].targets[0]):
                local_defs[src(st.body[0].targets[0])] = '%s if %s else %s' % (src(st.body[0].value), src(st.test), src(st.orelse[0].value))
                continue
            if isinstance(st, ast.Return) and src(st.value) == 'state':
                continue
            lit = st.value if isinstance(st, (ast.Return, ast.Assign)) and isinstance(st.value, ast.Dict) else None
            if lit is not None and (isinstance(st, ast.Return) or src(st.targets[0]) == 'state') \
                    and all(isinstance(kx, ast.Constant) and isinstance(kx.value, str) for kx in lit.keys):
                # the same keys written as one dictionary literal (entries evaluated in the order written)
                for kx, vx in zip(lit.keys, lit.values):
                    v = src(vx)
                    keys.append((kx.value, local_defs.get(v, v)))
                continue
            raise Unsupported('statement of Chain.state: ' + src(st).split('\n')[0])
        fn2 = find_func(tree, spec.get('cls'), 'set_state')
        flows = []
        cleared_at = None
        for st in fn2.body:
            if isinstance(st, ast.Expr) and isinstance(st.value, ast.Constant):
                continue
            cond = ''
            inner = [st]
            if isinstance(st, ast.If) and not st.orelse:
                cond = src(st.test)
                inner = st.body
            for b in inner:
                reads = [n.slice.value for n in ast.walk(b) if isinstance(n, ast.Subscript) and src(n.value) == 'state'
                         and isinstance(n.slice, ast.Constant)]
                if src(b) == 'self.clear()':
                    cleared_at = len(flows)
                    flows.append(('self.clear()', '', ''))
                elif isinstance(b, ast.Assign) and len(reads) == 1 and src(b.value) in (
                        "state['%s']" % reads[0], "state['%s'].copy()" % reads[0]):
                    flows.append((src(b.targets[0]), reads[0], cond))
                elif isinstance(b, ast.Expr) and isinstance(b.value, ast.Call) and len(reads) == 1 and len(b.value.args) == 1 \
                        and src(b.value.args[0]) == "state['%s']" % reads[0]:
                    flows.append((src(b.value.func), reads[0], cond))
                elif not reads:
                    flows.append((src(b).split('\n')[0], '', cond))
                else:
                    raise Unsupported('statement of Chain.set_state: ' + src(b).split('\n')[0])
        lst = lambda prs: '[' + ', '.join('(' + ', '.join(json_str(x) for x in pr) + ')' for pr in prs) + ']'   # noqa: E731
        digest2 = hashlib.sha256(ast.dump(fn2).encode()).hexdigest()[:16]
        return ('%s\ndef chainStateKeys : List (String × String) :=\n  %s\n\n'
                '/-- from `Chain.set_state` (AST digest %s): (what is assigned or called, the key of the state it reads, the condition it is under), in program order. -/\n'
                'def chainSetStateFlow : List (String × String × String) :=\n  %s\n' % (head, lst(keys), digest2, lst(flows)))
    if kind == 'rungrowth':
        loops = [n for n in fn.body if isinstance(n, ast.For) and src(n.iter) == 'self.chains' and src(n.target) == 'c']
        if len(loops) != 1 or len(loops[0].body) != 1 or not isinstance(loops[0].body[0], ast.AugAssign) \
                or src(loops[0].body[0].target) != 'c.scratchlen' or not isinstance(loops[0].body[0].op, ast.Add):
            raise Unsupported('scratch growth of run()')
        # nothing else in run() may touch the scratch length
        others = [n for n in ast.walk(fn) if isinstance(n, ast.Attribute) and n.attr == 'scratchlen'
                  and not any(n is m for m in ast.walk(loops[0]))]
        if others:
            raise Unsupported('run() touches scratchlen outside the growth loop')
        return '%s\ndef %s %s : %s :=\n  (scratchlen + %s)\n' % (head, spec['name'], params, spec['ret'],
                                                                tr.expr(loops[0].body[0].value))
    if kind == 'annealerrow':
        it = assigns_to('iteration')
        ii = assigns_to('ii')
        if len(it) != 1 or len(ii) != 1:
            raise Unsupported('annealer row bookkeeping')
        reads = [src(n.slice) for n in ast.walk(fn) if isinstance(n, ast.Subscript)
                 and src(n.value) == 'chain._temperature_acceptance']
        if reads != ['ii']:
            raise Unsupported('annealer reads rows %r' % reads)
        return '%s\ndef %s %s : %s :=\n  (%s, %s)\n' % (head, spec['name'], params, spec['ret'],
                                                     tr.expr(it[0]), tr.expr(ii[0]))
    raise Unsupported('unknown special ' + kind)


def json_str(s):
    return '"' + s.replace('\\', '\\\\').replace('"', '\\"') + '"'


def generate():
    parts = ['/-\n  GENERATED by harness/gen_source.py from the Python sources under %s -- do not edit.\n'
             '  Each definition is the translation of one method (or of the named statements of one method);\n'
             '  the tie theorems are in EpsieProps/*Source.lean.\n-/\n'
             'import EpsieModel.SrcPrelude\nimport EpsieModel.ExtLog\nset_option linter.unusedVariables false\nnamespace Epsie\nnamespace Gen\n' % 'the repository']
    status = {}
    for spec in KERNELS:
        try:
            if spec.get('special'):
                text = special(spec)
            else:
                text = translate(spec)
                if spec.get('prelude'):
                    head, body = text.split(' :=\n', 1)
                    text = head + ' :=\n  ' + spec['prelude'] + '\n' + body
            status[spec['name']] = 'ok'
        except (Unsupported, OSError, SyntaxError) as e:
            msg = '%s: %s' % (type(e).__name__, e)
            text = '/-- NOT TRANSLATED: the source no longer has the shape the translator handles. -/\n' \
                   'def %s_untranslatable : String := %s\n' % (spec['name'], json_str(msg[:300]))
            status[spec['name']] = msg
        parts.append(text)
    parts.append('end Gen\nend Epsie\n')
    if os.environ.get('EPSIE_GEN_NO_ISOLATE') != '1':
        parts, status = isolate(parts, status)
    return '\n'.join(parts), status


def _lean_ok(text):
    """Does this text compile?  None when it cannot be decided (imports not built yet)."""
    import subprocess
    import tempfile
    tmpdir = os.path.join(LEAN_DIR, '.lake')
    if not os.path.isdir(tmpdir):
        return None, ''
    with tempfile.NamedTemporaryFile('w', suffix='.lean', dir=tmpdir, delete=False) as fh:
        fh.write(text)
        name = fh.name
    try:
        env = dict(os.environ)
        env.pop('LEAN_PATH', None)
        p = subprocess.run(['lake', 'env', 'lean', name], cwd=LEAN_DIR, env=env, stdout=subprocess.PIPE,
                           stderr=subprocess.STDOUT, text=True, timeout=600)
    except Exception as e:      # noqa: BLE001
        return None, repr(e)
    finally:
        os.unlink(name)
    if p.returncode == 0:
        return True, ''
    if 'object file' in p.stdout or 'unknown module prefix' in p.stdout or 'unknown package' in p.stdout:
        return None, p.stdout
    return False, p.stdout


def isolate(parts, status):
    """A kernel whose translation is not well-typed Lean (a shape of the source the translator reads but
    cannot type) must not take the other kernels down with it: it is replaced by its `_untranslatable`
    stub, so that only ITS tie theorem breaks."""
    ok, _ = _lean_ok('\n'.join(parts))
    if ok is not False:
        return parts, status
    head, tail = parts[0], parts[-1]
    kept = [head]
    for spec, text in zip(KERNELS, parts[1:-1]):
        if status.get(spec['name']) != 'ok':
            kept.append(text)
            continue
        good, out = _lean_ok('\n'.join(kept + [text, tail]))
        if good is False:
            err = [ln for ln in out.splitlines() if 'error' in ln][:1]
            msg = 'translation is not well-typed: ' + (err[0].split('error:')[-1].strip()[:200] if err else 'lean rejected it')
            status[spec['name']] = msg
            kept.append('/-- NOT TRANSLATED: the translation of this kernel did not type-check. -/\n'
                        'def %s_untranslatable : String := %s\n' % (spec['name'], json_str(msg)))
        else:
            kept.append(text)
    return kept + [tail], status


def main():
    text, status = generate()
    old = open(OUT).read() if os.path.exists(OUT) else None
    if old != text:
        os.makedirs(os.path.dirname(OUT), exist_ok=True)
        with open(OUT, 'w') as fh:
            fh.write(text)
    bad = {k: v for k, v in status.items() if v != 'ok'}
    print('gen_source: %d kernels translated, %d not translatable, %s' % (
        len(status) - len(bad), len(bad), 'unchanged' if old == text else 'REWRITTEN'))
    for k, v in bad.items():
        print('  gen_source: %s: %s' % (k, v))
    return 0


if __name__ == '__main__':
    sys.exit(main())
