"""In-memory stand-in for the subset of h5py that epsie's checkpointing uses.

    epsie/__init__.py  dump_pickle_to_hdf :  fp[path]            (group lookup)
                                             dsetname not in fp  (membership)
                                             fp.create_dataset(dsetname, shape=..., maxshape=(None,), dtype='S1')
                                             fp[dsetname].shape[0]
                                             fp[dsetname].resize((n,))
                                             fp[dsetname][:] = bdata
                       load_state         :  fp[path] ; fp[dsetname][()]

h5py is NOT installed in this sandbox and cannot be installed (no network), so
none of epsie's checkpointing code can run against the real library here.  This
module implements the calls listed above — and nothing of HDF5 itself — on top
of *real numpy arrays*, so that numpy's own rules decide everything numpy decides
in the real stack as well: what `numpy.frombuffer(..., dtype='S1')` yields, what
an assignment `arr[:] = data` accepts (equal shapes, or a length-1 source that
is broadcast; anything else raises ValueError), how NUL bytes are kept by
`ndarray.tobytes()`.

ASSUMED, NOT CHECKED HERE (trusted base of property C20): that h5py / HDF5
behave like this stand-in for the calls above, namely

  * a dataset of dtype 'S1' stores one byte per element verbatim (HDF5
    fixed-length strings of size 1, null padded) and `dset[()]` returns a numpy
    'S1' array holding the same bytes, NUL bytes included;
  * `create_dataset(name, shape=(n,), maxshape=(None,), dtype=...)` makes a
    chunked dataset of n fill-value (NUL) elements that can later be resized to
    any length; with `maxshape=(m,)` it can be resized up to m; with
    `maxshape=None` it is contiguous and `resize` raises TypeError;
  * `dset.resize((n,))` keeps the first min(old, n) elements and fills the rest
    with the fill value; it raises when n exceeds the maximal shape;
  * `dset[:] = data` with `data.shape == dset.shape` overwrites the whole
    dataset (h5py's own broadcasting of *unequal* shapes differs in detail from
    numpy's; the checkpoint code never gets there, see theorem
    `C20_assign_exact`, and the stand-in uses numpy's rule);
  * `name in group` is true for datasets and for subgroups, follows `/`
    separated paths; `group[name]` raises KeyError for a missing member;
  * `create_dataset('a/b', ...)` creates missing intermediate groups; creating
    an existing name raises ValueError.

Every call made on the stand-in is appended to `File.calls` so that a harness
can see which branch (create / resize / plain overwrite) the real code took.
Anything outside the listed subset raises `Unsupported`: the stand-in must not
silently accept a call whose h5py semantics it does not know.
"""
import numpy


class Unsupported(Exception):
    """A call outside the modelled subset of h5py was made."""


class _Surface:
    """Any h5py attribute or method outside the modelled subset raises `Unsupported`
    (not AttributeError): the stand-in does not know what h5py would do."""

    _ABSENT = ()

    def __getattr__(self, name):
        if name.startswith('_') or name in type(self)._ABSENT:
            raise AttributeError('%r object has no attribute %r' % (type(self).__name__, name))
        raise Unsupported('h5py attribute %r of %s is not modelled by the stand-in'
                          % (name, type(self).__name__))


def _split(path):
    if isinstance(path, bytes):
        path = path.decode()
    if not isinstance(path, str):
        raise TypeError('h5stub: object names must be str, got %r' % type(path).__name__)
    return [c for c in path.split('/') if c != '']


class Dataset(_Surface):
    """One-dimensional dataset backed by a numpy array."""

    def __init__(self, root, loc, shape, maxshape, dtype):
        if isinstance(shape, int):
            shape = (shape,)
        shape = tuple(int(s) for s in shape)
        if len(shape) != 1:
            raise Unsupported('only one-dimensional datasets are modelled, shape=%r' % (shape,))
        if maxshape is None:
            self.chunked = False
            self.maxshape = shape
        else:
            if isinstance(maxshape, int):
                maxshape = (maxshape,)
            maxshape = tuple(maxshape)
            if len(maxshape) != 1:
                raise ValueError('maxshape must have the same rank as shape')
            if maxshape[0] is not None and maxshape[0] < shape[0]:
                raise ValueError('shape exceeds maxshape')
            self.chunked = True
            self.maxshape = maxshape
        self._root = root
        self.loc = tuple(loc)
        self._a = numpy.zeros(shape, dtype=numpy.dtype(dtype))

    # -- the attributes / calls the checkpoint code uses
    @property
    def shape(self):
        self._root._log('shape', self.loc)
        return self._a.shape

    @property
    def dtype(self):
        return self._a.dtype

    @property
    def size(self):
        return self._a.size

    def __len__(self):
        return self._a.shape[0]

    def resize(self, size, axis=None):
        if axis is not None:
            size = (size,)
        if isinstance(size, (int, numpy.integer)):
            size = (size,)
        size = tuple(int(s) for s in size)
        self._root._log('resize', self.loc, size[0] if size else None)
        if len(size) != 1:
            raise ValueError('h5stub: wrong rank in resize%r' % (size,))
        if not self.chunked:
            raise TypeError('Only chunked datasets can be resized')
        n = size[0]
        if n < 0:
            raise ValueError('negative size')
        if self.maxshape[0] is not None and n > self.maxshape[0]:
            raise ValueError('unable to set extend dataset (dimension cannot exceed the '
                             'existing maximal size (new: %d max: %d))' % (n, self.maxshape[0]))
        new = numpy.zeros((n,), dtype=self._a.dtype)
        k = min(n, self._a.shape[0])
        new[:k] = self._a[:k]
        self._a = new

    def __setitem__(self, key, value):
        if not (isinstance(key, slice) and key == slice(None, None, None)) and key is not Ellipsis:
            raise Unsupported('only whole-dataset assignment dset[:] = ... is modelled, got key %r' % (key,))
        value = numpy.asarray(value)
        self._root._log('assign', self.loc, int(value.size))
        # numpy's own rule: equal shapes, or broadcastable (length-1 source); else ValueError
        self._a[:] = value

    def __getitem__(self, key):
        if key == () or key is Ellipsis or (isinstance(key, slice) and key == slice(None, None, None)):
            self._root._log('read', self.loc)
            return self._a.copy()
        raise Unsupported('only whole-dataset reads dset[()] are modelled, got key %r' % (key,))

    # what is stored, for harnesses (not part of the h5py surface)
    def raw_bytes(self):
        return self._a.tobytes()


class Group(_Surface):
    # attributes of h5py.Dataset that h5py.Group does not have (plain AttributeError in h5py)
    _ABSENT = ('shape', 'dtype', 'size', 'ndim', 'nbytes', 'maxshape', 'chunks', 'fillvalue', 'resize',
               'len', 'astype', 'asstr', 'fields', 'read_direct', 'write_direct', 'flush', 'refresh',
               'make_scale', 'dims', 'is_virtual', 'compression', 'scaleoffset', 'shuffle')

    def __init__(self, root, loc):
        self._root = root if root is not None else self
        self.loc = tuple(loc)
        self._members = {}

    # -- navigation
    def _walk(self, comps):
        node = self
        for c in comps:
            if not isinstance(node, Group) or c not in node._members:
                return None
            node = node._members[c]
        return node

    def _resolve(self, name):
        comps = _split(name)
        if isinstance(name, str) and name.startswith('/'):
            return self._root, comps
        return self, comps

    def __getitem__(self, name):
        start, comps = self._resolve(name)
        self._root._log('getitem', start.loc + tuple(comps))
        node = start._walk(comps)
        if node is None:
            raise KeyError("Unable to open object (object '%s' doesn't exist)" % (name,))
        return node

    def __contains__(self, name):
        start, comps = self._resolve(name)
        self._root._log('contains', start.loc + tuple(comps))
        return start._walk(comps) is not None

    def __setitem__(self, name, value):
        raise Unsupported('group[name] = value is not modelled; use create_dataset')

    def __iter__(self):
        return iter(sorted(self._members))

    def keys(self):
        return sorted(self._members)

    def _make_parents(self, start, comps):
        node = start
        for c in comps:
            nxt = node._members.get(c)
            if nxt is None:
                nxt = Group(self._root, node.loc + (c,))
                node._members[c] = nxt
            elif not isinstance(nxt, Group):
                raise ValueError('Unable to create group (%s is not a group)' % c)
            node = nxt
        return node

    def create_group(self, name):
        start, comps = self._resolve(name)
        if not comps:
            raise ValueError('Unable to create group (name already exists)')
        parent = self._make_parents(start, comps[:-1])
        if comps[-1] in parent._members:
            raise ValueError('Unable to create group (name already exists)')
        g = Group(self._root, parent.loc + (comps[-1],))
        parent._members[comps[-1]] = g
        return g

    def require_group(self, name):
        start, comps = self._resolve(name)
        return self._make_parents(start, comps)

    def create_dataset(self, name, shape=None, dtype=None, data=None, maxshape=None, **kwds):
        if data is not None or shape is None:
            raise Unsupported('create_dataset is modelled with an explicit shape and no data only')
        extra = {k: v for k, v in kwds.items() if v is not None}
        if extra:
            raise Unsupported('create_dataset keywords not modelled: %r' % sorted(extra))
        if dtype is None:
            dtype = 'f4'
        start, comps = self._resolve(name)
        if maxshape is None:
            mx = 'contiguous'
        else:
            mx = maxshape if isinstance(maxshape, int) else maxshape[0]
            mx = 'unlimited' if mx is None else int(mx)
        self._root._log('create', start.loc + tuple(comps),
                        int(shape[0]) if not isinstance(shape, int) else int(shape), mx)
        if not comps:
            raise ValueError('Unable to create dataset (name already exists)')
        parent = self._make_parents(start, comps[:-1])
        if comps[-1] in parent._members:
            raise ValueError('Unable to create dataset (name already exists)')
        d = Dataset(self._root, parent.loc + (comps[-1],), shape, maxshape, dtype)
        parent._members[comps[-1]] = d
        return d


class File(Group):
    """The root group.  `File()` is an empty writable in-memory file."""

    def __init__(self, *args, **kwds):
        self.calls = []
        Group.__init__(self, None, ())
        self._root = self

    def _log(self, *call):
        self.calls.append(call)

    def __enter__(self):
        return self

    def __exit__(self, *exc):
        return False

    def close(self):
        pass

    def flush(self):
        pass

    # -- for harnesses
    def listing(self):
        """(groups, datasets): sorted group locations (tuples of components, root
        excluded) and {dataset location: (bytes, maxlen or None, chunked)}."""
        groups, dsets = [], {}

        def rec(g):
            for name in sorted(g._members):
                m = g._members[name]
                if isinstance(m, Group):
                    groups.append(m.loc)
                    rec(m)
                else:
                    dsets[m.loc] = (m.raw_bytes(), m.maxshape[0], m.chunked, str(m.dtype))
        rec(self)
        return sorted(groups), dsets
