"""Failing-input searches on the REAL code with oracles that come from the
property statements (independent of the Lean model)."""
import math
import pickle
import random

import numpy

import common
import plumbing
import instrument as I
from epsie.chain.chain import Chain
from epsie.chain.ptchain import ParallelTemperedChain


def _eq(a, b):
    """Exact equality of two recorded values (NaN == NaN)."""
    try:
        fa, fb = float(a), float(b)
    except (TypeError, ValueError):
        return a == b
    if math.isnan(fa) and math.isnan(fb):
        return True
    return fa == fb


def _rec_equal(params, a, b):
    return all(_eq(a[p], b[p]) for p in params)


class StepCapture:
    """Wraps Chain.step to capture, per level and iteration, the state before the
    step and the record the step wrote (i.e. before any temperature swap)."""

    def __init__(self):
        self.events = []

    def __enter__(self):
        cap = self
        self._orig = Chain.step

        def step(self_):
            prev_pos = dict(self_.current_position)
            prev_stats = dict(self_.current_stats)
            prev_blob = None if not self_.hasblobs else dict(self_.current_blob)
            r = cap._orig(self_)
            n = len(self_)
            cap.events.append({
                'chain': self_, 'iteration': self_.iteration,
                'prev_pos': prev_pos, 'prev_stats': prev_stats, 'prev_blob': prev_blob,
                'pos': self_._positions.asdict(n - 1), 'stats': self_._stats.asdict(n - 1),
                'blob': None if not self_.hasblobs else self_._blobs.asdict(n - 1),
                'acc': self_._acceptance.asdict(n - 1),
                'proposed': dict(self_._proposed_position)})
            return r
        Chain.step = step
        return self

    def __exit__(self, *a):
        Chain.step = self._orig
        return False


def faithful_findings(case, max_findings=3):
    """C08 oracle: every recorded (logl, logp, blob) is the model's output at the recorded
    position; accept/reject records; ar in [0,1]; all access paths; lengths."""
    out = []
    model = plumbing.make_model(case)
    ref = plumbing.make_model(case)      # a second, identical pure model used as the oracle
    params = [p[0] for p in case.params]

    def bad(key, text, extra=None):
        if len(out) < max_findings:
            out.append((key, text, {'case': case.describe(), 'detail': extra,
                                    'how_to_replay': 'harness/realsearch.py faithful_findings(Case.from_description(case))'}))

    with StepCapture() as cap:
        sampler = plumbing.build_sampler(case, case.seed, model)
        sampler.start_position = plumbing.start_positions(case)

        def current_paths(where):
            # current_* through every path, also before the first iteration and right after a clear,
            # and the values themselves: the model's outputs at the current position
            try:
                for key, text, extra in _access_paths(sampler, current_only=True):
                    bad(key, where + ': ' + text, extra)
                for ci, ch in enumerate(sampler.chains):
                    for t, l in enumerate(I.levels_of(ch)):
                        cp, cs = l.current_position, l.current_stats
                        r = ref(**{p: cp[p] for p in params})
                        if not (_eq(cs['logl'], r[0]) and _eq(cs['logp'], r[1])):
                            bad('current-unfaithful', '%s: current_stats %s are not the model outputs %s at the current position'
                                % (where, dict(cs), r[:2]), {'chain': ci, 'level': t})
            except Exception as e:      # noqa: BLE001
                bad('current-raises', '%s: reading the current values raised %r' % (where, e), None)
        current_paths('after setting the start positions')
        for op in case.ops:
            if op[0] == 'run':
                cap.events = []
                sampler.run(op[1])
                for ev in cap.events:
                    ar = float(ev['acc']['acceptance_ratio'])
                    if not (0.0 <= ar <= 1.0):
                        bad('ar-range', 'recorded acceptance ratio %r outside [0,1]' % ar, {'iteration': ev['iteration']})
                    prop = {p: ev['proposed'][p] for p in params}
                    if ev['acc']['accepted']:
                        r = ref(**prop)
                        ok = _rec_equal(params, ev['pos'], prop) and _eq(ev['stats']['logl'], r[0]) \
                            and _eq(ev['stats']['logp'], r[1])
                        if ok and len(r) == 3:
                            ok = all(_eq(ev['blob'][k], r[2][k]) for k in r[2])
                        if not ok:
                            bad('accept-record', 'an accepted step did not record the proposed point with that '
                                'evaluation\'s outputs', {'iteration': ev['iteration'], 'proposed': str(prop),
                                                          'recorded': str(ev['pos']), 'stats': str(ev['stats'])})
                    else:
                        ok = _rec_equal(params, ev['pos'], ev['prev_pos']) and \
                            _eq(ev['stats']['logl'], ev['prev_stats']['logl']) and \
                            _eq(ev['stats']['logp'], ev['prev_stats']['logp'])
                        if ok and ev['prev_blob'] is not None:
                            ok = all(_eq(ev['blob'][k], ev['prev_blob'][k]) for k in ev['prev_blob'])
                        if not ok:
                            bad('reject-record', 'a rejected step did not repeat the previous record',
                                {'iteration': ev['iteration'], 'previous': str(ev['prev_pos']), 'recorded': str(ev['pos'])})
            elif op[0] == 'clear':
                sampler.clear()
                current_paths('after a clear')
            elif op[0] == 'saveload':
                try:
                    st = pickle.loads(pickle.dumps(sampler.state))
                except ValueError:
                    continue
                new = plumbing.build_sampler(case, case.seed + 7919, model)
                new.set_state(st)
                sampler = new
                current_paths('after loading a state')
            elif op[0] in ('dump', 'getall'):
                _check_history(case, sampler, ref, params, bad)
        _check_history(case, sampler, ref, params, bad)
    return out


def _check_history(case, sampler, ref, params, bad):
    for ci, ch in enumerate(sampler.chains):
        levels = I.levels_of(ch)
        if len(ch) != ch.iteration - ch.lastclear:
            bad('len', 'len(chain) != iteration - lastclear', {'chain': ci})
        for t, l in enumerate(levels):
            n = len(l)
            if l.iteration == 0:
                continue
            if n == 0:
                continue
            pos, sts, acc, blobs = l.positions, l.stats, l.acceptance, l.blobs
            if not (len(pos) == len(sts) == len(acc) == n):
                bad('len', 'array lengths differ from len(chain)', {'chain': ci, 'level': t})
                continue
            for i in range(n):
                r = ref(**{p: pos[i][p] for p in params})
                ok = _eq(sts[i]['logl'], r[0]) and _eq(sts[i]['logp'], r[1])
                if ok and len(r) == 3:
                    ok = blobs is not None and all(_eq(blobs[i][k], r[2][k]) for k in r[2])
                if not ok:
                    bad('unfaithful-record', 'recorded stats/blob are not the model\'s outputs at the recorded position',
                        {'chain': ci, 'level': t, 'index': i, 'position': str(pos[i]), 'stats': str(sts[i]),
                         'model': str(r)})
                    break
            # per-index access, positive and negative
            for i in list(range(-n, n)):
                j = i % n
                try:
                    it = l[i]
                except Exception as e:
                    bad('getitem-raises', 'chain[%d] raised %r for len %d' % (i, e, n), {'chain': ci, 'level': t})
                    break
                ok = _rec_equal(params, it['positions'], pos[j]) and _eq(it['stats']['logl'], sts[j]['logl']) and \
                    _eq(it['acceptance']['acceptance_ratio'], acc[j]['acceptance_ratio'])
                if ok and blobs is not None:
                    ok = all(_eq(it['blobs'][k], blobs[j][k]) for k in blobs.dtype.names)
                if not ok:
                    bad('getitem-negative' if i < 0 else 'getitem', 'chain[%d] differs from the arrays at index %d (len %d)' % (i, j, n),
                        {'chain': ci, 'level': t, 'index': i})
                    break
            cp, cs = l.current_position, l.current_stats
            if not (_rec_equal(params, cp, pos[n - 1]) and _eq(cs['logl'], sts[n - 1]['logl'])
                    and _eq(cs['logp'], sts[n - 1]['logp'])):
                bad('current', 'current_* differs from the last record', {'chain': ci, 'level': t})
        # parallel tempered per-index access
        if isinstance(ch, ParallelTemperedChain) and len(ch) > 0 and ch.iteration > 0:
            n = len(ch)
            P_, S_ = ch.positions, ch.stats
            for i in (0, n - 1, -1, -n):
                try:
                    it = ch[i]
                except Exception as e:
                    bad('ptchain-getitem-raises', 'ParallelTemperedChain[%d] raised %r' % (i, e), {'chain': ci})
                    break
                j = i % n
                got = it['positions']
                want = P_[..., j]
                ok = got.shape == want.shape and all(
                    _eq(a, b) for p in params for a, b in zip(numpy.atleast_1d(got[p]).ravel(),
                                                              numpy.atleast_1d(want[p]).ravel()))
                if not ok:
                    bad('ptchain-getitem', 'ParallelTemperedChain[%d] does not return iteration %d of every level' % (i, j),
                        {'chain': ci, 'got_shape': str(got.shape), 'want_shape': str(want.shape)})
                    break
    # sampler-level stacks
    try:
        if sampler.chains[0].iteration > 0 and len(sampler.chains[0]) > 0:
            SP, SS = sampler.positions, sampler.stats
            for ci, ch in enumerate(sampler.chains):
                cp = ch.positions
                sl = SP[:, ci] if isinstance(ch, ParallelTemperedChain) else SP[ci]
                if sl.shape != cp.shape or not all(
                        _eq(a, b) for p in params for a, b in zip(sl[p].ravel(), cp[p].ravel())):
                    bad('sampler-stack', 'sampler.positions differs from the chain arrays', {'chain': ci})
            cur = sampler.current_positions
            for ci, ch in enumerate(sampler.chains):
                cc = ch.current_position
                for p in params:
                    a = cur[p][..., ci]
                    b = cc[p]
                    if not all(_eq(x, y) for x, y in zip(numpy.atleast_1d(a).ravel(), numpy.atleast_1d(b).ravel())):
                        bad('sampler-current', 'sampler.current_positions differs from the chains', {'chain': ci})
    except Exception as e:
        bad('sampler-stack-raises', 'sampler-level arrays raised %r' % (e,), None)
    try:
        for key, text, extra in _access_paths(sampler):
            bad(key, text, extra)
    except Exception as e:
        bad('sampler-stack-raises', 'comparing the access paths raised %r' % (e,), None)


def _fields_equal(a, b):
    """Two structured arrays / dicts of arrays hold the same values field by field (NaN = NaN)."""
    na = a.dtype.names if isinstance(a, numpy.ndarray) else sorted(a)
    nb = b.dtype.names if isinstance(b, numpy.ndarray) else sorted(b)
    if na is None or nb is None:
        x, y = numpy.asarray(a), numpy.asarray(b)
        return x.shape == y.shape and all(_eq(u, v) for u, v in zip(x.ravel(), y.ravel()))
    if sorted(na) != sorted(nb):
        return False
    for f in na:
        x, y = numpy.asarray(a[f]), numpy.asarray(b[f])
        if x.shape != y.shape or not all(_eq(u, v) for u, v in zip(x.ravel(), y.ravel())):
            return False
    return True


def _access_paths(sampler, current_only=False):
    """Every array the sampler and its chains hand out is the same data as the per-level arrays:
    positions / stats / acceptance / blobs (level -> tempered chain -> sampler), current_* (level ->
    tempered chain -> sampler), swap history (chain -> sampler).  Yields (key, text, extra)."""
    chains = list(sampler.chains)
    if not chains or (chains[0].iteration == 0 and not current_only):
        return
    ispt = isinstance(chains[0], ParallelTemperedChain)
    retained = len(chains[0]) > 0 and not current_only
    hasblobs = bool(I.levels_of(chains[0])[0].hasblobs)
    fields = ('positions', 'stats', 'acceptance') + (('blobs',) if hasblobs else ())
    if retained:
        for f in fields:
            S = getattr(sampler, f)
            for ci, ch in enumerate(chains):
                C = getattr(ch, f)
                if ispt:
                    for t, l in enumerate(I.levels_of(ch)):
                        if not _fields_equal(C[t], getattr(l, f)):
                            yield ('chain-stack:' + f, 'ParallelTemperedChain.%s[%d] differs from the level\'s own array' % (f, t),
                                   {'chain': ci, 'level': t})
                            break
                sl = S[:, ci] if ispt else S[ci]
                if not _fields_equal(sl, C):
                    yield ('sampler-stack:' + f, 'sampler.%s differs from the chain\'s array' % f, {'chain': ci})
                    break
    for f_chain, f_smp in (('current_position', 'current_positions'), ('current_stats', 'current_stats')) + \
            ((('current_blob', 'current_blobs'),) if hasblobs else ()):
        S = getattr(sampler, f_smp)
        for ci, ch in enumerate(chains):
            C = getattr(ch, f_chain)
            if ispt:
                for t, l in enumerate(I.levels_of(ch)):
                    L = getattr(l, f_chain)
                    if not all(_eq(numpy.asarray(C[k])[t], L[k]) for k in L):
                        yield ('chain-current:' + f_chain, 'ParallelTemperedChain.%s differs from level %d' % (f_chain, t),
                               {'chain': ci, 'level': t})
                        break
            if not all(_fields_equal(numpy.asarray(S[k])[..., ci], numpy.asarray(C[k])) for k in C):
                yield ('sampler-current:' + f_smp, 'sampler.%s differs from the chain' % f_smp, {'chain': ci})
                break
    if ispt and chains[0].ntemps > 1 and retained:
        for f in ('temperature_swaps', 'temperature_acceptance'):
            try:
                S = getattr(sampler, f)
            except ValueError:
                continue
            for ci, ch in enumerate(chains):
                if not _fields_equal(S[:, ci], getattr(ch, f)):
                    yield ('sampler-stack:' + f, 'sampler.%s differs from the chain\'s array' % f, {'chain': ci})
                    break
    if current_only:
        return
    if sampler.niterations != chains[0].iteration:
        yield ('sampler-niterations', 'sampler.niterations differs from the chains\' iteration', None)


def gen_cases(seed, n, td_every=5, **kw):
    """Random configurations; every `td_every`-th one is a nested transdimensional sampler."""
    rng = random.Random(seed)
    out = []
    for i in range(n):
        if td_every and i % td_every == td_every - 1:
            out.append(plumbing.gen_td_case(rng, 's%d' % i, kinds=kw.get('kinds', ('mh', 'pt')),
                                            allow_saveload=kw.get('allow_saveload', True)))
        else:
            out.append(plumbing.gen_case(rng, 's%d' % i, **kw))
    return out


# --------------------------------------------------------------------------
# C15: jump-interval schedule on the real code
# --------------------------------------------------------------------------

def _due_by_statement(i, k, D, adaptive, start_step):
    """Is a proposal with jump interval k and duration D due at chain iteration i (1-based)?
    (property text: iterations 1, k+1, 2k+1, ... until D proposal steps have elapsed -
    measured from the start step for adaptive classes - then every iteration)."""
    if k == 1:
        return True
    steps = (i - 1) // k
    elapsed = steps - start_step + 1 if adaptive else steps
    if elapsed >= D:
        return True
    return (i - 1) % k == 0


def schedule_findings(seed, families=None, full=False, max_findings=4):
    import families as F
    from epsie.chain import Chain
    from epsie.proposals import Normal
    from epsie.proposals.base import BaseAdaptiveSupport
    rng = random.Random(seed)
    out = []
    ncfg = 0
    nsteps_total = 0
    fams = list(families or F.FAMILIES)
    # every family in both tiers; the quick tier draws one (k, D) per family and, per start step, the plain
    # run plus two of the four interruptions
    for fam in fams:
        cls, kind, lo, hi = F.FAMILIES[fam]
        for k in ((2, 3) if full else (rng.choice([2, 3]),)):
            for D in ((2, 4) if full else (rng.choice([2, 3, 4]),)):
                for st in ((1, 2, 3) if fam in F.ADAPTIVE and fam not in F.SS else (1,)):
                    ints = (None, 'clear', 'resume', 'rollback', 'reset', 'reset+resume')
                    if not full:
                        ints = (None,) + tuple(rng.sample(ints[1:], 2))
                    for interrupt in ints:
                        ncfg += 1
                        res = _schedule_one(fam, k, D, st, interrupt, rng, F, Chain, Normal, BaseAdaptiveSupport)
                        nsteps_total += res[1]
                        for key, text, payload in res[0]:
                            if len(out) < max_findings and not any(k_ == key for k_, _, _ in out):
                                out.append((key, text, payload))
    return out, {'configurations': ncfg, 'steps': nsteps_total}


def _schedule_one(fam, k, D, st, interrupt, rng, F, Chain, Normal, BaseAdaptiveSupport):
    cls, kind, lo, hi = F.FAMILIES[fam]
    n = lo
    names = ['x%d' % i for i in range(n)]
    prng = random.Random(rng.randrange(1 << 30))
    state = prng.getstate()
    doms = {p: F.domain_for(kind, prng, i) for i, p in enumerate(names)}
    box = {p: doms[p] for p in names if kind in ('box', 'intbox')}
    model = I.LoggedModel(names + ['z'], kind='quad', box=box)

    def build(seed):
        pr = random.Random(12345)
        slow = F.make(fam, names, doms, pr, jump_interval=k, window=D, start_step=st,
                      optional=(k * 31 + D * 7 + st) if (k + D + st) % 2 else None)
        fast = Normal(['z'], cov=[0.3])
        return Chain(names + ['z'], model, [slow, fast], bit_generator=seed, beta=0.5), slow

    ch, slow = build(7)
    adaptive = isinstance(slow, BaseAdaptiveSupport)
    # the configured duration: the adaptation duration of an adaptive class, the explicit
    # jump_interval_duration otherwise -- in this harness both are D (not read back from the object)
    Dcfg = D
    if slow.jump_interval_duration != D:
        return ([('duration-not-as-configured:' + fam,
                  '%s configured with a duration of %d proposal steps (start step %d) has jump_interval_duration=%r'
                  % (fam, D, st, slow.jump_interval_duration),
                  {'family': fam, 'k': k, 'configured': D, 'start_step': st,
                   'observed': slow.jump_interval_duration})], 0)
    if slow.jump_interval != k:
        return ([('jump-interval-ignored:' + fam,
                  '%s constructed with jump_interval=%d has jump_interval=%d' % (fam, k, slow.jump_interval),
                  {'family': fam, 'requested': k, 'observed': slow.jump_interval})], 0)
    srng = random.Random(99)
    start = {}
    for i, p in enumerate(names):
        start[p] = F.start_value(kind if kind != 'sphere' else 'sphere', doms[p], srng, i)
    start['z'] = 0.1
    ch.start_position = start
    N = k * (D + st + 2) + 3
    cut = rng.randrange(1, N)
    findings = []
    discrete = kind in ('int', 'intbox')
    steps = 0
    if interrupt in ('reset', 'reset+resume') and not adaptive:
        return [], 0
    kept = None
    cur_start = st if adaptive else 1
    # 'rollback': save during the slow phase, run on past it, set the SAME chain back to the saved state;
    # 'reset': run past the slow phase, reset the proposals (an adaptive proposal's duration is measured
    #          from its start step, which the reset moves to the current proposal step)
    order = list(range(1, N + 1))
    if interrupt == 'rollback':
        j = rng.randrange(1, max(2, k * 2))
        order = list(range(1, N + 1)) + list(range(j + 1, N + 1))
    elif interrupt in ('reset', 'reset+resume'):
        order = list(range(1, N + 1)) + list(range(N + 1, N + k * (D + 2) + 3))
    resume_at = N + 1 + rng.randrange(1, k + 2) if interrupt == 'reset+resume' else None
    pos_in_order = 0
    for i in order:
        pos_in_order += 1
        if interrupt == 'rollback' and pos_in_order <= N and i - 1 == j:
            kept = pickle.dumps(ch.state)
        if interrupt == 'rollback' and pos_in_order == N + 1:
            ch.set_state(pickle.loads(kept))
        if interrupt in ('reset', 'reset+resume') and pos_in_order == N + 1:
            ch.reset_proposals()
            cur_start = max(slow.nsteps, 1)
        if resume_at is not None and pos_in_order == resume_at:
            # the start step the reset moved is part of what a resumed chain must carry on with
            st_ = pickle.loads(pickle.dumps(ch.state))
            ch, slow = build(4243)
            ch.set_state(st_)
        if interrupt == 'clear' and i - 1 == cut:
            ch.clear()
        if interrupt == 'resume' and i - 1 == cut:
            st_ = pickle.loads(pickle.dumps(ch.state))
            ch, slow = build(4242)
            ch.set_state(st_)
        before = dict(ch.current_position)
        bstats = dict(ch.current_stats)
        dig = I.adaptive_digest(slow)
        ch.step()
        steps += 1
        prop = ch.proposed_position
        moved = any(not _eq(prop[p], before[p]) for p in names)
        due = _due_by_statement(i, k, Dcfg, adaptive, cur_start)
        ctx = {'family': fam, 'k': k, 'duration': Dcfg, 'start_step': st, 'iteration': i,
               'interrupt': interrupt, 'cut': cut if interrupt else None}
        if moved and not due:
            findings.append(('moved-when-not-due:%s:%s' % (fam, interrupt), 'a slow proposal changed its parameters on an '
                             'iteration where it is not due', ctx))
            break
        if due and not moved and not discrete:
            findings.append(('not-moved-when-due:%s:%s' % (fam, interrupt), 'a slow proposal kept its parameters on an '
                             'iteration where it is due', ctx))
            break
        if not due and I.adaptive_digest(slow) != dig:
            findings.append(('adapted-when-not-due:%s:%s' % (fam, interrupt), 'a slow proposal was adapted on an iteration '
                             'where it did not propose', ctx))
            break
        if not due:
            # the fast proposal is symmetric: the recorded ar must be the plain posterior ratio
            r = model(**{p: prop[p] for p in names + ['z']})
            if r[1] != -numpy.inf:
                logar = r[1] + r[0] * 0.5 - bstats['logp'] - bstats['logl'] * 0.5
                want = 1.0 if logar > 0 else math.exp(logar)
                got = float(ch.acceptance[-1]['acceptance_ratio'])
                if abs(got - want) > 1e-12 * max(want, 1e-300):
                    findings.append(('hastings-when-not-due:%s:%s' % (fam, interrupt), 'a proposal that is not due '
                                     'contributed to the acceptance probability', dict(ctx, got=got, want=want)))
                    break
    return findings, steps


# --------------------------------------------------------------------------
# C18: evaluation counts on the real code
# --------------------------------------------------------------------------

def call_count_findings(case, max_findings=3):
    """Oracle from the property text: start = one call per chain and level; every iteration =
    one call per chain and level at the proposed point; nothing else calls the model; the values
    recorded for an accepted point come from that call (stateful blob = call index)."""
    out = []
    if isinstance(case, plumbing.TDCase):
        return _td_call_counts(case)
    params = [p[0] for p in case.params]
    model = plumbing.make_model(case)
    model.blobs = True
    model.stateful = True
    listed = [pr for i, pr in enumerate(case.props) if i != getattr(case, 'unlisted', None)]
    has_comp = any(kw.get('componentwise') for _, _, kw in listed)

    def bad(key, text, extra=None):
        if len(out) < max_findings:
            out.append((key, text, {'case': case.describe(), 'detail': extra}))

    nlev = len(case.betas) if case.kind == 'pt' else 1
    per_iter = case.nchains * nlev
    with StepCapture() as cap:
        sampler = plumbing.build_sampler(case, case.seed, model)
        n0 = model.ncalls
        start = plumbing.start_positions(case)
        if case.seed % 3 == 0:
            # all chains and levels start from the SAME point: still one evaluation each
            start = {k: numpy.full_like(v, v.flat[0]) for k, v in start.items()}
        sampler.start_position = start
        if model.ncalls - n0 != per_iter:
            bad('start-calls', 'setting the start positions made %d model calls, expected %d' % (model.ncalls - n0, per_iter))
        for op in case.ops:
            n0 = model.ncalls
            if op[0] == 'run':
                cap.events = []
                # per-step check through the capture
                orig_events_len = 0
                sampler.run(op[1])
                made = model.ncalls - n0
                want = op[1] * per_iter
                # componentwise scaling: one documented virtual evaluation per adapted parameter on every
                # iteration in which the proposal is due and adapting (1 < dk < adaptation_duration)
                it_before = sampler.chains[0].iteration - op[1]
                for fam, names, kw in listed:
                    if not kw.get('componentwise'):
                        continue
                    k_ = kw.get('jump_interval', 1)
                    T_ = kw.get('window')
                    st_ = kw.get('start_step', 1)
                    for i in range(it_before + 1, it_before + op[1] + 1):
                        dk = (i - 1) // k_ - st_ + 1
                        if _due_by_statement(i, k_, T_, True, st_) and 1 < dk < T_:
                            want += len(names) * per_iter
                if has_comp and getattr(case, 'reset_after_swap', False) and case.kind == 'pt':
                    # a reset after a swap restarts the adaptation window of the exchanged levels, so the
                    # number of virtual evaluations depends on the swap outcomes: the closed form above does
                    # not apply (the plumbing correspondence compares the exact count, `extraCalls`); here
                    # only the bounds that hold whatever the outcomes
                    base = op[1] * per_iter
                    most = base + op[1] * per_iter * sum(len(names) for _, names, kw in listed if kw.get('componentwise'))
                    if not base <= made <= most:
                        bad('run-calls', 'run(%d) made %d model calls, expected between %d and %d' % (op[1], made, base, most),
                            {'nchains': case.nchains, 'nlevels': nlev})
                elif made != want:
                    bad('run-calls', 'run(%d) made %d model calls, expected %d' % (op[1], made, want),
                        {'nchains': case.nchains, 'nlevels': nlev})
                for ev in cap.events:
                    if ev['acc']['accepted']:
                        # the blob's b1 is the index of the call that produced it; it must be a call made
                        # during this run and the recorded logl must be that of the proposed point
                        b1 = ev['blob']['b1']
                        if not (n0 < b1 <= model.ncalls):
                            bad('stale-values', 'an accepted record carries values from an evaluation made before this run',
                                {'b1': float(b1), 'calls_before_run': n0})
                    else:
                        if ev['prev_blob'] is not None and not _eq(ev['blob']['b1'], ev['prev_blob']['b1']):
                            bad('reject-new-values', 'a rejected step recorded values of a new evaluation', None)
            elif op[0] == 'clear':
                sampler.clear()
            elif op[0] == 'saveload':
                try:
                    st = pickle.loads(pickle.dumps(sampler.state))
                except ValueError:
                    continue
                new = plumbing.build_sampler(case, case.seed + 7919, model)
                if model.ncalls != n0:
                    bad('construct-calls', 'constructing a sampler evaluated the model', None)
                new.set_state(st)
                sampler = new
            elif op[0] in ('dump', 'getall'):
                try:
                    _ = sampler.state
                except ValueError:
                    pass
                if sampler.chains[0].iteration > 0 and len(sampler.chains[0]) > 0:
                    _ = (sampler.positions, sampler.stats, sampler.acceptance, sampler.blobs,
                         sampler.current_positions, sampler.current_stats, sampler.current_blobs)
                    for ch in sampler.chains:
                        _ = ch[0]
                        if isinstance(ch, ParallelTemperedChain) and ch.ntemps > 1 and len(ch) >= ch.swap_interval:
                            _ = (ch.temperature_swaps, ch.temperature_acceptance)
            if op[0] != 'run' and model.ncalls != n0:
                bad('call-outside-step:' + op[0], 'operation %s evaluated the model %d time(s)' % (op[0], model.ncalls - n0))
    return out


# --------------------------------------------------------------------------
# C09: sweeps on the real code
# --------------------------------------------------------------------------

class SweepCapture:
    """Wraps swap_temperatures (state of every level before/after) and ChainData.__setitem__
    (the swap_index / acceptance rows actually stored, with their row index)."""

    def __init__(self):
        self.sweeps = []

    def __enter__(self):
        from epsie.chain.chaindata import ChainData
        cap = self
        self._ChainData = ChainData
        self._orig_swap = ParallelTemperedChain.swap_temperatures
        self._orig_set = ChainData.__setitem__
        self._cur = None

        def snap(ch):
            out = []
            for l in ch.chains:
                n = len(l)
                out.append({'pos': dict(l.current_position), 'stats': dict(l.current_stats),
                            'blob': None if not l.hasblobs else dict(l.current_blob),
                            'acc': l._acceptance.asdict(n - 1) if n > 0 else None,
                            'active': None if not ch.transdimensional else numpy.array(l._active_props).copy(),
                            'nsteps': [p._nsteps for p in l.proposal_dist.proposals],
                            'start_step': [getattr(p, 'start_step', None) for p in l.proposal_dist.proposals]})
            return out

        def swap(self_):
            ev = {'chain': self_, 'iteration': self_.iteration, 'lastclear': self_.lastclear,
                  'before': snap(self_), 'stored': {},
                  'ladder': [float(b) for b in self_.betas], 'level_betas': [float(l.beta) for l in self_.chains]}
            cap._cur = ev
            try:
                r = cap._orig_swap(self_)
            finally:
                cap._cur = None
            ev['after'] = snap(self_)
            cap.sweeps.append(ev)
            return r

        def setitem(self_, index, value):
            if cap._cur is not None and isinstance(value, dict) and isinstance(index, (int, numpy.integer)):
                if 'swap_index' in value:
                    cap._cur['stored']['swap_index'] = (int(index), numpy.array(value['swap_index']).copy())
                if 'acceptance_ratio' in value:
                    cap._cur['stored']['ars'] = (int(index), numpy.atleast_1d(numpy.array(value['acceptance_ratio'], dtype=float)).copy())
            return cap._orig_set(self_, index, value)
        ParallelTemperedChain.swap_temperatures = swap
        ChainData.__setitem__ = setitem
        return self

    def __exit__(self, *a):
        ParallelTemperedChain.swap_temperatures = self._orig_swap
        self._ChainData.__setitem__ = self._orig_set
        return False


def _state_equal(params, a, b):
    ok = _rec_equal(params, a['pos'], b['pos']) and _eq(a['stats']['logl'], b['stats']['logl']) and \
        _eq(a['stats']['logp'], b['stats']['logp'])
    if ok and a['blob'] is not None:
        ok = all(_eq(a['blob'][k], b['blob'][k]) for k in a['blob'])
    if ok and a['active'] is not None:
        ok = bool((a['active'] == b['active']).all())
    return ok


def sweep_ar_mismatch(ev, rtol=1e-9):
    """Replay of one captured sweep: with the ladder as it was when the sweep started and the
    log-likelihoods the levels held, the acceptance ratio of every adjacent pair, hot to cold, carrying
    the state that is pushed down (decisions read off the stored swap_index).  Returns None or text."""
    idx = ev['stored'].get('swap_index', (None, None))[1]
    ars = ev['stored'].get('ars', (None, None))[1]
    if idx is None or ars is None:
        return None
    n = len(ev['before'])
    if sorted(int(x) for x in idx) != list(range(n)) or len(ars) != n - 1:
        return None
    logl = [float(b['stats']['logl']) for b in ev['before']]
    for name in ('ladder', 'level_betas'):
        betas = ev[name]
        carry = n - 1
        for tk in range(n - 1, 0, -1):
            tj = tk - 1
            logar = (betas[tk] - betas[tj]) * (logl[tj] - logl[carry])
            want = 1.0 if logar > 0 else math.exp(logar)
            got = float(ars[tj])
            if abs(got - want) > rtol * max(abs(want), 1e-300) and abs(logar) > 2.0 ** -40:
                return ('pair (%d,%d): recorded acceptance ratio %r, but betas %s (%s at the time of the sweep) and '
                        'log-likelihoods %s give %r' % (tk, tj, got, betas, name, logl, want))
            if int(idx[tk]) != tj:        # refused: the carried state stays in slot tk
                carry = tj
    return None


def sweep_findings(case, max_findings=4):
    """C09 oracle (from the property): sweeps exactly at multiples of the swap interval; level t
    afterwards holds the complete state level swap_index[t] held; swap_index from adjacent
    exchanges hot to cold (a colder state moves up at most one level); acceptance records not
    exchanged; one row per sweep since the last clear, in order."""
    out = []
    if case.kind != 'pt':
        return out, 0
    params = [p[0] for p in case.params]
    model = plumbing.make_model(case)

    def bad(key, text, extra=None):
        if len(out) < max_findings and not any(k == key for k, _, _ in out):
            out.append((key, text, {'case': case.describe(), 'detail': extra}))

    nsweeps = 0
    with SweepCapture() as cap:
        sampler = plumbing.build_sampler(case, case.seed, model)
        sampler.start_position = plumbing.start_positions(case)
        s = case.swap_interval
        logs = {ci: [] for ci in range(case.nchains)}     # rows since the last clear, per chain
        for op in case.ops:
            if op[0] == 'run':
                cap.sweeps = []
                it0 = sampler.chains[0].iteration
                sampler.run(op[1])
                it1 = sampler.chains[0].iteration
                want_its = [i for i in range(it0 + 1, it1 + 1) if i % s == 0] if len(case.betas) > 1 else []
                for ci, ch in enumerate(sampler.chains):
                    evs = [e for e in cap.sweeps if e['chain'] is ch]
                    got_its = [e['iteration'] for e in evs]
                    if got_its != want_its:
                        bad('schedule', 'sweeps happened at iterations %s, expected %s (swap interval %d)' % (
                            got_its[:8], want_its[:8], s), {'chain': ci})
                    for e in evs:
                        nsweeps += 1
                        n = len(e['before'])
                        idx = e['stored'].get('swap_index', (None, None))[1]
                        if idx is None:
                            bad('no-row-stored', 'a sweep stored no swap_index row', {'iteration': e['iteration']})
                            continue
                        if sorted(int(x) for x in idx) != list(range(n)):
                            bad('not-a-permutation', 'swap_index %s is not a permutation' % list(idx), None)
                            continue
                        for t in range(n):
                            if int(idx[t]) < t - 1:
                                bad('moves-up-more-than-one', 'swap_index %s: the state in slot %d came from slot %d, '
                                    'more than one level colder' % (list(idx), t, int(idx[t])), None)
                            if not _state_equal(params, e['after'][t], e['before'][int(idx[t])]):
                                bad('state-not-permuted-whole', 'after the sweep level %d does not hold the complete state '
                                    '(position, logl, logp, blob, active set) that level %d held before' % (t, int(idx[t])),
                                    {'iteration': e['iteration'], 'swap_index': [int(x) for x in idx]})
                            if e['before'][t]['acc'] is not None and not (
                                    _eq(e['after'][t]['acc']['acceptance_ratio'], e['before'][t]['acc']['acceptance_ratio'])
                                    and bool(e['after'][t]['acc']['accepted']) == bool(e['before'][t]['acc']['accepted'])):
                                bad('acceptance-exchanged', 'a sweep changed a level\'s acceptance record', {'level': t})
                        ars = e['stored'].get('ars', (None, None))[1]
                        if ars is None or len(ars) != n - 1 or not all(0.0 <= float(a) <= 1.0 for a in ars):
                            bad('ars-row', 'acceptance-ratio row %r is not n-1 probabilities' % (ars,), None)
                        mm = sweep_ar_mismatch(e)
                        if mm:
                            bad('swap-ratio-not-from-current-ladder', 'a sweep was not decided with the current ladder and '
                                'log-likelihoods: ' + mm, {'iteration': e['iteration']})
                        logs[ci].append(([int(x) for x in idx], None if ars is None else [float(a) for a in ars]))
            elif op[0] == 'clear':
                sampler.clear()
                logs = {ci: [] for ci in range(case.nchains)}
            elif op[0] == 'saveload':
                try:
                    st = pickle.loads(pickle.dumps(sampler.state))
                except ValueError:
                    continue
                new = plumbing.build_sampler(case, case.seed + 7919, model)
                new.set_state(st)
                sampler = new
                logs = {ci: [] for ci in range(case.nchains)}
            # the recorded history against the independent log
            if len(case.betas) > 1:
                for ci, ch in enumerate(sampler.chains):
                    try:
                        ts, ta = ch.temperature_swaps, ch.temperature_acceptance
                    except ValueError:
                        ts = ta = None
                    nrows = 0 if ts is None else ts.shape[-1]
                    want = logs[ci]
                    if nrows != len(want):
                        lc = ch.lastclear
                        key = 'rows-view-short-after-offmultiple-clear' if (lc % s != 0 and nrows == len(want) - 1) \
                            else 'rows-count'
                        bad(key, 'the swap history shows %d row(s) but %d sweep(s) happened since the last clear '
                            '(swap interval %d, last clear at iteration %d, now at %d)' % (
                                nrows, len(want), s, lc, ch.iteration), {'chain': ci})
                    for r in range(min(nrows, len(want))):
                        if [int(x) for x in ts[:, r]] != want[r][0]:
                            bad('rows-content', 'row %d of temperature_swaps is not the swap_index of sweep %d since the clear'
                                % (r, r), {'chain': ci, 'row': [int(x) for x in ts[:, r]], 'want': want[r][0]})
                            break
                        if want[r][1] is not None and not all(_eq(a, b) for a, b in zip(ta[:, r], want[r][1])):
                            bad('rows-content-ars', 'row %d of temperature_acceptance is not that of sweep %d' % (r, r),
                                {'chain': ci})
                            break
                _sampler_rows_agree(sampler, bad, 'after op %r' % (op,))
        # directed tail: two segments of EQUAL length separated by clears, the sampler-level history read after
        # each (the production loop: run, read, checkpoint/clear, run the same number of iterations, read)
        if len(case.betas) > 1 and not out:
            m = max(2 * s, 4)
            for seg in range(2):
                try:
                    sampler.clear()
                    sampler.run(m)
                except Exception:
                    break
                _sampler_rows_agree(sampler, bad, 'equal-length segment %d after a clear' % (seg + 1))
    return out, nsweeps


def _sampler_rows_agree(sampler, bad, where):
    """The swap history read through the sampler is the stack of the chains' own histories."""
    try:
        per = [(ch.temperature_swaps, ch.temperature_acceptance) for ch in sampler.chains]
        ts, ta = sampler.temperature_swaps, sampler.temperature_acceptance
    except ValueError:
        return
    if ts is None or any(p[0] is None for p in per):
        return
    want_s = numpy.stack([p[0] for p in per], axis=1)
    want_a = numpy.stack([p[1] for p in per], axis=1)
    if ts.shape != want_s.shape or not numpy.array_equal(ts, want_s):
        bad('sampler-swap-history-differs-from-chains', 'sampler.temperature_swaps is not the stack of the chains\' '
            'temperature_swaps (%s): shapes %s vs %s' % (where, ts.shape, want_s.shape), None)
    elif ta.shape != want_a.shape or not numpy.array_equal(ta, want_a, equal_nan=True):
        bad('sampler-swap-history-differs-from-chains', 'sampler.temperature_acceptance is not the stack of the chains\' '
            'temperature_acceptance (%s)' % where, None)


# --------------------------------------------------------------------------
# C06: partitions and clears on the real code
# --------------------------------------------------------------------------

def _hist(sampler, params):
    """Retained history of every chain and level as plain tuples (bit-exact via float.hex)."""
    out = []
    for ch in sampler.chains:
        lv = []
        for l in I.levels_of(ch):
            n = len(l)
            rows = []
            if l.iteration > 0 and n > 0:
                pos, sts, acc, blobs = l.positions, l.stats, l.acceptance, l.blobs
                for i in range(n):
                    rows.append((tuple(_hx(pos[i][p]) for p in params), _hx(sts[i]['logl']), _hx(sts[i]['logp']),
                                 _hx(acc[i]['acceptance_ratio']), bool(acc[i]['accepted']),
                                 None if blobs is None else tuple(_hx(blobs[i][k]) for k in blobs.dtype.names)))
            lv.append(rows)
        sw = []
        if isinstance(ch, ParallelTemperedChain) and ch.ntemps > 1:
            try:
                ts, ta = ch.temperature_swaps, ch.temperature_acceptance
                for r in range(ts.shape[-1]):
                    sw.append((tuple(int(x) for x in ts[:, r]), tuple(_hx(x) for x in ta[:, r])))
            except ValueError:
                pass
        out.append((lv, sw))
    return out


def _hx(v):
    try:
        f = float(v)
    except (TypeError, ValueError):
        return repr(v)
    return 'nan' if math.isnan(f) else f.hex()


def partition_findings(case, n, parts, clears, max_findings=3):
    """case: configuration (ops ignored). parts: run lengths adding up to n. clears: set of
    indices k meaning `clear()` after the k-th run. Compares with one uninterrupted run(n)."""
    out = []
    params = [p[0] for p in case.params]

    def bad(key, text, extra=None):
        if len(out) < max_findings and not any(k == key for k, _, _ in out):
            out.append((key, text, {'case': dict(case.describe(), ops=[]), 'n': n, 'parts': list(parts),
                                    'clears': sorted(clears), 'detail': extra}))

    mA, mB = plumbing.make_model(case), plumbing.make_model(case)
    A = plumbing.build_sampler(case, case.seed, mA)
    A.start_position = plumbing.start_positions(case)
    try:
        A.run(n)
    except Exception as e:
        bad('reference-run-raises', 'the uninterrupted run raised %r' % (e,))
        return out
    ref = _hist(A, params)
    B = plumbing.build_sampler(case, case.seed, mB)
    B.start_position = plumbing.start_positions(case)
    acc = [([[] for _ in lv], []) for lv, _ in ref]
    s = case.swap_interval
    it = 0
    offmult = False

    def collect():
        h = _hist(B, params)
        for ci, (lv, sw) in enumerate(h):
            for t, rows in enumerate(lv):
                acc[ci][0][t].extend(rows)
            acc[ci][1].extend(sw)
    held = []        # (what, the array the chain handed out before a clear, its bytes at that time)

    def hold():
        # history arrays taken from the chains themselves (views of the scratch space) right before a
        # clear: the clear and the runs after it must leave them as they were
        for ci, ch in enumerate(B.chains):
            for t, lv in enumerate(I.levels_of(ch)):
                for what in ('positions', 'stats', 'acceptance') + (('blobs',) if lv.hasblobs else ()):
                    try:
                        a = getattr(lv, what)
                    except Exception:     # noqa: BLE001 - nothing retained yet
                        continue
                    if isinstance(a, numpy.ndarray) and a.size:
                        held.append(('chain %d level %d %s' % (ci, t, what), a, a.tobytes()))
            if len(case.betas) > 1 and case.kind == 'pt':
                for what in ('temperature_swaps', 'temperature_acceptance'):
                    try:
                        a = getattr(ch, what)
                    except Exception:     # noqa: BLE001
                        continue
                    if isinstance(a, numpy.ndarray) and a.size:
                        held.append(('chain %d %s' % (ci, what), a, a.tobytes()))
    for k, m in enumerate(parts):
        try:
            B.run(m)
        except Exception as e:
            key = 'annealer-crash-after-offmultiple-clear' if (offmult and case.dynamic and isinstance(e, IndexError)) \
                else 'partitioned-run-raises'
            bad(key, 'run(%d) of the partitioned run raised %r (uninterrupted run is fine)' % (m, e))
            return out
        it += m
        if k in clears:
            collect()
            hold()
            B.clear()
            if it % s != 0 and len(case.betas) > 1:
                offmult = True
            # right after a clear the histories are empty but READABLE through every path (once the chain
            # has been stepped at all: before that the code refuses, which is a legal refusal)
            try:
                if it == 0:
                    raise StopIteration
                names = ['positions', 'stats', 'acceptance'] + (['temperature_swaps', 'temperature_acceptance']
                                                                 if case.kind == 'pt' and len(case.betas) > 1 else [])
                for obj in [B] + list(B.chains):
                    for nm in names:
                        a = getattr(obj, nm)
                        if a.shape[-1] != 0:
                            bad('history-after-clear', '%s.%s has %d entries right after a clear()' % (type(obj).__name__, nm, a.shape[-1]))
            except StopIteration:
                pass
            except Exception as e:      # noqa: BLE001
                bad('history-after-clear-raises', 'reading the (empty) history right after a clear() at iteration %d raised %r' % (it, e))
            # "the retained history starts at the clear": what the chain and the sampler call the start
            # position is now the point the chain stands on (every level, through every path)
            if it > 0:
                try:
                    S0, C0 = B.start_position, B.current_positions
                    for ci, ch in enumerate(B.chains):
                        sp, cp = ch.start_position, ch.current_position
                        same = all(_eq(a, b) for p in params for a, b in zip(numpy.atleast_1d(sp[p]).ravel(),
                                                                             numpy.atleast_1d(cp[p]).ravel()))
                        for t, l in enumerate(I.levels_of(ch)):
                            same = same and _rec_equal(params, l.start_position, l.current_position)
                        same = same and all(_eq(a, b) for p in params
                                            for a, b in zip(numpy.atleast_1d(S0[p][..., ci]).ravel(),
                                                            numpy.atleast_1d(C0[p][..., ci]).ravel()))
                        if not same:
                            bad('start-after-clear', 'after a clear() at iteration %d the start position (chain %d) is not the '
                                'point the chain stands on' % (it, ci))
                except Exception as e:      # noqa: BLE001
                    bad('start-after-clear-raises', 'reading start_position after a clear raised %r' % (e,))
    collect()
    for what, a, before in held:
        if a.tobytes() != before:
            bad('handed-out-history-overwritten', 'the %s array read from the chain before a clear() was overwritten by '
                'the clear / the runs after it' % what)
            break
    for ci in range(len(ref)):
        for t in range(len(ref[ci][0])):
            if acc[ci][0][t] != ref[ci][0][t]:
                key = 'annealer-stale-row-after-offmultiple-clear' if (offmult and case.dynamic) else 'trajectory-differs'
                j = next((i for i, (x, y) in enumerate(zip(acc[ci][0][t], ref[ci][0][t])) if x != y),
                         min(len(acc[ci][0][t]), len(ref[ci][0][t])))
                bad(key, 'the concatenated history of the partitioned/cleared run differs from the uninterrupted run '
                    '(chain %d level %d, first difference at iteration %d)' % (ci, t, j + 1))
        if acc[ci][1] != ref[ci][1]:
            key = 'swap-history-row-missing-after-offmultiple-clear' if (offmult and len(acc[ci][1]) < len(ref[ci][1])) \
                else 'swap-history-differs'
            bad(key, 'the concatenated swap history of the partitioned/cleared run has %d rows, the uninterrupted run %d'
                % (len(acc[ci][1]), len(ref[ci][1])))
    for ca, cb in zip(A.chains, B.chains):
        if ca.iteration != cb.iteration or len(cb) != cb.iteration - cb.lastclear:
            bad('counters', 'iteration/len differ after the partitioned run')
        for la, lb in zip(I.levels_of(ca), I.levels_of(cb)):
            if not (_rec_equal(params, la.current_position, lb.current_position)
                    and _eq(la.current_stats['logl'], lb.current_stats['logl'])):
                bad('current', 'current position/stats differ after the partitioned run')
    return out


def dtype_findings(seed, n=4):
    """A clear() changes nothing but the retained history: in particular not the number TYPE in which
    positions are kept (start arrays given in single precision stay single precision)."""
    from epsie.samplers import MetropolisHastingsSampler, ParallelTemperedSampler
    from epsie.proposals import Normal, BoundedNormal
    rng = random.Random(seed * 13 + 5)
    out, nchecks = [], 0

    def model(x, y):
        return -0.5 * (x * x + y * y), 0.0
    for k in range(n):
        dt = [numpy.float32, numpy.float16, numpy.float32, numpy.float64][k % 4]
        pt = k % 2 == 1
        props = [Normal(['x'], cov=[0.3]), BoundedNormal(['y'], {'y': (-3., 3.)}, cov=[0.5])]
        if pt:
            smp = ParallelTemperedSampler(['x', 'y'], model, 2, numpy.array([1., .5, .25]), swap_interval=2, proposals=props,
                                          seed=rng.randrange(1 << 20))
            shape = (3, 2)
        else:
            smp = MetropolisHastingsSampler(['x', 'y'], model, 2, proposals=props, seed=rng.randrange(1 << 20))
            shape = (2,)
        smp.start_position = {p: numpy.array(numpy.round(numpy.random.RandomState(rng.randrange(1 << 20)).uniform(-1, 1, shape), 2),
                                             dtype=dt) for p in ('x', 'y')}
        smp.run(rng.randint(1, 4))
        before = {f: smp.positions.dtype[f] for f in smp.positions.dtype.names}
        lv_before = [dict(l._positions.dtypes) for ch in smp.chains for l in I.levels_of(ch)]
        for step in range(2):
            smp.clear()
            smp.run(rng.randint(1, 3))
            nchecks += 1
            after = {f: smp.positions.dtype[f] for f in smp.positions.dtype.names}
            lv_after = [dict(l._positions.dtypes) for ch in smp.chains for l in I.levels_of(ch)]
            if after != before or lv_after != lv_before:
                out.append(('clear-changes-dtype', 'positions were kept as %s before a clear() and as %s after it (start arrays '
                            'given as %s)' % (before, after, numpy.dtype(dt).name), {'detail': {'dtype': numpy.dtype(dt).name, 'pt': pt}}))
                break
    return out[:2], {'dtype_checks': nchecks}


def early_reset_findings(seed):
    """C14 ("no step raises because of the adaptation"): the adaptation of a slow adaptive proposal
    (jump interval k > 1) is reset BEFORE it has completed its first proposal step -- which is what a
    tempered chain with reset_after_swap does when the first sweep exchanges two levels -- and the chain
    is stepped on.  Neither the reset nor the steps may raise, for every adaptive family."""
    import families as F
    from epsie.chain import Chain
    rng = random.Random(seed * 3 + 1)
    out, n = [], 0
    for fam in sorted(F.ADAPTIVE):
        cls, kind, lo, hi = F.FAMILIES[fam]
        for k in (2, 3):
            for when in range(0, k):
                names = ['x%d' % i for i in range(lo)]
                prng = random.Random(rng.randrange(1 << 30))
                doms = {p: F.domain_for(kind, prng, i) for i, p in enumerate(names)}
                box = {p: doms[p] for p in names if kind in ('box', 'intbox')}
                model = I.LoggedModel(names, kind='quad', box=box)
                try:
                    prop = F.make(fam, names, doms, prng, jump_interval=k, window=6, start_step=1)
                    ch = Chain(names, model, [prop], bit_generator=rng.randrange(1 << 20))
                    srng = random.Random(5)
                    ch.start_position = {p: F.start_value(kind, doms[p], srng, i if kind == 'sphere' else 0)
                                         for i, p in enumerate(names)}
                    for _ in range(when):
                        ch.step()
                    ch.reset_proposals()
                    for _ in range(2 * k + 2):
                        ch.step()
                    n += 1
                except Exception as e:      # noqa: BLE001
                    if 'NaN acceptance' in str(e):
                        continue
                    out.append(('early-reset-raises:' + fam, '%s with jump_interval %d: a reset of the adaptation after %d '
                                'iteration(s), or a step after it, raised %r' % (fam, k, when, e),
                                {'family': fam, 'k': k, 'reset_after_iterations': when}))
                    break
            else:
                continue
            break
    return out[:3], {'early_resets': n}


def compositions(n):
    """All compositions of n into positive parts, plus variants with zeros inserted."""
    if n == 0:
        yield []
        return
    for first in range(1, n + 1):
        for rest in compositions(n - first):
            yield [first] + rest


# --------------------------------------------------------------------------
# C17: ladder coherence on the real code
# --------------------------------------------------------------------------

def caller_ladder_findings(seed, n=6, max_findings=2):
    """C03 ("... using the betas at which those levels are being sampled"): the ladder is handed in as
    a numpy array in every order, the caller keeps using (and changing) its array after the sampler was
    built, two samplers are built from the same array: every sweep must still be decided with the betas
    the levels sample at (replay of the recorded ratios from the levels' betas and log-likelihoods)."""
    from epsie.samplers import ParallelTemperedSampler
    from epsie.proposals import Normal
    rng = random.Random(seed * 7 + 11)
    out, nsweeps = [], 0

    class M:
        def __call__(self, x):
            return -math.floor(x * x * 8) / 16.0, -math.floor(abs(x) * 4) / 8.0
    for k in range(n):
        nt = rng.choice([3, 4, 5])
        betas = sorted({1.0} | set(rng.sample(plumbing.DYADIC_BETAS[1:], nt - 1)), reverse=True)
        order = ['descending', 'ascending', 'shuffled'][k % 3]
        given = list(betas) if order == 'descending' else (betas[::-1] if order == 'ascending' else rng.sample(betas, len(betas)))
        arr = numpy.array(given, dtype=float)
        cfg = {'given': list(given), 'order': order}
        try:
            smp = ParallelTemperedSampler(['x'], M(), 2, arr, swap_interval=1, proposals=[Normal(['x'], cov=[0.5])],
                                          seed=rng.randrange(1 << 20))
            other = ParallelTemperedSampler(['x'], M(), 1, arr, swap_interval=1, proposals=[Normal(['x'], cov=[0.5])],
                                            seed=rng.randrange(1 << 20))
            ntl = len(smp.chains[0].chains)
            smp.start_position = {'x': numpy.array([[rng.uniform(-1, 1) for _ in smp.chains] for _ in range(ntl)])}
            other.start_position = {'x': numpy.array([[rng.uniform(-1, 1)] for _ in range(ntl)])}
            arr *= 0.5                      # the caller goes on using its own array
            arr[0] = 0.875
            for it in range(8):
                for s_ in (smp, other):
                    with SweepCapture() as cap:
                        s_.run(1)
                    for e in cap.sweeps:
                        nsweeps += 1
                        want = sorted(given, reverse=True)
                        if e['level_betas'] != want:
                            out.append(('levels-follow-the-callers-array', 'the levels sample at %s after the caller changed the '
                                        'array it had passed (given %s)' % (e['level_betas'], want), {'detail': cfg}))
                        mm = sweep_ar_mismatch(e)
                        if mm:
                            out.append(('swap-ratio-not-from-the-levels-betas', 'ladder passed as a numpy array (%s) that the caller '
                                        'changed afterwards: %s' % (order, mm), {'detail': cfg}))
                    if len(out) >= max_findings:
                        return out[:max_findings], {'sweeps_replayed': nsweeps}
        except Exception as e:      # noqa: BLE001
            out.append(('caller-ladder-raises', 'a sampler built from a numpy ladder raised %r' % (e,), {'detail': cfg}))
    return out[:max_findings], {'sweeps_replayed': nsweeps}


def ladder_findings(seed, full=False, max_findings=4):
    from epsie.samplers import ParallelTemperedSampler
    from epsie.chain.ptchain import DynamicalAnnealer
    from epsie.proposals import Normal
    rng = random.Random(seed)
    out = []
    nchecks = 0

    def bad(key, text, extra=None):
        if len(out) < max_findings and not any(k == key for k, _, _ in out):
            out.append((key, text, {'detail': extra}))

    class M:
        def __call__(self, x):
            return -math.floor(x * x * 8) / 16.0, 0.0
    ncfg = 40 if full else 10
    # the first configurations are directed: ONE numpy array, in every order, handed to a sampler of several
    # chains with a dynamical annealer (whatever the chains keep of the caller's array must not couple them),
    # the rest are random
    directed = [('descending', True), ('descending', False), ('ascending', True), ('shuffled', True)]
    for icfg in range(ncfg + len(directed)):
        forced = directed[icfg] if icfg < len(directed) else None
        nt = rng.choice([2, 3, 4, 5, 6]) if forced is None else rng.choice([3, 4, 5])
        betas = sorted({1.0} | {rng.choice(plumbing.DYADIC_BETAS[1:]) for _ in range(nt - 1)}, reverse=True)
        if forced is not None:
            while len(betas) < 3:
                betas.append(betas[-1] / 2)
        if forced is None and rng.random() < 0.5 and len(betas) > 1:
            betas[-1] = 0.0
        # equal betas are legal (levels at the same temperature): the ladder keeps every one of them
        dup = forced is None and rng.random() < 0.25 and len(betas) >= 2
        if dup:
            betas = sorted(betas + [rng.choice(betas)], reverse=True)
        given = list(betas)
        order = rng.choice(['descending', 'ascending', 'shuffled']) if forced is None else forced[0]
        if order == 'ascending':
            given = given[::-1]
        elif order == 'shuffled':
            rng.shuffle(given)
        if forced is not None or rng.random() < 0.5:
            given = numpy.array(given)
        dyn = (rng.random() < 0.6 or forced is not None) and len(betas) >= 3 and all(b > 0 for b in betas[:-1]) and not dup
        tmax_prior = rng.random() < 0.6 if forced is None else forced[1]
        # (small nu = strong adaptation: with a finite hottest temperature an intermediate beta can drop
        # below the hottest one, and the ladder must then be carried unsorted, as it is)
        ann = DynamicalAnnealer(tau=rng.choice([20, 50, 1000]), nu=rng.choice([2, 4, 10, 0.1, 0.5]), Tmax_prior=tmax_prior) \
            if dyn else None
        s = rng.choice([1, 2, 3])
        cfg = {'given': [float(g) for g in given], 'given_type': type(given).__name__, 'dynamic': dyn, 'Tmax_prior': tmax_prior, 'swap_interval': s}
        try:
            smp = ParallelTemperedSampler(['x'], M(), rng.choice([1, 2, 3]) if forced is None else rng.choice([2, 3]),
                                          given, swap_interval=s,
                                          proposals=[Normal(['x'], cov=[0.5])], adaptive_annealer=ann,
                                          seed=rng.randrange(1 << 20))
        except Exception as e:
            bad('construct-raises', 'constructing a PT sampler raised %r' % (e,), cfg)
            continue
        nt = len(betas)
        smp.start_position = {'x': numpy.array([[rng.uniform(-1, 1) for _ in smp.chains] for _ in range(nt)])}
        first = [numpy.array(ch.betas, dtype=float).copy() for ch in smp.chains]
        for ch, f in zip(smp.chains, first):
            want = sorted([float(g) for g in given], reverse=True)
            if dyn and tmax_prior:
                want = want[:-1] + [0.0]
            if list(f) != want:
                bad('not-sorted', 'betas given as %s are held as %s' % (list(given), list(f)), cfg)
            if len(ch.chains) != len(want):
                bad('level-count', '%d betas were given but the chain has %d levels' % (len(want), len(ch.chains)), cfg)
        for it in range(1, (60 if full else 25) + 1):
            with SweepCapture() as cap:
                smp.run(1)
            for e in cap.sweeps:
                nchecks += 1
                mm = sweep_ar_mismatch(e)
                if mm:
                    bad('swap-ratio-not-from-current-ladder', 'iteration %d: a sweep was not decided with the ladder the '
                        'chain holds: %s' % (it, mm), cfg)
            rep = smp.betas
            for ci, ch in enumerate(smp.chains):
                nchecks += 1
                lad = [float(b) for b in ch.betas]
                lev = [float(l.beta) for l in ch.chains]
                if lad != lev:
                    bad('level-beta-differs-from-ladder', 'iteration %d: the ladder says %s but the levels sample at %s'
                        % (it, lad, lev), cfg)
                if [float(b) for b in rep[ci]] != lad:
                    bad('sampler-betas', 'sampler.betas differs from the chain\'s ladder', cfg)
                if not all(0.0 <= b <= 1.0 for b in lad):
                    bad('out-of-range', 'a beta left [0,1]: %s' % lad, cfg)
                if lad[0] != float(first[ci][0]) or lad[-1] != float(first[ci][-1]):
                    bad('endpoints-moved', 'coldest/hottest beta changed: %s -> %s' % (list(first[ci]), lad), cfg)
                if dyn and tmax_prior and not all(lad[i] > lad[i + 1] for i in range(len(lad) - 1)):
                    bad('order-lost', 'the ladder is no longer strictly decreasing: %s' % lad, cfg)
                if not dyn and lad != [float(b) for b in first[ci]]:
                    bad('fixed-ladder-changed', 'a fixed ladder changed: %s' % lad, cfg)
        # a state whose ladder differs from the one the target was built with (an adapted ladder loaded
        # into a sampler of the same shape with a FIXED ladder, "adapt during burn-in, continue frozen"):
        # levels, ladder and reported betas must all follow the state
        if dyn:
            try:
                st_ = pickle.loads(pickle.dumps(smp.state))
                tann = None
                if rng.random() < 0.5:      # a proper resume: the target has an annealer of its own
                    tann = DynamicalAnnealer(tau=ann._tau, nu=ann._nu, Tmax_prior=tmax_prior)
                tgt = ParallelTemperedSampler(['x'], M(), len(smp.chains), given, swap_interval=s,
                                              proposals=[Normal(['x'], cov=[0.5])], adaptive_annealer=tann,
                                              seed=rng.randrange(1 << 20))
                tgt.set_state(st_)
                for it in range(1, 6):
                    for ci, ch in enumerate(tgt.chains):
                        nchecks += 1
                        lad = [float(b) for b in ch.betas]
                        lev = [float(l.beta) for l in ch.chains]
                        src = [float(b) for b in smp.chains[ci].betas]
                        if lad != lev or [float(b) for b in tgt.betas[ci]] != lad:
                            bad('level-beta-differs-from-ladder-after-load', 'after loading a state with ladder %s into a '
                                'sampler built with %s: ladder %s, levels %s, sampler.betas %s' % (
                                    src, sorted([float(g) for g in given], reverse=True), lad, lev,
                                    [float(b) for b in tgt.betas[ci]]), cfg)
                        if lev != src and (tann is None or it == 1):     # (a target with an annealer goes on adapting)
                            bad('loaded-ladder-not-the-saved-one', 'the levels of the loaded sampler sample at %s, the state '
                                'was saved at %s' % (lev, src), cfg)
                    with SweepCapture() as cap:
                        tgt.run(1)
                    for e in cap.sweeps:
                        mm = sweep_ar_mismatch(e)
                        if mm:
                            bad('swap-ratio-not-from-current-ladder', 'after a load: ' + mm, cfg)
            except Exception as e:      # noqa: BLE001
                bad('load-other-ladder-raises', 'loading a state with an adapted ladder into a fixed-ladder sampler raised %r' % (e,), cfg)
    # rejection of out-of-range betas
    for bad_b in ([1.0, 1.5], [-0.1, 1.0]):
        try:
            ParallelTemperedSampler(['x'], M(), 1, numpy.array(bad_b), proposals=[Normal(['x'])], seed=1)
            bad('out-of-range-accepted', 'betas %s were accepted' % bad_b)
        except ValueError:
            pass
    return out, {'configurations': ncfg, 'ladder_checks': nchecks}


# --------------------------------------------------------------------------
# C05: every-cut resume on the real code
# --------------------------------------------------------------------------

def _key_text(k):
    """Canonical text of a dictionary key (the repr of a frozenset depends on its history)."""
    if isinstance(k, (set, frozenset)):
        return 'frozenset(' + ','.join(sorted(repr(x) for x in k)) + ')'
    return repr(k)


def _state_digest(obj):
    if isinstance(obj, dict):
        return ('d', tuple(sorted((_key_text(k), _state_digest(v)) for k, v in obj.items())))
    if isinstance(obj, (list, tuple)):
        return ('l', tuple(_state_digest(v) for v in obj))
    if isinstance(obj, numpy.ndarray):
        return ('a', obj.dtype.str, obj.shape, obj.tobytes())
    if isinstance(obj, (float, numpy.floating)):
        return ('f', _hx(obj))
    if isinstance(obj, (int, numpy.integer)) and not isinstance(obj, bool):
        return ('i', int(obj))
    return ('o', repr(obj))


def resume_findings(case, n, cuts=None, double=False, max_findings=3):
    """Uninterrupted run of n iterations vs, for every cut k, a FRESH sampler (other seed, no
    start position) that loads the pickled state saved at k and runs n-k more."""
    out = []
    params = [p[0] for p in case.params]

    def bad(key, text, extra=None):
        if len(out) < max_findings and not any(k == key for k, _, _ in out):
            out.append((key, text, {'case': dict(case.describe(), ops=[]), 'n': n, 'detail': extra}))

    fams = '+'.join(sorted({f for f, _, _ in case.props}))
    mA = plumbing.make_model(case)
    A = plumbing.build_sampler(case, case.seed, mA)
    A.start_position = plumbing.start_positions(case)
    saved = {}
    held = {}
    lazy = case.seed % 2 == 1        # the state OBJECT is kept and only serialised after the run went on
    for k in range(1, n + 1):
        A.run(1)
        if lazy:
            held[k] = A.state
        else:
            saved[k] = pickle.dumps(A.state)
    for k in held:
        saved[k] = pickle.dumps(held[k])
    ref = _hist(A, params)
    final = _state_digest(pickle.loads(saved[n]))
    ncuts = 0
    for k in (cuts or range(1, n)):
        mB = plumbing.make_model(case)
        B = plumbing.build_sampler(case, case.seed + 1000 + k, mB)
        try:
            B.set_state(pickle.loads(saved[k]))
            if double and k + 1 < n:
                k2 = k + max(1, (n - k) // 2)
                B.run(k2 - k)
                st2 = pickle.dumps(B.state)
                if _state_digest(pickle.loads(st2)) != _state_digest(pickle.loads(saved[k2])):
                    bad('resumed-state-differs:' + fams, 'after resuming at %d and running to %d the state differs from the '
                        'uninterrupted run\'s state at %d' % (k, k2, k2), {'cut': k})
                B2 = plumbing.build_sampler(case, case.seed + 5000 + k, mB)
                B2.set_state(pickle.loads(st2))
                B2.run(n - k2)
                B = B2
                kk = k2
            else:
                B.run(n - k)
                kk = k
        except Exception as e:
            bad('resume-raises:' + fams, 'resuming at iteration %d raised %r' % (k, e), {'cut': k})
            continue
        ncuts += 1
        h = _hist(B, params)
        for ci in range(len(ref)):
            for t in range(len(ref[ci][0])):
                want = ref[ci][0][t][kk:]
                got = h[ci][0][t]
                if got != want:
                    j = next((i for i, (x, y) in enumerate(zip(got, want)) if x != y), min(len(got), len(want)))
                    key = 'resume-differs:' + fams
                    if case.dynamic:
                        key = 'resume-differs-dynamic-ladder'
                    bad(key, 'resumed at iteration %d: iteration %d of chain %d level %d differs from the uninterrupted run'
                        % (k, kk + j + 1, ci, t), {'cut': k})
        if _state_digest(B.state) != final and not any(kx.startswith('resume-differs') for kx, _, _ in out):
            bad('final-state-differs:' + fams, 'resumed at iteration %d: same iterations but a different final state' % k,
                {'cut': k})
    return out, ncuts


def _td_call_counts(case):
    """C18 on nested transdimensional samplers: plain counting (the harness model is pure)."""
    out = []
    model = plumbing.make_model(case)
    nlev = len(case.betas) if case.kind == 'pt' else 1
    per_iter = case.nchains * nlev
    sampler = plumbing.build_sampler(case, case.seed, model)
    n0 = model.calls
    sampler.start_position = plumbing.start_positions(case)
    if model.calls - n0 != per_iter:
        out.append(('start-calls', 'setting the start positions made %d model calls, expected %d' % (model.calls - n0, per_iter),
                    {'case': case.describe()}))
    for op in case.ops:
        n0 = model.calls
        if op[0] == 'run':
            sampler.run(op[1])
            if model.calls - n0 != op[1] * per_iter:
                out.append(('run-calls', 'run(%d) made %d model calls, expected %d' % (op[1], model.calls - n0, op[1] * per_iter),
                            {'case': case.describe()}))
                break
        elif op[0] == 'clear':
            sampler.clear()
        elif op[0] == 'saveload':
            try:
                st = pickle.loads(pickle.dumps(sampler.state))
            except ValueError:
                continue
            new = plumbing.build_sampler(case, case.seed + 7919, model)
            new.set_state(st)
            sampler = new
        if op[0] != 'run' and model.calls != n0:
            out.append(('call-outside-step:' + op[0], 'operation %s evaluated the model' % op[0], {'case': case.describe()}))
    return out


# --------------------------------------------------------------------------
# C16 on nested transdimensional samplers (complements harness/alias.py, which covers the
# 24 proposal families): a state object is a value
# --------------------------------------------------------------------------

def td_snapshot_findings(seed, n=8, max_findings=3):
    rng = random.Random(seed)
    out = []
    nsnap = 0

    def bad(key, text, case):
        if len(out) < max_findings and not any(k == key for k, _, _ in out):
            out.append((key, text, {'case': case.describe()}))
    for i in range(n):
        c = plumbing.gen_td_case(rng, 'td-snap%d' % i, allow_saveload=False)
        model = plumbing.make_model(c)
        s = plumbing.build_sampler(c, c.seed, model)
        s.start_position = plumbing.start_positions(c)
        snaps = []
        for op in c.ops + [('run', 3), ('clear',), ('run', 4)]:
            if op[0] == 'run':
                s.run(op[1])
            elif op[0] == 'clear':
                s.clear()
            if s.chains[0].iteration > 0:
                try:
                    st = s.state
                except ValueError:
                    continue
                snaps.append((st, _state_digest(st), s.chains[0].iteration))
                nsnap += 1
        for st, dig, it in snaps:
            if _state_digest(st) != dig:
                bad('td-snapshot-changed', 'a state object of a nested transdimensional sampler read at iteration %d '
                    'changed while the sampler ran on' % it, c)
            try:
                t = plumbing.build_sampler(c, c.seed + 17, model)
                t.set_state(st)
            except Exception as e:
                bad('td-snapshot-unloadable', 'a state object read at iteration %d could not be loaded after the source '
                    'ran on: %r' % (it, e), c)
    return out, nsnap


# --------------------------------------------------------------------------
# C05/C17: a saved state whose (consistently) adapted ladder is not monotone must be restored as is
# --------------------------------------------------------------------------

def ladder_state_roundtrip_findings(seed, n=6, max_findings=2):
    """With a finite hottest temperature and large adjustments the annealer can push an
    intermediate beta below the hottest one; such states are rare along random runs, so they are
    produced here from real saved states by enlarging one of the annealer's log temperature
    differences S and recomputing the betas with the annealer's own (documented) recursion —
    the state stays internally consistent, as if the acceptance history had been different.
    Oracle: set_state followed by state returns the same value; ladder array == level betas."""
    from epsie.samplers import ParallelTemperedSampler
    from epsie.chain.ptchain import DynamicalAnnealer
    from epsie.proposals import Normal
    rng = random.Random(seed)
    out = []
    done = 0

    class M:
        def __call__(self, x):
            return -math.floor(x * x * 8) / 16.0, 0.0

    def build(sd, betas, s):
        return ParallelTemperedSampler(['x'], M(), 2, numpy.array(betas), swap_interval=s,
                                       proposals=[Normal(['x'], cov=[0.5])],
                                       adaptive_annealer=DynamicalAnnealer(tau=50, nu=1, Tmax_prior=False), seed=sd)
    for _ in range(n):
        nt = rng.choice([3, 4, 5])
        betas = sorted({1.0} | {rng.choice(plumbing.DYADIC_BETAS[2:]) for _ in range(nt)}, reverse=True)
        if len(betas) < 3:
            continue
        s = rng.choice([1, 2])
        A = build(rng.randrange(1 << 20), betas, s)
        nt = len(betas)
        A.start_position = {'x': numpy.array([[rng.uniform(-1, 1) for _ in A.chains] for _ in range(nt)])}
        A.run(rng.randint(2, 6))
        st = pickle.loads(pickle.dumps(A.state))
        try:
            for cid in st:
                S = st[cid]['adaptive_annealer']['S']
                S[-1] = S[-1] + math.log(rng.choice([4.0, 16.0, 64.0]))
                b = [float(st[cid][0]['beta'])]
                for i in range(1, nt - 1):
                    b.append(1. / (1. / b[i - 1] + float(numpy.exp(S[i - 1]))))
                    st[cid][i]['beta'] = b[i]
        except (KeyError, TypeError, IndexError):
            continue          # the state layout is not the one this probe knows: nothing to say
        done += 1
        B = build(rng.randrange(1 << 20), betas, s)
        try:
            B.set_state(pickle.loads(pickle.dumps(st)))
            back = B.state
        except Exception as e:
            out.append(('state-roundtrip-ladder-raises', 'loading a state with a non-monotone adapted ladder raised %r' % (e,),
                        {'betas': betas}))
            continue
        if _state_digest(back) != _state_digest(st) and len(out) < max_findings:
            out.append(('state-roundtrip-ladder', 'set_state followed by state does not return the saved value for an adapted '
                        'ladder that is not monotone (saved level betas %s)' % [float(st[0][i]['beta']) for i in range(nt)],
                        {'betas': betas}))
        for ch in B.chains:
            if [float(x) for x in ch.betas] != [float(l.beta) for l in ch.chains] and len(out) < max_findings:
                out.append(('state-roundtrip-ladder-incoherent', 'after loading, the ladder array %s differs from the level betas %s'
                            % ([float(x) for x in ch.betas], [float(l.beta) for l in ch.chains]), {'betas': betas}))
                break
    return out, done


def pt_snapshot_findings(seed, n=6, max_findings=3):
    """C16 on parallel-tempered samplers incl. dynamically annealed ladders (complements
    harness/alias.py): a state object is unchanged by loading it — into one sampler or into
    several — and by running the samplers loaded from it; every sampler loaded from it behaves
    like a sampler that alone holds (a serialised copy of) that state."""
    rng = random.Random(seed)
    out = []
    nobj = 0

    def bad(key, text, case):
        if len(out) < max_findings and not any(k == key for k, _, _ in out):
            out.append((key, text, {'case': dict(case.describe(), ops=[])}))
    for i in range(n):
        c = plumbing.gen_case(rng, 'pt-snap%d' % i, kinds=('pt',), allow_saveload=False, allow_dynamic=True,
                              ntemps_choices=(3, 4), window_choices=[5, 20])
        if i % 2 == 0:
            c.dynamic = True
            c.betas = sorted(c.betas, reverse=True)
        params = [p[0] for p in c.params]
        src = plumbing.build_sampler(c, c.seed, plumbing.make_model(c))
        src.start_position = plumbing.start_positions(c)
        src.run(rng.randint(3, 8))
        st = src.state
        dig = _state_digest(st)
        frozen = pickle.dumps(st)
        nobj += 1
        # reference: a sampler that alone holds a serialised copy of the state
        ref = plumbing.build_sampler(c, c.seed + 1, plumbing.make_model(c))
        ref.set_state(pickle.loads(frozen))
        ref.run(5)
        want = _hist(ref, params)
        loaded = []
        for j in range(3):
            t = plumbing.build_sampler(c, c.seed + 10 + j, plumbing.make_model(c))
            t.set_state(st)                 # the SAME object, no serialisation
            if _state_digest(st) != dig:
                bad('pt-snapshot-changed-by-load', 'loading a state object into sampler #%d changed the object' % (j + 1), c)
            loaded.append(t)
        src.run(4)
        if _state_digest(st) != dig:
            bad('pt-snapshot-changed-by-source', 'a state object changed while its source sampler ran on', c)
        order = list(range(3))
        rng.shuffle(order)
        for j in order:
            loaded[j].run(5)
            if _state_digest(st) != dig:
                bad('pt-snapshot-changed-by-run', 'a state object changed while a sampler loaded from it ran', c)
        for j in range(3):
            if _hist(loaded[j], params) != want:
                bad('pt-coupled-by-state', 'sampler #%d set from a shared state object does not evolve like a sampler that '
                    'alone holds that state' % (j + 1), c)
    return out, nobj


# --------------------------------------------------------------------------
# C19: reset_after_swap resets exactly the exchanged levels (tall ladders)
# --------------------------------------------------------------------------

def reset_after_swap_findings(seed, n=4, max_findings=2):
    from epsie.samplers import ParallelTemperedSampler
    from epsie.proposals import AdaptiveNormal
    rng = random.Random(seed)
    out = []
    stats = {'sweeps': 0, 'with_gap': 0}
    calls = []
    orig = Chain.reset_proposals

    def logged(self_):
        calls.append(self_)
        return orig(self_)

    class M:
        blobs = False

        def __call__(self, x, y):
            r = -math.floor(40 * ((x - 0.3) ** 2 + (y + 0.2) ** 2)) / 8.0, (0.0 if abs(x) < 3 and abs(y) < 3 else -numpy.inf)
            return r + ({'r': float(x * x + y * y)},) if self.blobs else r
    Chain.reset_proposals = logged
    try:
        for k_ in range(n):
            nt = rng.choice([5, 6, 8])
            betas = [float(10.0 ** (-rng.choice([3.0, 4.0, 5.0]) * j / (nt - 1))) for j in range(nt)]
            mdl = M()
            mdl.blobs = k_ % 2 == 1          # the optional parts of a state (blobs) must not change who is reset
            with SweepCapture() as cap:
                sint = rng.choice([1, 2]) if k_ % 2 == 0 else rng.choice([2, 3, 4])
                # in the odd cases the memory is cleared at iterations that are NOT multiples of the swap
                # interval (dumping samples between sweeps): who is reset must not depend on the retained history
                clear_at = set() if k_ % 2 == 0 else {rng.choice([i for i in range(3, 30) if i % sint != 0]) for _ in range(3)}
                stats['offmultiple_clears'] = stats.get('offmultiple_clears', 0) + len(clear_at)
                smp = ParallelTemperedSampler(['x', 'y'], mdl, 2, numpy.array(betas), swap_interval=sint,
                                              proposals=[AdaptiveNormal(['x', 'y'], {'x': 6., 'y': 6.}, 10 ** 6)],
                                              reset_after_swap=True, seed=rng.randrange(1 << 20))
                smp.start_position = {p: numpy.array([[rng.uniform(-2, 2) for _ in smp.chains] for _ in range(nt)])
                                      for p in ('x', 'y')}
                for it in range(40):
                    cap.sweeps = []
                    del calls[:]
                    smp.run(1)
                    for e in cap.sweeps:
                        idx = e['stored'].get('swap_index', (None, None))[1]
                        if idx is None:
                            continue
                        ch = e['chain']
                        exchanged = [t for t in range(nt) if int(idx[t]) != t]
                        was = sorted(t for t, l in enumerate(ch.chains) if any(c is l for c in calls))
                        stats['sweeps'] += 1
                        if exchanged and exchanged != list(range(exchanged[0], exchanged[-1] + 1)):
                            stats['with_gap'] += 1
                        if was != exchanged and len(out) < max_findings:
                            out.append(('reset_after_swap_wrong_levels', 'swap_index %s exchanged levels %s but the proposals of levels %s '
                                        'were reset (swap interval %d, iteration %d, memory cleared at %s)' % (
                                            [int(x) for x in idx], exchanged, was, sint, it + 1, sorted(clear_at)),
                                        {'betas': betas, 'swap_interval': sint, 'cleared_at': sorted(clear_at)}))
                    if (it + 1) in clear_at:
                        smp.clear()
    finally:
        Chain.reset_proposals = orig
    return out, stats


# --------------------------------------------------------------------------
# C10 with options the transdimensional work package's generator does not vary:
# reset_after_swap, rolling the SAME sampler back to an earlier state, explicit reset_proposals
# --------------------------------------------------------------------------

def td_options_findings(seed, n=6, max_findings=3):
    import transdim
    from epsie.samplers import ParallelTemperedSampler, MetropolisHastingsSampler
    rng = random.Random(seed)
    out = []
    nchecks = 0

    def bad(key, text, cfg):
        if len(out) < max_findings and not any(k == key for k, _, _ in out):
            out.append((key, text, {'td': cfg.describe()}))

    def check(smp, cfg, tag, key):
        nonlocal nchecks
        for ci, ch in enumerate(smp.chains):
            for t, l in enumerate(I.levels_of(ch)):
                nchecks += 1
                probs = transdim.wf_chain(cfg, l, '%s chain %d level %d' % (tag, ci, t))
                if probs:
                    bad(key, probs[0], cfg)
                    return False
        return True
    for i in range(n):
        pt = i % 3 != 2
        cfg = transdim.gen_run_cfg(rng, pt)
        c = plumbing.TDCase('tdopt%d' % i, cfg, 'pt' if pt else 'mh', rng.choice([1, 2]), rng.randrange(1 << 30), [])
        model = plumbing.make_model(c)
        try:
            if pt:
                smp = ParallelTemperedSampler(cfg.params, model, c.nchains, numpy.array(c.betas), swap_interval=c.swap_interval,
                                              proposals=cfg.build(), reset_after_swap=True, seed=c.seed)
            else:
                smp = MetropolisHastingsSampler(cfg.params, model, c.nchains, proposals=cfg.build(), seed=c.seed)
            smp.start_position = plumbing.start_positions(c)
            kept = None
            for it in range(1, 25):
                smp.run(1)
                if not check(smp, cfg, 'iteration %d%s' % (it, ' (reset_after_swap)' if pt else ''),
                             'td-wf-reset-after-swap' if pt else 'td-wf'):
                    break
                if it == 4:
                    kept = pickle.dumps(smp.state)
                if it == 9:
                    for ch in smp.chains:
                        for l in I.levels_of(ch):
                            l.reset_proposals()
                    if not check(smp, cfg, 'after reset_proposals at iteration %d' % it, 'td-wf-after-reset-proposals'):
                        break
                if it == 15 and kept is not None:
                    smp.set_state(pickle.loads(kept))       # rewind the SAME sampler
                    if not check(smp, cfg, 'after rewinding the sampler to iteration 4', 'td-wf-after-rewind'):
                        break
        except Exception as e:
            bad('td-options-raise:' + type(e).__name__, 'a nested transdimensional run with %s raised %r' % (
                'reset_after_swap' if pt else 'reset/rewind', e), cfg)
    return out, nchecks


def nested_reset_findings(seed, full=False):
    """C19 on chains whose adaptive proposals sit INSIDE a NestedTransdimensional proposal (the in-model
    proposals and the model-index proposal): `Chain.reset_proposals()` -- and `reset_after_swap` -- must
    return every adaptive proposal reachable from the chain to its construction-time distribution and
    restart its window at the current proposal step."""
    import random as _random
    import numpy
    import alias
    from epsie.chain import Chain
    from epsie import proposals as P
    from epsie.samplers import ParallelTemperedSampler
    rng = _random.Random(seed * 7919 + 19)
    findings, stats = [], {'chains': 0, 'adaptive_inner_proposals': 0, 'resets': 0, 'pt_runs': 0,
                           'changed_before_reset': 0}
    K = 4
    names = ['a%d' % i for i in range(1, K + 1)]

    def model(**kw):
        k = int(kw['k'])
        act = [kw[n] for n in names if not numpy.isnan(kw[n])]
        if len(act) != k or any(not (0. <= a <= 4.) for a in act) or not (0 <= k <= K):
            return -1e3, -numpy.inf
        return -0.5 * sum((a - 2.) ** 2 for a in act) / 0.09, 0.

    inner_kinds = {
        'ss_adaptive_normal': lambda n: P.SSAdaptiveNormal([n]),
        'adaptive_normal': lambda n: P.AdaptiveNormal([n], {n: 4.}, 12),
        'at_adaptive_normal': lambda n: P.ATAdaptiveNormal([n], 12),
        'adaptive_bounded_normal': lambda n: P.AdaptiveBoundedNormal([n], {n: (0., 4.)}, 12),
    }

    def build(kind, adaptive_index):
        births = [P.UniformBirth([n], {n: (0., 4.)}) for n in names]
        tds = [inner_kinds[kind](n) for n in names]
        if adaptive_index:
            mp = P.AdaptiveBoundedDiscrete(['k'], {'k': (0, K)}, 12, successive={'k': True})
        else:
            mp = P.BoundedDiscrete(['k'], boundaries={'k': (0, K)}, successive={'k': True})
        return P.NestedTransdimensional(names + ['k'], mp, tds, births)

    def reachable(chain):
        out = []
        for pr in chain.proposal_dist.proposals:
            out.append(('top', pr))
            for q in list(getattr(pr, 'proposals', [])):
                out.append(('in-model', q))
            mp = getattr(pr, 'model_proposal', None)
            if mp is not None:
                out.append(('model-index', mp))
        return out

    def adaptive(pr):
        return hasattr(pr, 'start_step') and getattr(pr, '_initial_proposal_params', None) is not None

    start = dict({n: numpy.nan for n in names}, a1=2.1, a2=1.8, k=2)
    kinds = sorted(inner_kinds) if full else rng.sample(sorted(inner_kinds), 2)
    for kind in kinds:
        for adaptive_index in (False, True):
            ch = Chain(names + ['k'], model, [build(kind, adaptive_index)], bit_generator=rng.randrange(1, 10 ** 6))
            ch.start_position = dict(start)
            props = [(w, q) for w, q in reachable(ch) if adaptive(q)]
            initial = [alias.dist_digest(q) for _, q in props]
            stats['chains'] += 1
            stats['adaptive_inner_proposals'] += len(props)
            for rnd in range(2):
                for _ in range(rng.randint(15, 30)):
                    ch.step()
                before = [alias.dist_digest(q) for _, q in props]
                stats['changed_before_reset'] += sum(1 for a, b in zip(initial, before) if a != b)
                ch.reset_proposals()
                stats['resets'] += 1
                for (where, q), ini in zip(props, initial):
                    now = alias.dist_digest(q)
                    bad = sorted(k for k in ini if k != 'start_step' and repr(now.get(k)) != repr(ini[k]))
                    want_start = max(q.nsteps, 1)
                    if bad or q.start_step != want_start:
                        findings.append((
                            'nested-not-reset:%s:%s' % (where, kind if where == 'in-model' else type(q).__name__),
                            'Chain.reset_proposals() left the adaptive %s proposal %s of a NestedTransdimensional '
                            'proposal adapted (reset no. %d): attributes %s differ from their construction-time '
                            'values, start_step %r (the current proposal step is %r)' % (
                                where, type(q).__name__, rnd + 1, bad[:4], q.start_step, want_start),
                            {'inner': kind, 'adaptive_index_proposal': adaptive_index, 'reset_number': rnd + 1,
                             'seed': seed, 'search': 'nested_reset'}))
                        break
                if findings:
                    break
            if findings and not full:
                return findings, stats
    return findings, stats


def ladder_reassign_findings(seed):
    """C17 through the remaining public ways of giving a chain its ladder: (i) assigning
    `ParallelTemperedChain.betas` AFTER construction (a public setter) and running on -- the levels must
    sample at the ladder the sweeps use and the sampler reports; (ii) a chain with a single temperature
    that is given a dynamical annealer (nothing to anneal): its only beta is both the coldest and the
    hottest and must stay as given."""
    import numpy
    from epsie.samplers import ParallelTemperedSampler
    from epsie.chain.ptchain import DynamicalAnnealer, ParallelTemperedChain
    from epsie.proposals import Normal
    rng = random.Random(seed * 31 + 17)
    out, stats = [], {'reassigned_ladders': 0, 'iterations_checked': 0, 'single_temperature_annealers': 0}

    def model(x):
        return -math.floor(x * x * 8) / 16.0, 0.0

    for trial in range(4):
        nt = rng.choice([2, 3, 4])
        first = sorted({1.0} | {rng.choice(plumbing.DYADIC_BETAS[1:]) for _ in range(6)}, reverse=True)[:nt]
        while len(first) < nt:
            first.append(first[-1] / 2)
        second = [1.0] + sorted([b * rng.choice([0.5, 0.75]) for b in first[1:]], reverse=True)
        smp = ParallelTemperedSampler(['x'], model, 2, betas=numpy.array(first), swap_interval=rng.choice([1, 2]),
                                      proposals=[Normal(['x'])], seed=rng.randrange(1, 10 ** 6))
        smp.start_position = {'x': numpy.full((nt, 2), 0.5)}
        smp.run(3)
        given = list(second)
        if trial % 2:
            rng.shuffle(given)
        for ch in smp.chains:
            ch.betas = numpy.array(given)
        stats['reassigned_ladders'] += 1
        for it in range(4):
            smp.run(1)
            stats['iterations_checked'] += 1
            for ci, ch in enumerate(smp.chains):
                lad = [float(b) for b in ch.betas]
                lev = [float(l.beta) for l in ch.chains]
                rep = [float(b) for b in numpy.atleast_2d(smp.betas)[ci]] if numpy.ndim(smp.betas) > 1 else [float(b) for b in smp.betas]
                if lad != sorted(second, reverse=True) or lev != lad:
                    out.append(('ladder-reassigned-levels-keep-old-betas',
                                'betas assigned to a tempered chain after construction (%r, first ladder %r): the '
                                'ladder used by the sweeps is %r but the levels sample at %r' % (given, first, lad, lev),
                                {'detail': {'first': first, 'assigned': given, 'ladder': lad, 'levels': lev,
                                            'reported': rep, 'iteration_after': it + 1, 'seed': seed}}))
                    return out, stats
    for tmax in (True, False):
        ch = ParallelTemperedChain(['x'], model, [Normal(['x'])], betas=1.0,
                                   adaptive_annealer=DynamicalAnnealer(Tmax_prior=tmax), bit_generator=seed % 1000 + 5)
        stats['single_temperature_annealers'] += 1
        lad = [float(b) for b in ch.betas]
        lev = [float(l.beta) for l in ch.chains]
        if lad != [1.0] or lev != [1.0]:
            out.append(('single-temperature-annealer-overwrites-beta',
                        'a tempered chain with the single temperature beta = 1 and a DynamicalAnnealer(Tmax_prior=%r) '
                        'holds ladder %r and samples at %r: the coldest beta did not stay as given' % (tmax, lad, lev),
                        {'detail': {'Tmax_prior': tmax, 'ladder': lad, 'levels': lev}}))
            break
    return out, stats


def tall_ladder_rows_findings(seed, ntemps=140, iterations=3):
    """C09 on a ladder far taller than any other case uses (the swap history has to hold level numbers up
    to ntemps - 1): every recorded row is a permutation of 0..ntemps-1 and equals the index the sweep used,
    at chain and at sampler level; the acceptance rows are ntemps - 1 probabilities."""
    from epsie.samplers import ParallelTemperedSampler
    from epsie.proposals import Normal
    rng = random.Random(seed * 977 + 5)
    out = []
    betas = numpy.array([1.0] + [float(0.97 ** j) for j in range(1, ntemps)])

    def model(x):
        return -0.5 * x * x, 0.0
    stats = {'ntemps': ntemps, 'sweeps': 0}
    with SweepCapture() as cap:
        smp = ParallelTemperedSampler(['x'], model, 1, betas=betas, swap_interval=1, proposals=[Normal(['x'])],
                                      seed=rng.randrange(1, 10 ** 6))
        smp.start_position = {'x': numpy.array([[rng.uniform(-1, 1)] for _ in range(ntemps)])}
        smp.run(iterations)
        ch = smp.chains[0]
        ts, ta = ch.temperature_swaps, ch.temperature_acceptance
        sts = smp.temperature_swaps
        for r, e in enumerate(cap.sweeps):
            stats['sweeps'] += 1
            idx = e['stored'].get('swap_index', (None, None))[1]
            row = [int(v) for v in ts[:, r]]
            if sorted(row) != list(range(ntemps)):
                out.append(('tall-ladder-row-not-a-permutation',
                            'ladder of %d temperatures: row %d of temperature_swaps is not a permutation of the levels '
                            '(min %d, max %d)' % (ntemps, r, min(row), max(row)), {'detail': {'ntemps': ntemps, 'row': r}}))
                break
            if idx is not None and row != [int(v) for v in idx]:
                out.append(('tall-ladder-row-differs-from-sweep', 'ladder of %d temperatures: row %d of temperature_swaps '
                            'is not the swap index of that sweep' % (ntemps, r), {'detail': {'ntemps': ntemps, 'row': r}}))
                break
            if [int(v) for v in numpy.asarray(sts)[:, 0, r]] != row:
                out.append(('tall-ladder-sampler-row-differs', 'ladder of %d temperatures: the sampler-level swap history '
                            'differs from the chain\'s in row %d' % (ntemps, r), {'detail': {'ntemps': ntemps, 'row': r}}))
                break
            arow = [float(v) for v in ta[:, r]]
            if len(arow) != ntemps - 1 or not all(0.0 <= a <= 1.0 for a in arow):
                out.append(('tall-ladder-acceptance-row', 'ladder of %d temperatures: row %d of temperature_acceptance is '
                            'not %d probabilities' % (ntemps, r, ntemps - 1), {'detail': {'ntemps': ntemps, 'row': r}}))
                break
    return out, stats


def blob_number_findings(seed):
    """C08 with blobs whose numbers are not small floats: 64-bit integer labels / nanosecond time stamps
    (above 2**53, not representable as a double), numpy integers, booleans.  The blob recorded with a position
    -- through every access path -- must be the model's output at that position, exactly."""
    from epsie.samplers import MetropolisHastingsSampler, ParallelTemperedSampler
    from epsie.proposals import Normal
    rng = random.Random(seed * 1237 + 3)
    out = []
    stats = {'records_checked': 0}
    big = 2 ** 60 + 1

    def blob_of(x):
        k = int(math.floor(x * 64))
        return {'stamp': big + 2 * k + 1, 'label': numpy.int64(2 ** 55 + k), 'flag': bool(k % 2)}

    def model(x):
        return -math.floor(x * x * 8) / 16.0, 0.0, blob_of(x)
    for kind in ('mh', 'pt'):
        if kind == 'mh':
            smp = MetropolisHastingsSampler(['x'], model, 2, proposals=[Normal(['x'])], seed=rng.randrange(1, 10 ** 6))
            smp.start_position = {'x': numpy.array([0.3, -0.4])}
        else:
            smp = ParallelTemperedSampler(['x'], model, 2, betas=numpy.array([1.0, 0.5]), swap_interval=1,
                                          proposals=[Normal(['x'])], seed=rng.randrange(1, 10 ** 6))
            smp.start_position = {'x': numpy.array([[0.3, -0.4], [0.1, 0.2]])}
        smp.run(6)
        pos, blobs = smp.positions, smp.blobs
        xs = numpy.asarray(pos['x']).ravel()
        for name in ('stamp', 'label', 'flag'):
            got = numpy.asarray(blobs[name]).ravel()
            for x, g in zip(xs, got):
                stats['records_checked'] += 1
                want = blob_of(float(x))[name]
                if int(g) != int(want):
                    out.append(('blob-number-not-the-models-output:' + name,
                                '%s sampler: the recorded blob entry %r at position %r is %r, the model returns %r there'
                                % (kind, name, float(x), g.item() if hasattr(g, 'item') else g, int(want)),
                                {'detail': {'kind': kind, 'entry': name, 'x': float(x)}}))
                    return out, stats
        cb = smp.current_blobs
        cp = smp.current_positions
        for x, g in zip(numpy.asarray(cp['x']).ravel(), numpy.asarray(cb['stamp']).ravel()):
            stats['records_checked'] += 1
            if int(g) != blob_of(float(x))['stamp']:
                out.append(('blob-number-not-the-models-output:current', '%s sampler: current_blobs[stamp] %r at %r, model %r'
                            % (kind, g, float(x), blob_of(float(x))['stamp']), {'detail': {'kind': kind}}))
                return out, stats
    return out, stats
