"""C02 correspondence suite `density`: the real `logpdf` / `pdf` / `jump` / `birth` of
every proposal and birth family against the Lean model `EpsieModel/Density.lean`
(through `lean/DriverDensity.lean`).

The model says *which* library calls a density makes and with which arguments
(cells, truncation points, per-parameter scales, wrapped shift, angle
conventions), how the values are combined, what the discrete CDF caches hold
after any history, and how `_jump` turns generator draws into a point.  The
harness evaluates the library calls the model asks for with scipy / numpy
(trusted), and compares

  * the combined value with the real `logpdf` (relative 1e-9; the discrete
    families to 1e-12 since model and code subtract the same two doubles);
  * for the discrete families also the *list of library calls actually made*
    (scipy's `norm.cdf` / `truncnorm.cdf` wrapped in-process) with the cache
    misses the model predicts — so hit / miss / clear behaviour is compared
    exactly, for one shared dict object or one per parameter, whichever the
    live object has (`p._cdfcache[0] is p._cdfcache[1]`, measured);
  * generator calls (loc, scale), number of draws consumed and the produced
    point of scripted jumps.
"""
import copy
import itertools
import math
import random
import subprocess
from fractions import Fraction

import numpy
from scipy import stats

import common
import families as F
import forcing
import quadrature as Q
from epsie import proposals as P

RTOL = 1e-9


def fr(x):
    return common.frac(x)


def frl(xs):
    xs = list(xs)
    return ','.join(fr(x) for x in xs) if xs else '-'


class Driver:
    """Interactive pipe to `lake env lean --run DriverDensity.lean`."""

    def __init__(self):
        self.p = subprocess.Popen(['lake', 'env', 'lean', '--run', 'DriverDensity.lean'], cwd=common.LEAN_DIR,
                                  stdin=subprocess.PIPE, stdout=subprocess.PIPE, stderr=subprocess.PIPE,
                                  text=True, bufsize=1)
        self.lines = 0
        self.log = []

    def ask(self, line):
        self.p.stdin.write(line + '\n')
        self.p.stdin.flush()
        out = self.p.stdout.readline()
        if not out:
            err = self.p.stderr.read()
            raise OSError('Lean density driver died: ' + err[-1500:])
        self.lines += 1
        out = out.rstrip('\n')
        if len(self.log) < 40:
            self.log.append((line[:300], out[:300]))
        return out

    def close(self):
        try:
            self.p.stdin.close()
            self.p.wait(timeout=20)
        except Exception:
            self.p.kill()


# --------------------------------------------------------------------------
# evaluation of the model's terms with the library
# --------------------------------------------------------------------------

def parse_terms(text):
    assert text.startswith('terms'), text
    out = []
    for tok in text.split()[1:]:
        if tok == '-':
            continue
        kind, args = tok[0], tok[2:-1]
        out.append((kind, [Fraction(a) for a in args.split(',')] if args else []))
    return out


def cart(phi, theta):
    return numpy.array([numpy.sin(theta) * numpy.cos(phi), numpy.sin(theta) * numpy.sin(phi), numpy.cos(theta)])


def tn_logpdf(x, a, b, loc, scale):
    """`truncnorm.logpdf(x, a, b, loc, scale)`; a point within rounding of an end of the support is
    evaluated at that end (model arguments are exact, the code's are rounded: at the very end of
    the support the two can fall on different sides).  Returns (value, at_boundary)."""
    z = (x - loc) / scale
    edge = False
    for e in (a, b):
        if abs(z - e) <= 1e-9 * max(1.0, abs(e)):
            z, edge = e, True
    return float(stats.truncnorm.logpdf(z, a, b) - numpy.log(scale)), edge


def eval_terms(terms, frozen_mvn=None, flags=None):
    tot = 0.0
    for kind, a in terms:
        f = [float(v) for v in a]
        if kind == 'N':
            tot += stats.norm.logpdf(f[0], loc=f[1], scale=f[2])
        elif kind == 'T':
            v, edge = tn_logpdf(*f)
            if edge and flags is not None:
                flags.append('edge')
            tot += v
        elif kind == 'M':
            tot += float(frozen_mvn.logpdf(numpy.array(f)))
        elif kind == 'U':
            tot += stats.uniform.logpdf(f[0], loc=f[1], scale=f[2])
        elif kind == 'L':
            tot += stats.lognorm.logpdf(f[0], s=f[1], scale=numpy.exp(f[2]))
        elif kind == 'V':
            tot += numpy.log(f[0]) + f[1] * float(numpy.dot(cart(f[2], f[3]), cart(f[4], f[5])))
        elif kind == 'C':
            tot += f[0]
        else:
            raise ValueError(kind)
    return float(tot)


def close(a, b, rtol=RTOL):
    if a == b:
        return True
    if math.isnan(a) or math.isnan(b):
        return math.isnan(a) and math.isnan(b)
    if math.isinf(a) or math.isinf(b):
        return False
    return abs(a - b) <= rtol * max(1.0, abs(a), abs(b))


# --------------------------------------------------------------------------
# one density query, continuous families and births
# --------------------------------------------------------------------------

def model_line(family, p, xi, given):
    """The driver request describing a `_logpdf(xi, givenx)` call of the live object `p`."""
    names = list(p.parameters)
    X = [xi[k] for k in names]
    G = [given[k] for k in names] if given is not None else None
    base = family.replace('ss_adaptive_', '').replace('at_adaptive_', '').replace('adaptive_', '')
    if base == 'normal':
        if p.isdiagonal:
            # the live scale (what `_jump` passes to the generator), not the cached frozen distribution:
            # a cache that is stale after a reset / setter must show as a divergence
            scale = numpy.asarray(p._std, dtype=float) * numpy.ones(len(names))
            return 'terms normal scale=%s xi=%s given=%s' % (frl(scale), frl(X), frl(G))
        return 'terms normalfull xi=%s given=%s' % (frl(X), frl(G))
    if base == 'bounded_normal':
        return 'terms bn lo=%s hi=%s std=%s xi=%s given=%s' % (
            frl(p._lowerbnd), frl(p._upperbnd), frl(p._std), frl(X), frl(G))
    if base == 'angular':
        return 'terms ang half=%s factor=%s inv=%s logfactor=%s std=%s xi=%s given=%s' % (
            fr(p._halfwidth), fr(p._factor), fr(p._invfactor), fr(p._logfactor), frl(p._std), frl(X), frl(G))
    if base == 'eigenvector':
        return 'terms eigen dx=%s scale=%s' % (fr(p._dx), fr(p.eigvals[p._ind]))
    if base == 'isotropic_solid_angle':
        return 'terms vmf radec=%d degs=%d halfpi=%s deg2rad=%s norm=%s kappa=%s xi=%s given=%s' % (
            p.isradec, p.isdegs, fr(numpy.pi / 2), fr(numpy.pi / 180.), fr(p.norm), fr(p.kappa), frl(X), frl(G))
    if base == 'uniform_birth':
        return 'terms ubirth a=%s b=%s xi=%s' % (frl(p.boundaries[k][0] for k in names),
                                                 frl(p.boundaries[k][1] for k in names), frl(X))
    if base == 'normal_birth':
        return 'terms nbirth a=%s b=%s xi=%s' % (frl(p.mu[k] for k in names), frl(p.std[k] for k in names), frl(X))
    if base == 'log_normal_birth':
        return 'terms lbirth a=%s b=%s xi=%s' % (frl(p.mu[k] for k in names), frl(p.std[k] for k in names), frl(X))
    raise ValueError(family)


class Suite:
    def __init__(self, seed):
        self.rng = random.Random(seed * 7919 + 3)
        self.drv = Driver()
        self.divs = []
        self.cov = {'queries': 0, 'jumps': 0, 'sequences': 0, 'instances': 0, 'families': {},
                    'branches': {}, 'library_calls_compared': 0, 'shared_cache_instances': 0,
                    'distinct_cache_instances': 0}
        self.samples = []
        self.shared_seen = []

    def br(self, k):
        self.cov['branches'][k] = self.cov['branches'].get(k, 0) + 1

    def diverge(self, family, what, request, model, real, extra=None):
        if len(self.divs) < 50:
            d = {'family': family, 'what': what, 'request': request[:600], 'model': str(model)[:300],
                 'real': str(real)[:300]}
            if extra:
                d.update(extra)
            self.divs.append(d)

    # ---- continuous / births
    def query(self, family, p, xi, given):
        line = model_line(family, p, xi, given)
        ans = self.drv.ask(line)
        real = float(p.logpdf(xi, given)) if given is not None else float(p.logpdf(xi))
        self.cov['queries'] += 1
        if not ans.startswith('terms'):
            self.diverge(family, 'driver', line, ans, real)
            return
        mvn = None
        if 'normal' in family and not getattr(p, 'isdiagonal', True):
            # built from the live covariance (what `_jump` passes to multivariate_normal)
            mvn = stats.multivariate_normal(cov=numpy.asarray(p.cov, dtype=float), allow_singular=True)
        flags = []
        val = eval_terms(parse_terms(ans), mvn, flags)
        if len(self.samples) < 6 and self.rng.random() < 0.05:
            self.samples.append({'request': line[:200], 'model': ans[:200], 'real_logpdf': real})
        self.br('finite' if math.isfinite(real) else 'minus-inf')
        if flags and real == -math.inf:
            self.br('point on the end of the support: code rounds it outside')
        elif not close(val, real):
            self.diverge(family, 'logpdf', line, '%s => %r' % (ans, val), real)
        pdf = float(p.pdf(xi, given)) if given is not None else float(p.pdf(xi))
        if not close(pdf, math.exp(real) if real > -745 else 0.0, 1e-12) and not (pdf == 0.0 and real < -700):
            self.diverge(family, 'pdf != exp(logpdf)', line, math.exp(real), pdf)

    # ---- bounded eigenvector
    def query_beigen(self, family, p, xi, given):
        names = list(p.parameters)
        X = [float(xi[k]) for k in names]
        G = [float(given[k]) for k in names]
        stored = p._cache.get('hash')
        calls = []
        orig = p._intersects

        def wrapped(x, v):
            calls.append(1)
            return orig(x, v)

        p._intersects = wrapped
        try:
            real = float(p.logpdf(xi, given))
        finally:
            del p._intersects
        ans = self.drv.ask('becache stored=%s xi=%s given=%s' % ('none' if stored is None else frl(stored), frl(X), frl(G)))
        hit = 'hit=1' in ans
        self.cov['queries'] += 1
        self.br('beigen-cache-hit' if hit else 'beigen-cache-miss')
        if hit != (len(calls) == 0):
            self.diverge(family, 'chord cache hit/miss', ans, hit, len(calls) == 0)
            return
        if not hit:
            want = [Fraction(v) for v in ans.split('store=')[1].split(',')]
            if [Fraction(float(v)) for v in p._cache['hash']] != want:
                self.diverge(family, 'chord cache key', ans, want, p._cache['hash'])
        in1, in2 = p._cache['intersects']
        width = p._cache['width']
        mu = numpy.linalg.norm([given[k] - in1[k] for k in names])
        xd = numpy.linalg.norm([xi[k] - in1[k] for k in names])
        line = 'terms beigen s=%s width=%s mu=%s xi=%s' % (fr(p.eigvals[p._ind]), fr(width), fr(mu), fr(xd))
        t = self.drv.ask(line)
        flags = []
        val = eval_terms(parse_terms(t), None, flags)
        if flags and real == -math.inf:
            self.br('point on the end of the support: code rounds it outside')
        elif not close(val, real):
            self.diverge(family, 'logpdf', line, '%s => %r' % (t, val), real)

    # ---- discrete families
    def new_caches(self, p):
        n = len(p.parameters)
        shared = bool(n > 1 and p._cdfcache[0] is p._cdfcache[1])
        if n > 1:
            self.shared_seen.append(shared)
            self.cov['shared_cache_instances' if shared else 'distinct_cache_instances'] += 1
        self.drv.ask('caches shared=%d' % (1 if shared else 0))
        return shared

    def reset_caches(self, p):
        """Model and object start from empty caches of the object's own sharing structure (an
        adapted instance comes with whatever the chain's Hastings terms left in its caches)."""
        n = len(p.parameters)
        shared = self.new_caches(p)
        p._cdfcache = [{}] * n if (shared or n == 1) else [{} for _ in range(n)]
        p._cachedstd = [None] * n

    def query_discrete(self, family, p, xi, given, table):
        """`table`: library values already obtained for this instance: (key text, std text) -> value."""
        names = list(p.parameters)
        bounded = 'bounded' in family
        head = '%s succ=%s std=%s %sxi=%s given=%s' % (
            'bd' if bounded else 'nd', ','.join('1' if p.successive[k] else '0' for k in names), frl(p._std),
            ('lo=%s hi=%s ' % (frl(p._lowerbnd), frl(p._upperbnd))) if bounded else '',
            frl(xi[k] for k in names), frl(given[k] for k in names))
        # the real call, with scipy's cdf wrapped to see which library calls are really made
        made = []
        dist = stats.truncnorm if bounded else stats.norm
        orig = dist.cdf

        def spy(x, *a, **k):
            made.append((x, a, dict(k)))
            return orig(x, *a, **k)

        dist.cdf = spy
        try:
            real = float(p.logpdf(xi, given))
        finally:
            del dist.cdf
        self.cov['queries'] += 1
        for _ in range(40):
            tbl = '|'.join('%s;%s;%s' % (k[0], k[1], fr(v)) for k, v in table.items()) or '-'
            ans = self.drv.ask(head + ' tbl=' + tbl)
            if not ans.startswith('need'):
                break
            key, sd = ans.split()[1].split(';')
            kk = [float(Fraction(v)) for v in key.split(':')]
            s = float(Fraction(sd))
            if bounded:
                v = stats.truncnorm.cdf(kk[0], kk[1] / s, kk[2] / s, loc=kk[3], scale=s)
            else:
                v = stats.norm.cdf(kk[0], scale=s)
            table[(key, sd)] = float(v)
        if not ans.startswith('res'):
            self.diverge(family, 'driver', head, ans, real)
            return
        toks = ans.split()
        if toks[1] == '-inf':
            val = -math.inf
            self.br('early -inf')
        else:
            dps = [float(Fraction(v)) for v in toks[1].split(',')]
            val = 0.0
            for dp in dps:
                val += float(numpy.log(dp)) if dp > 0 else (-math.inf if dp == 0 else math.nan)
            self.br('cells')
        if not close(val, real, 1e-12):
            self.diverge(family, 'logpdf', head, '%s => %r' % (ans[:200], val), real,
                         {'caches_shared': bool(len(names) > 1 and p._cdfcache[0] is p._cdfcache[1])})
        # library calls: the model's cache misses against the calls really made
        pred = [] if toks[2] == 'calls=-' else toks[2][len('calls='):].split('|')
        self.cov['library_calls_compared'] += len(made)
        self.br('cache: %d miss' % min(len(pred), 4))
        ok = len(pred) == len(made)
        if ok:
            for pr, (x, a, k) in zip(pred, made):
                key, sd = pr.split(';')
                kk = [float(Fraction(v)) for v in key.split(':')]
                s = float(Fraction(sd))
                try:
                    if bounded:
                        want = (kk[0], kk[1] / s, kk[2] / s, kk[3], s)
                        got = (float(x), float(a[0]), float(a[1]), float(k.get('loc')), float(k.get('scale')))
                    else:
                        want = (kk[0], s)
                        got = (float(x), float(k.get('scale')))
                except (TypeError, ValueError, IndexError):
                    want, got = 0, 1           # the real code calls the library in another way than the model says
                if want != got:
                    ok = False
        if not ok:
            self.diverge(family, 'library calls (cache hit/miss pattern or arguments)', head, pred,
                         [(_txt(x), [_txt(v) for v in a], {kk: _txt(v) for kk, v in k.items()}) for x, a, k in made])

    # ---- jumps
    def jump_checks(self, family, p0, x, ntries=6):
        """Scripted jumps: generator calls, draws consumed and produced point against the model."""
        names = list(p0.parameters)
        n = len(names)
        base = family.replace('ss_adaptive_', '').replace('at_adaptive_', '').replace('adaptive_', '')
        for _ in range(ntries):
            p = copy.deepcopy(p0)
            zs = [self.rng.gauss(0, 1.6) for _ in range(400)]
            plan = _ListPlan(zs, self.rng)
            gen = Q.Gen(plan)
            gen.limit = 390
            p._verif_gen = gen
            try:
                out = p.jump(x)
            except (Q.Runaway, Q.Exhausted):
                self.br('jump: runaway skipped')
                continue
            self.cov['jumps'] += 1
            calls = gen.calls
            if base == 'normal':
                if not p.isdiagonal:
                    ok = len(calls) == 1 and calls[0][0] == 'mvn' and \
                        numpy.array_equal(calls[0][1], [x[k] for k in names]) and \
                        numpy.array_equal(calls[0][2], p.cov)
                    if not ok:
                        self.diverge(family, 'jump arguments (full covariance)', str(x), 'mean=from, cov=self.cov', calls)
                    continue
                ans = self.drv.ask('jump normal std=%s from=%s' % (frl(p._std), frl(x[k] for k in names)))
                want = ans.split('call=')[1].split('+')
                got = ['normal(%s,%s)' % (fr(l), fr(s)) for l, s in zip(numpy.asarray(calls[0][1], dtype=float),
                                                                          numpy.asarray(calls[0][2], dtype=float))]
                if want != got or len(calls) != 1:
                    self.diverge(family, 'jump generator call', str(x), want, got)
                continue
            # per-parameter loops: split the scalar calls by parameter using the returned values
            scal = [c for c in calls if c[0] == 'normal']
            rets = gen.returned
            pos = 0
            for i, k in enumerate(names):
                if base == 'bounded_normal':
                    req = 'jump bn lo=%s hi=%s std=%s from=%s' % (fr(p._lowerbnd[i]), fr(p._upperbnd[i]), fr(p._std[i]), fr(x[k]))
                elif base == 'angular':
                    req = 'jump ang half=%s factor=%s inv=%s std=%s from=%s' % (
                        fr(p._halfwidth), fr(p._factor), fr(p._invfactor), fr(p._std[i]), fr(x[k]))
                elif base == 'discrete':
                    req = 'jump nd succ=%d std=%s from=%s' % (p.successive[k], fr(p._std[i]), fr(x[k]))
                elif base == 'bounded_discrete':
                    req = 'jump bd succ=%d std=%s lo=%s hi=%s from=%s' % (
                        p.successive[k], fr(p._std[i]), fr(p._lowerbnd[i]), fr(p._upperbnd[i]), fr(x[k]))
                else:
                    raise ValueError(family)
                ans = self.drv.ask(req + ' draws=%s' % frl(rets[pos:pos + 60]))
                toks = dict(t.split('=', 1) for t in ans.split()[1:]) if ans.startswith('jump') else {}
                if not toks or toks.get('out') == 'exhausted':
                    self.diverge(family, 'jump', req, ans, out)
                    break
                nused = int(toks['n'])
                call = toks['call']
                loc_s = call[len('normal('):-1].split(',')
                gl, gs = float(scal[pos][1]), float(scal[pos][2])
                if not (close(float(Fraction(loc_s[0])), gl, 1e-12) and close(float(Fraction(loc_s[1])), gs, 1e-12)):
                    self.diverge(family, 'jump generator call', req, call, (gl, gs))
                    break
                mo = float(Fraction(toks['out']))
                ro = float(out[k])
                tol = 1e-9 if base == 'angular' else 0.0
                if not (mo == ro or abs(mo - ro) <= tol * max(1.0, abs(ro))):
                    self.diverge(family, 'jump output', req + ' draws=%s' % frl(rets[pos:pos + nused]), mo, ro)
                    break
                self.br('jump: %s draws' % ('1' if nused == 1 else '2+' if nused < 6 else '6+'))
                pos += nused
            else:
                if pos != len(scal):
                    self.diverge(family, 'jump draws consumed', str(x), pos, len(scal))

    def sphere_jump(self, family, p0, x):
        """`_new_point` and `_rotmat` of the solid-angle families against the model."""
        names = list(p0.parameters)
        for _ in range(4):
            u1, u2 = self.rng.random(), self.rng.random()
            p = copy.deepcopy(p0)
            plan = _PairPlan(u1, u2)
            p._verif_gen = Q.Gen(plan)
            phi, theta = p._new_point
            self.cov['jumps'] += 1
            twopi = 2 * numpy.pi
            ans = self.drv.ask('jump vmfpoint kappa=%s norm=%s expk=%s twopi=%s u1=%s u2=%s' % (
                fr(p.kappa), fr(p.norm), fr(numpy.exp(p.kappa)), fr(twopi), fr(u1), fr(u2)))
            toks = dict(t.split('=', 1) for t in ans.split()[1:]) if ans.startswith('jump') else {}
            if not toks:
                self.diverge(family, 'driver', 'vmfpoint', ans, (phi, theta))
                return
            mphi = float(Fraction(toks['phi']))
            mtheta = float(numpy.arccos(numpy.log(float(Fraction(toks['logarg']))) / p.kappa))
            calls = p._verif_gen.calls
            if not (close(mphi, float(phi), 1e-12) and close(mtheta, float(theta), 1e-9)
                    and len(calls) == 1 and calls[0][0] == 'random'):
                self.diverge(family, 'new point (inverse cdf)', ans, (mphi, mtheta), (float(phi), float(theta), calls))
                return
            # rotation
            mu = p._spherical2cartesian(float(x[names[0]]), float(x[names[1]]), convert=True)
            xi = p._spherical2cartesian(float(phi), float(theta))
            real = numpy.matmul(p._rotmat(mu), xi)
            beta = numpy.arccos(mu[2])
            ac = numpy.arccos(mu[0] / numpy.sqrt(mu[0] ** 2 + mu[1] ** 2))
            g0 = self.drv.ask('jump vmfrot mu1=%s acos=%s twopi=%s cb=1 sb=0 cg=1 sg=0 xi=0,0,1' % (fr(mu[1]), fr(ac), fr(twopi)))
            gamma = float(Fraction(dict(t.split('=', 1) for t in g0.split()[1:])['gamma']))
            ans = self.drv.ask('jump vmfrot mu1=%s acos=%s twopi=%s cb=%s sb=%s cg=%s sg=%s xi=%s' % (
                fr(mu[1]), fr(ac), fr(twopi), fr(numpy.cos(beta)), fr(numpy.sin(beta)), fr(numpy.cos(gamma)),
                fr(numpy.sin(gamma)), frl(xi)))
            out = [float(Fraction(v)) for v in dict(t.split('=', 1) for t in ans.split()[1:])['out'].split(',')]
            self.br('sphere rotation: mu[1] %s 0' % ('<' if mu[1] < 0 else '>='))
            if not all(abs(a - b) <= 1e-12 for a, b in zip(out, real)):
                self.diverge(family, 'rotation of the drawn point', ans, out, [float(v) for v in real])
                return
            # the whole jump: what jump() returns, in the coordinates of the object's convention, against the
            # rotated unit vector expressed in that convention by the harness's own conversion (azimuth in
            # [0, 2 pi) or [0, 360), polar angle / declination, radians / degrees)
            q = copy.deepcopy(p0)
            q._verif_gen = Q.Gen(_PairPlan(u1, u2))
            got = q.jump(x)
            self.cov['jumps'] += 1
            want = Q.from_cart(p0, numpy.asarray(real, dtype=float))
            period = 360.0 if p0.isdegs else 2 * math.pi
            g0, g1 = float(got[names[0]]), float(got[names[1]])
            d0 = abs(g0 - want[0])
            self.br('sphere jump: radec=%d degs=%d' % (p0.isradec, p0.isdegs))
            # (a point within rounding of the pole or of azimuth 0 may come out on the other side of the wrap)
            near_pole = abs(abs(float(real[2])) - 1.0) < 1e-9
            if not ((min(d0, period - d0) <= 1e-9 * period or near_pole) and abs(g1 - want[1]) <= 1e-7 * period
                    and -1e-12 <= g0 <= period * (1 + 1e-12)):
                self.diverge(family, 'jump output in the coordinates of the convention (radec=%r, degs=%r)' % (
                    p0.isradec, p0.isdegs), 'jump from %r with u=(%r, %r)' % (x, u1, u2), list(want), [g0, g1])
                return

    def eigen_jump(self, family, p0, x):
        names = list(p0.parameters)
        p = copy.deepcopy(p0)
        ind = self.rng.randrange(len(names))
        zs = [self.rng.gauss(0, 1.3) for _ in range(3000)]
        plan = Q.EigenPlan(ind, zs)
        gen = Q.Gen(plan)
        p._verif_gen = gen
        try:
            out = p.jump(x)
        except (Q.Exhausted, ValueError):
            self.br('jump: runaway skipped')
            return None
        self.cov['jumps'] += 1
        scale = float(p.eigvals[ind])
        draws = [scale * z for z in zs[:plan.pos]]
        vec = p.eigvects[:, ind]
        if 'bounded' in family:
            req = 'jump beigen lo=%s hi=%s from=%s vec=%s scale=%s draws=%s' % (
                frl(p._lowerbnd), frl(p._upperbnd), frl(x[k] for k in names), frl(vec), fr(scale), frl(draws[-40:]))
        else:
            req = 'jump eigen from=%s vec=%s scale=%s draws=%s' % (frl(x[k] for k in names), frl(vec), fr(scale), frl(draws))
        ans = self.drv.ask(req)
        toks = dict(t.split('=', 1) for t in ans.split()[1:]) if ans.startswith('jump') else {}
        if not toks or toks.get('out') == 'exhausted':
            self.diverge(family, 'jump', req, ans, out)
            return p, out
        mo = [float(Fraction(v)) for v in toks['out'].split(',')]
        ro = [float(out[k]) for k in names]
        nmodel = int(toks['n']) + max(0, len(draws) - 40) if 'bounded' in family else int(toks['n'])
        if not all(close(a, b, 1e-12) for a, b in zip(mo, ro)) or nmodel != len(draws):
            self.diverge(family, 'jump output / draws consumed', req, (mo, nmodel), (ro, len(draws)))
        return p, out


def _txt(v):
    """a number (or whatever the real code passed instead) as text"""
    try:
        return float(v)
    except (TypeError, ValueError):
        return repr(numpy.asarray(v).tolist())[:80]


class _PairPlan:
    def __init__(self, u1, u2):
        self.pair = (u1, u2)

    def u2(self):
        return self.pair


class _ListPlan:
    """draws from a list"""

    def __init__(self, zs, rng):
        self.zs = zs
        self.i = 0
        self.rng = rng

    def z(self, callno, k, scale):
        if self.i >= len(self.zs):
            raise Q.Exhausted()
        v = self.zs[self.i]
        self.i += 1
        return v

    def u(self, callno):
        return 0.5


# --------------------------------------------------------------------------
# the suite
# --------------------------------------------------------------------------

def boundary_points(kind, doms, names, rng):
    pts = [Q.point(kind, doms, names, rng) for _ in range(3)]
    if kind in ('box', 'intbox', 'angle'):
        pts.append(Q.point(kind, doms, names, rng, 'lower'))
        pts.append(Q.point(kind, doms, names, rng, 'upper'))
    if kind == 'angle':
        pts.append({k: 2 * math.pi for k in names})
        pts.append({k: math.pi for k in names})
    return pts


def run_instance(S, family, p0, names, doms, kind, exhaustive):
    rng = S.rng
    S.cov['instances'] += 1
    S.cov['families'][family] = S.cov['families'].get(family, 0) + 1
    pts = boundary_points(kind, doms, names, rng)
    if family in Q.DISCRETE:
        # same coordinates for every parameter as well: cache keys of different parameters coincide
        pool = Q.query_pool(family, p0, rng)[:2] + [(pts[0], pts[1]), (pts[-1], pts[-2]), (pts[1], pts[1])]
        alt = [numpy.array(p0._std)[::-1].copy(), numpy.array(p0._std) * 1.5]
        if exhaustive == 'full':
            ops = [('q', q) for q in pool[:3]] + [('s', a) for a in alt]
        else:
            ops = [('q', q) for q in pool[:2]] + [('s', a) for a in alt[:1]]
        seqs = []
        if exhaustive:
            for L in range(1, 5):
                seqs.extend(itertools.product(range(len(ops)), repeat=L))
        else:
            for _ in range(16):
                seqs.append(tuple(rng.randrange(len(ops) + 3) for _ in range(rng.randint(1, 4))))
        allops = ops + [('q', pool[2]), ('q', pool[3]), ('q', pool[4])]
        for seq in seqs:
            p = copy.deepcopy(p0)
            S.reset_caches(p)
            table = {}
            S.cov['sequences'] += 1
            for oi in seq:
                op = allops[oi % len(allops)]
                if op[0] == 'q':
                    S.query_discrete(family, p, op[1][0], op[1][1], table)
                else:
                    p.std = numpy.array(op[1], dtype=float)      # public setter: a scale change
                    S.br('scale change')
        S.jump_checks(family, p0, pts[0])
        S.jump_checks(family, p0, pts[-1], 3)
        return
    if family in Q.EIGEN:
        for x in pts[:3]:
            r = S.eigen_jump(family, p0, x)
            if r is None:
                continue
            p, out = r
            S.cov['sequences'] += 1
            for xi, given in ((out, x), (x, out), (out, x), (x, out)):
                if 'bounded' in family:
                    S.query_beigen(family, p, xi, given)
                else:
                    S.query(family, p, xi, given)
        return
    # stateless families: every ordered pair of the points, repeats included
    pairs = [(a, b) for a in pts for b in pts]
    rng.shuffle(pairs)
    S.cov['sequences'] += 1
    for xi, given in pairs[:14] + pairs[:3]:
        S.query(family, p0, xi, given)
    if family in Q.SPHERE:
        S.sphere_jump(family, p0, pts[0])
        S.sphere_jump(family, p0, pts[1])
    if family not in Q.SPHERE:
        S.jump_checks(family, p0, pts[0], 4)
        if kind in ('box', 'angle'):
            S.jump_checks(family, p0, pts[3], 3)
            S.jump_checks(family, p0, pts[4], 3)
    # the paths that change the scale other than an adaptation step: the model is fed the live
    # settings of the object afterwards, the real density has to follow
    if family in F.ADAPTIVE:
        p = copy.deepcopy(p0)
        p._reset_adaptation()
        S.br('after _reset_adaptation')
        for xi, given in pairs[:3]:
            S.query(family, p, xi, given)
        if family not in Q.SPHERE:
            S.jump_checks(family, p, pts[0], 1)
    if family in Q.PERPARAM and getattr(p0, 'isdiagonal', True):
        p = copy.deepcopy(p0)
        p.std = numpy.array(p._std, dtype=float) * numpy.array([1.7, 0.6, 1.3])[:len(names)]
        S.br('after assignment to std')
        for xi, given in pairs[:3]:
            S.query(family, p, xi, given)
        S.jump_checks(family, p, pts[0], 1)
        p.cov = (numpy.array(p._std, dtype=float) * 0.8) ** 2
        S.br('after assignment to cov')
        for xi, given in pairs[3:5]:
            S.query(family, p, xi, given)


def run_adaptive_history(S, family, seed):
    """Queries interleaved with real adaptation steps (scale changes made by `_update`)."""
    rng = random.Random(seed)
    cls, kind, lo, hi = F.FAMILIES[family]
    ch, prop, model = forcing.make_chain(family, random.Random(seed), pattern=rng.choice(['AR', 'A', 'RRA', 'AAR']),
                                         nparams=hi, window=10, seed=seed % 997 + 2)
    names = list(prop.parameters)
    S.cov['instances'] += 1
    S.cov['families'][family] = S.cov['families'].get(family, 0) + 1
    table = {}
    if family in Q.DISCRETE:
        S.reset_caches(prop)
    pool = None
    S.cov['sequences'] += 1
    for block in range(4):
        for _ in range(rng.randint(1, 3)):
            ch.step()
            S.br('adaptation step')
        if family in Q.DISCRETE and not prop.symmetric:
            # the chain's own Hastings term queried the density during the steps: restart model and
            # object from empty caches of the same sharing structure
            S.reset_caches(prop)
        if pool is None:
            pool = Q.query_pool(family, prop, rng)
        for q in [rng.choice(pool) for _ in range(4)]:
            if family in Q.DISCRETE:
                S.query_discrete(family, prop, q[0], q[1], table)
            else:
                S.query(family, prop, q[0], q[1])
    # the chain's own way back to the initial settings, then one more adaptation step
    for after in ('reset_proposals', 'reset_proposals + 1 step'):
        if after == 'reset_proposals':
            ch.reset_proposals()
        else:
            ch.step()
        S.br('after ' + after)
        if family in Q.DISCRETE:
            S.reset_caches(prop)
        for q in [rng.choice(pool) for _ in range(3)]:
            if family in Q.DISCRETE:
                S.query_discrete(family, prop, q[0], q[1], table)
            else:
                S.query(family, prop, q[0], q[1])


def sym_flags(S):
    """The class attribute `symmetric` of every registered family against the model's table."""
    bad = []
    for name, cls in sorted(F.exported_proposal_classes().items()):
        ans = S.drv.ask('sym name=%s' % name)
        want = {'sym 1': True, 'sym 0': False}.get(ans)
        if want is None or want != bool(cls.symmetric):
            bad.append((name, ans, bool(cls.symmetric)))
    for b in bad:
        S.diverge(b[0], 'symmetric flag', 'sym name=%s' % b[0], b[1], b[2])
    S.cov['symmetric_flags_compared'] = len(F.exported_proposal_classes())


def run_suite(seed, tier):
    """Returns (divergences, coverage dict, samples, list of measured cache-sharing flags)."""
    S = Suite(seed)
    rng = S.rng
    quick = tier == 'quick'
    per_family = 3 if quick else 16
    try:
        sym_flags(S)
        for family in sorted(F.FAMILIES):
            cls, kind, lo, hi = F.FAMILIES[family]
            # (one more instance of the solid-angle families in the quick tier: all four conventions)
            for j in range(per_family + (1 if quick and family in Q.SPHERE else 0)):
                n = lo + j % (hi - lo + 1)
                steps = [0, 4, 9, 2][j % 4] if family in F.ADAPTIVE else 0
                same = kind == 'intbox' and j % 2 == 1
                try:
                    # the solid-angle families in all four angle conventions (radec, degs)
                    conv = Q.CONVENTIONS[(j + seed) % 4] if family in Q.SPHERE else None
                    p0, names, doms, kind_ = Q.build(family, rng, n, steps, ['AR', 'A', 'R', 'AAR'][j % 4],
                                                     None if j % 3 else 'off', seed=rng.randrange(1000),
                                                     same_bounds=same, conv=conv)
                except ValueError as e:
                    S.diverge(family, 'real code raised while adapting', 'build %d' % j, 'no exception', repr(e)[:300])
                    continue
                except (AttributeError, TypeError, KeyError, AssertionError) as e:
                    S.diverge(family, 'the real object does not have the structure the model describes',
                              'build %d' % j, 'model structure', repr(e)[:300])
                    continue
                ex = (j == 1) if quick else ('full' if j in (1, 3) else j < 8)
                try:
                    run_instance(S, family, p0, names, doms, kind_, exhaustive=ex)
                except (ValueError, FloatingPointError, ZeroDivisionError, IndexError) as e:
                    S.diverge(family, 'real code raised', 'instance %d' % j, 'no exception', repr(e)[:300])
                except (AttributeError, TypeError, KeyError, AssertionError) as e:
                    # the live object is not built the way the model describes (attributes of the caches,
                    # shape of the library calls): the correspondence is broken, the search decides
                    S.diverge(family, 'the real object does not have the structure the model describes',
                              'instance %d' % j, 'model structure', repr(e)[:300])
            if family in F.ADAPTIVE and family not in Q.EIGEN:
                for j in range(2 if quick else 10):
                    try:
                        run_adaptive_history(S, family, rng.randrange(1 << 30))
                    except (ValueError, FloatingPointError, ZeroDivisionError, IndexError) as e:
                        S.diverge(family, 'real code raised', 'adaptive history %d' % j, 'no exception', repr(e)[:300])
                    except (AttributeError, TypeError, KeyError, AssertionError) as e:
                        S.diverge(family, 'the real object does not have the structure the model describes',
                                  'adaptive history %d' % j, 'model structure', repr(e)[:300])
        for name in ('uniform_birth', 'normal_birth', 'log_normal_birth'):
            for j in range(4 if quick else 20):
                b = Q.make_birth(name, rng, 1 + j % 3)
                S.cov['instances'] += 1
                S.cov['families'][name] = S.cov['families'].get(name, 0) + 1
                for _ in range(6):
                    pt = {k: float(v) for k, v in b.birth.items()}
                    S.query(name, b, pt, None)
                    S.query(name, b, pt, None)
                # outside the support as well
                S.query(name, b, {k: -50.0 for k in b.parameters}, None)
                bb = copy.deepcopy(b)
                plan = _ListPlan([rng.gauss(0, 1) for _ in range(8)], rng)
                bb._verif_gen = Q.Gen(plan)
                bb.birth
                ans = S.drv.ask('jump %s a=%s b=%s' % (
                    {'uniform_birth': 'ubirth', 'normal_birth': 'nbirth', 'log_normal_birth': 'lbirth'}[name],
                    frl((b.boundaries[k][0] if name == 'uniform_birth' else b.mu[k]) for k in b.parameters),
                    frl((b.boundaries[k][1] if name == 'uniform_birth' else b.std[k]) for k in b.parameters)))
                got = '+'.join('%s(%s,%s)' % (c[0], fr(c[1]), fr(c[2])) for c in bb._verif_gen.calls)
                S.cov['jumps'] += 1
                if ans != 'jump call=' + got:
                    S.diverge(name, 'birth generator calls', 'birth', ans, got)
    finally:
        S.drv.close()
    S.cov['driver_lines'] = S.drv.lines
    S.cov['driver_log_head'] = S.drv.log[:6]
    return S.divs, S.cov, S.samples, S.shared_seen
