"""C12 — proposed points lie in the declared domain: correspondence suite of the
Lean model `EpsieModel/Domain.lean` and failing-input search on the real code.

Both parts drive the *real* `jump()` / `birth` of /repo's proposal classes with
scripted base draws (`scripted_rng`), from outside:

* correspondence: the values the real generator stand-in returned (and, for the
  bounded eigenvector family, the points the real `__contains__` was asked
  about; for the solid-angle family, every numpy call the real `_jump` made)
  are fed to the Lean driver `DriverDomain.lean`; the model's answer
  (proposed point / refusal / starvation / NaN site, number of draws consumed)
  is compared with what the real call did.  Integers, decisions and draw counts
  are compared exactly; values that the model computes in exact arithmetic and
  the code in floats with relative tolerance 1e-9 (angles modulo the period).
* search: an oracle taken from the property statement only (membership in the
  declared domain, integrality, "not the current integer", no NaN, refusal from
  outside, own density positive for births) is applied to the real output over
  grids of positions (both boundaries, cell edges, the poles), scales
  (1e-12..1e+12 x width), base draws (grid + extreme quantiles), 1..3
  parameters, all radec/degs conventions and adaptive variants at adapted scales
  (`all_cases`), and to `proposed_position` along runs of real chains fed with
  real random base draws (`random_runs`).

Keys of the failing inputs (one per defect, stable across runs):
  bounded-eigenvector-corner-stall       start at a corner/edge: no proposal within the draw budget
                                         (recorded finding on the current tree)
 repaired in /repo (a51ea07, 65c339c, 4276c1d, ab7172e); the keys stay as regression detectors:
  discrete-zero-draw-proposes-current    a normal draw of exactly 0.0 -> current integer (non-successive)
  solid-angle-pole-start                 start at theta = 0 (dec = -pi/2): NaN azimuth out of _rotmat
  vmf-inverse-cdf-log-nonpositive        the inverse cdf takes the logarithm of a value <= 0 -> NaN
  vmf-inverse-cdf-arccos-out-of-range    the cosine of the polar angle outside [-1, 1] -> NaN
  log_normal_birth-zero-density          sigma/mu < 1.5e-8: std_log rounds to 0, own logpdf NaN
  <group>-out-of-bounds / -nan / -non-integer / -proposes-current / -no-refusal-outside /
  -refuses-inside / -raises, ang-out-of-range, solid-angle-out-of-range, <birth>-zero-density
"""
import contextlib
import itertools
import json
import math
import random
import subprocess

import numpy

import common
from common import frac, csv
import families as F
import forcing
from scripted_rng import (Script, scripted, real_tail, ScriptExhausted, DrawBudgetExceeded)

from epsie import proposals as P
from epsie.chain import Chain
from epsie.proposals import solid_angle as _sa_mod
from epsie.proposals import birth as B
from epsie.proposals.bounded_normal import BoundedNormal
from epsie.proposals.bounded_eigenvector import BoundedEigenvector

PI = float(numpy.pi)
TWO_PI = 2 * PI
D2R = float(numpy.pi / 180.)
R2D = float(180. / numpy.pi)
ATOL, RTOL = 1e-8, 1e-5            # numpy.isclose defaults used by BoundedEigenvector.__contains__

Z_EXTREME = [8.3, -8.3, 5e-324, -5e-324, 0.0, -0.0]
Z_GRID = [-3.0, -2.0, -1.0, -0.5, -0.1, -0.01, 0.01, 0.1, 0.5, 1.0, 2.0, 3.0]
U_EXTREME = [0.0, 2.0 ** -53, 1 - 2.0 ** -53]
U_GRID = [2.0 ** -52, 1e-12, 1e-6, 1e-3, 0.1, 0.25, 0.5, 0.75, 0.9, 0.999, 1 - 1e-6, 1 - 1e-12, 1 - 2.0 ** -52]

GROUPS = {
    'bn': ['bounded_normal', 'adaptive_bounded_normal', 'ss_adaptive_bounded_normal',
           'at_adaptive_bounded_normal'],
    'bd': ['bounded_discrete', 'ss_adaptive_bounded_discrete', 'adaptive_bounded_discrete'],
    'nd': ['discrete', 'ss_adaptive_discrete', 'adaptive_discrete'],
    'ang': ['angular', 'adaptive_angular', 'ss_adaptive_angular', 'at_adaptive_angular'],
    'be': ['bounded_eigenvector', 'adaptive_bounded_eigenvector'],
    'sa': ['isotropic_solid_angle', 'adaptive_isotropic_solid_angle'],
    'birth': ['uniform_birth', 'normal_birth', 'log_normal_birth'],
}
GROUP_OF = {f: g for g, fs in GROUPS.items() for f in fs}

# the numpy calls of one IsotropicSolidAngle._jump, in call order; the 15th (gamma = arccos(mu[0]/rxy))
# is made only when rxy > 0, i.e. not from a start at a pole
SA_CALLS = ['sin', 'cos', 'sin', 'cos', 'expm1', 'log1p', 'clip', 'arccos', 'sin', 'cos', 'sin', 'cos',
            'arccos', 'sqrt', 'arccos', 'sin', 'sin', 'cos', 'cos', 'arctan2', 'arccos']
SA_SITES = ['sinT0', 'cosP0', 'sinP0', 'cosT0', 'expm1', 'log1p', 'clipW', 'acosW', 'sinT1', 'cosP1', 'sinP1',
            'cosT1', 'acosMz', 'sqrtR', 'acosG', 'sinB', 'sinG', 'cosB', 'cosG', 'atan2', 'acosZ']
SA_GAMMA = 14
SA_CALLS_POLE = SA_CALLS[:SA_GAMMA] + SA_CALLS[SA_GAMMA + 1:]
SA_SITES_POLE = SA_SITES[:SA_GAMMA] + SA_SITES[SA_GAMMA + 1:]


def sa_site_names(nplog):
    """Names of the recorded calls, if the sequence is one of the two the code can make."""
    names = [c[0] for c in nplog]
    if names == SA_CALLS[:len(names)]:
        return SA_SITES[:len(names)]
    if names == SA_CALLS_POLE[:len(names)]:
        return SA_SITES_POLE[:len(names)]
    return None


# --------------------------------------------------------------------------
# instrumentation from outside
# --------------------------------------------------------------------------

class ContainsLog:
    """Logs every point the real `__contains__` of the bounded classes is asked about."""

    def __init__(self):
        self.log = []
        self._saved = []

    def __enter__(self):
        for cls in (BoundedNormal, BoundedEigenvector):
            orig = cls.__dict__['__contains__']
            self._saved.append((cls, orig))

            def wrapper(self_, testpt, _orig=orig, _log=self.log):
                r = _orig(self_, testpt)
                _log.append((dict(testpt), bool(r)))
                return r
            cls.__contains__ = wrapper
        return self

    def __exit__(self, *exc):
        for cls, orig in self._saved:
            cls.__contains__ = orig
        self._saved = []
        return False


class _NumpyProxy:
    LOGGED = ('sin', 'cos', 'arccos', 'arctan2', 'log', 'exp', 'sqrt', 'expm1', 'log1p', 'clip')

    def __init__(self, log):
        self._log = log

    def __getattr__(self, name):
        real = getattr(numpy, name)
        if name in self.LOGGED:
            log = self._log

            def f(*a):
                v = real(*a)
                try:
                    log.append((name, tuple(float(x) for x in a), float(v)))
                except (TypeError, ValueError):
                    log.append((name, None, None))
                return v
            return f
        return real


@contextlib.contextmanager
def sa_numpy_log():
    """Every sin/cos/arccos/arctan2/log/exp/sqrt/expm1/log1p/clip call of epsie.proposals.solid_angle."""
    log = []
    saved = _sa_mod.numpy
    _sa_mod.numpy = _NumpyProxy(log)
    try:
        yield log
    finally:
        _sa_mod.numpy = saved


# --------------------------------------------------------------------------
# building real proposals from JSON-able specs
# --------------------------------------------------------------------------

def param_names(n):
    return ['x%d' % i for i in range(n)]


def build(spec):
    """spec: dict(family, n, bounds=[[lo,hi]..], std=[..] | cov=[[..]], successive=[..],
    kappa, radec, degs, adapt=None|dict(pattern, steps, window, seed)).  Returns the real object."""
    fam = spec['family']
    g = GROUP_OF[fam]
    if g == 'birth':
        names = param_names(spec['n'])
        if fam == 'uniform_birth':
            return B.UniformBirth(names, {p: tuple(b) for p, b in zip(names, spec['bounds'])})
        cls = B.NormalBirth if fam == 'normal_birth' else B.LogNormalBirth
        return cls(names, dict(zip(names, spec['mean'])), dict(zip(names, spec['std'])))
    if g == 'sa':
        if fam == 'isotropic_solid_angle':
            prop = P.IsotropicSolidAngle('az', 'po', kappa=spec['kappa'], radec=spec['radec'], degs=spec['degs'])
        else:
            prop = P.AdaptiveIsotropicSolidAngle('az', 'po', spec['adapt']['window'],
                                                 radec=spec['radec'], degs=spec['degs'])
        if spec.get('adapt'):
            run_adaptation(prop, spec)
        return prop
    names = param_names(spec['n'])
    bnds = {p: tuple(b) for p, b in zip(names, spec['bounds'])} if spec.get('bounds') else None
    succ = None
    if spec.get('successive') is not None:
        succ = {p: bool(s) for p, s in zip(names, spec['successive'])}
    adapt = spec.get('adapt')
    if adapt is None:
        if fam == 'bounded_normal':
            prop = P.BoundedNormal(names, bnds, cov=[s * s for s in spec['std']])
            prop._std = numpy.array(spec['std'], dtype=float)      # exactly the scale asked for
        elif fam == 'bounded_discrete':
            prop = P.BoundedDiscrete(names, bnds, cov=[s * s for s in spec['std']], successive=succ)
            prop._std = numpy.array(spec['std'], dtype=float)
        elif fam == 'discrete':
            prop = P.NormalDiscrete(names, cov=[s * s for s in spec['std']], successive=succ)
            prop._std = numpy.array(spec['std'], dtype=float)
        elif fam == 'angular':
            prop = P.Angular(names, cov=[s * s for s in spec['std']])
            prop._std = numpy.array(spec['std'], dtype=float)
        elif fam == 'bounded_eigenvector':
            prop = P.BoundedEigenvector(names, bnds, cov=numpy.array(spec['cov'], dtype=float))
        else:
            raise ValueError('family %s needs an adaptation spec' % fam)
        return prop
    rng = random.Random(adapt['seed'])
    doms = {p: tuple(b) for p, b in zip(names, spec['bounds'])} if spec.get('bounds') else {p: None for p in names}
    prop = F.make(fam, names, doms, rng, window=adapt['window'], successive=succ if succ is not None else 'off')
    run_adaptation(prop, spec)
    return prop


def mid_start(spec, prop):
    """A start point well inside the domain, for the adaptation run."""
    g = GROUP_OF[spec['family']]
    if g == 'sa':
        phi, th = 1.0, 1.0
        if spec['radec']:
            th = th - PI / 2
        if spec['degs']:
            phi, th = phi * R2D, th * R2D
        return {'az': phi, 'po': th}
    names = param_names(spec['n'])
    out = {}
    for i, p in enumerate(names):
        if g in ('bn', 'be'):
            lo, hi = spec['bounds'][i]
            out[p] = 0.5 * (lo + hi)
        elif g == 'bd':
            lo, hi = prop.boundaries[p]
            out[p] = int((lo + hi) // 2)
        elif g == 'nd':
            out[p] = 0
        else:
            out[p] = 1.0 + i
    return out


def run_adaptation(prop, spec):
    """Bring an adaptive proposal to an adapted scale with a forced acceptance history
    on a real Chain (real generator, seeded)."""
    a = spec['adapt']
    model = forcing.ForcedModel(a['pattern'])
    names = list(prop.parameters)
    ch = Chain(names, model, [prop], bit_generator=int(a['seed']))
    ch.start_position = mid_start(spec, prop)
    for _ in range(int(a['steps'])):
        ch.step()


def scale_of(prop):
    if hasattr(prop, 'kappa') and isinstance(prop, P.IsotropicSolidAngle):
        return [float(prop.kappa)]
    if isinstance(prop, BoundedEigenvector):
        return [float(v) for v in prop.eigvals]
    return [float(v) for v in prop._std]


# --------------------------------------------------------------------------
# one real call
# --------------------------------------------------------------------------

def landing_tail(group, prop, fromx, script_ref):
    """Base draws that make any rejection loop terminate, whatever the scale: computed
    from the request being served (`script.pending`)."""
    state = {'n': 0}

    def tail(kind):
        sc = script_ref[0]
        state['n'] += 1
        n = state['n']
        if kind == 'u':
            return 0.5
        meth, args = sc.pending if sc.pending else ('normal', {'loc': 0.0, 'scale': 1.0})
        scale = float(numpy.asarray(args.get('scale', 1.0)).ravel()[0]) or 1.0
        loc = float(numpy.asarray(args.get('loc', 0.0)).ravel()[0])
        if group == 'bn':
            for p in prop.parameters:
                if float(fromx[p]) == loc:
                    lo, hi = prop.boundaries[p]
                    return (0.5 * (lo + hi) - loc) / scale
            return 0.0
        if group == 'bd':      # steps +1, -1, then 0 for a one-integer domain with successive jumps
            return (0.75, -0.75, 0.25, -0.25)[n % 4] / scale
        if group == 'nd':
            return 0.75 / scale
        if group == 'ang':
            return 0.25 / scale
        if group == 'be':
            return (1e-3 if n % 2 else -1e-3) * (0.0 if n > 6 else 1.0) / scale
        return 0.0
    return tail


def call_real(spec, prop, fromx, z, u, tail=None, budget=None):
    """Run the real jump()/birth with the scripted generator.  Returns a dict:
    kind ok|refuse|starved|budget|error, out, script, contains log, numpy log."""
    g = GROUP_OF[spec['family']]
    ref = [None]
    tl = None
    if tail == 'land':
        tl = landing_tail(g, prop, fromx, ref)
    elif isinstance(tail, (list, tuple)) and tail and tail[0] == 'real':
        tl = real_tail(int(tail[1]))
    sc = Script(z=z, u=u, tail=tl, budget=budget)
    ref[0] = sc
    res = {'script': sc, 'contains': [], 'np': [], 'out': None, 'exc': None}
    try:
        with contextlib.ExitStack() as st:
            cl = st.enter_context(ContainsLog())
            res['contains'] = cl.log
            st.enter_context(scripted(sc))
            if g == 'sa':
                res['np'] = st.enter_context(sa_numpy_log())
            if g == 'birth':
                out = prop.birth
            else:
                out = prop.jump(dict(fromx))
        res['kind'] = 'ok'
        res['out'] = out
    except ScriptExhausted:
        res['kind'] = 'starved'
    except DrawBudgetExceeded:
        res['kind'] = 'budget'
    except ValueError as e:
        res['exc'] = repr(e)
        res['kind'] = 'refuse' if 'not in bounds' in str(e) else 'error'
    except Exception as e:         # noqa: BLE001  (any crash of the real code is data here)
        res['exc'] = repr(e)
        res['kind'] = 'error'
    return res


def param_order(spec, prop):
    return list(prop.parameters)


# --------------------------------------------------------------------------
# the property's oracle on one real call (independent of the Lean model)
# --------------------------------------------------------------------------

def _isnan(v):
    try:
        return math.isnan(float(v))
    except (TypeError, ValueError):
        return True


def _is_integer_value(v):
    if isinstance(v, (bool, numpy.bool_)):
        return False
    if isinstance(v, (int, numpy.integer)):
        return True
    return False


def declared_bounds(spec, prop):
    """The domain the proposal was *declared* with: the constructor's boundaries; for the
    bounded discrete family the documented integer bounds floor(lower), ceil(upper)."""
    g = GROUP_OF[spec['family']]
    out = {}
    for p, b in zip(prop.parameters, spec['bounds']):
        lo, hi = b
        if g == 'bd':
            lo, hi = int(math.floor(lo)), int(math.ceil(hi))
        out[p] = (lo, hi)
    return out


def start_status(spec, prop, fromx):
    """'inside' | 'outside' | 'band' (bounded eigenvector tolerance band) of the declared domain."""
    g = GROUP_OF[spec['family']]
    if g not in ('bn', 'bd', 'be'):
        return 'inside'
    st = 'inside'
    bounds = declared_bounds(spec, prop)
    for p in prop.parameters:
        lo, hi = bounds[p]
        v = fromx[p]
        if lo <= v <= hi:
            continue
        if g == 'be':
            tl, th = ATOL + RTOL * abs(lo), ATOL + RTOL * abs(hi)
            if lo - 2 * tl <= v <= hi + 2 * th:
                st = 'band' if st != 'outside' else st
                continue
        st = 'outside'
    return st


def sa_ranges(spec):
    """Closed ranges of (azimuth, polar) in the proposal's convention."""
    if spec['degs']:
        az = (0.0, 360.0)
        po = (-90.0, 90.0) if spec['radec'] else (0.0, 180.0)
    else:
        az = (0.0, TWO_PI)
        po = (-PI / 2, PI / 2) if spec['radec'] else (0.0, PI)
    return az, po


def sa_nan_site(nplog):
    """Diagnostic only: the first numpy call of the real `_jump` that returned a non-finite value."""
    sites = sa_site_names(nplog[:len(SA_CALLS)])
    for i, (name, args, val) in enumerate(nplog):
        if val is None or not math.isfinite(val):
            site = sites[i] if sites is not None and i < len(sites) else name
            return site, args, val
    return None, None, None


def judge(spec, prop, fromx, res):
    """Findings [(key, text)] of one real call, from the property statement alone."""
    fam = spec['family']
    g = GROUP_OF[fam]
    out = []
    kind = res['kind']
    if g == 'birth':
        if kind != 'ok':
            if kind in ('starved', 'budget'):
                return out
            return [('%s-raises' % fam, '%s.birth raised %s' % (fam, res['exc']))]
        pt = res['out']
        try:
            lp = float(prop.logpdf(pt))
        except Exception as e:       # noqa: BLE001
            lp = float('nan')
            res['exc'] = repr(e)
        if not (lp > -math.inf) or math.isnan(lp):
            out.append(('%s-zero-density' % fam,
                        '%s proposed %r where its own logpdf is %r (density not positive)' % (fam, pt, lp)))
        return out
    st = start_status(spec, prop, fromx)
    if st == 'outside':
        if kind in ('refuse', 'error'):
            return out
        return [('%s-no-refusal-outside' % g,
                 '%s asked to jump from %r outside its bounds %r did not refuse (%s: %r)' % (
                     fam, fromx, declared_bounds(spec, prop), kind, res['out']))]
    if st == 'band':
        if kind != 'ok':
            return out
    if kind == 'refuse':
        return [('%s-refuses-inside' % g, '%s refused to jump from %r inside its bounds %r' % (
            fam, fromx, declared_bounds(spec, prop)))]
    if kind == 'error':
        return [('%s-raises' % g, '%s.jump(%r) raised %s' % (fam, fromx, res['exc']))]
    if kind == 'budget':
        if spec.get('stall_is_failure'):
            key = 'bounded-eigenvector-corner-stall' if g == 'be' else '%s-stall' % g
            return [(key, '%s.jump(%r) (bounds %r, scales %r) proposed nothing within %d base draws' % (
                fam, fromx, declared_bounds(spec, prop), scale_of(prop), res['script'].budget))]
        return out
    if kind == 'starved':
        return out
    pt = res['out']
    names = list(prop.parameters)
    for p in names:
        if p not in pt:
            out.append(('%s-missing-parameter' % g, '%s.jump returned no value for %s' % (fam, p)))
            return out
    if g in ('bn', 'be'):
        bounds = declared_bounds(spec, prop)
        for p in names:
            lo, hi = bounds[p]
            v = pt[p]
            if _isnan(v):
                out.append(('%s-nan' % g, '%s proposed NaN for %s from %r' % (fam, p, fromx)))
                continue
            tl = th = 0.0
            if g == 'be':      # "to within the rounding tolerance it applies at the faces"
                tl, th = ATOL + RTOL * abs(lo), ATOL + RTOL * abs(hi)
                tl, th = tl * (1 + 1e-9), th * (1 + 1e-9)
            if not (lo - tl <= v <= hi + th):
                out.append(('%s-out-of-bounds' % g, '%s proposed %s=%r outside [%r, %r] from %r (scales %r)' % (
                    fam, p, v, lo, hi, fromx, scale_of(prop))))
    elif g in ('bd', 'nd'):
        for i, p in enumerate(names):
            v = pt[p]
            if not _is_integer_value(v):
                out.append(('%s-non-integer' % g, '%s proposed %s=%r (%s), not an integer' % (fam, p, v, type(v).__name__)))
                continue
            if g == 'bd':
                lo, hi = declared_bounds(spec, prop)[p]
                if not (lo <= v <= hi):
                    out.append(('bd-out-of-bounds', '%s proposed %s=%r outside %r from %r' % (fam, p, v, (lo, hi), fromx)))
            if not prop.successive[p] and int(v) == int(fromx[p]):
                zero = any(float(numpy.asarray(r.out).ravel()[0]) == 0.0 for r in res['script'].log
                           if r.method == 'normal')
                key = 'discrete-zero-draw-proposes-current' if zero else '%s-proposes-current' % g
                out.append((key, '%s (successive=False) proposed the current integer %s=%r (from %r; '
                            'underlying normal draws %r)' % (fam, p, v, fromx[p],
                                                             [float(numpy.asarray(r.out).ravel()[0]) for r in res['script'].log])))
    elif g == 'ang':
        for p in names:
            v = pt[p]
            if _isnan(v) or not (0.0 <= v <= TWO_PI):
                out.append(('ang-out-of-range', '%s proposed %s=%r outside [0, 2pi] from %r (std %r)' % (
                    fam, p, v, fromx, scale_of(prop))))
    elif g == 'sa':
        az, po = sa_ranges(spec)
        a, t = pt['az'], pt['po']
        bad = []
        if _isnan(a) or _isnan(t):
            site, args, val = sa_nan_site(res['np'])
            key = {'acosG': 'solid-angle-pole-start', 'sqrtR': 'solid-angle-pole-start',
                   'log1p': 'vmf-inverse-cdf-log-nonpositive',
                   'clipW': 'vmf-inverse-cdf-arccos-out-of-range',
                   'acosW': 'vmf-inverse-cdf-arccos-out-of-range',
                   'acosZ': 'solid-angle-output-arccos-out-of-range',
                   'acosMz': 'solid-angle-start-arccos-out-of-range'}.get(site, 'solid-angle-nan')
            return [(key, '%s (kappa=%r, radec=%r, degs=%r) from %r with uniforms %r proposed %r: '
                     'first non-finite numpy call %s%r -> %r' % (
                         fam, float(prop.kappa), spec['radec'], spec['degs'], fromx,
                         [b[1] for r in res['script'].log for b in r.base], pt, site, args, val))]
        if not (az[0] <= a <= az[1]):
            bad.append('azimuth %r outside %r' % (a, az))
        if not (po[0] <= t <= po[1]):
            bad.append('polar %r outside %r' % (t, po))
        if bad:
            out.append(('solid-angle-out-of-range', '%s (kappa=%r, radec=%r, degs=%r) from %r: %s' % (
                fam, float(prop.kappa), spec['radec'], spec['degs'], fromx, '; '.join(bad))))
    return out


# --------------------------------------------------------------------------
# correspondence: request lines for the Lean driver and the real answer
# --------------------------------------------------------------------------

def _outs(res, method='normal'):
    return [float(numpy.asarray(r.out).ravel()[0]) for r in res['script'].log if r.method == method]


def _xr(v):
    if v is None:
        return 'nan'
    return frac(v)


def protocol(spec, prop, fromx, res):
    """(request line, answer of the real code, comparison mode)."""
    fam = spec['family']
    g = GROUP_OF[fam]
    names = list(prop.parameters)
    kind = res['kind']
    if kind in ('error', 'budget'):
        return None
    real = {'kind': kind}
    if g == 'birth':
        if fam == 'uniform_birth':
            us = [b[1] for r in res['script'].log for b in r.base]
            req = 'ub lo=%s hi=%s u=%s' % (csv(prop.boundaries[p][0] for p in names),
                                           csv(prop.boundaries[p][1] for p in names), csv(us))
            mode = 'tol'
        elif fam == 'normal_birth':
            zs = [b[1] for r in res['script'].log for b in r.base]
            req = 'nb mu=%s sd=%s z=%s' % (csv(prop.mu[p] for p in names), csv(prop.std[p] for p in names), csv(zs))
            mode = 'tol'
        else:
            es = _outs(res, 'lognormal')
            if any(not math.isfinite(e) for e in es):
                return None
            req = 'lb e=%s' % csv(es)
            mode = 'lb'
        if kind == 'ok':
            real['y'] = [res['out'][p] for p in names]
            real['used'] = res['script'].used()
        return req, real, mode
    x = [fromx[p] for p in names]
    if kind == 'ok':
        real['y'] = [res['out'][p] for p in names]
    nz = res['script'].used('z')
    real['used'] = nz
    if g == 'bn':
        draws = _outs(res)
        req = 'bn lo=%s hi=%s x=%s fuel=%d draws=%s' % (
            csv(prop.boundaries[p][0] for p in names), csv(prop.boundaries[p][1] for p in names),
            csv(x), len(draws) + 1, csv(draws))
        return req, real, 'exact'
    if g == 'bd':
        draws = _outs(res)
        lo = spec['_ctor_bounds'] if spec.get('_ctor_bounds') else [prop.boundaries[p] for p in names]
        req = 'bd lo=%s hi=%s succ=%s x=%s fuel=%d draws=%s' % (
            csv(b[0] for b in lo), csv(b[1] for b in lo),
            ','.join(str(int(prop.successive[p])) for p in names), csv(x), len(draws) + 1, csv(draws))
        return req, real, 'exact'
    if g == 'nd':
        draws = _outs(res)
        req = 'nd succ=%s x=%s fuel=%d draws=%s' % (
            ','.join(str(int(prop.successive[p])) for p in names), csv(x), len(draws) + 1, csv(draws))
        return req, real, 'exact'
    if g == 'ang':
        draws = _outs(res)
        req = 'ang h=%s invf=%s f=%s x=%s fuel=%d draws=%s' % (
            frac(prop._halfwidth), frac(prop._invfactor), frac(prop._factor), csv(x), len(draws) + 1, csv(draws))
        return req, real, 'ang'
    if g == 'be':
        draws = _outs(res)
        cont = res['contains']
        cands = [[c[0][p] for p in names] for c in cont[1:]]
        if kind == 'refuse' or prop._ind is None:
            e = [0.0] * len(names)
        else:
            e = [float(prop.eigvects[i, prop._ind]) for i in range(len(names))]
        req = 'be lo=%s hi=%s x=%s e=%s fuel=%d draws=%s cands=%s' % (
            csv(prop.boundaries[p][0] for p in names), csv(prop.boundaries[p][1] for p in names),
            csv(x), csv(e), len(cands) + 1, csv(draws), ';'.join(csv(c) for c in cands) or '-')
        return req, real, 'be'
    if g == 'sa':
        npl = res['np']
        called = [c[0] for c in npl]
        if called not in (SA_CALLS, SA_CALLS_POLE):
            return ('sa-sequence', {'kind': 'sequence', 'calls': called}, 'sa')
        sites = []
        for name, args, val in npl:
            a2 = '-'
            if name == 'arctan2':
                a2 = _xr(args[1])
            sites.append('%s:%s:%s' % (_xr(args[0]), a2, _xr(val)))
        if called == SA_CALLS_POLE:
            sites.insert(SA_GAMMA, 'none')
        us = [b[1] for r in res['script'].log for b in r.base]
        req = 'sa radec=%d degs=%d kappa=%s pi=%s d2r=%s r2d=%s x=%s u=%s sites=%s' % (
            int(spec['radec']), int(spec['degs']), frac(float(prop.kappa)),
            frac(PI), frac(D2R), frac(R2D), csv(x), csv(us), ';'.join(sites))
        real['used'] = res['script'].used('u')
        return req, real, 'sa'
    return None


def run_domain_driver(lines, timeout=1800):
    p = subprocess.run(['lake', 'env', 'lean', '--run', 'DriverDomain.lean'], cwd=common.LEAN_DIR,
                       input='\n'.join(lines) + '\n', stdout=subprocess.PIPE, stderr=subprocess.PIPE,
                       text=True, timeout=timeout)
    if p.returncode != 0:
        raise RuntimeError('Lean driver DriverDomain failed: ' + p.stderr[-2000:])
    return p.stdout.splitlines()


def _parse_answer(line):
    toks = line.split(' ')
    d = {'kind': toks[0], 'raw': line}
    for t in toks[1:]:
        if '=' in t:
            k, v = t.split('=', 1)
            d[k] = v
    return d


def _fr(s):
    return common.parse_frac(s)


def _close(a, b, rtol=1e-9, scale=1.0):
    a, b = float(a), float(b)
    return abs(a - b) <= rtol * max(abs(a), abs(b), scale)


def agree(mode, model_line, real, spec=None):
    """Does the model's answer describe what the real code did?  Returns (bool, why)."""
    m = _parse_answer(model_line)
    rk = real['kind']
    if rk == 'sequence':
        return False, 'the numpy call sequence of the real _jump changed: %r' % (real['calls'],)
    if m['kind'] in ('bad-request', 'desync'):
        return False, 'model answered %r' % model_line
    if m['kind'] == 'nan':
        if mode == 'lb':
            ok = rk == 'ok' and any(float(v) <= 0.0 for v in real['y'])
            return ok, 'model: exponential not positive; real %r' % (real,)
        ok = rk == 'ok' and any(_isnan(v) for v in real['y'])
        if ok and float(_fr(m.get('dev', '0'))) > 1e-9:
            return False, 'argument deviation %s' % m.get('dev')
        return ok, 'model predicts a NaN coordinate (%s); real %r' % (m.get('site'), real.get('y'))
    if m['kind'] in ('refuse', 'starved'):
        return rk == m['kind'], 'model %s, real %s' % (m['kind'], rk)
    if m['kind'] != 'ok' or rk != 'ok':
        return False, 'model %r, real %s' % (model_line, rk)
    ys = [] if m['y'] == '-' else m['y'].split(',')
    ry = real['y']
    if len(ys) != len(ry):
        return False, 'lengths differ'
    if any(_isnan(v) for v in ry):
        return False, 'real output has NaN, model %r' % model_line
    if 'used' in m and int(m['used']) != int(real['used']):
        return False, 'draws consumed: model %s, real %s' % (m['used'], real['used'])
    if mode == 'exact':
        for a, b in zip(ys, ry):
            if _fr(a) != common.parse_frac(frac(b)):
                return False, 'value: model %s, real %s' % (a, frac(b))
        return True, ''
    if mode == 'be':
        for a, b in zip(ys, ry):
            if _fr(a) != common.parse_frac(frac(b)):
                return False, 'value: model %s, real %s' % (a, frac(b))
        if float(_fr(m['dev'])) > 1e-12:
            return False, 'tested points differ from x + dx*e by %s (relative)' % m['dev']
        return True, ''
    if mode == 'ang':
        for a, b in zip(ys, ry):
            d = abs(float(_fr(a)) - float(b))
            d = min(d, abs(d - TWO_PI))
            if d > 1e-9 * TWO_PI:
                return False, 'angle: model %r, real %r' % (float(_fr(a)), float(b))
        return True, ''
    if mode in ('tol', 'lb'):
        for a, b in zip(ys, ry):
            sc = 1.0
            if spec is not None and spec.get('bounds'):
                sc = max(max(abs(v) for v in bb) for bb in spec['bounds'])
            if spec is not None and spec.get('mean'):
                sc = max(abs(v) for v in spec['mean']) + 10 * max(abs(v) for v in spec['std'])
            if not _close(_fr(a), b, 1e-9, sc):
                return False, 'value: model %r, real %r' % (float(_fr(a)), float(b))
        return True, ''
    if mode == 'sa':
        if float(_fr(m['dev'])) > 1e-9:
            return False, 'argument deviation %s' % m['dev']
        full = 360.0 if spec['degs'] else TWO_PI
        for a, b in zip(ys, ry):
            if abs(float(_fr(a)) - float(b)) > 1e-9 * full:
                return False, 'angle: model %r, real %r' % (float(_fr(a)), float(b))
        return True, ''
    return False, 'unknown mode'


# --------------------------------------------------------------------------
# case generation
# --------------------------------------------------------------------------

BOXES = [(0.0, 1.0), (-2.0, 3.0), (1e6, 1e6 + 1.0), (-1e-3, 1e-3), (-5.0, -4.5), (0.1, 0.30000000000000004)]
SCALES = [1e-12, 1e-6, 1e-3, 0.1, 1.0, 10.0, 1e3, 1e6, 1e12]
ADAPT_BOXES = [(0.0, 1.0), (-2.0, 3.0), (-5.0, -4.5)]
INT_BOXES = [(0, 3), (-3, 2), (-0.5, 4.2), (5, 6), (-7, -7), (0, 1000000)]
KAPPAS = [5.0, 1.0, 100.0, 0.2464955401, 17.2372612, 1e-3, 1e-8, 1e-12, 500.0, 600.0, 700.0, 705.0]


def positions_box(lo, hi, rng):
    return [lo, hi, 0.5 * (lo + hi), math.nextafter(lo, hi), math.nextafter(hi, lo), rng.uniform(lo, hi)]


def z_probes_box(mu, std, lo, hi):
    """Standard normals whose image mu + std*z falls on / next to the bounds."""
    out = []
    for t in (lo, hi):
        z = (t - mu) / std
        if math.isfinite(z):
            out += [z, math.nextafter(z, math.inf), math.nextafter(z, -math.inf)]
    return out


def case(spec, fromx, z=(), u=(), tail='land', budget=4000):
    return {'spec': spec, 'fromx': fromx, 'z': list(z), 'u': list(u), 'tail': tail, 'budget': budget}


def adapt_specs(rng, tier):
    pats = [('A', 12), ('R', 12), ('AAR', 25)]
    if tier != 'quick':
        pats += [('A', 60), ('R', 120), ('AR', 80), ('ARR', 200)]
    return [dict(pattern=p, steps=s, window=max(s + 10, 20), seed=rng.randrange(1, 10 ** 6)) for p, s in pats]


def gen_bn(rng, tier, full):
    fam0 = 'bounded_normal'
    nb = len(BOXES) if full else 4
    for n in (1, 2, 3):
        for bi in range(nb):
            boxes = [BOXES[(bi + j) % len(BOXES)] for j in range(n)]
            for s in (SCALES if full or n == 1 else SCALES[::2]):
                std = [s * (b[1] - b[0]) for b in boxes]
                spec = dict(family=fam0, n=n, bounds=[list(b) for b in boxes], std=std)
                names = param_names(n)
                plist = [positions_box(b[0], b[1], rng) for b in boxes]
                for k in range(len(plist[0])):
                    fromx = {p: plist[i][(k + i) % len(plist[i])] for i, p in enumerate(names)}
                    # probe each parameter in turn: earlier parameters get a landing draw
                    for i in range(n):
                        lead = [(0.5 * (boxes[j][0] + boxes[j][1]) - fromx[names[j]]) / std[j] for j in range(i)]
                        probes = Z_EXTREME + z_probes_box(fromx[names[i]], std[i], *boxes[i])
                        if n == 1 or full:
                            probes = probes + Z_GRID
                        for zp in probes:
                            yield case(spec, fromx, z=lead + [zp])
                # refusal from outside
                for i in range(n):
                    for v in (math.nextafter(boxes[i][0], -math.inf), math.nextafter(boxes[i][1], math.inf),
                              boxes[i][1] + 1.0, boxes[i][0] - 1e6):
                        fromx = {p: 0.5 * (b[0] + b[1]) for p, b in zip(names, boxes)}
                        fromx[names[i]] = v
                        yield case(spec, fromx, z=[0.1] * 4, tail=None)
    # adaptive variants at adapted scales
    for fam in GROUPS['bn'][1:]:
        for a in adapt_specs(rng, tier):
            for n in (1, 2, 3):
                # (boxes near the origin: the Andrieu-Thoms variant starts its running mean at 0, so
                # a box at 1e6 makes its *adaptation run* crawl -- a matter of C14, not of this property)
                boxes = [ADAPT_BOXES[(n + j) % 3] for j in range(n)]
                spec = dict(family=fam, n=n, bounds=[list(b) for b in boxes], adapt=a)
                names = param_names(n)
                for k in range(3):
                    fromx = {p: (b[0], b[1], 0.5 * (b[0] + b[1]))[(k + i) % 3] for i, (p, b) in enumerate(zip(names, boxes))}
                    for zp in Z_EXTREME + Z_GRID[::3]:
                        yield case(spec, fromx, z=[zp] * n)


def gen_discrete(rng, tier, full):
    stds = [2.0 ** -40, 0.25, 1.0, 2.0, 4.0, 1024.0, 2.0 ** 40]
    for bounded in (True, False):
        fam0 = 'bounded_discrete' if bounded else 'discrete'
        for n in (1, 2):
            for bi in range(len(INT_BOXES) if bounded else 2):
                boxes = [INT_BOXES[(bi + j) % len(INT_BOXES)] for j in range(n)]
                for succ in itertools.product((False, True), repeat=n):
                    if bounded and any(math.floor(b[0]) == math.ceil(b[1]) and not sc for b, sc in zip(boxes, succ)):
                        continue      # a one-integer domain without successive jumps has no valid proposal at all
                    for s in stds:
                        spec = dict(family=fam0, n=n, std=[s] * n, successive=list(succ))
                        if bounded:
                            spec['bounds'] = [list(b) for b in boxes]
                            spec['_ctor_bounds'] = [list(b) for b in boxes]
                        names = param_names(n)
                        ib = [(int(math.floor(b[0])), int(math.ceil(b[1]))) for b in boxes]
                        starts = []
                        for lo, hi in ib:
                            c = sorted({lo, hi, (lo + hi) // 2, min(lo + 1, hi)})
                            if bounded and hi > lo:
                                c.append(lo + 0.5)       # a non-integer float inside the bounds
                            starts.append(c)
                        for k in range(max(len(c) for c in starts)):
                            fromx = {p: starts[i][k % len(starts[i])] for i, p in enumerate(names)}
                            # draws on the cell edges: d = std*z an exact integer or half-integer
                            edge = [m / s for m in (0.5, -0.5, 1.0, -1.0, 1.5, -1.5, 2.5, -2.5, 0.75, -0.25)]
                            for zp in Z_EXTREME + edge + (Z_GRID if full else Z_GRID[::3]):
                                yield case(spec, fromx, z=[zp] * n)
                        if bounded:
                            for i in range(n):
                                for v in (ib[i][0] - 1, ib[i][1] + 1, ib[i][1] + 0.5, ib[i][0] - 1e9):
                                    fromx = {p: ib[j][0] for j, p in enumerate(names)}
                                    fromx[names[i]] = v
                                    yield case(spec, fromx, z=[0.1] * 4, tail=None)
    for fam in GROUPS['bd'][1:] + GROUPS['nd'][1:]:
        bounded = fam in GROUPS['bd']
        for a in adapt_specs(rng, tier)[:4]:
            for succ in ((False,), (True,), (False, True)):
                n = len(succ)
                boxes = [INT_BOXES[j] for j in range(n)]
                spec = dict(family=fam, n=n, successive=list(succ), adapt=a)
                if bounded:
                    spec['bounds'] = [list(b) for b in boxes]
                names = param_names(n)
                for k in range(3):
                    fromx = {p: (b[0], b[1], (b[0] + b[1]) // 2)[(k + i) % 3] for i, (p, b) in enumerate(zip(names, boxes))}
                    for zp in Z_EXTREME + Z_GRID[::2]:
                        yield case(spec, fromx, z=[zp] * n)


def gen_ang(rng, tier, full):
    pos = [0.0, TWO_PI, PI, math.nextafter(TWO_PI, 0.0), 5e-324, 1e-300, 1e-17, PI / 2, rng.uniform(0, TWO_PI)]
    for n in (1, 2):
        for s in SCALES:
            std = [s * TWO_PI] * n
            spec = dict(family='angular', n=n, std=std)
            names = param_names(n)
            for k, x in enumerate(pos):
                fromx = {p: pos[(k + i) % len(pos)] for i, p in enumerate(names)}
                sd = std[0] / PI
                probes = Z_EXTREME + [t / sd for t in (1.0, -1.0, math.nextafter(1.0, 2.0), math.nextafter(-1.0, -2.0),
                                                       0.5, -0.5, -x / PI, math.nextafter(-x / PI, -1.0),
                                                       2.0 - x / PI, math.nextafter(2.0 - x / PI, -1.0))]
                if full or n == 1:
                    probes += Z_GRID
                for zp in probes:
                    if math.isfinite(zp):
                        yield case(spec, fromx, z=[zp] * n)
    for fam in GROUPS['ang'][1:]:
        for a in adapt_specs(rng, tier):
            for n in (1, 2):
                spec = dict(family=fam, n=n, adapt=a)
                names = param_names(n)
                for k, x in enumerate(pos[:5]):
                    fromx = {p: pos[(k + i) % 5] for i, p in enumerate(names)}
                    for zp in Z_EXTREME + Z_GRID[::2]:
                        yield case(spec, fromx, z=[zp] * n)


def _cov(n, s, boxes, rng):
    a = numpy.array([[rng.uniform(-0.5, 0.5) for _ in range(n)] for _ in range(n)])
    m = a @ a.T + numpy.diag([rng.uniform(0.2, 0.6) for _ in range(n)])
    w = numpy.array([b[1] - b[0] for b in boxes])
    m = (m + m.T) / 2 * numpy.outer(w, w) * s
    return [[float(v) for v in row] for row in m]


def gen_be(rng, tier, full):
    boxes_all = [(0.0, 1.0), (-2.0, 3.0), (-5.0, -4.5)]
    for n in (2, 3):
        boxes = boxes_all[:n]
        names = param_names(n)
        for s in ([1e-12, 1e-3, 1.0, 1e3, 1e12] if not full else SCALES):
            spec = dict(family='bounded_eigenvector', n=n, bounds=[list(b) for b in boxes],
                        cov=_cov(n, s, boxes, rng))
            mids = {p: 0.5 * (b[0] + b[1]) for p, b in zip(names, boxes)}
            starts = [dict(mids)]
            for i, p in enumerate(names):          # face centres
                for v in boxes[i]:
                    d = dict(mids)
                    d[p] = v
                    starts.append(d)
            starts.append({p: rng.uniform(b[0], b[1]) for p, b in zip(names, boxes)})
            for fromx in starts:
                for uc in (0.0, 0.5, 1 - 2.0 ** -53):
                    for ush in (0.9, 0.1):
                        for zp in Z_EXTREME + Z_GRID[::2]:
                            yield case(spec, fromx, z=[zp], u=[ush, 0.3, 0.7, uc, 0.5, 0.5])
            for i, p in enumerate(names):           # refusal from outside (beyond the tolerance band)
                for v in (boxes[i][0] - 1.0, boxes[i][1] + 1e-3):
                    d = dict(mids)
                    d[p] = v
                    yield case(spec, d, z=[0.1] * 3, u=[0.9, 0.5, 0.5, 0.5], tail=None)
        # corners (and, in 3-D, edges): an eigenvector line may leave the box in both directions.
        # A correct proposal lands within a few draws (acceptance probability of order 1 at these
        # scales); the budget only bounds the work spent on a loop that never lands.
        budget = 20000 if full else 6000
        corners = list(itertools.product(*boxes))
        if n == 2:      # a fixed covariance, every corner, each eigenvector selected by the scripted uniform
            spec = dict(family='bounded_eigenvector', n=2, bounds=[list(b) for b in boxes],
                        cov=[[1.0, 1.5], [1.5, 12.5]], stall_is_failure=True)
            for ci, c in enumerate(corners):
                for uc in (0.0, 1 - 2.0 ** -53):
                    yield case(spec, dict(zip(names, c)), z=[], u=[0.9, uc], tail=['real', 77 + ci], budget=budget)
        if full:
            spec = dict(family='bounded_eigenvector', n=n, bounds=[list(b) for b in boxes],
                        cov=_cov(n, 1.0, boxes, rng), stall_is_failure=True)
            for ci, c in enumerate(corners):
                for seed in range(3):
                    yield case(spec, dict(zip(names, c)), z=[], u=[], tail=['real', 1000 * ci + seed + 1], budget=budget)
    for a in adapt_specs(rng, tier)[:4]:
        n = 2
        boxes = boxes_all[:n]
        spec = dict(family='adaptive_bounded_eigenvector', n=n, bounds=[list(b) for b in boxes], adapt=a)
        names = param_names(n)
        for fromx in ({p: 0.5 * (b[0] + b[1]) for p, b in zip(names, boxes)},
                      {names[0]: boxes[0][0], names[1]: 0.5}):
            for zp in Z_EXTREME + Z_GRID[::2]:
                yield case(spec, fromx, z=[zp], u=[0.9, 0.5, 0.5, 0.5, 0.5])


def sa_convert(spec, phi, theta):
    """(phi, colatitude) in radians -> the proposal's convention."""
    if spec['radec']:
        theta = theta - PI / 2
    if spec['degs']:
        phi, theta = phi * R2D, theta * R2D
    return phi, theta


def gen_sa(rng, tier, full):
    thetas = [0.0, PI, 1e-200, 1e-8, PI / 2, 1.0, math.nextafter(PI, 0.0), 2.5]
    phis = [0.0, TWO_PI, PI, 1.0, math.nextafter(TWO_PI, 0.0), 4.0]
    for radec, degs in itertools.product((False, True), repeat=2):
        for kappa in KAPPAS:
            spec = dict(family='isotropic_solid_angle', n=2, kappa=kappa, radec=radec, degs=degs)
            for ti, th in enumerate(thetas):
                ph = phis[ti % len(phis)]
                a, t = sa_convert(spec, ph, th)
                # the exact pole in the proposal's own convention
                if th == 0.0:
                    t = (-90.0 if degs else -PI / 2) if radec else 0.0
                if th == PI:
                    t = (90.0 if degs else PI / 2) if radec else (180.0 if degs else PI)
                fromx = {'az': a, 'po': t}
                u1s = [0.3, 0.0, 0.5] if not full else [0.3, 0.25, 0.5, 0.75] + U_EXTREME
                for u1 in u1s:
                    for u2 in [0.6] + U_EXTREME + (U_GRID if (full or ti >= 4) else U_GRID[::3]):
                        yield case(spec, fromx, u=[u1, u2], tail=None)
            # a draw that lands (numerically) on the pole of the rotated frame: phi1 = pi, theta1 = beta
            for th in (0.3, 1.0, 2.0, 3.0) if kappa in (1.0, 5.0, 100.0) else ():
                a, t = sa_convert(spec, 1.0, th)
                ek = math.exp(kappa)
                cdf = (ek - math.exp(kappa * math.cos(th))) / (ek - math.exp(-kappa))
                for du in range(-3, 4) if full else (0,):
                    u2 = cdf
                    for _ in range(abs(du)):
                        u2 = math.nextafter(u2, 2.0 if du > 0 else -1.0)
                    if 0.0 <= u2 < 1.0:
                        yield case(spec, {'az': a, 'po': t}, u=[0.5, u2], tail=None)
                        yield case(spec, {'az': a, 'po': t}, u=[0.0, u2], tail=None)
    for a in adapt_specs(rng, tier):
        for radec, degs in itertools.product((False, True), repeat=2):
            spec = dict(family='adaptive_isotropic_solid_angle', n=2, kappa=None, radec=radec, degs=degs, adapt=a)
            for th in (1.0, 1e-8, 2.5):
                aa, t = sa_convert(spec, 2.0, th)
                for u1 in (0.0, 0.3):
                    for u2 in U_EXTREME + U_GRID[::3]:
                        yield case(spec, {'az': aa, 'po': t}, u=[u1, u2], tail=None)


def gen_birth(rng, tier, full):
    for n in (1, 2, 3):
        for bi in range(len(BOXES)):
            boxes = [BOXES[(bi + j) % len(BOXES)] for j in range(n)] if bi else [(-1e6, 1e-3)] * n
            spec = dict(family='uniform_birth', n=n, bounds=[list(b) for b in boxes])
            for u in U_EXTREME + U_GRID:
                yield case(spec, {}, u=[u] * n, tail=None)
        for mean, std in ((0.0, 1.0), (1.0, 1e-12), (-3.0, 1e12), (1e6, 1e-3), (1e-6, 1.0)):
            spec = dict(family='normal_birth', n=n, mean=[mean] * n, std=[std] * n)
            for z in Z_EXTREME + Z_GRID:
                yield case(spec, {}, z=[z] * n, tail=None)
        for mean, std in ((1.0, 1.0), (1.0, 1e-12), (1.0, 1e12), (1e6, 1e-3), (1e-6, 1.0), (-2.0, 0.5), (50.0, 1e6)):
            spec = dict(family='log_normal_birth', n=n, mean=[mean] * n, std=[std] * n)
            for z in Z_EXTREME + Z_GRID:
                yield case(spec, {}, z=[z] * n, tail=None)


GENERATORS = {'bn': gen_bn, 'discrete': gen_discrete, 'ang': gen_ang, 'be': gen_be, 'sa': gen_sa,
              'birth': gen_birth}


def random_cases(rng, n):
    """Randomised cases (seeded) on top of the grids: random boxes, positions, scales, draws."""
    out = []
    for _ in range(n):
        g = rng.choice(['bn', 'bn', 'bd', 'bd', 'nd', 'ang', 'be', 'sa', 'sa', 'birth'])
        npar = rng.randint(1, 3)
        zs = [rng.choice(Z_EXTREME + Z_GRID + [rng.gauss(0, 1), rng.gauss(0, 3)]) for _ in range(6)]
        if g == 'bn':
            boxes = []
            for _ in range(npar):
                lo = rng.choice([0.0, -1.0, rng.uniform(-10, 10), 1e3])
                boxes.append([lo, lo + rng.choice([1.0, 0.5, rng.uniform(0.01, 5), 1e-6])])
            std = [rng.choice(SCALES) * (b[1] - b[0]) for b in boxes]
            spec = dict(family='bounded_normal', n=npar, bounds=boxes, std=std)
            fromx = {p: rng.choice([b[0], b[1], rng.uniform(b[0], b[1])]) for p, b in zip(param_names(npar), boxes)}
            if rng.random() < 0.1:
                fromx['x0'] = boxes[0][1] + rng.choice([1e-9, 1.0])
                out.append(case(spec, fromx, z=zs, tail=None))
            else:
                out.append(case(spec, fromx, z=zs))
        elif g in ('bd', 'nd'):
            npar = min(npar, 2)
            boxes = []
            for _ in range(npar):
                lo = rng.choice([0, -3, rng.randint(-20, 20), rng.uniform(-5, 5)])
                boxes.append([lo, lo + rng.choice([1, 2, 5, 2.5, 100])])
            succ = [rng.random() < 0.5 for _ in range(npar)]
            std = [rng.choice([2.0 ** -20, 0.3, 1.0, 2.0, 3.7, 50.0, 2.0 ** 30]) for _ in range(npar)]
            spec = dict(family='bounded_discrete' if g == 'bd' else 'discrete', n=npar, std=std, successive=succ)
            if g == 'bd':
                spec['bounds'] = boxes
                spec['_ctor_bounds'] = boxes
            fromx = {}
            for p, b in zip(param_names(npar), boxes):
                lo, hi = int(math.floor(b[0])), int(math.ceil(b[1]))
                fromx[p] = rng.choice([lo, hi, rng.randint(lo, hi), rng.randint(lo, hi) + (0.5 if g == 'bd' and hi > lo else 0)])
                if g == 'bd' and fromx[p] > hi:
                    fromx[p] = hi
            zz = [z if rng.random() < 0.6 else rng.choice([0.5, -0.5, 1.5, 2.5, -2.5, 1.0, -1.0]) / std[0] for z in zs]
            if g == 'bd' and rng.random() < 0.1:
                fromx['x0'] = int(math.ceil(boxes[0][1])) + rng.choice([1, 0.25])
                out.append(case(spec, fromx, z=zz, tail=None))
            else:
                out.append(case(spec, fromx, z=zz))
        elif g == 'ang':
            npar = min(npar, 2)
            std = [rng.choice(SCALES) * TWO_PI for _ in range(npar)]
            spec = dict(family='angular', n=npar, std=std)
            fromx = {p: rng.choice([0.0, TWO_PI, rng.uniform(0, TWO_PI)]) for p in param_names(npar)}
            out.append(case(spec, fromx, z=zs))
        elif g == 'be':
            npar = max(npar, 2)
            boxes = [[0.0, 1.0], [-2.0, 3.0], [-5.0, -4.5]][:npar]
            spec = dict(family='bounded_eigenvector', n=npar, bounds=boxes,
                        cov=_cov(npar, rng.choice([1e-6, 1e-2, 1.0, 100.0]), boxes, rng))
            fromx = {p: rng.uniform(b[0], b[1]) for p, b in zip(param_names(npar), boxes)}
            if rng.random() < 0.3:
                fromx['x1'] = rng.choice(boxes[1])
            if rng.random() < 0.1:
                fromx['x0'] = boxes[0][1] + rng.choice([1e-3, 1.0])
                out.append(case(spec, fromx, z=zs, u=[rng.random() for _ in range(8)], tail=None))
            else:
                out.append(case(spec, fromx, z=zs, u=[rng.random() for _ in range(8)]))
        elif g == 'sa':
            radec, degs = rng.random() < 0.5, rng.random() < 0.5
            spec = dict(family='isotropic_solid_angle', n=2, kappa=rng.choice([0.01, 0.5, 1.0, 3.0, 10.0, 50.0, 200.0]),
                        radec=radec, degs=degs)
            a, t = sa_convert(spec, rng.uniform(0, TWO_PI), rng.uniform(0.01, PI - 0.01))
            out.append(case(spec, {'az': a, 'po': t}, u=[rng.random(), rng.random()], tail=None))
        else:
            k = rng.choice(['uniform_birth', 'normal_birth', 'log_normal_birth'])
            if k == 'uniform_birth':
                boxes = [[-1.0, rng.uniform(0, 3)] for _ in range(npar)]
                out.append(case(dict(family=k, n=npar, bounds=boxes), {}, u=[rng.random() for _ in range(npar)], tail=None))
            else:
                spec = dict(family=k, n=npar, mean=[rng.uniform(0.5, 3)] * npar, std=[rng.uniform(0.1, 2)] * npar)
                out.append(case(spec, {}, z=zs[:npar], tail=None))
    return out


# --------------------------------------------------------------------------
# running
# --------------------------------------------------------------------------

_BUILD_CACHE = {}


def get_prop(spec):
    key = json.dumps({k: v for k, v in spec.items() if k != 'stall_is_failure'}, sort_keys=True, default=str)
    if key not in _BUILD_CACHE:
        if len(_BUILD_CACHE) > 4000:
            _BUILD_CACHE.clear()
        try:
            _BUILD_CACHE[key] = build(spec)
        except Exception as e:      # noqa: BLE001
            _BUILD_CACHE[key] = e
    return _BUILD_CACHE[key]


def run_case(c):
    """Execute one case on the real code.  Returns (prop, res) or (None, reason)."""
    prop = get_prop(c['spec'])
    if isinstance(prop, Exception):
        return None, 'build: %r' % (prop,)
    res = call_real(c['spec'], prop, c['fromx'], c['z'], c['u'], tail=c.get('tail'), budget=c.get('budget'))
    return prop, res


def describe(c):
    d = {k: v for k, v in c.items() if not k.startswith('_')}
    d['fromx'] = {k: (v if isinstance(v, int) else float(v)) for k, v in c['fromx'].items()}
    return d


def run_suite(cases, do_model=True, stats=None, model_every=1):
    """Run `cases` on the real code; judge every one of them; send every
    `model_every`-th through the Lean model as well.

    Returns (findings, divergences, stats).  findings: (key, text, payload)."""
    stats = stats if stats is not None else {}
    findings = {}
    reqs = []
    distinct = set()
    for ci, c in enumerate(cases):
        prop, res = run_case(c)
        fam = c['spec']['family']
        g = GROUP_OF[fam]
        st = stats.setdefault(g, {'calls': 0, 'ok': 0, 'refuse': 0, 'starved': 0, 'budget': 0, 'error': 0,
                                  'skipped': 0, 'rejections': 0, 'families': {}})
        if prop is None:
            st['skipped'] += 1
            stats.setdefault('_skipped_reasons', {}).setdefault(res[:120], 0)
            stats['_skipped_reasons'][res[:120]] += 1
            continue
        st['calls'] += 1
        st[res['kind']] += 1
        st['families'][fam] = st['families'].get(fam, 0) + 1
        used = res['script'].used()
        if res['kind'] == 'ok' and g not in ('sa', 'birth', 'nd'):
            st['rejections'] += max(0, res['script'].used('z') - len(prop.parameters))
        if used > 0 or res['kind'] == 'refuse':
            distinct.add(json.dumps(describe(c), sort_keys=True, default=str))
        flagged = judge(c['spec'], prop, c['fromx'], res)
        c['_flagged'] = [k for k, _ in flagged]
        for key, text in flagged:
            if key not in findings:
                findings[key] = (key, text, {'suite': 'search', 'case': describe(c),
                                             'observed': repr(res['out']) if res['kind'] == 'ok' else res['kind'],
                                             'scales': scale_of(prop) if g != 'birth' else None,
                                             'how_to_replay': './check C12 --replay <this file>'})
            stats.setdefault('_finding_counts', {}).setdefault(key, 0)
            stats['_finding_counts'][key] += 1
        if do_model and ci % model_every == 0:
            pr = protocol(c['spec'], prop, c['fromx'], res)
            if pr is not None:
                reqs.append((c, pr))
    divs = []
    if do_model and reqs:
        lines = [pr[0] for _, pr in reqs if pr[0] != 'sa-sequence']
        answers = iter(run_domain_driver(lines)) if lines else iter(())
        ncmp = 0
        for c, (req, real, mode) in reqs:
            if req == 'sa-sequence':
                ok, why = agree(mode, 'desync', real, c['spec'])
                ans = '<none>'
            else:
                ans = next(answers, '<model output ended>')
                ok, why = agree(mode, ans, real, c['spec'])
            ncmp += 1
            mk = _parse_answer(ans)['kind']
            stats.setdefault('_model_answers', {}).setdefault(mk, 0)
            stats['_model_answers'][mk] += 1
            if not ok:
                divs.append({'case': describe(c), 'flagged': c.get('_flagged', []), 'request': req[:2000], 'model': ans[:500],
                             'real': {k: (repr(v)) for k, v in real.items()}, 'why': why})
        stats['_compared'] = stats.get('_compared', 0) + ncmp
    stats['_distinct'] = stats.get('_distinct', 0) + len(distinct)
    return list(findings.values()), divs, stats


def all_cases(seed, tier, full):
    rng = random.Random(seed * 1000003 + 12)
    cases = []
    for name, gen in GENERATORS.items():
        cases.extend(gen(rng, tier, full))
    cases.extend(random_cases(rng, 400 if not full else 30000))
    return cases


def random_runs(seed, tier, stats=None):
    """`proposed_position` along runs of real chains with the real generator (seeded): every
    family, 1..3 parameters, an accept/reject history that keeps adaptive scales moving.
    Each proposed point is judged by the same oracle.  Returns findings [(key, text, payload)]."""
    stats = stats if stats is not None else {}
    rng = random.Random(seed * 7919 + 3)
    nsteps = 150 if tier == 'quick' else 1000
    findings = {}
    nprop = 0
    for fam, g in GROUP_OF.items():
        if g == 'birth':
            continue
        _, kind, nmin, nmax = F.FAMILIES[fam]
        for n in range(nmin, nmax + 1):
            for pattern in (('AR',) if tier == 'quick' else ('AR', 'AAR', 'ARR')):
                spec = dict(family=fam, n=n)
                if g in ('bn', 'be'):
                    spec['bounds'] = [list(ADAPT_BOXES[(n + j) % 3]) for j in range(n)]
                if g == 'bd':
                    spec['bounds'] = [list(INT_BOXES[(n + j) % 3]) for j in range(n)]
                if g in ('bd', 'nd'):
                    spec['successive'] = [rng.random() < 0.5 for _ in range(n)]
                if g == 'sa':
                    spec.update(kappa=rng.choice([1.0, 10.0, 100.0]), radec=rng.random() < 0.5, degs=rng.random() < 0.5)
                adaptive = fam in F.ADAPTIVE
                if adaptive:
                    spec['adapt'] = dict(pattern=pattern, steps=0, window=nsteps + 10, seed=rng.randrange(1, 10 ** 6))
                elif g in ('bn', 'ang'):
                    spec['std'] = [0.3 * ((b[1] - b[0]) if g == 'bn' else 1.0) for b in (spec.get('bounds') or [[0, 1]] * n)]
                elif g in ('bd', 'nd'):
                    spec['std'] = [rng.choice([0.7, 1.5, 3.0]) for _ in range(n)]
                elif g == 'be':
                    spec['cov'] = _cov(n, 0.1, [tuple(b) for b in spec['bounds']], rng)
                try:
                    prop = build(spec)
                    names = list(prop.parameters)
                    ch = Chain(names, forcing.ForcedModel(pattern), [prop], bit_generator=rng.randrange(1, 10 ** 6))
                    ch.start_position = mid_start(spec, prop)
                except Exception as e:      # noqa: BLE001
                    why = 'random run %s not built: %s' % (fam, repr(e)[:80])
                    stats.setdefault('_skipped_reasons', {})[why] = stats.get('_skipped_reasons', {}).get(why, 0) + 1
                    continue
                dummy = Script()
                # base draws from a real seeded generator, through the stand-in so that a rejection
                # loop that stops landing (adapted scale far beyond the box: property C14) ends the
                # run instead of hanging it
                feed = Script(tail=real_tail(rng.randrange(1, 10 ** 6)), budget=150 * nsteps)
                for it in range(nsteps):
                    cur = {p: ch.current_position[p] for p in names}
                    cur = {p: (int(v) if g in ('bd', 'nd') else float(v)) for p, v in cur.items()}
                    try:
                        with scripted(feed):
                            if g == 'sa':
                                with sa_numpy_log() as npl:
                                    ch.step()
                                npl = npl[:len(SA_CALLS)]
                            else:
                                npl = []
                                ch.step()
                    except Exception as e:      # noqa: BLE001  (e.g. 'NaN acceptance!', a stalled loop: other properties)
                        why = 'random run %s stopped at step %d: %s' % (fam, it, repr(e)[:80])
                        stats.setdefault('_skipped_reasons', {})[why] = stats.get('_skipped_reasons', {}).get(why, 0) + 1
                        break
                    nprop += 1
                    res = {'kind': 'ok', 'out': dict(ch.proposed_position), 'script': dummy, 'np': npl, 'exc': None}
                    fl = judge(spec, prop, cur, res)
                    for key, text in fl:
                        stats.setdefault('_finding_counts', {}).setdefault(key, 0)
                        stats['_finding_counts'][key] += 1
                        if key not in findings:
                            findings[key] = (key, 'along a random run (step %d, history %s): %s' % (it, pattern, text), {
                                'suite': 'random-run', 'spec': spec, 'step': it, 'from': cur,
                                'observed': repr(res['out']),
                                'how_to_replay': 'domain.random_runs(seed=%d, tier=%r) reproduces it' % (seed, tier)})
                    if fl:
                        break
    stats['_random_run_proposals'] = nprop
    return list(findings.values())


def replay_case(c):
    """Re-run one stored case on the real code (and the model); prints; returns 0/1."""
    prop, res = run_case(c)
    if prop is None:
        print('cannot build the proposal:', res)
        return 1
    print('case   :', json.dumps(describe(c), default=str))
    print('scales :', scale_of(prop) if GROUP_OF[c['spec']['family']] != 'birth' else '-')
    print('real   :', res['kind'], res['out'] if res['kind'] == 'ok' else res['exc'],
          'base draws consumed:', res['script'].used())
    f = judge(c['spec'], prop, c['fromx'], res)
    for key, text in f:
        print('FAILS  : [%s] %s' % (key, text))
    bad = bool(f)
    try:
        pr = protocol(c['spec'], prop, c['fromx'], res)
        if pr is not None and pr[0] != 'sa-sequence':
            ans = run_domain_driver([pr[0]])[0]
            ok, why = agree(pr[2], ans, pr[1], c['spec'])
            print('model  :', ans[:300], '(agrees)' if ok else '(DIVERGES: %s)' % why)
            bad = bad or not ok
    except Exception as e:       # noqa: BLE001
        print('model  : not run (%r)' % (e,))
    if not bad:
        print('the property holds on this input now')
    return 1 if bad else 0
