"""C12 — proposed points lie in the declared domain: correspondence suite of the
Lean model `EpsieModel/Domain.lean` and failing-input search on the real code.

Both parts drive the *real* `jump()` / `birth` of /repo's proposal classes with
scripted base draws (`scripted_rng`), from outside:

* correspondence: the values the real generator stand-in returned (and, for the
  bounded eigenvector family, the points the real `__contains__` was asked
  about; for the solid-angle family, every numpy call the real `_jump` made)
  are fed to the Lean driver `DriverDomain.lean`; the model's answer
  (proposed point / refusal / starvation / NaN site, number of draws consumed)
  is compared with what the real call did.  Integers, decisions and draw counts
  are compared exactly; values that the model computes in exact arithmetic and
  the code in floats with relative tolerance 1e-9 (angles modulo the period).
* search: an oracle taken from the property statement only (membership in the
  declared domain, integrality, "not the current integer", no NaN, refusal from
  outside, own density positive for births) is applied to the real output over
  grids of positions (both boundaries, cell edges, the poles), scales
  (1e-12..1e+12 x width), base draws (grid + extreme quantiles), 1..3
  parameters, all radec/degs conventions and adaptive variants at adapted scales
  (`all_cases`), and to `proposed_position` along runs of real chains fed with
  real random base draws (`random_runs`).
* long rejection streaks (`gen_streaks`): every family with a rejection loop (bounded normal,
  bounded discrete, the zero-draw loop of the unbounded discrete family, angular, bounded
  eigenvector, and all their adaptive variants) is fed, for each parameter position, a stream
  that holds a streak of 99..65536 (thorough: up to 250001) draws whose image is outside the
  domain, then one draw that lands.  The loops of the real code are unbounded ("first conforming
  draw wins"), so the outcome must be the image of the landing draw after exactly streak+1
  draws: judged directly (`judge_streak`, a walk over the generator log) and by the Lean model
  (whose loops are unbounded too).  A loop that is capped and gives up is caught here.
* configuration by NAME (`gen_named`, field `cfg` of a spec): dict-like configuration
  (`boundaries`, `successive`, `prior_widths`, means/stds of the births) is handed to the real
  constructors/setters in another key order than `parameters`, with extra keys, and again after
  construction.  Expected: exactly the result of the same configuration laid out in parameter
  order (same scripted draws -> same output and draw count: a metamorphic check on the real
  code, `run_suite`), and the ordinary oracle and model comparison apply (bounds by name).
* type / integrality of the current point (`gen_start_types`, field `xtype` of a case): every
  discrete family (bounded and unbounded, successive on/off, adaptive variants) is asked to jump
  from integers, integer-valued floats, non-integer floats (k+-0.5, k+-1e-9, negative ones: `int()`
  truncates toward zero), and the same values as numpy.int64/int32/float64/float32/float16
  scalars, 0-d arrays and bools; the proposals must be integers (in bounds for the bounded
  families, not the current integer without successive jumps) and agree with the Lean model
  (`truncZ x + step`).  Tried on the unchanged code: all of these are accepted; 1-d arrays
  (`int()` raises TypeError) and strings are refused by the code and are no cases.

Keys of the failing inputs (one per defect, stable across runs):
  bounded-eigenvector-corner-stall       start at a corner/edge: no proposal within the draw budget
                                         (recorded finding on the current tree)
 repaired in /repo (a51ea07, 65c339c, 4276c1d, ab7172e); the keys stay as regression detectors:
  discrete-zero-draw-proposes-current    a normal draw of exactly 0.0 -> current integer (non-successive)
  solid-angle-pole-start                 start at theta = 0 (dec = -pi/2): NaN azimuth out of _rotmat
  vmf-inverse-cdf-log-nonpositive        the inverse cdf takes the logarithm of a value <= 0 -> NaN
  vmf-inverse-cdf-arccos-out-of-range    the cosine of the polar angle outside [-1, 1] -> NaN
  log_normal_birth-zero-density          sigma/mu < 1.5e-8: std_log rounds to 0, own logpdf NaN
  <group>-out-of-bounds / -nan / -non-integer / -proposes-current / -no-refusal-outside /
  -refuses-inside / -raises, ang-out-of-range, solid-angle-out-of-range, <birth>-zero-density
  <group>-rejection-loop                 a rejection loop did not return the first conforming draw of
                                         its stream (gave up, raised, or consumed another number of draws)
  <group>-config-not-by-name             a name-keyed configuration dict in another key order / with extra
                                         keys / set again changes the outcome of the same scripted call
"""
import concurrent.futures
import contextlib
import gc
import multiprocessing
import os
import itertools
import json
import math
import random
import subprocess

import numpy

import common
from common import frac, csv
import families as F
import forcing
from scripted_rng import (Script, scripted, real_tail, ScriptExhausted, DrawBudgetExceeded, ScriptedGenerator, Request)

from epsie import proposals as P
from epsie.proposals import base as _pbase
from epsie.chain import Chain
from epsie.proposals import solid_angle as _sa_mod
from epsie.proposals import birth as B
from epsie.proposals.bounded_normal import BoundedNormal
from epsie.proposals.bounded_eigenvector import BoundedEigenvector

PI = float(numpy.pi)
TWO_PI = 2 * PI
D2R = float(numpy.pi / 180.)
R2D = float(180. / numpy.pi)
ATOL, RTOL = 1e-8, 1e-5            # numpy.isclose defaults used by BoundedEigenvector.__contains__

Z_EXTREME = [8.3, -8.3, 5e-324, -5e-324, 0.0, -0.0]
Z_GRID = [-3.0, -2.0, -1.0, -0.5, -0.1, -0.01, 0.01, 0.1, 0.5, 1.0, 2.0, 3.0]
U_EXTREME = [0.0, 2.0 ** -53, 1 - 2.0 ** -53]
U_GRID = [2.0 ** -52, 1e-12, 1e-6, 1e-3, 0.1, 0.25, 0.5, 0.75, 0.9, 0.999, 1 - 1e-6, 1 - 1e-12, 1 - 2.0 ** -52]

GROUPS = {
    'bn': ['bounded_normal', 'adaptive_bounded_normal', 'ss_adaptive_bounded_normal',
           'at_adaptive_bounded_normal'],
    'bd': ['bounded_discrete', 'ss_adaptive_bounded_discrete', 'adaptive_bounded_discrete'],
    'nd': ['discrete', 'ss_adaptive_discrete', 'adaptive_discrete'],
    'ang': ['angular', 'adaptive_angular', 'ss_adaptive_angular', 'at_adaptive_angular'],
    'be': ['bounded_eigenvector', 'adaptive_bounded_eigenvector'],
    'sa': ['isotropic_solid_angle', 'adaptive_isotropic_solid_angle'],
    'birth': ['uniform_birth', 'normal_birth', 'log_normal_birth'],
}
GROUP_OF = {f: g for g, fs in GROUPS.items() for f in fs}

# the numpy calls of one IsotropicSolidAngle._jump, in call order; the 15th (gamma = arccos(mu[0]/rxy))
# is made only when rxy > 0, i.e. not from a start at a pole
SA_CALLS = ['sin', 'cos', 'sin', 'cos', 'expm1', 'log1p', 'clip', 'arccos', 'sin', 'cos', 'sin', 'cos',
            'arccos', 'sqrt', 'arccos', 'sin', 'sin', 'cos', 'cos', 'arctan2', 'arccos']
SA_SITES = ['sinT0', 'cosP0', 'sinP0', 'cosT0', 'expm1', 'log1p', 'clipW', 'acosW', 'sinT1', 'cosP1', 'sinP1',
            'cosT1', 'acosMz', 'sqrtR', 'acosG', 'sinB', 'sinG', 'cosB', 'cosG', 'atan2', 'acosZ']
SA_GAMMA = 14
SA_CALLS_POLE = SA_CALLS[:SA_GAMMA] + SA_CALLS[SA_GAMMA + 1:]
SA_SITES_POLE = SA_SITES[:SA_GAMMA] + SA_SITES[SA_GAMMA + 1:]


def sa_site_names(nplog):
    """Names of the recorded calls, if the sequence is one of the two the code can make."""
    names = [c[0] for c in nplog]
    if names == SA_CALLS[:len(names)]:
        return SA_SITES[:len(names)]
    if names == SA_CALLS_POLE[:len(names)]:
        return SA_SITES_POLE[:len(names)]
    return None


# --------------------------------------------------------------------------
# instrumentation from outside
# --------------------------------------------------------------------------

class ContainsLog:
    """Logs every point the real `__contains__` of the bounded classes is asked about."""

    def __init__(self):
        self.log = []
        self._saved = []

    def __enter__(self):
        for cls in (BoundedNormal, BoundedEigenvector):
            orig = cls.__dict__['__contains__']
            self._saved.append((cls, orig))

            def wrapper(self_, testpt, _orig=orig, _log=self.log):
                r = _orig(self_, testpt)
                _log.append((dict(testpt), bool(r)))
                return r
            cls.__contains__ = wrapper
        return self

    def __exit__(self, *exc):
        for cls, orig in self._saved:
            cls.__contains__ = orig
        self._saved = []
        return False


class _NumpyProxy:
    LOGGED = ('sin', 'cos', 'arccos', 'arctan2', 'log', 'exp', 'sqrt', 'expm1', 'log1p', 'clip')

    def __init__(self, log):
        self._log = log

    def __getattr__(self, name):
        real = getattr(numpy, name)
        if name in self.LOGGED:
            log = self._log

            def f(*a):
                v = real(*a)
                try:
                    log.append((name, tuple(float(x) for x in a), float(v)))
                except (TypeError, ValueError):
                    log.append((name, None, None))
                return v
            return f
        return real


@contextlib.contextmanager
def sa_numpy_log():
    """Every sin/cos/arccos/arctan2/log/exp/sqrt/expm1/log1p/clip call of epsie.proposals.solid_angle."""
    log = []
    saved = _sa_mod.numpy
    _sa_mod.numpy = _NumpyProxy(log)
    try:
        yield log
    finally:
        _sa_mod.numpy = saved


# --------------------------------------------------------------------------
# building real proposals from JSON-able specs
# --------------------------------------------------------------------------

def param_names(n):
    return ['x%d' % i for i in range(n)]


def build(spec):
    """spec: dict(family, n, bounds=[[lo,hi]..], std=[..] | cov=[[..]], successive=[..],
    kappa, radec, degs, adapt=None|dict(pattern, steps, window, seed)).  Returns the real object."""
    fam = spec['family']
    g = GROUP_OF[fam]
    if spec.get('cfg') is not None:
        return build_named(spec)
    if g == 'birth':
        names = param_names(spec['n'])
        if fam == 'uniform_birth':
            return B.UniformBirth(names, {p: tuple(b) for p, b in zip(names, spec['bounds'])})
        cls = B.NormalBirth if fam == 'normal_birth' else B.LogNormalBirth
        return cls(names, dict(zip(names, spec['mean'])), dict(zip(names, spec['std'])))
    if g == 'sa':
        if fam == 'isotropic_solid_angle':
            prop = P.IsotropicSolidAngle('az', 'po', kappa=spec['kappa'], radec=spec['radec'], degs=spec['degs'])
        else:
            prop = P.AdaptiveIsotropicSolidAngle('az', 'po', spec['adapt']['window'],
                                                 radec=spec['radec'], degs=spec['degs'])
        if spec.get('adapt'):
            run_adaptation(prop, spec)
        return prop
    names = param_names(spec['n'])
    bnds = {p: tuple(b) for p, b in zip(names, spec['bounds'])} if spec.get('bounds') else None
    succ = None
    if spec.get('successive') is not None:
        succ = {p: bool(s) for p, s in zip(names, spec['successive'])}
    adapt = spec.get('adapt')
    if adapt is None:
        if fam == 'bounded_normal':
            prop = P.BoundedNormal(names, bnds, cov=[s * s for s in spec['std']])
            prop._std = numpy.array(spec['std'], dtype=float)      # exactly the scale asked for
        elif fam == 'bounded_discrete':
            prop = P.BoundedDiscrete(names, bnds, cov=[s * s for s in spec['std']], successive=succ)
            prop._std = numpy.array(spec['std'], dtype=float)
        elif fam == 'discrete':
            prop = P.NormalDiscrete(names, cov=[s * s for s in spec['std']], successive=succ)
            prop._std = numpy.array(spec['std'], dtype=float)
        elif fam == 'angular':
            prop = P.Angular(names, cov=[s * s for s in spec['std']])
            prop._std = numpy.array(spec['std'], dtype=float)
        elif fam == 'bounded_eigenvector':
            prop = P.BoundedEigenvector(names, bnds, cov=numpy.array(spec['cov'], dtype=float))
        else:
            raise ValueError('family %s needs an adaptation spec' % fam)
        return prop
    rng = random.Random(adapt['seed'])
    doms = {p: tuple(b) for p, b in zip(names, spec['bounds'])} if spec.get('bounds') else {p: None for p in names}
    prop = F.make(fam, names, doms, rng, window=adapt['window'], successive=succ if succ is not None else 'off')
    run_adaptation(prop, spec)
    return prop


# ---- configuration dicts keyed by parameter name, laid out in ways that must not matter
#
# spec['cfg'] = dict(order='given'|'reversed'|'shuffled', extra=bool, reset=bool, seed=int):
#   order   key order of every dict handed to the real code, relative to `parameters`
#   extra   the dicts also hold two keys that are no parameters of the proposal (one of them first),
#           with values far from every real one (as when one dict is shared by several proposals).
#           Tried on the unchanged code: every constructor and setter used here accepts them
#           (they index the dict by parameter name).  The only exclusion: an extra entry of
#           `successive` must be a bool (any other value is rejected by the setter: "all dictionary
#           values must be bools"), so the extra entries of `successive` are bools.
#   reset   the object is first constructed with a decoy configuration (other bounds, inverted
#           `successive`, other means/stds; in parameter order, no extra keys) and the wanted one is
#           then set through the public setters (`.boundaries = `, `.successive = `, `setup_mu_std`).
#           BoundedDiscrete floors/ceils its bounds in the constructor only, so for that family
#           `reset` is used with integer bounds only.
# A spec with cfg = CFG_BASE is the reference of the metamorphic comparison in `run_suite`.

EXTRA_KEYS = ('a_not_mine', 'zz_not_mine')         # sort before / after x0, x1, x2
CFG_BASE = {'order': 'given', 'extra': False, 'reset': False}
CFG_LAYOUTS = [
    {'order': 'reversed', 'extra': False, 'reset': False},
    {'order': 'shuffled', 'extra': False, 'reset': False},
    {'order': 'given', 'extra': True, 'reset': False},
    {'order': 'reversed', 'extra': True, 'reset': False},
    {'order': 'shuffled', 'extra': True, 'reset': True},
    {'order': 'reversed', 'extra': False, 'reset': True},
    {'order': 'given', 'extra': False, 'reset': True},
]


def cfg_is_variant(cfg):
    return cfg is not None and (cfg.get('order', 'given') != 'given' or bool(cfg.get('extra')))


def cfg_base_of(cfg):
    """The reference layout of a variant: parameter order, no extra keys, same construction path."""
    d = dict(CFG_BASE)
    d['reset'] = bool(cfg.get('reset'))
    if 'seed' in cfg:
        d['seed'] = cfg['seed']
    return d


def cfg_label(cfg):
    return '%s%s%s' % (cfg.get('order', 'given'), '+extra' if cfg.get('extra') else '', '+reset' if cfg.get('reset') else '')


def laid_out(names, values, cfg, extras, salt=0):
    """dict name -> value with the key order (and the extra keys) `cfg` asks for."""
    items = list(zip(names, values))
    order = cfg.get('order', 'given')
    if order == 'reversed':
        items.reverse()
    elif order == 'shuffled' and len(items) > 1:
        r = random.Random(int(cfg.get('seed', 0)) * 31 + salt)
        first = list(items)
        while items == first:
            r.shuffle(items)
    elif order not in ('given', 'reversed', 'shuffled'):
        raise ValueError('unknown dict order %r' % (order,))
    if cfg.get('extra'):
        items = [(EXTRA_KEYS[0], extras[0])] + items[:1] + [(EXTRA_KEYS[1], extras[1])] + items[1:]
    return dict(items)


def build_named(spec):
    """`build` for a spec with a `cfg` field: every dict-like argument is laid out as cfg asks."""
    fam = spec['family']
    g = GROUP_OF[fam]
    cfg = spec['cfg']
    names = param_names(spec['n'])
    n = len(names)
    ordered = lambda vals: dict(zip(names, vals))             # noqa: E731  (the decoys: parameter order)
    if g == 'birth':
        if fam == 'uniform_birth':
            want = laid_out(names, [tuple(b) for b in spec['bounds']], cfg, [(1e3, 2e3), (-2e3, -1e3)])
            if not cfg.get('reset'):
                return B.UniformBirth(names, want)
            prop = B.UniformBirth(names, ordered([(b[0] - 10. - i, b[1] + 20. + i) for i, b in enumerate(spec['bounds'])]))
            prop.boundaries = want
            return prop
        cls = B.NormalBirth if fam == 'normal_birth' else B.LogNormalBirth
        mean = laid_out(names, spec['mean'], cfg, [1e3, 2e3], salt=1)
        std = laid_out(names, spec['std'], cfg, [7e-3, 3e3], salt=2)
        if not cfg.get('reset'):
            return cls(names, mean, std)
        prop = cls(names, ordered([abs(m) + 1. + i for i, m in enumerate(spec['mean'])]),
                   ordered([2. * s + i for i, s in enumerate(spec['std'])]))
        prop.setup_mu_std(mean, std)
        return prop
    if g not in ('bn', 'bd', 'nd', 'be'):
        raise ValueError('family %s has no name-keyed configuration' % fam)
    bounded = g in ('bn', 'bd', 'be')
    integer = g in ('bd', 'nd')
    want_b = want_s = decoy_b = decoy_s = None
    if bounded:
        ex = [(1000, 2000), (-2000, -1000)] if g == 'bd' else [(1e3, 2e3), (-2e3, -1e3)]
        want_b = laid_out(names, [tuple(b) for b in spec['bounds']], cfg, ex)
        if g == 'bd':
            decoy_b = ordered([(int(math.floor(b[0])) - 10 - i, int(math.ceil(b[1])) + 20 + i)
                               for i, b in enumerate(spec['bounds'])])
        else:
            decoy_b = ordered([(b[0] - 10. - i, b[1] + 20. + i) for i, b in enumerate(spec['bounds'])])
    if integer and spec.get('successive') is not None:
        sv = [bool(v) for v in spec['successive']]
        want_s = laid_out(names, sv, cfg, [not sv[0], sv[0]], salt=3)
        decoy_s = ordered([not v for v in sv])
    reset = bool(cfg.get('reset'))
    b0 = decoy_b if reset else want_b
    s0 = decoy_s if reset else want_s
    adapt = spec.get('adapt')
    if adapt is None:
        if fam == 'bounded_normal':
            prop = P.BoundedNormal(names, b0, cov=[s * s for s in spec['std']])
        elif fam == 'bounded_discrete':
            prop = P.BoundedDiscrete(names, b0, cov=[s * s for s in spec['std']], successive=s0)
        elif fam == 'discrete':
            prop = P.NormalDiscrete(names, cov=[s * s for s in spec['std']], successive=s0)
        elif fam == 'bounded_eigenvector':
            prop = P.BoundedEigenvector(names, b0, cov=numpy.array(spec['cov'], dtype=float))
        else:
            raise ValueError('family %s needs an adaptation spec' % fam)
        if fam != 'bounded_eigenvector':
            prop._std = numpy.array(spec['std'], dtype=float)      # exactly the scale asked for
    else:
        rng = random.Random(adapt['seed'])
        cls, kind = F.FAMILIES[fam][0], F.FAMILIES[fam][1]
        T = adapt['window']
        cov = [round(rng.uniform(0.6, 4.0), 2) if integer else round(rng.uniform(0.05, 0.6), 3) for _ in names]
        if fam in ('adaptive_bounded_normal', 'at_adaptive_bounded_normal'):
            prop = cls(names, b0, T)
        elif fam == 'ss_adaptive_bounded_normal':
            prop = cls(names, b0, cov=cov)
        elif fam == 'ss_adaptive_bounded_discrete':
            prop = cls(names, b0, cov=cov, successive=s0)
        elif fam == 'adaptive_bounded_discrete':
            prop = cls(names, b0, T, successive=s0)
        elif fam == 'ss_adaptive_discrete':
            prop = cls(names, cov=cov, successive=s0)
        elif fam == 'adaptive_discrete':
            widths = laid_out(names, [round(rng.uniform(4, 9), 3) + i for i in range(n)], cfg, [1e3, 1e-3], salt=4)
            prop = cls(names, widths, T, successive=s0)
        elif fam == 'adaptive_bounded_eigenvector':
            prop = cls(names, b0, T, cov0=F._spd(n, rng))
        else:
            raise ValueError('no name-keyed construction for family %s' % fam)
    if reset:
        if bounded:
            prop.boundaries = want_b
        if want_s is not None:
            prop.successive = want_s
    if adapt is not None:
        run_adaptation(prop, spec)
    return prop


def mid_start(spec, prop):
    """A start point well inside the domain, for the adaptation run."""
    g = GROUP_OF[spec['family']]
    if g == 'sa':
        phi, th = 1.0, 1.0
        if spec['radec']:
            th = th - PI / 2
        if spec['degs']:
            phi, th = phi * R2D, th * R2D
        return {'az': phi, 'po': th}
    names = param_names(spec['n'])
    out = {}
    for i, p in enumerate(names):
        if g in ('bn', 'be'):
            lo, hi = spec['bounds'][i]
            out[p] = 0.5 * (lo + hi)
        elif g == 'bd':
            lo, hi = prop.boundaries[p]
            out[p] = int((lo + hi) // 2)
        elif g == 'nd':
            out[p] = 0
        else:
            out[p] = 1.0 + i
    return out


def run_adaptation(prop, spec):
    """Bring an adaptive proposal to an adapted scale with a forced acceptance history
    on a real Chain (real generator, seeded)."""
    a = spec['adapt']
    model = forcing.ForcedModel(a['pattern'])
    names = list(prop.parameters)
    ch = Chain(names, model, [prop], bit_generator=int(a['seed']))
    ch.start_position = mid_start(spec, prop)
    for _ in range(int(a['steps'])):
        ch.step()


def scale_of(prop):
    if hasattr(prop, 'kappa') and isinstance(prop, P.IsotropicSolidAngle):
        return [float(prop.kappa)]
    if isinstance(prop, BoundedEigenvector):
        return [float(v) for v in prop.eigvals]
    return [float(v) for v in prop._std]


# --------------------------------------------------------------------------
# one real call
# --------------------------------------------------------------------------

def landing_tail(group, prop, fromx, script_ref):
    """Base draws that make any rejection loop terminate, whatever the scale: computed
    from the request being served (`script.pending`)."""
    state = {'n': 0}

    def tail(kind):
        sc = script_ref[0]
        state['n'] += 1
        n = state['n']
        if kind == 'u':
            return 0.5
        meth, args = sc.pending if sc.pending else ('normal', {'loc': 0.0, 'scale': 1.0})
        scale = float(numpy.asarray(args.get('scale', 1.0)).ravel()[0]) or 1.0
        loc = float(numpy.asarray(args.get('loc', 0.0)).ravel()[0])
        if group == 'bn':
            for p in prop.parameters:
                if float(fromx[p]) == loc:
                    lo, hi = prop.boundaries[p]
                    return (0.5 * (lo + hi) - loc) / scale
            return 0.0
        if group == 'bd':      # steps +1, -1, then 0 for a one-integer domain with successive jumps
            return (0.75, -0.75, 0.25, -0.25)[n % 4] / scale
        if group == 'nd':
            return 0.75 / scale
        if group == 'ang':
            return 0.25 / scale
        if group == 'be':
            return (1e-3 if n % 2 else -1e-3) * (0.0 if n > 6 else 1.0) / scale
        return 0.0
    return tail


# ---- long rejection streaks

class _StreakGenerator(ScriptedGenerator):
    """The scripted stand-in with a short path for the one request the rejection loops make
    (`normal(loc, scale)` with scalar arguments): same base draw, same formula `loc + scale*z`,
    same log entry as `ScriptedGenerator.normal`, without the array handling."""

    def normal(self, loc=0.0, scale=1.0, size=None):
        if size is not None or not isinstance(loc, (int, float)) or not isinstance(scale, (int, float)):
            return ScriptedGenerator.normal(self, loc, scale, size)
        if scale < 0:
            raise ValueError('scale < 0')
        s = self._s
        args = {'loc': loc, 'scale': scale, 'size': None}
        s.pending = ('normal', args)
        z = s.pop('z')
        out = float(loc) + float(scale) * z
        s.log.append(Request('normal', args, [('z', z)], out, self._gid))
        return out


@contextlib.contextmanager
def scripted_streak(script):
    """`scripted_rng.scripted` for one script, handing out one `_StreakGenerator`; the cyclic
    garbage collector is paused while the log grows by tens of thousands of entries."""
    saved = _pbase.BaseRandom.__dict__['random_generator']
    gens = {}

    def random_generator(self_):
        gid = id(self_.bit_generator)
        g = gens.get(gid)
        if g is None:
            g = gens[gid] = _StreakGenerator(script, gid)
        return g

    was = gc.isenabled()
    gc.disable()
    _pbase.BaseRandom.random_generator = property(random_generator)
    try:
        yield script
    finally:
        _pbase.BaseRandom.random_generator = saved
        if was:
            gc.enable()


def py_floorceil(d):
    """`_floorceil` of the documentation: ceiling of positive values, floor of negative ones."""
    return math.ceil(d) if d > 0 else (math.floor(d) if d < 0 else 0)


def py_step(successive, d):
    """The integer step the discrete proposals document for the real-valued draw d."""
    return int(round(d, 0)) if successive else int(py_floorceil(d))


def n_loops(group, prop):
    return 1 if group == 'be' else len(prop.parameters)


def _verified(cands, ok):
    out = []
    for c in cands:
        try:
            if math.isfinite(c) and ok(c):
                out.append(c)
        except (OverflowError, ValueError):
            pass
    return out


def streak_tail(group, spec, prop, fromx, lens, script_ref):
    """Responsive base draws for the rejection loops: the loop of parameter number i (in
    `parameters` order; the bounded eigenvector jump has one loop) is served `lens[i]` standard
    normals whose image under the request being served (`script.pending`: loc, scale) is outside
    the declared domain -- far above, far below, next to either bound, a zero step -- and then one
    that lands well inside.  Each value is checked here against the declared domain with numpy's
    own formula `loc + scale*z`; what the code makes of them is judged in `judge_streak`."""
    names = list(prop.parameters)
    nl = n_loops(group, prop)
    st = {'i': 0, 'k': 0, 'cyc': None, 'land': None}
    fallback = landing_tail(group, prop, fromx, script_ref)
    bounds = declared_bounds(spec, prop) if group in ('bn', 'bd', 'be') else None

    def prepare(i, loc, scale):
        """(rejected standard normals to cycle through, the landing one) for loop i."""
        img = lambda z: float(loc) + float(scale) * z          # noqa: E731
        if group == 'bn':
            lo, hi = bounds[names[i]]
            w = (hi - lo) or 1.0
            outside = lambda z: not (lo <= img(z) <= hi)        # noqa: E731
            zs = [(t - loc) / scale for t in (hi + w, lo - w, hi + 0.013 * w, lo - 3.5 * w, hi + 1e6 * w,
                                              lo - 0.5 * w, hi + 7.25 * w, lo - 1e3 * w)]
            for t, d in ((hi, math.inf), (lo, -math.inf)):      # the nearest images beyond either bound
                z0 = (t - loc) / scale
                near = [z0]
                for _ in range(3):
                    near.append(math.nextafter(near[-1], d if scale > 0 else -d))
                near.append(z0 + (abs(z0) + 1.0) * 1e-12 * (1 if d > 0 else -1))
                zs += _verified(near, outside)[:1]
            rej = _verified(zs, outside)
            land = _verified([(lo + 0.618 * (hi - lo) - loc) / scale, (0.5 * (lo + hi) - loc) / scale, 0.0], lambda z: lo <= img(z) <= hi)
        elif group == 'bd':
            p = names[i]
            lo, hi = bounds[p]
            x0 = int(fromx[p])
            sc = bool(prop.successive[p])
            good = lambda z: (lo <= x0 + py_step(sc, img(z)) <= hi) and (sc or py_step(sc, img(z)) != 0)   # noqa: E731
            ds = [hi - x0 + 1.25, -(x0 - lo) - 1.25, hi - x0 + 2.25, -(x0 - lo) - 6.25, hi - x0 + 1000.25,
                  -(x0 - lo) - 3.25]
            if not sc:
                ds += [0.0, -0.0]
            rej = _verified([d / scale for d in ds], lambda z: not good(z))
            land = _verified([d / scale for d in (0.75, -0.75, 0.25)], good)
        elif group == 'nd':
            sc = bool(prop.successive[names[i]])
            rej = [] if sc else [0.0, -0.0]
            land = [0.75 / scale]
        elif group == 'ang':
            h = 1.0
            rej = _verified([t / scale for t in (1.5, -1.5, 3.0, -7.0, math.nextafter(1.0, 2.0), -math.nextafter(1.0, 2.0),
                                                 1e6, -1.0 - 1e-9)], lambda z: abs(img(z)) > h)
            land = _verified([0.25 / scale, 0.0], lambda z: abs(img(z)) <= h)
        else:                      # 'be': any displacement longer than the diagonal leaves the box
            diag = math.sqrt(sum((bounds[p][1] - bounds[p][0]) ** 2 for p in names))
            room = min(min(float(fromx[p]) - bounds[p][0], bounds[p][1] - float(fromx[p])) for p in names)
            rej = [t * diag / scale for t in (2.0, -2.0, 3.5, -5.0, 1e3, -1e6, 2.0 + 1e-9, -17.0)]
            land = [0.5 * max(room, 0.0) / scale, 0.0]
        return rej, (land[0] if land else 0.0)

    def tail(kind):
        if kind == 'u':
            return 0.5
        i = st['i']
        if i >= nl:
            return fallback(kind)
        if st['cyc'] is None:
            sc = script_ref[0]
            meth, args = sc.pending if sc.pending else ('normal', {'loc': 0.0, 'scale': 1.0})
            scale = float(numpy.asarray(args.get('scale', 1.0)).ravel()[0])
            if not (math.isfinite(scale) and scale > 0):
                scale = 1.0
            loc = float(numpy.asarray(args.get('loc', 0.0)).ravel()[0])
            st['cyc'], st['land'] = prepare(i, loc, scale)
        k = st['k']
        if k < lens[i] and st['cyc']:
            st['k'] = k + 1
            return st['cyc'][k % len(st['cyc'])]
        z = st['land']
        st['i'], st['k'], st['cyc'] = i + 1, 0, None
        return z
    return tail


XTYPES = ('int', 'float', 'bool', 'np.int64', 'np.int32', 'np.float64', 'np.float32', 'np.float16', 'array0d')


def typed_value(v, t):
    """The start value v as an object of the type named t (the numeric value is unchanged)."""
    if t == 'int':
        return int(v)
    if t == 'float':
        return float(v)
    if t == 'bool':
        return bool(v)
    if t in ('np.int64', 'np.int32'):
        return getattr(numpy, t[3:])(int(v))
    if t in ('np.float64', 'np.float32', 'np.float16'):
        return getattr(numpy, t[3:])(v)
    if t == 'array0d':
        return numpy.array(v)
    raise ValueError('unknown start type %r' % (t,))


def call_real(spec, prop, fromx, z, u, tail=None, budget=None, xtype=None):
    """Run the real jump()/birth with the scripted generator.  Returns a dict:
    kind ok|refuse|starved|budget|error, out, script, contains log, numpy log."""
    g = GROUP_OF[spec['family']]
    ref = [None]
    tl = None
    log_contains = True
    streak = False
    if tail == 'land':
        tl = landing_tail(g, prop, fromx, ref)
    elif isinstance(tail, (list, tuple)) and tail and tail[0] == 'real':
        tl = real_tail(int(tail[1]))
    elif isinstance(tail, (list, tuple)) and tail and tail[0] == 'streak':
        tl = streak_tail(g, spec, prop, fromx, [int(v) for v in tail[1]], ref)
        streak = True
        log_contains = g == 'be'        # (only the eigenvector request of the model needs the tested points)
    sc = Script(z=z, u=u, tail=tl, budget=budget)
    ref[0] = sc
    res = {'script': sc, 'contains': [], 'np': [], 'out': None, 'exc': None, 'xtype': xtype}
    try:
        with contextlib.ExitStack() as st:
            cl = st.enter_context(ContainsLog()) if log_contains else ContainsLog()
            res['contains'] = cl.log
            st.enter_context(scripted_streak(sc) if streak else scripted(sc))
            if g == 'sa':
                res['np'] = st.enter_context(sa_numpy_log())
            if g == 'birth':
                out = prop.birth
            else:
                start = dict(fromx)
                if xtype:       # the same numbers, handed over as other types
                    start = {p: (typed_value(v, xtype[p]) if p in xtype else v) for p, v in start.items()}
                out = prop.jump(start)
        res['kind'] = 'ok'
        res['out'] = out
    except ScriptExhausted:
        res['kind'] = 'starved'
    except DrawBudgetExceeded:
        res['kind'] = 'budget'
    except ValueError as e:
        res['exc'] = repr(e)
        res['kind'] = 'refuse' if 'not in bounds' in str(e) else 'error'
    except Exception as e:         # noqa: BLE001  (any crash of the real code is data here)
        res['exc'] = repr(e)
        res['kind'] = 'error'
    return res


def param_order(spec, prop):
    return list(prop.parameters)


# --------------------------------------------------------------------------
# the property's oracle on one real call (independent of the Lean model)
# --------------------------------------------------------------------------

def _isnan(v):
    try:
        return math.isnan(float(v))
    except (TypeError, ValueError):
        return True


def _is_integer_value(v):
    if isinstance(v, (bool, numpy.bool_)):
        return False
    if isinstance(v, (int, numpy.integer)):
        return True
    if isinstance(v, numpy.ndarray) and v.ndim == 0 and numpy.issubdtype(v.dtype, numpy.integer):
        return True
    return False


def declared_bounds(spec, prop):
    """The domain the proposal was *declared* with: the constructor's boundaries; for the
    bounded discrete family the documented integer bounds floor(lower), ceil(upper)."""
    g = GROUP_OF[spec['family']]
    out = {}
    for p, b in zip(prop.parameters, spec['bounds']):
        lo, hi = b
        if g == 'bd':
            lo, hi = int(math.floor(lo)), int(math.ceil(hi))
        out[p] = (lo, hi)
    return out


def start_status(spec, prop, fromx):
    """'inside' | 'outside' | 'band' (bounded eigenvector tolerance band) of the declared domain."""
    g = GROUP_OF[spec['family']]
    if g not in ('bn', 'bd', 'be'):
        return 'inside'
    st = 'inside'
    bounds = declared_bounds(spec, prop)
    for p in prop.parameters:
        lo, hi = bounds[p]
        v = fromx[p]
        if lo <= v <= hi:
            continue
        if g == 'be':
            tl, th = ATOL + RTOL * abs(lo), ATOL + RTOL * abs(hi)
            if lo - 2 * tl <= v <= hi + 2 * th:
                st = 'band' if st != 'outside' else st
                continue
        st = 'outside'
    return st


def sa_ranges(spec):
    """Closed ranges of (azimuth, polar) in the proposal's convention."""
    if spec['degs']:
        az = (0.0, 360.0)
        po = (-90.0, 90.0) if spec['radec'] else (0.0, 180.0)
    else:
        az = (0.0, TWO_PI)
        po = (-PI / 2, PI / 2) if spec['radec'] else (0.0, PI)
    return az, po


def sa_nan_site(nplog):
    """Diagnostic only: the first numpy call of the real `_jump` that returned a non-finite value."""
    sites = sa_site_names(nplog[:len(SA_CALLS)])
    for i, (name, args, val) in enumerate(nplog):
        if val is None or not math.isfinite(val):
            site = sites[i] if sites is not None and i < len(sites) else name
            return site, args, val
    return None, None, None


def judge(spec, prop, fromx, res):
    """Findings [(key, text)] of one real call, from the property statement alone."""
    fam = spec['family']
    g = GROUP_OF[fam]
    out = []
    kind = res['kind']
    if g == 'birth':
        if kind != 'ok':
            if kind in ('starved', 'budget'):
                return out
            return [('%s-raises' % fam, '%s.birth raised %s' % (fam, res['exc']))]
        pt = res['out']
        try:
            lp = float(prop.logpdf(pt))
        except Exception as e:       # noqa: BLE001
            lp = float('nan')
            res['exc'] = repr(e)
        if not (lp > -math.inf) or math.isnan(lp):
            out.append(('%s-zero-density' % fam,
                        '%s proposed %r where its own logpdf is %r (density not positive)' % (fam, pt, lp)))
        return out
    st = start_status(spec, prop, fromx)
    if st == 'outside':
        if kind in ('refuse', 'error'):
            return out
        return [('%s-no-refusal-outside' % g,
                 '%s asked to jump from %r outside its bounds %r did not refuse (%s: %r)' % (
                     fam, fromx, declared_bounds(spec, prop), kind, res['out']))]
    if st == 'band':
        if kind != 'ok':
            return out
    if kind == 'refuse':
        return [('%s-refuses-inside' % g, '%s refused to jump from %r inside its bounds %r' % (
            fam, fromx, declared_bounds(spec, prop)))]
    if kind == 'error':
        return [('%s-raises' % g, '%s.jump(%r) raised %s' % (fam, fromx, res['exc']))]
    if kind == 'budget':
        if spec.get('stall_is_failure'):
            key = 'bounded-eigenvector-corner-stall' if g == 'be' else '%s-stall' % g
            return [(key, '%s.jump(%r) (bounds %r, scales %r) proposed nothing within %d base draws' % (
                fam, fromx, declared_bounds(spec, prop), scale_of(prop), res['script'].budget))]
        return out
    if kind == 'starved':
        return out
    pt = res['out']
    names = list(prop.parameters)
    for p in names:
        if p not in pt:
            out.append(('%s-missing-parameter' % g, '%s.jump returned no value for %s' % (fam, p)))
            return out
    if g in ('bn', 'be'):
        bounds = declared_bounds(spec, prop)
        for p in names:
            lo, hi = bounds[p]
            v = pt[p]
            if _isnan(v):
                out.append(('%s-nan' % g, '%s proposed NaN for %s from %r' % (fam, p, fromx)))
                continue
            tl = th = 0.0
            if g == 'be':      # "to within the rounding tolerance it applies at the faces"
                tl, th = ATOL + RTOL * abs(lo), ATOL + RTOL * abs(hi)
                tl, th = tl * (1 + 1e-9), th * (1 + 1e-9)
            if not (lo - tl <= v <= hi + th):
                out.append(('%s-out-of-bounds' % g, '%s proposed %s=%r outside [%r, %r] from %r (scales %r)' % (
                    fam, p, v, lo, hi, fromx, scale_of(prop))))
    elif g in ('bd', 'nd'):
        for i, p in enumerate(names):
            v = pt[p]
            if not _is_integer_value(v):
                out.append(('%s-non-integer' % g, '%s proposed %s=%r (%s), not an integer, from %s=%r%s' % (
                    fam, p, v, type(v).__name__, p, fromx[p],
                    ' (handed over as %s)' % res['xtype'][p] if res.get('xtype') and p in res['xtype'] else '')))
                continue
            if g == 'bd':
                lo, hi = declared_bounds(spec, prop)[p]
                if not (lo <= v <= hi):
                    out.append(('bd-out-of-bounds', '%s proposed %s=%r outside %r from %r' % (fam, p, v, (lo, hi), fromx)))
            if not prop.successive[p] and int(v) == int(fromx[p]):
                zero = any(float(numpy.asarray(r.out).ravel()[0]) == 0.0 for r in res['script'].log
                           if r.method == 'normal')
                key = 'discrete-zero-draw-proposes-current' if zero else '%s-proposes-current' % g
                draws = [float(numpy.asarray(r.out).ravel()[0]) for r in res['script'].log[:13]]
                more = len(res['script'].log) - len(draws)
                out.append((key, '%s (successive=False) proposed the current integer %s=%r (from %r; '
                            'underlying normal draws %r%s)' % (fam, p, v, fromx[p], draws,
                                                               ' and %d more' % more if more > 0 else '')))
    elif g == 'ang':
        for p in names:
            v = pt[p]
            if _isnan(v) or not (0.0 <= v <= TWO_PI):
                out.append(('ang-out-of-range', '%s proposed %s=%r outside [0, 2pi] from %r (std %r)' % (
                    fam, p, v, fromx, scale_of(prop))))
    elif g == 'sa':
        az, po = sa_ranges(spec)
        a, t = pt['az'], pt['po']
        bad = []
        if _isnan(a) or _isnan(t):
            site, args, val = sa_nan_site(res['np'])
            key = {'acosG': 'solid-angle-pole-start', 'sqrtR': 'solid-angle-pole-start',
                   'log1p': 'vmf-inverse-cdf-log-nonpositive',
                   'clipW': 'vmf-inverse-cdf-arccos-out-of-range',
                   'acosW': 'vmf-inverse-cdf-arccos-out-of-range',
                   'acosZ': 'solid-angle-output-arccos-out-of-range',
                   'acosMz': 'solid-angle-start-arccos-out-of-range'}.get(site, 'solid-angle-nan')
            return [(key, '%s (kappa=%r, radec=%r, degs=%r) from %r with uniforms %r proposed %r: '
                     'first non-finite numpy call %s%r -> %r' % (
                         fam, float(prop.kappa), spec['radec'], spec['degs'], fromx,
                         [b[1] for r in res['script'].log for b in r.base], pt, site, args, val))]
        if not (az[0] <= a <= az[1]):
            bad.append('azimuth %r outside %r' % (a, az))
        if not (po[0] <= t <= po[1]):
            bad.append('polar %r outside %r' % (t, po))
        if bad:
            out.append(('solid-angle-out-of-range', '%s (kappa=%r, radec=%r, degs=%r) from %r: %s' % (
                fam, float(prop.kappa), spec['radec'], spec['degs'], fromx, '; '.join(bad))))
    return out


def first_conforming(spec, prop, fromx, res):
    """What an unbounded rejection loop ("the first conforming draw wins") makes of the values the
    generator stand-in returned, in request order -- computed from the declared domain alone.

    Returns None when this walk cannot decide (a bounded eigenvector candidate inside the tolerance
    band of a face), otherwise dict(y=[...] | None, used=number of normal draws, streaks=[rejections
    per loop]); y is None when the logged stream holds no conforming draw for some loop."""
    g = GROUP_OF[spec['family']]
    names = list(prop.parameters)
    outs = _outs(res)
    pos = 0
    ys, streaks = [], []
    if g == 'be':
        bounds = declared_bounds(spec, prop)
        if prop._ind is None:
            return None
        e = [prop.eigvects[i, prop._ind] for i in range(len(names))]
        k = 0
        for dx in outs:
            cand = [fromx[p] + dx * e[i] for i, p in enumerate(names)]
            k += 1
            inside = True
            clear_out = False
            for p, v in zip(names, cand):
                lo, hi = bounds[p]
                tl, th = 2 * (ATOL + RTOL * abs(lo)), 2 * (ATOL + RTOL * abs(hi))
                if v < lo - tl or v > hi + th:
                    clear_out = True
                if not (lo + tl <= v <= hi - th) and not (v == lo or v == hi):
                    inside = False
            if clear_out:
                continue
            if not inside:
                return None
            return {'y': [float(v) for v in cand], 'used': k, 'streaks': [k - 1]}
        return {'y': None, 'used': k, 'streaks': [k]}
    for i, p in enumerate(names):
        found = None
        start = pos
        while pos < len(outs):
            d = outs[pos]
            pos += 1
            if g == 'bn':
                lo, hi = declared_bounds(spec, prop)[p]
                if lo <= d <= hi:
                    found = d
            elif g == 'bd':
                lo, hi = declared_bounds(spec, prop)[p]
                sc = bool(spec['successive'][i]) if spec.get('successive') is not None else False
                stp = py_step(sc, d)
                if lo <= int(fromx[p]) + stp <= hi and (sc or stp != 0):
                    found = int(fromx[p]) + stp
            elif g == 'nd':
                sc = bool(spec['successive'][i]) if spec.get('successive') is not None else False
                if sc or d != 0:
                    found = int(fromx[p]) + py_step(sc, d)
            elif g == 'ang':
                if abs(d) <= 1.0:
                    found = d
            if found is not None:
                break
        if found is None:
            return {'y': None, 'used': pos, 'streaks': streaks + [pos - start]}
        ys.append(found)
        streaks.append(pos - start - 1)
    return {'y': ys, 'used': pos, 'streaks': streaks}


def judge_streak(spec, prop, fromx, res):
    """Findings of a rejection-streak case: the call must return the image of the first conforming
    draw of each loop, having consumed exactly the draws up to it.  (findings, walk)"""
    fam = spec['family']
    g = GROUP_OF[fam]
    if res['kind'] not in ('ok', 'budget', 'error', 'starved'):
        return [], None
    try:
        walk = first_conforming(spec, prop, fromx, res)
    except Exception:          # noqa: BLE001  (a log this walk cannot read: the other oracles still apply)
        walk = None
    if walk is None:
        return [], None
    key = '%s-rejection-loop' % g
    what = '%s.jump(%r) (bounds %r, scales %r)' % (fam, fromx, declared_bounds(spec, prop) if g in ('bn', 'bd', 'be') else None,
                                                   scale_of(prop))
    if res['kind'] != 'ok':
        if walk['y'] is None and res['kind'] in ('budget', 'starved'):
            return [], walk          # the stream held no conforming draw: nothing to return yet
        return [(key, '%s was served a stream whose first conforming draws come after rejection streaks of %r; '
                 'it did not return them (%s%s)' % (what, walk['streaks'], res['kind'],
                                                   ': ' + res['exc'] if res.get('exc') else ''))], walk
    used = res['script'].used('z')
    names = list(prop.parameters)
    got = [res['out'].get(p) for p in names]
    if walk['y'] is None:
        return [(key, '%s returned %r although none of the %d draws it took conforms (rejections per loop: %r)' % (
            what, got, used, walk['streaks']))], walk
    bad = used != walk['used']
    if g != 'ang':        # (the angular image is wrapped: its value is compared by the model)
        for a, b in zip(got, walk['y']):
            if a is None or _isnan(a) or a != b:
                bad = True
    if bad:
        return [(key, '%s after rejection streaks of %r returned %r having consumed %d normal draws; the first '
                 'conforming draws of its stream give %r after %d draws' % (
                     what, walk['streaks'], got, used, walk['y'], walk['used']))], walk
    return [], walk


# --------------------------------------------------------------------------
# correspondence: request lines for the Lean driver and the real answer
# --------------------------------------------------------------------------

def _outs(res, method='normal'):
    return [float(numpy.asarray(r.out).ravel()[0]) for r in res['script'].log if r.method == method]


def _xr(v):
    if v is None:
        return 'nan'
    return frac(v)


def protocol(spec, prop, fromx, res):
    """(request line, answer of the real code, comparison mode)."""
    fam = spec['family']
    g = GROUP_OF[fam]
    names = list(prop.parameters)
    kind = res['kind']
    if kind in ('error', 'budget'):
        return None
    real = {'kind': kind}
    if g == 'birth':
        if fam == 'uniform_birth':
            us = [b[1] for r in res['script'].log for b in r.base]
            req = 'ub lo=%s hi=%s u=%s' % (csv(prop.boundaries[p][0] for p in names),
                                           csv(prop.boundaries[p][1] for p in names), csv(us))
            mode = 'tol'
        elif fam == 'normal_birth':
            zs = [b[1] for r in res['script'].log for b in r.base]
            req = 'nb mu=%s sd=%s z=%s' % (csv(prop.mu[p] for p in names), csv(prop.std[p] for p in names), csv(zs))
            mode = 'tol'
        else:
            es = _outs(res, 'lognormal')
            if any(not math.isfinite(e) for e in es):
                return None
            req = 'lb e=%s' % csv(es)
            mode = 'lb'
        if kind == 'ok':
            real['y'] = [res['out'][p] for p in names]
            real['used'] = res['script'].used()
        return req, real, mode
    x = [fromx[p] for p in names]
    if kind == 'ok':
        real['y'] = [res['out'][p] for p in names]
    nz = res['script'].used('z')
    real['used'] = nz
    if g == 'bn':
        draws = _outs(res)
        req = 'bn lo=%s hi=%s x=%s fuel=%d draws=%s' % (
            csv(prop.boundaries[p][0] for p in names), csv(prop.boundaries[p][1] for p in names),
            csv(x), len(draws) + 1, csv(draws))
        return req, real, 'exact'
    if g == 'bd':
        draws = _outs(res)
        lo = spec['_ctor_bounds'] if spec.get('_ctor_bounds') else [prop.boundaries[p] for p in names]
        req = 'bd lo=%s hi=%s succ=%s x=%s fuel=%d draws=%s' % (
            csv(b[0] for b in lo), csv(b[1] for b in lo),
            ','.join(str(int(prop.successive[p])) for p in names), csv(x), len(draws) + 1, csv(draws))
        return req, real, 'exact'
    if g == 'nd':
        draws = _outs(res)
        req = 'nd succ=%s x=%s fuel=%d draws=%s' % (
            ','.join(str(int(prop.successive[p])) for p in names), csv(x), len(draws) + 1, csv(draws))
        return req, real, 'exact'
    if g == 'ang':
        draws = _outs(res)
        req = 'ang h=%s invf=%s f=%s x=%s fuel=%d draws=%s' % (
            frac(prop._halfwidth), frac(prop._invfactor), frac(prop._factor), csv(x), len(draws) + 1, csv(draws))
        return req, real, 'ang'
    if g == 'be':
        draws = _outs(res)
        cont = res['contains']
        cands = [[c[0][p] for p in names] for c in cont[1:]]
        if kind == 'refuse' or prop._ind is None:
            e = [0.0] * len(names)
        else:
            e = [float(prop.eigvects[i, prop._ind]) for i in range(len(names))]
        req = 'be lo=%s hi=%s x=%s e=%s fuel=%d draws=%s cands=%s' % (
            csv(prop.boundaries[p][0] for p in names), csv(prop.boundaries[p][1] for p in names),
            csv(x), csv(e), len(cands) + 1, csv(draws), ';'.join(csv(c) for c in cands) or '-')
        return req, real, 'be'
    if g == 'sa':
        npl = res['np']
        called = [c[0] for c in npl]
        if called not in (SA_CALLS, SA_CALLS_POLE):
            return ('sa-sequence', {'kind': 'sequence', 'calls': called}, 'sa')
        sites = []
        for name, args, val in npl:
            a2 = '-'
            if name == 'arctan2':
                a2 = _xr(args[1])
            sites.append('%s:%s:%s' % (_xr(args[0]), a2, _xr(val)))
        if called == SA_CALLS_POLE:
            sites.insert(SA_GAMMA, 'none')
        us = [b[1] for r in res['script'].log for b in r.base]
        req = 'sa radec=%d degs=%d kappa=%s pi=%s d2r=%s r2d=%s x=%s u=%s sites=%s' % (
            int(spec['radec']), int(spec['degs']), frac(float(prop.kappa)),
            frac(PI), frac(D2R), frac(R2D), csv(x), csv(us), ';'.join(sites))
        real['used'] = res['script'].used('u')
        return req, real, 'sa'
    return None


def _run_domain_driver(lines, timeout=1800):
    p = subprocess.run(['lake', 'env', 'lean', '--run', 'DriverDomain.lean'], cwd=common.LEAN_DIR,
                       input='\n'.join(lines) + '\n', stdout=subprocess.PIPE, stderr=subprocess.PIPE,
                       text=True, timeout=timeout)
    if p.returncode != 0:
        raise RuntimeError('Lean driver DriverDomain failed: ' + p.stderr[-2000:])
    return p.stdout.splitlines()


def run_domain_driver(lines, timeout=1800, procs=None):
    """Answers of the Lean driver, one per request line.  A large batch (the rejection-streak
    requests carry up to 65537 draws each) is cut into consecutive chunks of about equal size that
    are served by several driver processes at once; the answers come back in request order."""
    total = sum(len(ln) for ln in lines)
    if procs is None:
        procs = min(6, os.cpu_count() or 1)
    nchunks = min(procs, max(1, total // 1500000), len(lines))
    if nchunks < 2:
        return _run_domain_driver(lines, timeout)
    chunks, cur, size = [], [], 0
    for ln in lines:
        cur.append(ln)
        size += len(ln)
        if size >= total / nchunks and len(chunks) < nchunks - 1:
            chunks.append(cur)
            cur, size = [], 0
    if cur:
        chunks.append(cur)
    with concurrent.futures.ThreadPoolExecutor(len(chunks)) as ex:
        outs = list(ex.map(lambda ch: _run_domain_driver(ch, timeout), chunks))
    for ch, o in zip(chunks, outs):
        if len(o) != len(ch):       # a driver that skipped a line: keep the answers aligned per chunk
            o.extend(['<model output ended>'] * (len(ch) - len(o)))
            del o[len(ch):]
    return [a for o in outs for a in o]


def _parse_answer(line):
    toks = line.split(' ')
    d = {'kind': toks[0], 'raw': line}
    for t in toks[1:]:
        if '=' in t:
            k, v = t.split('=', 1)
            d[k] = v
    return d


def _fr(s):
    return common.parse_frac(s)


def _close(a, b, rtol=1e-9, scale=1.0):
    a, b = float(a), float(b)
    return abs(a - b) <= rtol * max(abs(a), abs(b), scale)


def agree(mode, model_line, real, spec=None):
    """Does the model's answer describe what the real code did?  Returns (bool, why)."""
    m = _parse_answer(model_line)
    rk = real['kind']
    if rk == 'sequence':
        return False, 'the numpy call sequence of the real _jump changed: %r' % (real['calls'],)
    if m['kind'] in ('bad-request', 'desync'):
        return False, 'model answered %r' % model_line
    if m['kind'] == 'nan':
        if mode == 'lb':
            ok = rk == 'ok' and any(float(v) <= 0.0 for v in real['y'])
            return ok, 'model: exponential not positive; real %r' % (real,)
        ok = rk == 'ok' and any(_isnan(v) for v in real['y'])
        if ok and float(_fr(m.get('dev', '0'))) > 1e-9:
            return False, 'argument deviation %s' % m.get('dev')
        return ok, 'model predicts a NaN coordinate (%s); real %r' % (m.get('site'), real.get('y'))
    if m['kind'] in ('refuse', 'starved'):
        return rk == m['kind'], 'model %s, real %s' % (m['kind'], rk)
    if m['kind'] != 'ok' or rk != 'ok':
        return False, 'model %r, real %s' % (model_line, rk)
    ys = [] if m['y'] == '-' else m['y'].split(',')
    ry = real['y']
    if len(ys) != len(ry):
        return False, 'lengths differ'
    if any(_isnan(v) for v in ry):
        return False, 'real output has NaN, model %r' % model_line
    if 'used' in m and int(m['used']) != int(real['used']):
        return False, 'draws consumed: model %s, real %s' % (m['used'], real['used'])
    if mode == 'exact':
        for a, b in zip(ys, ry):
            if _fr(a) != common.parse_frac(frac(b)):
                return False, 'value: model %s, real %s' % (a, frac(b))
        return True, ''
    if mode == 'be':
        for a, b in zip(ys, ry):
            if _fr(a) != common.parse_frac(frac(b)):
                return False, 'value: model %s, real %s' % (a, frac(b))
        if float(_fr(m['dev'])) > 1e-12:
            return False, 'tested points differ from x + dx*e by %s (relative)' % m['dev']
        return True, ''
    if mode == 'ang':
        for a, b in zip(ys, ry):
            d = abs(float(_fr(a)) - float(b))
            d = min(d, abs(d - TWO_PI))
            if d > 1e-9 * TWO_PI:
                return False, 'angle: model %r, real %r' % (float(_fr(a)), float(b))
        return True, ''
    if mode in ('tol', 'lb'):
        for a, b in zip(ys, ry):
            sc = 1.0
            if spec is not None and spec.get('bounds'):
                sc = max(max(abs(v) for v in bb) for bb in spec['bounds'])
            if spec is not None and spec.get('mean'):
                sc = max(abs(v) for v in spec['mean']) + 10 * max(abs(v) for v in spec['std'])
            if not _close(_fr(a), b, 1e-9, sc):
                return False, 'value: model %r, real %r' % (float(_fr(a)), float(b))
        return True, ''
    if mode == 'sa':
        if float(_fr(m['dev'])) > 1e-9:
            return False, 'argument deviation %s' % m['dev']
        full = 360.0 if spec['degs'] else TWO_PI
        for a, b in zip(ys, ry):
            if abs(float(_fr(a)) - float(b)) > 1e-9 * full:
                return False, 'angle: model %r, real %r' % (float(_fr(a)), float(b))
        return True, ''
    return False, 'unknown mode'


# --------------------------------------------------------------------------
# case generation
# --------------------------------------------------------------------------

BOXES = [(0.0, 1.0), (-2.0, 3.0), (1e6, 1e6 + 1.0), (-1e-3, 1e-3), (-5.0, -4.5), (0.1, 0.30000000000000004)]
SCALES = [1e-12, 1e-6, 1e-3, 0.1, 1.0, 10.0, 1e3, 1e6, 1e12]
ADAPT_BOXES = [(0.0, 1.0), (-2.0, 3.0), (-5.0, -4.5)]
INT_BOXES = [(0, 3), (-3, 2), (-0.5, 4.2), (5, 6), (-7, -7), (0, 1000000)]
KAPPAS = [5.0, 1.0, 100.0, 0.2464955401, 17.2372612, 1e-3, 1e-8, 1e-12, 500.0, 600.0, 700.0, 705.0]


def positions_box(lo, hi, rng):
    return [lo, hi, 0.5 * (lo + hi), math.nextafter(lo, hi), math.nextafter(hi, lo), rng.uniform(lo, hi)]


def z_probes_box(mu, std, lo, hi):
    """Standard normals whose image mu + std*z falls on / next to the bounds."""
    out = []
    for t in (lo, hi):
        z = (t - mu) / std
        if math.isfinite(z):
            out += [z, math.nextafter(z, math.inf), math.nextafter(z, -math.inf)]
    return out


def case(spec, fromx, z=(), u=(), tail='land', budget=4000):
    return {'spec': spec, 'fromx': fromx, 'z': list(z), 'u': list(u), 'tail': tail, 'budget': budget}


def adapt_specs(rng, tier):
    pats = [('A', 12), ('R', 12), ('AAR', 25)]
    if tier != 'quick':
        pats += [('A', 60), ('R', 120), ('AR', 80), ('ARR', 200)]
    return [dict(pattern=p, steps=s, window=max(s + 10, 20), seed=rng.randrange(1, 10 ** 6)) for p, s in pats]


def gen_bn(rng, tier, full):
    fam0 = 'bounded_normal'
    nb = len(BOXES) if full else 4
    for n in (1, 2, 3):
        for bi in range(nb):
            boxes = [BOXES[(bi + j) % len(BOXES)] for j in range(n)]
            for s in (SCALES if full or n == 1 else SCALES[::2]):
                std = [s * (b[1] - b[0]) for b in boxes]
                spec = dict(family=fam0, n=n, bounds=[list(b) for b in boxes], std=std)
                names = param_names(n)
                plist = [positions_box(b[0], b[1], rng) for b in boxes]
                for k in range(len(plist[0])):
                    fromx = {p: plist[i][(k + i) % len(plist[i])] for i, p in enumerate(names)}
                    # probe each parameter in turn: earlier parameters get a landing draw
                    for i in range(n):
                        lead = [(0.5 * (boxes[j][0] + boxes[j][1]) - fromx[names[j]]) / std[j] for j in range(i)]
                        probes = Z_EXTREME + z_probes_box(fromx[names[i]], std[i], *boxes[i])
                        if n == 1 or full:
                            probes = probes + Z_GRID
                        for zp in probes:
                            yield case(spec, fromx, z=lead + [zp])
                # refusal from outside
                for i in range(n):
                    for v in (math.nextafter(boxes[i][0], -math.inf), math.nextafter(boxes[i][1], math.inf),
                              boxes[i][1] + 1.0, boxes[i][0] - 1e6):
                        fromx = {p: 0.5 * (b[0] + b[1]) for p, b in zip(names, boxes)}
                        fromx[names[i]] = v
                        yield case(spec, fromx, z=[0.1] * 4, tail=None)
    # adaptive variants at adapted scales
    for fam in GROUPS['bn'][1:]:
        for a in adapt_specs(rng, tier):
            for n in (1, 2, 3):
                # (boxes near the origin: the Andrieu-Thoms variant starts its running mean at 0, so
                # a box at 1e6 makes its *adaptation run* crawl -- a matter of C14, not of this property)
                boxes = [ADAPT_BOXES[(n + j) % 3] for j in range(n)]
                spec = dict(family=fam, n=n, bounds=[list(b) for b in boxes], adapt=a)
                names = param_names(n)
                for k in range(3):
                    fromx = {p: (b[0], b[1], 0.5 * (b[0] + b[1]))[(k + i) % 3] for i, (p, b) in enumerate(zip(names, boxes))}
                    for zp in Z_EXTREME + Z_GRID[::3]:
                        yield case(spec, fromx, z=[zp] * n)


def gen_discrete(rng, tier, full):
    stds = [2.0 ** -40, 0.25, 1.0, 2.0, 4.0, 1024.0, 2.0 ** 40]
    for bounded in (True, False):
        fam0 = 'bounded_discrete' if bounded else 'discrete'
        for n in (1, 2):
            for bi in range(len(INT_BOXES) if bounded else 2):
                boxes = [INT_BOXES[(bi + j) % len(INT_BOXES)] for j in range(n)]
                for succ in itertools.product((False, True), repeat=n):
                    if bounded and any(math.floor(b[0]) == math.ceil(b[1]) and not sc for b, sc in zip(boxes, succ)):
                        continue      # a one-integer domain without successive jumps has no valid proposal at all
                    for s in stds:
                        spec = dict(family=fam0, n=n, std=[s] * n, successive=list(succ))
                        if bounded:
                            spec['bounds'] = [list(b) for b in boxes]
                            spec['_ctor_bounds'] = [list(b) for b in boxes]
                        names = param_names(n)
                        ib = [(int(math.floor(b[0])), int(math.ceil(b[1]))) for b in boxes]
                        starts = []
                        for lo, hi in ib:
                            c = sorted({lo, hi, (lo + hi) // 2, min(lo + 1, hi)})
                            if bounded and hi > lo:
                                c.append(lo + 0.5)       # a non-integer float inside the bounds
                            starts.append(c)
                        for k in range(max(len(c) for c in starts)):
                            fromx = {p: starts[i][k % len(starts[i])] for i, p in enumerate(names)}
                            # draws on the cell edges: d = std*z an exact integer or half-integer
                            edge = [m / s for m in (0.5, -0.5, 1.0, -1.0, 1.5, -1.5, 2.5, -2.5, 0.75, -0.25)]
                            for zp in Z_EXTREME + edge + (Z_GRID if full else Z_GRID[::3]):
                                yield case(spec, fromx, z=[zp] * n)
                        if bounded:
                            for i in range(n):
                                for v in (ib[i][0] - 1, ib[i][1] + 1, ib[i][1] + 0.5, ib[i][0] - 1e9):
                                    fromx = {p: ib[j][0] for j, p in enumerate(names)}
                                    fromx[names[i]] = v
                                    yield case(spec, fromx, z=[0.1] * 4, tail=None)
    for fam in GROUPS['bd'][1:] + GROUPS['nd'][1:]:
        bounded = fam in GROUPS['bd']
        for a in adapt_specs(rng, tier)[:4]:
            for succ in ((False,), (True,), (False, True)):
                n = len(succ)
                boxes = [INT_BOXES[j] for j in range(n)]
                spec = dict(family=fam, n=n, successive=list(succ), adapt=a)
                if bounded:
                    spec['bounds'] = [list(b) for b in boxes]
                names = param_names(n)
                for k in range(3):
                    fromx = {p: (b[0], b[1], (b[0] + b[1]) // 2)[(k + i) % 3] for i, (p, b) in enumerate(zip(names, boxes))}
                    for zp in Z_EXTREME + Z_GRID[::2]:
                        yield case(spec, fromx, z=[zp] * n)


def gen_ang(rng, tier, full):
    pos = [0.0, TWO_PI, PI, math.nextafter(TWO_PI, 0.0), 5e-324, 1e-300, 1e-17, PI / 2, rng.uniform(0, TWO_PI)]
    for n in (1, 2):
        for s in SCALES:
            std = [s * TWO_PI] * n
            spec = dict(family='angular', n=n, std=std)
            names = param_names(n)
            for k, x in enumerate(pos):
                fromx = {p: pos[(k + i) % len(pos)] for i, p in enumerate(names)}
                sd = std[0] / PI
                probes = Z_EXTREME + [t / sd for t in (1.0, -1.0, math.nextafter(1.0, 2.0), math.nextafter(-1.0, -2.0),
                                                       0.5, -0.5, -x / PI, math.nextafter(-x / PI, -1.0),
                                                       2.0 - x / PI, math.nextafter(2.0 - x / PI, -1.0))]
                if full or n == 1:
                    probes += Z_GRID
                for zp in probes:
                    if math.isfinite(zp):
                        yield case(spec, fromx, z=[zp] * n)
    for fam in GROUPS['ang'][1:]:
        for a in adapt_specs(rng, tier):
            for n in (1, 2):
                spec = dict(family=fam, n=n, adapt=a)
                names = param_names(n)
                for k, x in enumerate(pos[:5]):
                    fromx = {p: pos[(k + i) % 5] for i, p in enumerate(names)}
                    for zp in Z_EXTREME + Z_GRID[::2]:
                        yield case(spec, fromx, z=[zp] * n)


def _cov(n, s, boxes, rng):
    a = numpy.array([[rng.uniform(-0.5, 0.5) for _ in range(n)] for _ in range(n)])
    m = a @ a.T + numpy.diag([rng.uniform(0.2, 0.6) for _ in range(n)])
    w = numpy.array([b[1] - b[0] for b in boxes])
    m = (m + m.T) / 2 * numpy.outer(w, w) * s
    return [[float(v) for v in row] for row in m]


def gen_be(rng, tier, full):
    boxes_all = [(0.0, 1.0), (-2.0, 3.0), (-5.0, -4.5)]
    for n in (2, 3):
        boxes = boxes_all[:n]
        names = param_names(n)
        for s in ([1e-12, 1e-3, 1.0, 1e3, 1e12] if not full else SCALES):
            spec = dict(family='bounded_eigenvector', n=n, bounds=[list(b) for b in boxes],
                        cov=_cov(n, s, boxes, rng))
            mids = {p: 0.5 * (b[0] + b[1]) for p, b in zip(names, boxes)}
            starts = [dict(mids)]
            for i, p in enumerate(names):          # face centres
                for v in boxes[i]:
                    d = dict(mids)
                    d[p] = v
                    starts.append(d)
            starts.append({p: rng.uniform(b[0], b[1]) for p, b in zip(names, boxes)})
            for fromx in starts:
                for uc in (0.0, 0.5, 1 - 2.0 ** -53):
                    for ush in (0.9, 0.1):
                        for zp in Z_EXTREME + Z_GRID[::2]:
                            yield case(spec, fromx, z=[zp], u=[ush, 0.3, 0.7, uc, 0.5, 0.5])
            for i, p in enumerate(names):           # refusal from outside (beyond the tolerance band)
                for v in (boxes[i][0] - 1.0, boxes[i][1] + 1e-3):
                    d = dict(mids)
                    d[p] = v
                    yield case(spec, d, z=[0.1] * 3, u=[0.9, 0.5, 0.5, 0.5], tail=None)
        # corners (and, in 3-D, edges): an eigenvector line may leave the box in both directions.
        # A correct proposal lands within a few draws (acceptance probability of order 1 at these
        # scales); the budget only bounds the work spent on a loop that never lands.
        budget = 20000 if full else 6000
        corners = list(itertools.product(*boxes))
        if n == 2:      # a fixed covariance, every corner, each eigenvector selected by the scripted uniform
            spec = dict(family='bounded_eigenvector', n=2, bounds=[list(b) for b in boxes],
                        cov=[[1.0, 1.5], [1.5, 12.5]], stall_is_failure=True)
            for ci, c in enumerate(corners):
                for uc in (0.0, 1 - 2.0 ** -53):
                    yield case(spec, dict(zip(names, c)), z=[], u=[0.9, uc], tail=['real', 77 + ci], budget=budget)
        if full:
            spec = dict(family='bounded_eigenvector', n=n, bounds=[list(b) for b in boxes],
                        cov=_cov(n, 1.0, boxes, rng), stall_is_failure=True)
            for ci, c in enumerate(corners):
                for seed in range(3):
                    yield case(spec, dict(zip(names, c)), z=[], u=[], tail=['real', 1000 * ci + seed + 1], budget=budget)
    for a in adapt_specs(rng, tier)[:4]:
        n = 2
        boxes = boxes_all[:n]
        spec = dict(family='adaptive_bounded_eigenvector', n=n, bounds=[list(b) for b in boxes], adapt=a)
        names = param_names(n)
        for fromx in ({p: 0.5 * (b[0] + b[1]) for p, b in zip(names, boxes)},
                      {names[0]: boxes[0][0], names[1]: 0.5}):
            for zp in Z_EXTREME + Z_GRID[::2]:
                yield case(spec, fromx, z=[zp], u=[0.9, 0.5, 0.5, 0.5, 0.5])


def sa_convert(spec, phi, theta):
    """(phi, colatitude) in radians -> the proposal's convention."""
    if spec['radec']:
        theta = theta - PI / 2
    if spec['degs']:
        phi, theta = phi * R2D, theta * R2D
    return phi, theta


def gen_sa(rng, tier, full):
    thetas = [0.0, PI, 1e-200, 1e-8, PI / 2, 1.0, math.nextafter(PI, 0.0), 2.5]
    phis = [0.0, TWO_PI, PI, 1.0, math.nextafter(TWO_PI, 0.0), 4.0]
    for radec, degs in itertools.product((False, True), repeat=2):
        for kappa in KAPPAS:
            spec = dict(family='isotropic_solid_angle', n=2, kappa=kappa, radec=radec, degs=degs)
            for ti, th in enumerate(thetas):
                ph = phis[ti % len(phis)]
                a, t = sa_convert(spec, ph, th)
                # the exact pole in the proposal's own convention
                if th == 0.0:
                    t = (-90.0 if degs else -PI / 2) if radec else 0.0
                if th == PI:
                    t = (90.0 if degs else PI / 2) if radec else (180.0 if degs else PI)
                fromx = {'az': a, 'po': t}
                u1s = [0.3, 0.0, 0.5] if not full else [0.3, 0.25, 0.5, 0.75] + U_EXTREME
                for u1 in u1s:
                    for u2 in [0.6] + U_EXTREME + (U_GRID if (full or ti >= 4) else U_GRID[::3]):
                        yield case(spec, fromx, u=[u1, u2], tail=None)
            # a draw that lands (numerically) on the pole of the rotated frame: phi1 = pi, theta1 = beta
            for th in (0.3, 1.0, 2.0, 3.0) if kappa in (1.0, 5.0, 100.0) else ():
                a, t = sa_convert(spec, 1.0, th)
                ek = math.exp(kappa)
                cdf = (ek - math.exp(kappa * math.cos(th))) / (ek - math.exp(-kappa))
                for du in range(-3, 4) if full else (0,):
                    u2 = cdf
                    for _ in range(abs(du)):
                        u2 = math.nextafter(u2, 2.0 if du > 0 else -1.0)
                    if 0.0 <= u2 < 1.0:
                        yield case(spec, {'az': a, 'po': t}, u=[0.5, u2], tail=None)
                        yield case(spec, {'az': a, 'po': t}, u=[0.0, u2], tail=None)
    for a in adapt_specs(rng, tier):
        for radec, degs in itertools.product((False, True), repeat=2):
            spec = dict(family='adaptive_isotropic_solid_angle', n=2, kappa=None, radec=radec, degs=degs, adapt=a)
            for th in (1.0, 1e-8, 2.5):
                aa, t = sa_convert(spec, 2.0, th)
                for u1 in (0.0, 0.3):
                    for u2 in U_EXTREME + U_GRID[::3]:
                        yield case(spec, {'az': aa, 'po': t}, u=[u1, u2], tail=None)


def gen_birth(rng, tier, full):
    for n in (1, 2, 3):
        for bi in range(len(BOXES)):
            boxes = [BOXES[(bi + j) % len(BOXES)] for j in range(n)] if bi else [(-1e6, 1e-3)] * n
            spec = dict(family='uniform_birth', n=n, bounds=[list(b) for b in boxes])
            for u in U_EXTREME + U_GRID:
                yield case(spec, {}, u=[u] * n, tail=None)
        for mean, std in ((0.0, 1.0), (1.0, 1e-12), (-3.0, 1e12), (1e6, 1e-3), (1e-6, 1.0)):
            spec = dict(family='normal_birth', n=n, mean=[mean] * n, std=[std] * n)
            for z in Z_EXTREME + Z_GRID:
                yield case(spec, {}, z=[z] * n, tail=None)
        for mean, std in ((1.0, 1.0), (1.0, 1e-12), (1.0, 1e12), (1e6, 1e-3), (1e-6, 1.0), (-2.0, 0.5), (50.0, 1e6)):
            spec = dict(family='log_normal_birth', n=n, mean=[mean] * n, std=[std] * n)
            for z in Z_EXTREME + Z_GRID:
                yield case(spec, {}, z=[z] * n, tail=None)


# ---- long rejection streaks (every family with a rejection loop, every parameter position)

# streak lengths around the caps a bounded loop would typically get (cap-1, cap, cap+1)
STREAKS_QUICK = [99, 100, 101, 999, 1000, 1001, 4999, 5000, 5001, 10000, 65536]
STREAKS_QUICK_ADAPTIVE = [100, 1000, 1001, 5000, 10000]            # (+ 65536 at the first position)
STREAK_CAPS = [10, 16, 20, 25, 32, 50, 64, 100, 128, 200, 250, 256, 500, 512, 1000, 1024, 2000, 2048, 2500, 3000,
               4096, 5000, 8192, 10000, 16384, 20000, 32768, 50000, 65536, 100000, 131072, 250000]
STREAK_MODEL_MAX = 1001        # longer streaks go through the Lean model only at the first position of a family
STREAK_FAMILIES = GROUPS['bn'] + GROUPS['bd'] + GROUPS['nd'] + GROUPS['ang'] + GROUPS['be']


def streak_to_model(g, base, pi, L, full):
    """Which streak cases also go through the Lean driver (every one is judged by the walk over
    the generator log): a request line carries every draw as an exact fraction (~35 bytes a draw,
    ~115 for the eigenvector family with its tested points), so the long ones are sent for the
    base family of a group at its first position only."""
    if L <= (2501 if full else STREAK_MODEL_MAX):
        return True
    if not (base and pi == 0):
        return False
    if full:
        return L <= (10001 if g == 'be' else 20001) or (L == 65536 and g != 'be')
    return L <= (5001 if g == 'be' else 10000) or (L == 65536 and g in ('bn', 'nd'))


def _around(caps):
    out = []
    for c in caps:
        out += [c - 1, c, c + 1]
    return sorted(set(out))


def streak_case(spec, fromx, lens, u=(), model=True):
    c = case(spec, fromx, z=[], u=u, tail=['streak', [int(v) for v in lens]], budget=sum(lens) + len(lens) + 64)
    if model:
        c['model'] = True
    return c


def streak_plan(fam, full, lucky):
    """[(number of parameters, loop position, streak lengths)] of one family.  The base family of
    each group gets every length at every position; the adaptive variants (which inherit `_jump`)
    the lengths around the usual caps up to 10000 at every position and, quick tier, the 65536
    streak for one variant per group (chosen from the seed).  The bounded eigenvector loop costs
    ~50 us per draw in the real code (four `numpy.isclose` per tested point), so its 3-parameter
    and adaptive forms get fewer lengths in the quick tier."""
    g = GROUP_OF[fam]
    base = fam == GROUPS[g][0]
    upto = lambda m: _around([c for c in STREAK_CAPS if c <= m])        # noqa: E731
    plan = []
    if g == 'be':
        if full:
            plan.append((2, 0, (_around(STREAK_CAPS) if base else upto(10000) + [65536])))
            if base:
                plan.append((3, 0, upto(10000) + [65536]))
        elif base:
            plan += [(2, 0, STREAKS_QUICK), (3, 0, [100, 1001])]
        else:
            plan.append((2, 0, [101, 1000, 5001]))
        return plan
    dims = ((1, 2, 3) if g in ('bn', 'bd') else (1, 2)) if (full and base) else (2,)
    first = True
    for n in dims:
        for pos in range(n):
            if full:
                lens = _around(STREAK_CAPS) if (base and first) else upto(10000) + ([65536, 100000] if first else [])
            elif base:
                lens = STREAKS_QUICK
            else:
                lens = STREAKS_QUICK_ADAPTIVE + ([65536] if (first and fam in lucky) else [])
            first = False
            plan.append((n, pos, lens))
    return plan


def gen_streaks(rng, tier, full):
    a_spec = adapt_specs(rng, 'quick')[2]
    lucky = {rng.choice(GROUPS[g][1:]) for g in ('bn', 'bd', 'nd', 'ang')}
    for fam in STREAK_FAMILIES:
        g = GROUP_OF[fam]
        base = fam == GROUPS[g][0]
        plan = streak_plan(fam, full, lucky)
        for pi, (n, pos, lens_here) in enumerate(plan):
            names = param_names(n)
            spec = dict(family=fam, n=n)
            if g == 'bn':
                boxes = [ADAPT_BOXES[(n + j) % 3] for j in range(n)]
            elif g == 'bd':
                boxes = [INT_BOXES[j] for j in range(n)]
            elif g == 'be':
                boxes = [(0.0, 1.0), (-2.0, 3.0), (-5.0, -4.5)][:n]
            else:
                boxes = None
            if boxes is not None:
                spec['bounds'] = [list(b) for b in boxes]
            if g == 'bd':
                spec['successive'] = [bool((j + n) % 2) for j in range(n)]
            if g == 'nd':
                spec['successive'] = [False] * n            # (with successive jumps the family has no loop)
            nloops = 1 if g == 'be' else n
            for li, L in enumerate(lens_here):
                sp = dict(spec)
                k = rng.randrange(4)
                if not base:
                    sp['adapt'] = a_spec
                elif g == 'bn':
                    sp['std'] = [(100.0, 1.0, 1e3, 1e-6)[(li + j) % 4] * (b[1] - b[0]) for j, b in enumerate(boxes)]
                elif g in ('bd', 'nd'):
                    sp['std'] = [(1.0, 4.0, 1024.0, 2.0 ** -40)[(li + j) % 4] for j in range(n)]
                    if g == 'bd':
                        sp['_ctor_bounds'] = sp['bounds']
                elif g == 'ang':
                    sp['std'] = [(1.0, 100.0, 1e6, 1e-3)[(li + j) % 4] * TWO_PI for j in range(n)]
                elif g == 'be':
                    sp['cov'] = BE_STREAK_COVS[n][li % 2]
                if g == 'bn':
                    fromx = {p: (0.5 * (b[0] + b[1]), b[0], b[1], b[0] + 0.3 * (b[1] - b[0]))[(k + j) % 4]
                             for j, (p, b) in enumerate(zip(names, boxes))}
                elif g == 'bd':
                    ib = [(int(math.floor(b[0])), int(math.ceil(b[1]))) for b in boxes]
                    fromx = {p: (b[0], b[1], (b[0] + b[1]) // 2, min(b[0] + 1, b[1]))[(k + j) % 4]
                             for j, (p, b) in enumerate(zip(names, ib))}
                elif g == 'nd':
                    fromx = {p: (0, -3, 7, 1000000)[(k + j) % 4] for j, p in enumerate(names)}
                elif g == 'ang':
                    fromx = {p: (0.0, TWO_PI, PI, 1.0)[(k + j) % 4] for j, p in enumerate(names)}
                else:
                    fromx = {p: b[0] + (0.5, 0.3, 0.7, 0.9)[(k + j) % 4] * (b[1] - b[0]) for j, (p, b) in enumerate(zip(names, boxes))}
                lens = [2 + (li + j) % 3 for j in range(nloops)]       # short streaks at the other positions
                lens[pos] = L
                yield streak_case(sp, fromx, lens, u=[0.9, (0.0, 0.5, 1 - 2.0 ** -53)[li % 3], 0.5, 0.5, 0.5] if g == 'be' else (),
                                  model=streak_to_model(g, base, pi, L, full))


BE_STREAK_COVS = {
    2: [[[1.0, 1.5], [1.5, 12.5]], [[400.0, -30.0], [-30.0, 90.0]]],
    3: [[[1.0, 0.2, -0.1], [0.2, 4.0, 0.3], [-0.1, 0.3, 0.25]], [[90.0, 10.0, 0.0], [10.0, 300.0, -5.0], [0.0, -5.0, 40.0]]],
}


# ---- configuration by name (dict order, extra keys, setting again)

NAMED_BOXES = [[(0.0, 1.0), (5.0, 6.5), (-3.0, -2.0)],        # disjoint: a mis-pairing refuses / leaves the box
               [(0.0, 1.0), (-2.0, 3.0), (0.25, 0.5)]]        # nested: a mis-pairing proposes outside the narrow box
NAMED_INT_BOXES = [[(0, 3), (10, 12), (-7, -5)], [(0, 9), (2, 4), (-3, 12)]]
NAMED_FLOAT_INT_BOXES = [(-0.5, 4.2), (9.5, 12.0), (-7.3, -4.9)]


def cfg_layouts(rng, reset_ok=True, few=False):
    """The layouts of one configuration (`few`: four of them -- an adaptive variant needs an
    adaptation run on a real chain per layout)."""
    for li, lay in enumerate(CFG_LAYOUTS):
        if lay['reset'] and not reset_ok:
            continue
        if few and li not in (0, 2, 4, 5):
            continue
        yield dict(lay, seed=rng.randrange(1, 10 ** 6))


def named_case(spec, cfg, fromx, z=(), u=(), tail='land'):
    c = case(dict(spec, cfg=cfg), fromx, z=z, u=u, tail=tail)
    c['model'] = True
    return c


def gen_named(rng, tier, full):
    a_spec = adapt_specs(rng, 'quick')[2]
    if not full:
        a_spec = dict(a_spec, steps=8, window=20)
    zsets = [[0.3, -1.0, 2.0], [-0.2, 0.7, -3.0], [1.3, -0.05, 0.4], [-2.2, 1.1, 0.01]]
    # bounded normal and its adaptive variants
    for n in (2, 3):
        names = param_names(n)
        for bi, boxes3 in enumerate(NAMED_BOXES):
            boxes = boxes3[:n]
            for fam in GROUPS['bn']:
                if fam != 'bounded_normal' and not full and bi != n % 2:
                    continue
                for s in (((0.1, 1.0, 100.0) if full else (1.0, 100.0)) if fam == 'bounded_normal' else (None,)):
                    spec = dict(family=fam, n=n, bounds=[list(b) for b in boxes])
                    if s is None:
                        spec['adapt'] = a_spec
                    else:
                        spec['std'] = [s * (b[1] - b[0]) * (1 + j) for j, b in enumerate(boxes)]
                    for cfg in cfg_layouts(rng, few=(s is None and not full)):
                        for k in range(3 if full else 2):
                            fromx = {p: (b[0], b[1], 0.5 * (b[0] + b[1]), rng.uniform(b[0], b[1]))[(k + j + (k == 2)) % 4]
                                     for j, (p, b) in enumerate(zip(names, boxes))}
                            for zs in (zsets if full else zsets[k:k + 2]):
                                yield named_case(spec, cfg, fromx, z=zs[:n])
                            if s is not None and (full or s == 1.0 or k == 0):      # images on / next to the bounds of each parameter
                                for i in range(n):
                                    lead = [(0.5 * (boxes[j][0] + boxes[j][1]) - fromx[names[j]]) / spec['std'][j] for j in range(i)]
                                    for zp in z_probes_box(fromx[names[i]], spec['std'][i], *boxes[i])[:: (1 if full else 2)]:
                                        yield named_case(spec, cfg, fromx, z=lead + [zp])
    # bounded and unbounded discrete: boundaries, successive, prior widths
    dsets = [[0.3, -0.4, 0.5], [1.5, -2.5, 0.0], [-0.49, 0.51, -1.0], [2.5, 0.2, -0.3]]
    for fam in GROUPS['bd'] + GROUPS['nd']:
        bounded = fam in GROUPS['bd']
        adaptive = fam not in ('bounded_discrete', 'discrete')
        for n in (2, 3):
            names = param_names(n)
            for si, succ in enumerate([(False, True), (True, False)] if n == 2 else [(False, True, False), (True, True, False)]):
                for bi, boxes3 in enumerate((NAMED_INT_BOXES + [NAMED_FLOAT_INT_BOXES]) if bounded else [None]):
                    if adaptive and not full and (bi != 0 or si != n % 2):
                        continue
                    spec = dict(family=fam, n=n, successive=list(succ))
                    integer_bounds = True
                    if bounded:
                        boxes = boxes3[:n]
                        spec['bounds'] = [list(b) for b in boxes]
                        spec['_ctor_bounds'] = [list(b) for b in boxes]
                        integer_bounds = all(float(v).is_integer() for b in boxes for v in b)
                        ib = [(int(math.floor(b[0])), int(math.ceil(b[1]))) for b in boxes]
                    if adaptive:
                        spec['adapt'] = a_spec
                        std = [1.0] * n
                    else:
                        std = [(0.25, 4.0, 1.0)[(j + n) % 3] for j in range(n)]
                        spec['std'] = std
                    for cfg in cfg_layouts(rng, reset_ok=integer_bounds, few=(adaptive and not full)):
                        for k in range(3 if not adaptive else 2):
                            if bounded:
                                fromx = {p: (b[0], b[1], (b[0] + b[1]) // 2)[(k + j) % 3] for j, (p, b) in enumerate(zip(names, ib))}
                            else:
                                fromx = {p: (0, -5, 11)[(k + j) % 3] for j, p in enumerate(names)}
                            for ds in (dsets if full else dsets[k % 2::2]):
                                yield named_case(spec, cfg, fromx, z=[d / sd for d, sd in zip(ds, std)])
    # bounded eigenvector
    for fam in GROUPS['be']:
        for n in ((2, 3) if (fam == 'bounded_eigenvector' or full) else (2,)):
            names = param_names(n)
            boxes = NAMED_BOXES[0][:n]
            spec = dict(family=fam, n=n, bounds=[list(b) for b in boxes])
            if fam == 'bounded_eigenvector':
                spec['cov'] = _cov(n, 1.0, boxes, rng)
            else:
                spec['adapt'] = a_spec
            mids = {p: 0.5 * (b[0] + b[1]) for p, b in zip(names, boxes)}
            starts = [dict(mids), {p: rng.uniform(b[0], b[1]) for p, b in zip(names, boxes)}]
            for i, p in enumerate(names):
                d = dict(mids)
                d[p] = boxes[i][i % 2]
                starts.append(d)
            for cfg in cfg_layouts(rng, few=(fam != 'bounded_eigenvector' and not full)):
                for fromx in starts:
                    for ush, uc in ((0.9, 0.0), (0.9, 1 - 2.0 ** -53), (0.1, 0.5)):
                        for zp in ((0.3, -1.0, 8.3, -0.01) if full else (0.3, -1.0)):
                            yield named_case(spec, cfg, fromx, z=[zp], u=[ush, 0.3, 0.7, uc, 0.5, 0.5])
    # births
    usets = [[0.0, 1 - 2.0 ** -53, 0.5], [0.25, 0.75, 0.1], [2.0 ** -53, 0.999, 1e-6], [0.9, 0.0, 0.3]]
    for n in (2, 3):
        for boxes3 in NAMED_BOXES + [[(-1e6, 1e-3), (0.1, 0.30000000000000004), (1e6, 1e6 + 1.0)]]:
            spec = dict(family='uniform_birth', n=n, bounds=[list(b) for b in boxes3[:n]])
            for cfg in cfg_layouts(rng):
                for us in usets:
                    yield named_case(spec, cfg, {}, u=us[:n], tail=None)
        for fam, means, stds in (('normal_birth', [0.0, 5.0, -3.0], [1.0, 0.1, 10.0]),
                                 ('normal_birth', [1e6, 1e-6, -1.0], [1e-3, 1.0, 1e12]),
                                 ('log_normal_birth', [1.0, 5.0, 0.5], [1.0, 0.5, 2.0]),
                                 ('log_normal_birth', [50.0, 1e-6, 1e6], [1e6, 1.0, 1e-3])):
            spec = dict(family=fam, n=n, mean=means[:n], std=stds[:n])
            for cfg in cfg_layouts(rng):
                for zs in zsets + [[8.3, -8.3, 0.0]]:
                    yield named_case(spec, cfg, {}, z=zs[:n], tail=None)


def random_named_cases(rng, n):
    """Randomised cases (as `random_cases`) whose name-keyed configuration is laid out at random."""
    out = []
    for c in random_cases(rng, n):
        spec = c['spec']
        g = GROUP_OF[spec['family']]
        if g not in ('bn', 'bd', 'nd', 'be', 'birth') or spec['n'] < 2:
            continue
        lays = [lay for lay in CFG_LAYOUTS if cfg_is_variant(lay)]
        if g == 'bd' and not all(float(v).is_integer() for b in spec['bounds'] for v in b):
            lays = [lay for lay in lays if not lay['reset']]
        c['spec'] = dict(spec, cfg=dict(rng.choice(lays), seed=rng.randrange(1, 10 ** 6)))
        c['model'] = True
        out.append(c)
    return out


# ---- type and integrality of the current point (discrete families)

def start_values(k, lo=None, hi=None):
    """[(value, type name)] around the integer k: the integer itself, integer-valued and
    non-integer floats, negative non-integers, numpy scalars, 0-d arrays, bools; restricted to
    [lo, hi] when bounds are given, plus two values just outside (a bounded proposal must refuse)."""
    vals = [(k, 'int'), (k + 0.5, 'float'), (float(k), 'float'), (k - 0.5, 'float'), (k + 1e-9, 'float'),
            (k - 1e-9, 'float'), (k + 0.999999, 'float'), (k + 0.25, 'float'),
            (k, 'np.int64'), (k, 'np.int32'), (float(k), 'np.float64'), (k + 0.5, 'np.float64'),
            (k - 1e-9, 'np.float64'), (k + 0.5, 'np.float32'), (float(k), 'np.float32'), (k + 0.25, 'np.float16'),
            (k, 'array0d'), (k + 0.5, 'array0d'), (float(k), 'array0d'), (k - 0.25, 'array0d'),
            (-2.5, 'float'), (-0.5, 'float'), (-1e-9, 'float'), (-2.999999, 'float'), (-0.5, 'np.float64'),
            (-1.5, 'array0d'), (-0.75, 'np.float32'), (0, 'bool'), (1, 'bool')]
    vals = [(v, t) for v, t in vals if abs(v) < 2 ** 24 or t not in ('np.float32', 'np.float16', 'np.int32')]
    vals = [(v, t) for v, t in vals if float(typed_value(v, t)) == float(v)]
    if lo is not None:
        vals = [(v, t) for v, t in vals if lo <= v <= hi] + [(hi + 0.5, 'np.float64'), (lo - 1, 'array0d')]
    return vals


def gen_start_types(rng, tier, full):
    a_spec = adapt_specs(rng, 'quick')[2]
    if not full:
        a_spec = dict(a_spec, steps=8, window=20)
    dsets = [[0.3, -0.4], [1.5, -2.5], [-0.49, 0.51], [0.0, 2.5], [-1.0, 0.5]]
    for fam in GROUPS['bd'] + GROUPS['nd']:
        bounded = fam in GROUPS['bd']
        adaptive = fam not in ('bounded_discrete', 'discrete')
        for n in (1, 2):
            names = param_names(n)
            succs = [(False,), (True,)] if n == 1 else [(False, True), (True, False)] + ([(False, False)] if full else [])
            for si, succ in enumerate(succs):
                spec = dict(family=fam, n=n, successive=list(succ))
                boxes = [(-3, 12), (0, 5)][:n] if bounded else [None] * n
                if bounded:
                    spec['bounds'] = [list(b) for b in boxes]
                    spec['_ctor_bounds'] = [list(b) for b in boxes]
                if adaptive:
                    spec['adapt'] = a_spec
                    std = [1.0] * n
                else:
                    std = [(1.0, 0.25, 4.0)[(j + si + n) % 3] for j in range(n)]
                    spec['std'] = std
                centres = [(4, 0, 12, -3) if b == (-3, 12) else ((2, 0, 5) if b else (4, 0, -7, 1000000)) for b in boxes]
                for pos in range(n):
                    for ki, k in enumerate(centres[pos] if full else centres[pos][:2]):
                        lo, hi = boxes[pos] if bounded else (None, None)
                        for vi, (v, t) in enumerate(start_values(k, lo, hi)):
                            fromx, xtype = {}, {}
                            for j, p in enumerate(names):
                                if j == pos:
                                    fromx[p], xtype[p] = v, t
                                else:           # the other parameter: another type, inside its domain
                                    olo, ohi = boxes[j] if bounded else (None, None)
                                    others = [vt for vt in start_values(centres[j][0], olo, ohi)
                                              if not bounded or olo <= vt[0] <= ohi]
                                    fromx[p], xtype[p] = others[(vi + ki + si) % len(others)]
                            for di, ds in enumerate(dsets if full else dsets[(vi + ki) % 2::2]):
                                c = case(spec, fromx, z=[d / sd for d, sd in zip(ds, std)])
                                c['xtype'] = xtype
                                c['model'] = True
                                yield c


GENERATORS = {'bn': gen_bn, 'discrete': gen_discrete, 'ang': gen_ang, 'be': gen_be, 'sa': gen_sa,
              'birth': gen_birth}
# directed generators added later; they run after the randomised cases so that the cases above
# stay the same for a given seed
LATE_GENERATORS = {'streaks': gen_streaks, 'named': gen_named, 'start_types': gen_start_types}


def random_cases(rng, n):
    """Randomised cases (seeded) on top of the grids: random boxes, positions, scales, draws."""
    out = []
    for _ in range(n):
        g = rng.choice(['bn', 'bn', 'bd', 'bd', 'nd', 'ang', 'be', 'sa', 'sa', 'birth'])
        npar = rng.randint(1, 3)
        zs = [rng.choice(Z_EXTREME + Z_GRID + [rng.gauss(0, 1), rng.gauss(0, 3)]) for _ in range(6)]
        if g == 'bn':
            boxes = []
            for _ in range(npar):
                lo = rng.choice([0.0, -1.0, rng.uniform(-10, 10), 1e3])
                boxes.append([lo, lo + rng.choice([1.0, 0.5, rng.uniform(0.01, 5), 1e-6])])
            std = [rng.choice(SCALES) * (b[1] - b[0]) for b in boxes]
            spec = dict(family='bounded_normal', n=npar, bounds=boxes, std=std)
            fromx = {p: rng.choice([b[0], b[1], rng.uniform(b[0], b[1])]) for p, b in zip(param_names(npar), boxes)}
            if rng.random() < 0.1:
                fromx['x0'] = boxes[0][1] + rng.choice([1e-9, 1.0])
                out.append(case(spec, fromx, z=zs, tail=None))
            else:
                out.append(case(spec, fromx, z=zs))
        elif g in ('bd', 'nd'):
            npar = min(npar, 2)
            boxes = []
            for _ in range(npar):
                lo = rng.choice([0, -3, rng.randint(-20, 20), rng.uniform(-5, 5)])
                boxes.append([lo, lo + rng.choice([1, 2, 5, 2.5, 100])])
            succ = [rng.random() < 0.5 for _ in range(npar)]
            std = [rng.choice([2.0 ** -20, 0.3, 1.0, 2.0, 3.7, 50.0, 2.0 ** 30]) for _ in range(npar)]
            spec = dict(family='bounded_discrete' if g == 'bd' else 'discrete', n=npar, std=std, successive=succ)
            if g == 'bd':
                spec['bounds'] = boxes
                spec['_ctor_bounds'] = boxes
            fromx = {}
            for p, b in zip(param_names(npar), boxes):
                lo, hi = int(math.floor(b[0])), int(math.ceil(b[1]))
                fromx[p] = rng.choice([lo, hi, rng.randint(lo, hi), rng.randint(lo, hi) + (0.5 if g == 'bd' and hi > lo else 0)])
                if g == 'bd' and fromx[p] > hi:
                    fromx[p] = hi
            zz = [z if rng.random() < 0.6 else rng.choice([0.5, -0.5, 1.5, 2.5, -2.5, 1.0, -1.0]) / std[0] for z in zs]
            if g == 'bd' and rng.random() < 0.1:
                fromx['x0'] = int(math.ceil(boxes[0][1])) + rng.choice([1, 0.25])
                out.append(case(spec, fromx, z=zz, tail=None))
            else:
                out.append(case(spec, fromx, z=zz))
        elif g == 'ang':
            npar = min(npar, 2)
            std = [rng.choice(SCALES) * TWO_PI for _ in range(npar)]
            spec = dict(family='angular', n=npar, std=std)
            fromx = {p: rng.choice([0.0, TWO_PI, rng.uniform(0, TWO_PI)]) for p in param_names(npar)}
            out.append(case(spec, fromx, z=zs))
        elif g == 'be':
            npar = max(npar, 2)
            boxes = [[0.0, 1.0], [-2.0, 3.0], [-5.0, -4.5]][:npar]
            spec = dict(family='bounded_eigenvector', n=npar, bounds=boxes,
                        cov=_cov(npar, rng.choice([1e-6, 1e-2, 1.0, 100.0]), boxes, rng))
            fromx = {p: rng.uniform(b[0], b[1]) for p, b in zip(param_names(npar), boxes)}
            if rng.random() < 0.3:
                fromx['x1'] = rng.choice(boxes[1])
            if rng.random() < 0.1:
                fromx['x0'] = boxes[0][1] + rng.choice([1e-3, 1.0])
                out.append(case(spec, fromx, z=zs, u=[rng.random() for _ in range(8)], tail=None))
            else:
                out.append(case(spec, fromx, z=zs, u=[rng.random() for _ in range(8)]))
        elif g == 'sa':
            radec, degs = rng.random() < 0.5, rng.random() < 0.5
            spec = dict(family='isotropic_solid_angle', n=2, kappa=rng.choice([0.01, 0.5, 1.0, 3.0, 10.0, 50.0, 200.0]),
                        radec=radec, degs=degs)
            a, t = sa_convert(spec, rng.uniform(0, TWO_PI), rng.uniform(0.01, PI - 0.01))
            out.append(case(spec, {'az': a, 'po': t}, u=[rng.random(), rng.random()], tail=None))
        else:
            k = rng.choice(['uniform_birth', 'normal_birth', 'log_normal_birth'])
            if k == 'uniform_birth':
                boxes = [[-1.0, rng.uniform(0, 3)] for _ in range(npar)]
                out.append(case(dict(family=k, n=npar, bounds=boxes), {}, u=[rng.random() for _ in range(npar)], tail=None))
            else:
                spec = dict(family=k, n=npar, mean=[rng.uniform(0.5, 3)] * npar, std=[rng.uniform(0.1, 2)] * npar)
                out.append(case(spec, {}, z=zs[:npar], tail=None))
    return out


# --------------------------------------------------------------------------
# running
# --------------------------------------------------------------------------

_BUILD_CACHE = {}


def get_prop(spec):
    key = json.dumps({k: v for k, v in spec.items() if k != 'stall_is_failure'}, sort_keys=True, default=str)
    if key not in _BUILD_CACHE:
        if len(_BUILD_CACHE) > 4000:
            _BUILD_CACHE.clear()
        try:
            _BUILD_CACHE[key] = build(spec)
        except Exception as e:      # noqa: BLE001
            _BUILD_CACHE[key] = e
    return _BUILD_CACHE[key]


def run_case(c):
    """Execute one case on the real code.  Returns (prop, res) or (None, reason)."""
    prop = get_prop(c['spec'])
    if isinstance(prop, Exception):
        return None, 'build: %r' % (prop,)
    res = call_real(c['spec'], prop, c['fromx'], c['z'], c['u'], tail=c.get('tail'), budget=c.get('budget'),
                    xtype=c.get('xtype'))
    return prop, res


def describe(c):
    d = {k: v for k, v in c.items() if not k.startswith('_')}
    d['fromx'] = {k: (v if isinstance(v, int) else float(v)) for k, v in c['fromx'].items()}
    return d


def is_streak(c):
    t = c.get('tail')
    return isinstance(t, (list, tuple)) and bool(t) and t[0] == 'streak'


def note_streak(stats, c, used_z, walk):
    """Measured numbers of one rejection-streak case (evidence coverage)."""
    s = stats.setdefault('_streaks', {'cases': 0, 'per_family': {}, 'rejection_streak_lengths_measured': {},
                                      'longest_streak_measured': 0, 'normal_draws_consumed': 0,
                                      'judged_by_walk': 0, 'walk_abstained': 0, 'compared_with_model': 0,
                                      'loops_with_streak_per_position': {}})
    fam = c['spec']['family']
    s['cases'] += 1
    s['per_family'][fam] = s['per_family'].get(fam, 0) + 1
    s['normal_draws_consumed'] += used_z
    if walk is None:
        s['walk_abstained'] += 1
        return
    s['judged_by_walk'] += 1
    for i, k in enumerate(walk['streaks']):
        if k > 0:
            h = s['rejection_streak_lengths_measured']
            h[str(k)] = h.get(str(k), 0) + 1
            s['longest_streak_measured'] = max(s['longest_streak_measured'], k)
            pp = s['loops_with_streak_per_position']
            pp[str(i)] = pp.get(str(i), 0) + 1


def note_start_types(stats, c, rec):
    """Measured numbers of one typed-start case (evidence coverage)."""
    s = stats.setdefault('_start_types', {'cases': 0, 'per_family': {}, 'per_type_of_start': {}, 'outcomes': {},
                                          'non_integer_valued_starts': 0, 'negative_non_integer_starts': 0,
                                          'compared_with_model': 0})
    fam = c['spec']['family']
    s['cases'] += 1
    s['per_family'][fam] = s['per_family'].get(fam, 0) + 1
    s['outcomes'][rec['kind']] = s['outcomes'].get(rec['kind'], 0) + 1
    for p, t in c['xtype'].items():
        s['per_type_of_start'][t] = s['per_type_of_start'].get(t, 0) + 1
        v = float(c['fromx'][p])
        if v != int(v):
            s['non_integer_valued_starts'] += 1
            if v < 0:
                s['negative_non_integer_starts'] += 1
    if rec['pr'] is not None:
        s['compared_with_model'] += 1


def _named_stats():
    return {'variant_cases': 0, 'reference_layout_cases': 0, 'per_family': {}, 'per_layout': {},
            'pairs_compared': 0, 'pairs_identical': 0, 'variant_not_accepted': {}, 'compared_with_model': 0}


def _same_value(a, b):
    if a is None or b is None:
        return a is b
    if _is_integer_value(a) != _is_integer_value(b):
        return False
    if _isnan(a) or _isnan(b):
        return _isnan(a) and _isnan(b)
    return a == b


def judge_named(c, prop, res, stats):
    """Metamorphic check of a name-keyed configuration variant on the real code: the same call
    (start point, scripted draws, tail, budget) on the object configured from dicts in parameter
    order without extra keys must give exactly the same outcome."""
    spec = c['spec']
    cfg = spec['cfg']
    fam = spec['family']
    g = GROUP_OF[fam]
    nm = stats.setdefault('_named', _named_stats())
    nm['variant_cases'] += 1
    nm['per_family'][fam] = nm['per_family'].get(fam, 0) + 1
    lab = cfg_label(cfg)
    nm['per_layout'][lab] = nm['per_layout'].get(lab, 0) + 1
    base = dict(c)
    base['spec'] = dict(spec, cfg=cfg_base_of(cfg))
    bprop, bres = run_case(base)
    if bprop is None:
        return []            # the reference itself cannot be built: nothing to compare with
    nm['pairs_compared'] += 1
    names = list(prop.parameters)
    same = bres['kind'] == res['kind'] and bres['script'].used('z') == res['script'].used('z') \
        and bres['script'].used('u') == res['script'].used('u')
    if same and res['kind'] == 'ok':
        same = set(res['out']) == set(bres['out']) and all(_same_value(res['out'].get(p), bres['out'].get(p)) for p in names)
    if same:
        nm['pairs_identical'] += 1
        return []
    show = lambda r: (repr(r['out']) if r['kind'] == 'ok' else r['kind'] + (': ' + r['exc'] if r.get('exc') else ''))   # noqa: E731
    return [('%s-config-not-by-name' % g,
             '%s configured from dicts laid out as %s (keys of each dict as given: %r) answers the call from %r '
             'with %s after %d base draws; the same configuration given in parameter order answers %s after %d' % (
                 fam, lab, _layout_keys(spec), c['fromx'], show(res), res['script'].used(), show(bres), bres['script'].used()))]


def _layout_keys(spec):
    names = param_names(spec['n'])
    return list(laid_out(names, names, spec['cfg'], ['-', '-']))


def evaluate(c, want_model, stats=None):
    """One case on the real code, judged; everything the suite keeps of it, as plain data (the
    rejection-streak cases are evaluated in worker processes).  `stats` is only needed for the
    name-keyed variants (their reference run is made here)."""
    prop, res = run_case(c)
    if prop is None:
        return {'built': False, 'reason': res}
    g = GROUP_OF[c['spec']['family']]
    rec = {'built': True, 'kind': res['kind'], 'used': res['script'].used(), 'used_z': res['script'].used('z'),
           'npar': len(prop.parameters), 'walk': None, 'pr': None,
           'observed': repr(res['out']) if res['kind'] == 'ok' else res['kind'],
           'scales': scale_of(prop) if g != 'birth' else None}
    flagged = judge(c['spec'], prop, c['fromx'], res)
    if is_streak(c):
        fl, rec['walk'] = judge_streak(c['spec'], prop, c['fromx'], res)
        flagged = flagged + fl
    if cfg_is_variant(c['spec'].get('cfg')):
        flagged = flagged + judge_named(c, prop, res, stats if stats is not None else {})
    rec['flagged'] = flagged
    if want_model:
        rec['pr'] = protocol(c['spec'], prop, c['fromx'], res)
    return rec


def _streak_worker(job):
    c, want_model = job
    import warnings
    warnings.filterwarnings('ignore')
    return evaluate(c, want_model)


class StreakWorkers:
    """Evaluates the rejection-streak cases (a few million scripted draws in all) in worker
    processes while this process goes through the other cases.  The records do not depend on
    the number of workers; without worker processes the cases are evaluated in this process."""

    def __init__(self, cases, wanted, procs=None):
        self.pool = self.async_result = None
        idx = [ci for ci, c in enumerate(cases) if is_streak(c)]
        if procs is None:
            procs = min(8, os.cpu_count() or 1)
        if len(idx) < 4 or procs < 2 or os.environ.get('C12_SERIAL'):
            self.order = []
            return
        # longest first (the eigenvector loop costs ~20x more per draw in the real code)
        self.order = sorted(idx, key=lambda ci: -sum(cases[ci]['tail'][1]) * (20 if GROUP_OF[cases[ci]['spec']['family']] == 'be' else 1))
        jobs = [(cases[ci], ci in wanted) for ci in self.order]
        try:
            self.pool = multiprocessing.get_context('fork').Pool(procs)
            self.async_result = self.pool.map_async(_streak_worker, jobs, chunksize=1)
        except (OSError, multiprocessing.ProcessError):
            self.close()
            self.order = []

    def taken(self):
        return set(self.order)

    def close(self):
        if self.pool is not None:
            self.pool.terminate()
            self.pool.join()
            self.pool = None

    def records(self, timeout=3600):
        if not self.order:
            return {}
        try:
            recs = self.async_result.get(timeout)
        finally:
            self.close()
        return dict(zip(self.order, recs))


def run_suite(cases, do_model=True, stats=None, model_every=1):
    """Run `cases` on the real code; judge every one of them; send every
    `model_every`-th (and every case marked `model`) through the Lean model as well.

    Returns (findings, divergences, stats).  findings: (key, text, payload)."""
    stats = stats if stats is not None else {}
    findings = {}
    reqs = []
    distinct = set()
    # (a rejection-streak case goes through the model only when it is marked for it: see streak_to_model)
    wanted = {ci for ci, c in enumerate(cases)
              if do_model and (c.get('model') or (ci % model_every == 0 and not is_streak(c)))}
    workers = StreakWorkers(cases, wanted)
    try:
        elsewhere = workers.taken()
        recs = {ci: evaluate(c, ci in wanted, stats) for ci, c in enumerate(cases) if ci not in elsewhere}
        recs.update(workers.records())
    finally:
        workers.close()
    for ci, c in enumerate(cases):
        rec = recs.pop(ci)
        fam = c['spec']['family']
        g = GROUP_OF[fam]
        st = stats.setdefault(g, {'calls': 0, 'ok': 0, 'refuse': 0, 'starved': 0, 'budget': 0, 'error': 0,
                                  'skipped': 0, 'rejections': 0, 'families': {}})
        if not rec['built']:
            res = rec['reason']
            st['skipped'] += 1
            stats.setdefault('_skipped_reasons', {}).setdefault(res[:120], 0)
            stats['_skipped_reasons'][res[:120]] += 1
            if c['spec'].get('cfg') is not None:       # a layout the code does not accept is not a case
                nm = stats.setdefault('_named', _named_stats())
                k = '%s %s' % (fam, cfg_label(c['spec']['cfg']))
                nm['variant_not_accepted'][k] = nm['variant_not_accepted'].get(k, 0) + 1
            continue
        st['calls'] += 1
        st[rec['kind']] += 1
        st['families'][fam] = st['families'].get(fam, 0) + 1
        if rec['kind'] == 'ok' and g not in ('sa', 'birth', 'nd'):
            st['rejections'] += max(0, rec['used_z'] - rec['npar'])
        if rec['used'] > 0 or rec['kind'] == 'refuse':
            distinct.add(json.dumps(describe(c), sort_keys=True, default=str))
        if is_streak(c):
            note_streak(stats, c, rec['used_z'], rec['walk'])
        if c.get('xtype'):
            note_start_types(stats, c, rec)
        if c['spec'].get('cfg') is not None and not cfg_is_variant(c['spec']['cfg']):
            stats.setdefault('_named', _named_stats())['reference_layout_cases'] += 1
        flagged = rec['flagged']
        c['_flagged'] = [k for k, _ in flagged]
        for key, text in flagged:
            if key not in findings:
                findings[key] = (key, text, {'suite': 'search', 'case': describe(c), 'observed': rec['observed'],
                                             'scales': rec['scales'],
                                             'how_to_replay': './check C12 --replay <this file>'})
            stats.setdefault('_finding_counts', {}).setdefault(key, 0)
            stats['_finding_counts'][key] += 1
        if rec['pr'] is not None:
            reqs.append((c, rec['pr']))
    divs = []
    if do_model and reqs:
        lines = [pr[0] for _, pr in reqs if pr[0] != 'sa-sequence']
        answers = iter(run_domain_driver(lines)) if lines else iter(())
        ncmp = 0
        for c, (req, real, mode) in reqs:
            if req == 'sa-sequence':
                ok, why = agree(mode, 'desync', real, c['spec'])
                ans = '<none>'
            else:
                ans = next(answers, '<model output ended>')
                ok, why = agree(mode, ans, real, c['spec'])
            ncmp += 1
            if is_streak(c):
                stats.setdefault('_streaks', {}).setdefault('compared_with_model', 0)
                stats['_streaks']['compared_with_model'] += 1
            if c['spec'].get('cfg') is not None:
                stats.setdefault('_named', _named_stats())['compared_with_model'] += 1
            mk = _parse_answer(ans)['kind']
            stats.setdefault('_model_answers', {}).setdefault(mk, 0)
            stats['_model_answers'][mk] += 1
            if not ok:
                divs.append({'case': describe(c), 'flagged': c.get('_flagged', []), 'request': req[:2000], 'model': ans[:500],
                             'real': {k: (repr(v)) for k, v in real.items()}, 'why': why})
        stats['_compared'] = stats.get('_compared', 0) + ncmp
    stats['_distinct'] = stats.get('_distinct', 0) + len(distinct)
    return list(findings.values()), divs, stats


def all_cases(seed, tier, full):
    rng = random.Random(seed * 1000003 + 12)
    cases = []
    for name, gen in GENERATORS.items():
        cases.extend(gen(rng, tier, full))
    cases.extend(random_cases(rng, 400 if not full else 30000))
    for name, gen in LATE_GENERATORS.items():
        cases.extend(gen(rng, tier, full))
    cases.extend(random_named_cases(rng, 400 if not full else 6000))
    return cases


def random_runs(seed, tier, stats=None):
    """`proposed_position` along runs of real chains with the real generator (seeded): every
    family, 1..3 parameters, an accept/reject history that keeps adaptive scales moving.
    Each proposed point is judged by the same oracle.  Returns findings [(key, text, payload)]."""
    stats = stats if stats is not None else {}
    rng = random.Random(seed * 7919 + 3)
    nsteps = 150 if tier == 'quick' else 1000
    findings = {}
    nprop = 0
    for fam, g in GROUP_OF.items():
        if g == 'birth':
            continue
        _, kind, nmin, nmax = F.FAMILIES[fam]
        for n in range(nmin, nmax + 1):
            for pattern in (('AR',) if tier == 'quick' else ('AR', 'AAR', 'ARR')):
                spec = dict(family=fam, n=n)
                if g in ('bn', 'be'):
                    spec['bounds'] = [list(ADAPT_BOXES[(n + j) % 3]) for j in range(n)]
                if g == 'bd':
                    spec['bounds'] = [list(INT_BOXES[(n + j) % 3]) for j in range(n)]
                if g in ('bd', 'nd'):
                    spec['successive'] = [rng.random() < 0.5 for _ in range(n)]
                if g == 'sa':
                    spec.update(kappa=rng.choice([1.0, 10.0, 100.0]), radec=rng.random() < 0.5, degs=rng.random() < 0.5)
                adaptive = fam in F.ADAPTIVE
                if adaptive:
                    spec['adapt'] = dict(pattern=pattern, steps=0, window=nsteps + 10, seed=rng.randrange(1, 10 ** 6))
                elif g in ('bn', 'ang'):
                    spec['std'] = [0.3 * ((b[1] - b[0]) if g == 'bn' else 1.0) for b in (spec.get('bounds') or [[0, 1]] * n)]
                elif g in ('bd', 'nd'):
                    spec['std'] = [rng.choice([0.7, 1.5, 3.0]) for _ in range(n)]
                elif g == 'be':
                    spec['cov'] = _cov(n, 0.1, [tuple(b) for b in spec['bounds']], rng)
                try:
                    prop = build(spec)
                    names = list(prop.parameters)
                    ch = Chain(names, forcing.ForcedModel(pattern), [prop], bit_generator=rng.randrange(1, 10 ** 6))
                    ch.start_position = mid_start(spec, prop)
                except Exception as e:      # noqa: BLE001
                    why = 'random run %s not built: %s' % (fam, repr(e)[:80])
                    stats.setdefault('_skipped_reasons', {})[why] = stats.get('_skipped_reasons', {}).get(why, 0) + 1
                    continue
                dummy = Script()
                # base draws from a real seeded generator, through the stand-in so that a rejection
                # loop that stops landing (adapted scale far beyond the box: property C14) ends the
                # run instead of hanging it
                feed = Script(tail=real_tail(rng.randrange(1, 10 ** 6)), budget=150 * nsteps)
                for it in range(nsteps):
                    cur = {p: ch.current_position[p] for p in names}
                    cur = {p: (int(v) if g in ('bd', 'nd') else float(v)) for p, v in cur.items()}
                    try:
                        with scripted(feed):
                            if g == 'sa':
                                with sa_numpy_log() as npl:
                                    ch.step()
                                npl = npl[:len(SA_CALLS)]
                            else:
                                npl = []
                                ch.step()
                    except Exception as e:      # noqa: BLE001  (e.g. 'NaN acceptance!', a stalled loop: other properties)
                        why = 'random run %s stopped at step %d: %s' % (fam, it, repr(e)[:80])
                        stats.setdefault('_skipped_reasons', {})[why] = stats.get('_skipped_reasons', {}).get(why, 0) + 1
                        break
                    nprop += 1
                    res = {'kind': 'ok', 'out': dict(ch.proposed_position), 'script': dummy, 'np': npl, 'exc': None}
                    fl = judge(spec, prop, cur, res)
                    for key, text in fl:
                        stats.setdefault('_finding_counts', {}).setdefault(key, 0)
                        stats['_finding_counts'][key] += 1
                        if key not in findings:
                            findings[key] = (key, 'along a random run (step %d, history %s): %s' % (it, pattern, text), {
                                'suite': 'random-run', 'spec': spec, 'step': it, 'from': cur,
                                'observed': repr(res['out']),
                                'how_to_replay': 'domain.random_runs(seed=%d, tier=%r) reproduces it' % (seed, tier)})
                    if fl:
                        break
    stats['_random_run_proposals'] = nprop
    return list(findings.values())


def replay_case(c):
    """Re-run one stored case on the real code (and the model); prints; returns 0/1."""
    prop, res = run_case(c)
    if prop is None:
        print('cannot build the proposal:', res)
        return 1
    print('case   :', json.dumps(describe(c), default=str))
    print('scales :', scale_of(prop) if GROUP_OF[c['spec']['family']] != 'birth' else '-')
    print('real   :', res['kind'], res['out'] if res['kind'] == 'ok' else res['exc'],
          'base draws consumed:', res['script'].used())
    f = judge(c['spec'], prop, c['fromx'], res)
    if is_streak(c):
        fl, walk = judge_streak(c['spec'], prop, c['fromx'], res)
        f = f + fl
        print('streak : rejections per loop, measured on the log of the real call:', walk['streaks'] if walk else None,
              '; normal draws consumed:', res['script'].used('z'))
    if cfg_is_variant(c['spec'].get('cfg')):
        print('layout : %s; keys of each dict as given: %r' % (cfg_label(c['spec']['cfg']), _layout_keys(c['spec'])))
        f = f + judge_named(c, prop, res, {})
    for key, text in f:
        print('FAILS  : [%s] %s' % (key, text))
    bad = bool(f)
    try:
        pr = protocol(c['spec'], prop, c['fromx'], res)
        if pr is not None and pr[0] != 'sa-sequence':
            ans = run_domain_driver([pr[0]])[0]
            ok, why = agree(pr[2], ans, pr[1], c['spec'])
            print('model  :', ans[:300], '(agrees)' if ok else '(DIVERGES: %s)' % why)
            bad = bad or not ok
    except Exception as e:       # noqa: BLE001
        print('model  : not run (%r)' % (e,))
    if not bad:
        print('the property holds on this input now')
    return 1 if bad else 0
