import EpsieProofs.Scratch
import EpsieProofs.ChainInv
import EpsieProofs.PTInv
