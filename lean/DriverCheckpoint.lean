/-
  DriverCheckpoint — line-protocol front end of the executable checkpoint-file model
  (EpsieModel/Checkpoint.lean).  Run with `lake env lean --run DriverCheckpoint.lean < case-file`.

  Protocol (one record per line, space separated; `-` is `path=None` resp. the empty byte string):
    case <id>                              a new process: every file handle is an empty file (top
                                           level only); the current file is file 0
    file <i>                               the following lines address file handle <i>
    group <path>                           h5py `require_group(path)` (set-up, not epsie code)
    foreign <path|-> <name> <hex|-> <max|none>
                                           a dataset put there by someone else: content, maxshape
    dump <path|-> <name> <hex|->           dump_pickle_to_hdf with a stream holding these bytes, at position 0
    dumps <path|-> <name> <hex|-> <pos>    dump_pickle_to_hdf with a stream holding these bytes, positioned at
                                           <pos> (0 .. beyond the end) when the call is made
    sread <hex|-> <pos>                    (stream model only) `read()` of such a stream
    swrite <hex|-> <pos> <hex|->           (stream model only) `write(bytes)` to such a stream
    load <path|-> <name>                   load_state up to pickle.load
    ls                                     the whole current file
  Answers:
    case <id> | ok group | ok foreign | ok file
    ok sread <hex|-> <pos after> | ok swrite <hex|-> <pos after>
    ok dump branch=<create|resize|keep>    which arm of `dump_pickle_to_hdf` ran
    ok load <hex|->
    raise <noGroup|noObject|notDataset|cannotResize|shapeMismatch|nameExists>
    ls groups=</a;/a/b|-> dsets=</a/b/name:<max|none>:<hex|->;...|->     (sorted)
    bad-op <line>                          malformed line (the case is dead from there on)
  A path is `/`-separated; `/` alone is the top level given explicitly (`path='/'`).
  Dataset names containing `/` are outside the model (see the model's header).
-/
import EpsieModel.Checkpoint
open Epsie Epsie.Checkpoint

/-! ## hex -/

def hexDigit (n : UInt8) : Char :=
  if n < 10 then Char.ofNat (48 + n.toNat) else Char.ofNat (87 + n.toNat)

def toHex (b : Bytes) : String :=
  if b.isEmpty then "-" else
  b.foldl (fun (s : String) (x : UInt8) =>
    (s.push (hexDigit (x >>> (4 : UInt8)))).push (hexDigit (x &&& (15 : UInt8)))) ""

def hexVal (c : Char) : Option UInt8 :=
  let n := c.toNat
  if 48 ≤ n ∧ n ≤ 57 then some (UInt8.ofNat (n - 48))
  else if 97 ≤ n ∧ n ≤ 102 then some (UInt8.ofNat (n - 87))
  else if 65 ≤ n ∧ n ≤ 70 then some (UInt8.ofNat (n - 55))
  else none

def fromHex (s : String) : Option Bytes :=
  if s = "-" then some [] else
  let rec go (cs : List Char) (acc : Array UInt8) : Option (Array UInt8) :=
    match cs with
    | [] => some acc
    | [_] => none
    | a :: b :: r =>
      match hexVal a, hexVal b with
      | some x, some y => go r (acc.push (x * 16 + y))
      | _, _ => none
  (go s.toList #[]).map Array.toList

/-! ## paths -/

def parseLoc (s : String) : Loc := (s.splitOn "/").filter (· ≠ "")

def parsePath (s : String) : Option Loc := if s = "-" then none else some (parseLoc s)

def showLoc (l : Loc) : String := "/" ++ "/".intercalate l

def sortStrings (l : List String) : List String := (l.toArray.qsort (· < ·)).toList

def showList (l : List String) : String := if l.isEmpty then "-" else ";".intercalate l

def showMax : Option Nat → String
  | none => "none"
  | some m => toString m

/-- Only the first entry of a key is live (the association list never holds two). -/
def showFile (f : File) : String :=
  let gs := sortStrings (f.groups.map showLoc)
  let ds := sortStrings (f.dsets.map fun (k, d) =>
    s!"{showLoc (k.group ++ [k.name])}:{showMax d.maxlen}:{toHex (tobytes d.elems)}")
  s!"ls groups={showList gs} dsets={showList ds}"

/-! ## state and ops -/

structure DState where
  world : World := fun _ => File.empty
  cur : Nat := 0
  dead : Bool := false

def DState.file (st : DState) : File := st.world st.cur

def DState.setFile (st : DState) (f : File) : DState := { st with world := st.world.set st.cur f }

/-- Which arm of `dump_pickle_to_hdf` the model takes (for comparison with the calls the real
    code made on the stand-in). -/
def branchOf (f : File) (path : Option Loc) (name : String) (b : Bytes) : String :=
  match f.getGroup path with
  | .error _ => "none"
  | .ok g =>
    if !f.hasMember ⟨g, name⟩ then "create"
    else match f.dataset ⟨g, name⟩ with
      | .error _ => "none"
      | .ok d => if b.length != d.elems.length then "resize" else "keep"

def validName (n : String) : Bool := n ≠ "" && !(n.toList.contains '/')

/-- `dump_pickle_to_hdf(memfp, files[cur], path, dsetname)`, `memfp` = the bytes at the position. -/
def doDump (st : DState) (line p n hx pos : String) : DState × List String :=
  match fromHex hx, pos.toNat? with
  | some b, some k =>
    if !validName n then ({ st with dead := true }, [s!"bad-op {line}"]) else
    let path := parsePath p
    let br := branchOf st.file path n b
    match st.world.dump st.cur path n ⟨b, k⟩ with
    | (w', none) => ({ st with world := w' }, [s!"ok dump branch={br}"])
    | (w', some e) => ({ st with world := w' }, [s!"raise {e.toString}"])
  | _, _ => ({ st with dead := true }, [s!"bad-op {line}"])

def handleLine (st : DState) (line : String) : DState × List String :=
  let toks := (line.trimAscii.toString.splitOn " ").filter (· ≠ "")
  match toks with
  | [] => (st, [])
  | "case" :: id => ({}, [s!"case {" ".intercalate id}"])
  | _ =>
    if st.dead then (st, []) else
    match toks with
    | ["file", i] =>
      match i.toNat? with
      | some n => ({ st with cur := n }, ["ok file"])
      | none => ({ st with dead := true }, [s!"bad-op {line}"])
    | ["group", p] => (st.setFile (st.file.requireGroup (parseLoc p)), ["ok group"])
    | ["foreign", p, n, hx, mx] =>
      match fromHex hx, (if mx = "none" then some none else mx.toNat?.map some) with
      | some b, some m =>
        if validName n then
          (st.setFile (st.file.setDset ⟨resolve (parsePath p), n⟩ ⟨frombuffer b, m⟩), ["ok foreign"])
        else ({ st with dead := true }, [s!"bad-op {line}"])
      | _, _ => ({ st with dead := true }, [s!"bad-op {line}"])
    | ["dump", p, n, hx] => doDump st line p n hx "0"
    | ["dumps", p, n, hx, pos] => doDump st line p n hx pos
    | ["sread", hx, pos] =>
      match fromHex hx, pos.toNat? with
      | some b, some k =>
        let r := (Stream.mk b k).read
        (st, [s!"ok sread {toHex r.1} {r.2.pos}"])
      | _, _ => ({ st with dead := true }, [s!"bad-op {line}"])
    | ["swrite", hx, pos, hx2] =>
      match fromHex hx, pos.toNat?, fromHex hx2 with
      | some b, some k, some b2 =>
        let r := (Stream.mk b k).write b2
        (st, [s!"ok swrite {toHex r.data} {r.pos}"])
      | _, _, _ => ({ st with dead := true }, [s!"bad-op {line}"])
    | ["load", p, n] =>
      if !validName n then ({ st with dead := true }, [s!"bad-op {line}"]) else
      match loadBytes st.file (parsePath p) n with
      | .ok b => (st, [s!"ok load {toHex b}"])
      | .error e => (st, [s!"raise {e.toString}"])
    | ["ls"] => (st, [showFile st.file])
    | _ => ({ st with dead := true }, [s!"bad-op {line}"])

partial def loop (h : IO.FS.Stream) (out : IO.FS.Stream) (st : DState) : IO Unit := do
  let line ← h.getLine
  if line.isEmpty then return ()
  let (st', outs) := handleLine st line
  for o in outs do out.putStrLn o
  loop h out st'

def main : IO Unit := do
  let out ← IO.getStdout
  loop (← IO.getStdin) out {}
  out.flush
