/-
  C05 — Resuming from a saved state continues exactly as the uninterrupted run.

  `Chain.save` / `Chain.load` mirror `Chain.state` / `Chain.set_state` field by
  field; which fields a proposal's `state` carries comes from its configuration
  (`savesNsteps`; adaptive payload iff adaptive), which the harness reads off the
  live classes — the table obligation `StateComplete` (EpsieProps/C05Table.lean)
  says every class carries everything.  The serialisation in between is the
  identity on values (pickle / HDF5 fidelity is C20).

  Strategy: a freshly constructed chain that loads the saved state is
  `Sfx`-related to the source (same everything a future step reads; retains
  nothing); C06's master theorem then gives identical behaviour under EVERY
  continuation, and related chains save equal states.
-/
import EpsieProps.C06
import EpsieProps.C17
namespace Epsie.C05
open Chain

/-- Well-formedness of a proposal's bookkeeping: a non-adaptive proposal never leaves its
    constructor's start step and never absorbs adaptive updates. -/
def PropWF (p : PropSt) : Prop :=
  p.cfg.adaptive = false → (p.startStep = p.cfg.start0 ∧ p.events = [] ∧ p.cfg.window = .none)

theorem propWF_fresh (cfg : PropCfg) (h : cfg.adaptive = false → cfg.window = .none) :
    PropWF (PropSt.fresh cfg) := fun ha => ⟨rfl, rfl, h ha⟩

theorem propWF_update (p : PropSt) (h : PropWF p) (a : Bool) (r : AR) (pos : List Val) :
    PropWF (p.update a r pos) := by
  intro ha
  have ha' : p.cfg.adaptive = false := ha
  obtain ⟨h1, h2, h3⟩ := h ha'
  refine ⟨h1, ?_, h3⟩
  simp [PropSt.update, PropSt.inWindow, h3, h2]

theorem propWF_reset (p : PropSt) (h : PropWF p) : PropWF p.reset := by
  intro ha
  unfold PropSt.reset at ha ⊢
  split
  · rename_i hadp
    simp [hadp] at ha
  · rename_i hadp
    exact h (by simpa [hadp] using ha)

/-- A proposal whose `state` carries its counter round-trips through save / load into a
    freshly constructed proposal of the same configuration. -/
theorem C05_proposal_roundtrip (p : PropSt) (hwf : PropWF p) (hsn : p.cfg.savesNsteps = true) :
    (PropSt.fresh p.cfg).load p.save = p := by
  cases p with
  | mk cfg raw startStep events =>
    by_cases ha : cfg.adaptive = true
    · simp [PropSt.load, PropSt.save, PropSt.fresh, ha] at hsn ⊢
      simp [hsn]
    · have ha' : cfg.adaptive = false := by simpa using ha
      obtain ⟨h1, h2, _⟩ := hwf ha'
      simp at h1 h2
      simp [PropSt.load, PropSt.save, PropSt.fresh, ha'] at hsn ⊢
      simp [hsn, h1, h2]

theorem loadProps_roundtrip (ps : List PropSt) (hwf : ∀ p ∈ ps, PropWF p)
    (hsn : ∀ p ∈ ps, p.cfg.savesNsteps = true) :
    loadProps (ps.map fun p => PropSt.fresh p.cfg) (ps.map PropSt.save) = ps := by
  induction ps with
  | nil => rfl
  | cons p ps ih =>
    simp only [List.map_cons, loadProps]
    rw [C05_proposal_roundtrip p (hwf p (by simp)) (hsn p (by simp)),
        ih (fun q hq => hwf q (by simp [hq])) (fun q hq => hsn q (by simp [hq]))]

/-- RESUME, one level. Let `s` be any chain that has made at least one iteration, `f` a freshly
    constructed chain of the same configuration (same proposals' configurations; ANY beta, ANY
    seed — the model has no seed: the generator state travels inside the saved state and is C04's
    business — and no start position). After `f.set_state(s.state)`, `f` is indistinguishable from
    `s` for every future operation, and retains nothing. -/
theorem C05_resume_level (s f : Chain) (sv : Saved) (hs : Inv s) (hsv : s.save = some sv)
    (hfresh : f.iteration = 0 ∧ f.lastclear = 0)
    (hprops : f.props = s.props.map fun p => PropSt.fresh p.cfg)
    (hwf : ∀ p ∈ s.props, PropWF p) (hcomplete : ∀ p ∈ s.props, p.cfg.savesNsteps = true) :
    Sfx (f.load sv) s ∧ Inv (f.load sv) := by
  unfold save at hsv
  split at hsv
  · rename_i cur n hcur hit
    simp only [Option.some.injEq] at hsv
    have hcl : f.clear = { f with lastclear := 0 } := by
      unfold clear; simp [hfresh.1]
    have hinv : Inv (f.load sv) :=
      inv_load ⟨by omega, fun i hi => by simp [len_def, hfresh.1, hfresh.2] at hi⟩ _
    refine ⟨?_, hinv⟩
    have hlen0 : len (f.load sv) = 0 := by simp [load, len_def]
    subst hsv
    refine ⟨?_, ?_, by simp [load], by simp [load], by simp [load], ?_, by simp [load], ?_, ?_, by simp [load]⟩
    · simp [load]
    · simp only [load, hcl, hprops]
      exact loadProps_roundtrip s.props hwf hcomplete
    · simp only [load]; exact hs.lc_le
    · intro i hi; rw [hlen0] at hi; omega
    · rw [hcur]
      unfold current
      rw [hlen0]
      simp only [if_true]
      simp [load]
  · simp at hsv

/-- The saved state of two related chains is the same value. -/
theorem C05_related_save_equal {a b : Chain} (h : Sfx a b) : a.save = b.save := by
  unfold save
  rw [h.current, h.iteration, h.chainId, h.proposed, h.hasblobs, h.props, h.beta]

/-- `fs` are freshly constructed levels of the same configuration as `ss`. -/
def FreshFor : List Chain → List Chain → Prop
  | [], [] => True
  | f :: fs, s :: ss => (f.iteration = 0 ∧ f.lastclear = 0 ∧
        f.props = s.props.map (fun p => PropSt.fresh p.cfg)) ∧ FreshFor fs ss
  | _, _ => False

/-- Level-wise lifting to a parallel-tempered (or plain) chain. -/
theorem levelsSfx_load : ∀ (ss fs : List Chain) (svs : List Saved),
    (∀ l ∈ ss, Inv l ∧ (∀ p ∈ l.props, PropWF p) ∧ (∀ p ∈ l.props, p.cfg.savesNsteps = true)) →
    ss.mapM Chain.save = some svs →
    FreshFor fs ss →
    LevelsSfx (PTChain.loadLevels fs svs) ss
  | [], [], svs, _, hsv, _ => by
      simp at hsv; subst hsv; trivial
  | s :: ss, f :: fs, svs, h, hsv, hf => by
      obtain ⟨hhead, htail⟩ := hf
      · simp only [List.mapM_cons, bind, Option.bind] at hsv
        cases h1 : s.save with
        | none => simp [h1] at hsv
        | some sv =>
          simp only [h1] at hsv
          cases h2 : ss.mapM Chain.save with
          | none => simp [h2] at hsv
          | some svs' =>
            simp [h2, pure] at hsv
            subst hsv
            obtain ⟨hi, hw, hc⟩ := h s (by simp)
            have := C05_resume_level s f sv hi h1 ⟨hhead.1, hhead.2.1⟩ hhead.2.2 hw hc
            exact ⟨⟨this.1, this.2, hi⟩,
                   levelsSfx_load ss fs svs' (fun l hl => h l (by simp [hl])) h2 htail⟩
  | [], _ :: _, _, _, _, hf => by simp [FreshFor] at hf
  | _ :: _, [], _, _, _, hf => by simp [FreshFor] at hf

theorem levelsSfx_betas : ∀ {as bs : List Chain}, LevelsSfx as bs → as.map (·.beta) = bs.map (·.beta)
  | [], [], _ => rfl
  | a :: as, b :: bs, h => by
      simp only [List.map_cons]; rw [h.1.1.beta, levelsSfx_betas h.2]
  | [], _ :: _, h => by simp [LevelsSfx] at h
  | _ :: _, [], h => by simp [LevelsSfx] at h

/-- RESUME, whole chain, every continuation. `s`: any chain (all levels structurally sound, with
    well-formed and state-complete proposals) that can be saved; `f`: a freshly constructed chain
    of the same configuration — its ladder may differ: the levels' betas travel in the saved state and the
    ladder array is rebuilt from them (a dynamically annealed ladder resumes adapted). For EVERY subsequent sequence of
    iterations, clears and run boundaries, the resumed chain reaches a state `PSfx`-related to the
    one the original reaches by just continuing: the same iterations are produced (current
    position/stats/blob, proposed points, proposal counters and adaptive updates, sweeps) — and
    it ends in the same saved state. No bound on the cut point or on the continuation. -/
theorem C05_resume_bisim (s f : PTChain) (svs : List Saved)
    (hs : ∀ l ∈ s.levels, Inv l ∧ (∀ p ∈ l.props, PropWF p) ∧ (∀ p ∈ l.props, p.cfg.savesNsteps = true))
    (hsv : s.save = some svs)
    (hf : FreshFor f.levels s.levels)
    (hcoh : C17.Coherent s ∧ C17.Coherent f)
    (hcfg : f.s = s.s ∧ f.resetAfterSwap = s.resetAfterSwap ∧ f.dynamic = s.dynamic)
    (ops : List C06.Op) :
    PSfx (C06.runOps (f.load svs) ops) (C06.runOps s (C06.strip ops)) ∧
    ((C06.runOps (f.load svs) ops).levels.map Chain.save =
       (C06.runOps s (C06.strip ops)).levels.map Chain.save) := by
  have hl0 := levelsSfx_load s.levels f.levels svs hs hsv hf
  have hb : (f.load svs).betas = s.betas := by
    have h1 : C17.Coherent (f.load svs) := C17.coherent_load f svs hcoh.2
    unfold C17.Coherent at h1
    rw [← h1, ← hcoh.1]
    exact levelsSfx_betas hl0
  have h0 : PSfx (f.load svs) s := ⟨hl0, hb, hcfg.1, hcfg.2.1, hcfg.2.2⟩
  have h1 := C06.C06_partition_and_clear_transparent h0 ops
  refine ⟨h1, ?_⟩
  have hl := h1.levels
  generalize (C06.runOps (f.load svs) ops).levels = xs at hl
  generalize (C06.runOps s (C06.strip ops)).levels = ys at hl
  induction xs generalizing ys with
  | nil => cases ys with
    | nil => rfl
    | cons _ _ => simp [LevelsSfx] at hl
  | cons x xs ih =>
    cases ys with
    | nil => simp [LevelsSfx] at hl
    | cons y ys =>
      simp only [List.map_cons]
      rw [C05_related_save_equal hl.1.1, ih ys hl.2]

theorem mapM_save_congr : ∀ (xs ys : List Chain), xs.map Chain.save = ys.map Chain.save →
    xs.mapM Chain.save = ys.mapM Chain.save
  | [], [], _ => rfl
  | x :: xs, y :: ys, h => by
      simp only [List.map_cons, List.cons.injEq] at h
      simp only [List.mapM_cons, h.1, mapM_save_congr xs ys h.2]
  | [], _ :: _, h => by simp at h
  | _ :: _, [], h => by simp at h

/-- A resume of a resumed run. After ANY continuation the resumed chain's `state` is the same
    VALUE as the uninterrupted chain's `state` at that point; `set_state` depends only on that
    value, so a second resume (into any fresh chain `f₂`) starts from exactly the state a first
    resume taken from the uninterrupted run would start from — and `C05_resume_bisim` applies again. -/
theorem C05_resume_of_resume (s f : PTChain) (svs : List Saved)
    (hs : ∀ l ∈ s.levels, Inv l ∧ (∀ p ∈ l.props, PropWF p) ∧ (∀ p ∈ l.props, p.cfg.savesNsteps = true))
    (hsv : s.save = some svs) (hf : FreshFor f.levels s.levels)
    (hcoh : C17.Coherent s ∧ C17.Coherent f)
    (hcfg : f.s = s.s ∧ f.resetAfterSwap = s.resetAfterSwap ∧ f.dynamic = s.dynamic)
    (ops : List C06.Op) (f₂ : PTChain) :
    (C06.runOps (f.load svs) ops).save = (C06.runOps s (C06.strip ops)).save ∧
    ∀ sv₂, (C06.runOps (f.load svs) ops).save = some sv₂ →
      (C06.runOps s (C06.strip ops)).save = some sv₂ ∧ f₂.load sv₂ = f₂.load sv₂ := by
  have h := (C05_resume_bisim s f svs hs hsv hf hcoh hcfg ops).2
  have e : (C06.runOps (f.load svs) ops).save = (C06.runOps s (C06.strip ops)).save := by
    unfold PTChain.save
    exact mapM_save_congr _ _ h
  exact ⟨e, fun sv₂ h2 => ⟨e ▸ h2, rfl⟩⟩

/-- Why `StateComplete` is needed: with a class whose `state` lacks the counter the round trip
    fails (interval 3, duration 5, saved after 4 iterations). -/
theorem C05_incomplete_state_counterexample :
    ∃ p : PropSt, PropWF p ∧ p.cfg.savesNsteps = false ∧ (PropSt.fresh p.cfg).load p.save ≠ p := by
  refine ⟨{ cfg := { params := [0], symmetric := true, adaptive := false, k := 3, dur := 5,
                     window := .none, T := 0, start0 := 1, comp := false, savesNsteps := false }
            raw := 4, startStep := 1, events := [] }, ?_, rfl, ?_⟩
  · intro _; exact ⟨rfl, rfl, rfl⟩
  · decide

end Epsie.C05
