/-
  C05 — Resuming from a saved state continues exactly as the uninterrupted run.

  `Chain.save` / `Chain.load` mirror `Chain.state` / `Chain.set_state` field by
  field; which fields a proposal's `state` carries comes from its configuration
  (`savesNsteps`; adaptive payload iff adaptive), which the harness reads off the
  live classes — the table obligation `StateComplete` (EpsieProps/C05Table.lean)
  says every class carries everything.  The serialisation in between is the
  identity on values (pickle / HDF5 fidelity is C20).

  Strategy: a freshly constructed chain that loads the saved state is
  `Sfx`-related to the source (same everything a future step reads; retains
  nothing); C06's master theorem then gives identical behaviour under EVERY
  continuation, and related chains save equal states.
-/
import EpsieProps.C06
import EpsieProps.C17
import EpsieProps.C18
import EpsieProps.C08
import EpsieProofs.LiftGuard
namespace Epsie.C05
open Chain

/-- Well-formedness of a proposal's bookkeeping: a non-adaptive proposal never leaves its
    constructor's start step and never absorbs adaptive updates. -/
def PropWF (p : PropSt) : Prop :=
  p.cfg.adaptive = false → (p.startStep = p.cfg.start0 ∧ p.events = [] ∧ p.cfg.window = .none)

theorem propWF_fresh (cfg : PropCfg) (h : cfg.adaptive = false → cfg.window = .none) :
    PropWF (PropSt.fresh cfg) := fun ha => ⟨rfl, rfl, h ha⟩

theorem propWF_update (p : PropSt) (h : PropWF p) (a : Bool) (r : AR) (pos : List Val) :
    PropWF (p.update a r pos) := by
  intro ha
  have ha' : p.cfg.adaptive = false := ha
  obtain ⟨h1, h2, h3⟩ := h ha'
  refine ⟨h1, ?_, h3⟩
  simp [PropSt.update, PropSt.inWindow, h3, h2]

theorem propWF_reset (p : PropSt) (h : PropWF p) : PropWF p.reset := by
  intro ha
  unfold PropSt.reset at ha ⊢
  split
  · rename_i hadp
    simp [hadp] at ha
  · rename_i hadp
    exact h (by simpa [hadp] using ha)

/-- A proposal whose `state` carries its counter round-trips through save / load into a
    freshly constructed proposal of the same configuration. -/
theorem C05_proposal_roundtrip (p : PropSt) (hwf : PropWF p) (hsn : p.cfg.savesNsteps = true) :
    (PropSt.fresh p.cfg).load p.save = p := by
  cases p with
  | mk cfg raw startStep events =>
    by_cases ha : cfg.adaptive = true
    · simp [PropSt.load, PropSt.save, PropSt.fresh, ha] at hsn ⊢
      simp [hsn]
    · have ha' : cfg.adaptive = false := by simpa using ha
      obtain ⟨h1, h2, _⟩ := hwf ha'
      simp at h1 h2
      simp [PropSt.load, PropSt.save, PropSt.fresh, ha'] at hsn ⊢
      simp [hsn, h1, h2]

theorem loadProps_roundtrip (ps : List PropSt) (hwf : ∀ p ∈ ps, PropWF p)
    (hsn : ∀ p ∈ ps, p.cfg.savesNsteps = true) :
    loadProps (ps.map fun p => PropSt.fresh p.cfg) (ps.map PropSt.save) = ps := by
  induction ps with
  | nil => rfl
  | cons p ps ih =>
    simp only [List.map_cons, loadProps]
    rw [C05_proposal_roundtrip p (hwf p (by simp)) (hsn p (by simp)),
        ih (fun q hq => hwf q (by simp [hq])) (fun q hq => hsn q (by simp [hq]))]

/-- RESUME, one level. Let `s` be any chain that has made at least one iteration, `f` a freshly
    constructed chain of the same configuration (same proposals' configurations; ANY beta, ANY
    seed — the model has no seed: the generator state travels inside the saved state and is C04's
    business — and no start position). After `f.set_state(s.state)`, `f` is indistinguishable from
    `s` for every future operation, and retains nothing. -/
theorem C05_resume_level (s f : Chain) (sv : Saved) (hs : Inv s) (hsv : s.save = some sv)
    (hfresh : f.iteration = 0 ∧ f.lastclear = 0)
    (hprops : f.props = s.props.map fun p => PropSt.fresh p.cfg)
    (hwf : ∀ p ∈ s.props, PropWF p) (hcomplete : ∀ p ∈ s.props, p.cfg.savesNsteps = true) :
    Sfx (f.load sv) s ∧ Inv (f.load sv) := by
  unfold save at hsv
  split at hsv
  · rename_i cur n hcur hit
    simp only [Option.some.injEq] at hsv
    have hcl : f.clear = { f with lastclear := 0 } := by
      unfold clear; simp [hfresh.1]
    have hinv : Inv (f.load sv) :=
      inv_load ⟨by omega, fun i hi => by simp [len_def, hfresh.1, hfresh.2] at hi⟩ _
    refine ⟨?_, hinv⟩
    have hlen0 : len (f.load sv) = 0 := by simp [load, len_def]
    subst hsv
    refine ⟨?_, ?_, by simp [load], by simp [load], by simp [load], ?_, by simp [load], ?_, ?_, by simp [load]⟩
    · simp [load]
    · simp only [load, hcl, hprops]
      exact loadProps_roundtrip s.props hwf hcomplete
    · simp only [load]; exact hs.lc_le
    · intro i hi; rw [hlen0] at hi; omega
    · rw [hcur]
      unfold current
      rw [hlen0]
      simp only [if_true]
      simp [load]
  · simp at hsv

/-- The saved state of two related chains is the same value. -/
theorem C05_related_save_equal {a b : Chain} (h : Sfx a b) : a.save = b.save := by
  unfold save
  rw [h.current, h.iteration, h.chainId, h.proposed, h.hasblobs, h.props, h.beta]

/-- `fs` are freshly constructed levels of the same configuration as `ss`. -/
def FreshFor : List Chain → List Chain → Prop
  | [], [] => True
  | f :: fs, s :: ss => (f.iteration = 0 ∧ f.lastclear = 0 ∧
        f.props = s.props.map (fun p => PropSt.fresh p.cfg)) ∧ FreshFor fs ss
  | _, _ => False

/-- Level-wise lifting to a parallel-tempered (or plain) chain. -/
theorem levelsSfx_load : ∀ (ss fs : List Chain) (svs : List Saved),
    (∀ l ∈ ss, Inv l ∧ (∀ p ∈ l.props, PropWF p) ∧ (∀ p ∈ l.props, p.cfg.savesNsteps = true)) →
    ss.mapM Chain.save = some svs →
    FreshFor fs ss →
    LevelsSfx (PTChain.loadLevels fs svs) ss
  | [], [], svs, _, hsv, _ => by
      simp at hsv; subst hsv; trivial
  | s :: ss, f :: fs, svs, h, hsv, hf => by
      obtain ⟨hhead, htail⟩ := hf
      · simp only [List.mapM_cons, bind, Option.bind] at hsv
        cases h1 : s.save with
        | none => simp [h1] at hsv
        | some sv =>
          simp only [h1] at hsv
          cases h2 : ss.mapM Chain.save with
          | none => simp [h2] at hsv
          | some svs' =>
            simp [h2, pure] at hsv
            subst hsv
            obtain ⟨hi, hw, hc⟩ := h s (by simp)
            have := C05_resume_level s f sv hi h1 ⟨hhead.1, hhead.2.1⟩ hhead.2.2 hw hc
            exact ⟨⟨this.1, this.2, hi⟩,
                   levelsSfx_load ss fs svs' (fun l hl => h l (by simp [hl])) h2 htail⟩
  | [], _ :: _, _, _, _, hf => by simp [FreshFor] at hf
  | _ :: _, [], _, _, _, hf => by simp [FreshFor] at hf

theorem levelsSfx_betas : ∀ {as bs : List Chain}, LevelsSfx as bs → as.map (·.beta) = bs.map (·.beta)
  | [], [], _ => rfl
  | a :: as, b :: bs, h => by
      simp only [List.map_cons]; rw [h.1.1.beta, levelsSfx_betas h.2]
  | [], _ :: _, h => by simp [LevelsSfx] at h
  | _ :: _, [], h => by simp [LevelsSfx] at h

/-- RESUME, whole chain, every continuation. `s`: any chain (all levels structurally sound, with
    well-formed and state-complete proposals) that can be saved; `f`: a freshly constructed chain
    of the same configuration — its ladder may differ: the levels' betas travel in the saved state and the
    ladder array is rebuilt from them (a dynamically annealed ladder resumes adapted). For EVERY subsequent sequence of
    iterations, clears and run boundaries, the resumed chain reaches a state `PSfx`-related to the
    one the original reaches by just continuing: the same iterations are produced (current
    position/stats/blob, proposed points, proposal counters and adaptive updates, sweeps) — and
    it ends in the same saved state. No bound on the cut point or on the continuation. -/
theorem C05_resume_bisim (s f : PTChain) (svs : List Saved)
    (hs : ∀ l ∈ s.levels, Inv l ∧ (∀ p ∈ l.props, PropWF p) ∧ (∀ p ∈ l.props, p.cfg.savesNsteps = true))
    (hsv : s.save = some svs)
    (hf : FreshFor f.levels s.levels)
    (hcoh : C17.Coherent s ∧ C17.Coherent f)
    (hcfg : f.s = s.s ∧ f.resetAfterSwap = s.resetAfterSwap ∧ f.dynamic = s.dynamic)
    (ops : List C06.Op) :
    PSfx (C06.runOps (f.load svs) ops) (C06.runOps s (C06.strip ops)) ∧
    ((C06.runOps (f.load svs) ops).levels.map Chain.save =
       (C06.runOps s (C06.strip ops)).levels.map Chain.save) := by
  have hl0 := levelsSfx_load s.levels f.levels svs hs hsv hf
  have hb : (f.load svs).betas = s.betas := by
    have h1 : C17.Coherent (f.load svs) := C17.coherent_load f svs hcoh.2
    unfold C17.Coherent at h1
    rw [← h1, ← hcoh.1]
    exact levelsSfx_betas hl0
  have h0 : PSfx (f.load svs) s := ⟨hl0, hb, hcfg.1, hcfg.2.1, hcfg.2.2⟩
  have h1 := C06.C06_partition_and_clear_transparent h0 ops
  refine ⟨h1, ?_⟩
  have hl := h1.levels
  generalize (C06.runOps (f.load svs) ops).levels = xs at hl
  generalize (C06.runOps s (C06.strip ops)).levels = ys at hl
  induction xs generalizing ys with
  | nil => cases ys with
    | nil => rfl
    | cons _ _ => simp [LevelsSfx] at hl
  | cons x xs ih =>
    cases ys with
    | nil => simp [LevelsSfx] at hl
    | cons y ys =>
      simp only [List.map_cons]
      rw [C05_related_save_equal hl.1.1, ih ys hl.2]

theorem mapM_save_congr : ∀ (xs ys : List Chain), xs.map Chain.save = ys.map Chain.save →
    xs.mapM Chain.save = ys.mapM Chain.save
  | [], [], _ => rfl
  | x :: xs, y :: ys, h => by
      simp only [List.map_cons, List.cons.injEq] at h
      simp only [List.mapM_cons, h.1, mapM_save_congr xs ys h.2]
  | [], _ :: _, h => by simp at h
  | _ :: _, [], h => by simp at h

/-- A resume of a resumed run. After ANY continuation the resumed chain's `state` is the same
    VALUE as the uninterrupted chain's `state` at that point; `set_state` depends only on that
    value, so a second resume (into any fresh chain `f₂`) starts from exactly the state a first
    resume taken from the uninterrupted run would start from — and `C05_resume_bisim` applies again. -/
theorem C05_resume_of_resume (s f : PTChain) (svs : List Saved)
    (hs : ∀ l ∈ s.levels, Inv l ∧ (∀ p ∈ l.props, PropWF p) ∧ (∀ p ∈ l.props, p.cfg.savesNsteps = true))
    (hsv : s.save = some svs) (hf : FreshFor f.levels s.levels)
    (hcoh : C17.Coherent s ∧ C17.Coherent f)
    (hcfg : f.s = s.s ∧ f.resetAfterSwap = s.resetAfterSwap ∧ f.dynamic = s.dynamic)
    (ops : List C06.Op) (f₂ : PTChain) :
    (C06.runOps (f.load svs) ops).save = (C06.runOps s (C06.strip ops)).save ∧
    ∀ sv₂, (C06.runOps (f.load svs) ops).save = some sv₂ →
      (C06.runOps s (C06.strip ops)).save = some sv₂ ∧ f₂.load sv₂ = f₂.load sv₂ := by
  have h := (C05_resume_bisim s f svs hs hsv hf hcoh hcfg ops).2
  have e : (C06.runOps (f.load svs) ops).save = (C06.runOps s (C06.strip ops)).save := by
    unfold PTChain.save
    exact mapM_save_congr _ _ h
  exact ⟨e, fun sv₂ h2 => ⟨e ▸ h2, rfl⟩⟩

/-- Why `StateComplete` is needed: with a class whose `state` lacks the counter the round trip
    fails (interval 3, duration 5, saved after 4 iterations). -/
theorem C05_incomplete_state_counterexample :
    ∃ p : PropSt, PropWF p ∧ p.cfg.savesNsteps = false ∧ (PropSt.fresh p.cfg).load p.save ≠ p := by
  refine ⟨{ cfg := { params := [0], symmetric := true, adaptive := false, k := 3, dur := 5,
                     window := .none, T := 0, start0 := 1, comp := false, savesNsteps := false }
            raw := 4, startStep := 1, events := [] }, ?_, rfl, ?_⟩
  · intro _; exact ⟨rfl, rfl, rfl⟩
  · decide


/-! ### Every reachable state resumes exactly

The hypotheses of `C05_resume_bisim` are not assumptions about some ideal state: every state a
sampler can reach from construction — by setting start positions, iterating (with sweeps,
resets after swaps, annealing), clearing, growing and loading well-shaped saved states — meets
them, provided every proposal class saves its counter (`savesNsteps`, the table obligation) and
only adaptive classes have an adaptation window. -/

/-- A saved proposal list has the shape `PropSt.save` produces for these configurations:
    non-adaptive proposals carry no adaptive payload. -/
def ShapeOK : List PropCfg → List SavedProp → Prop
  | cfg :: cs, s :: ss => (cfg.adaptive = false → s.startStep = none ∧ s.events = none) ∧ ShapeOK cs ss
  | _, _ => True

theorem shapeOK_save (ps : List PropSt) : ShapeOK (ps.map (·.cfg)) (ps.map PropSt.save) := by
  induction ps with
  | nil => trivial
  | cons p ps ih =>
    refine ⟨?_, ih⟩
    intro ha
    simp [PropSt.save, ha]

/-- What every level of a reachable chain satisfies. -/
def LevelWF (cfgs : List PropCfg) (l : Chain) : Prop :=
  l.props.map (·.cfg) = cfgs ∧ ∀ p ∈ l.props, PropWF p

theorem update_cfg (p : PropSt) (a : Bool) (r : AR) (pos : List Val) : (p.update a r pos).cfg = p.cfg := rfl

theorem reset_cfg (p : PropSt) : p.reset.cfg = p.cfg := by
  unfold PropSt.reset; split <;> rfl

theorem clear_props (c : Chain) : c.clear.props = c.props := by
  unfold clear; split <;> rfl

theorem loadProps_wf : ∀ (ps : List PropSt) (ss : List SavedProp),
    (∀ p ∈ ps, PropWF p) → ShapeOK (ps.map (·.cfg)) ss →
    (loadProps ps ss).map (·.cfg) = ps.map (·.cfg) ∧ ∀ p ∈ loadProps ps ss, PropWF p
  | [], ss, _, _ => by cases ss <;> simp [loadProps]
  | p :: ps, [], h, _ => by simpa [loadProps] using h
  | p :: ps, s :: ss, h, hsh => by
    obtain ⟨h1, h2⟩ := hsh
    obtain ⟨i1, i2⟩ := loadProps_wf ps ss (fun q hq => h q (by simp [hq])) h2
    refine ⟨by simp only [loadProps, List.map_cons, i1]; rfl, ?_⟩
    intro q hq
    simp only [loadProps, List.mem_cons] at hq
    rcases hq with rfl | hq
    · intro ha
      have ha' : p.cfg.adaptive = false := ha
      obtain ⟨w1, w2, w3⟩ := h p (by simp) ha'
      obtain ⟨s1, s2⟩ := h1 ha'
      refine ⟨?_, ?_, w3⟩
      · simp [PropSt.load, s1, w1]
      · simp [PropSt.load, s2, w2]
    · exact i2 q hq

theorem levelWF_apply (cfgs : List PropCfg) (c : Chain) (op : Chain.Op)
    (hg : ∀ s, op = Chain.Op.load s → ShapeOK cfgs s.props) (h : LevelWF cfgs c) :
    LevelWF cfgs (c.apply op) := by
  obtain ⟨h1, h2⟩ := h
  cases op with
  | start pos e =>
    simp only [Chain.apply]; unfold setStart
    split
    · exact ⟨h1, h2⟩
    · exact ⟨h1, h2⟩
  | step i =>
    simp only [Chain.apply]
    cases hs : c.step i with
    | none => exact ⟨h1, h2⟩
    | some c' =>
      obtain ⟨cur, _, hp⟩ := C18.C15_others hs
      simp only [Option.getD_some]
      refine ⟨?_, ?_⟩
      · rw [hp, List.map_map, ← h1]; rfl
      · intro p hp'
        rw [hp] at hp'
        simp only [List.mem_map] at hp'
        obtain ⟨q, hq, rfl⟩ := hp'
        exact propWF_update q (h2 q hq) _ _ _
  | clear => simp only [Chain.apply]; rw [LevelWF, clear_props]; exact ⟨h1, h2⟩
  | grow n => exact ⟨h1, h2⟩
  | extend n => exact ⟨h1, h2⟩
  | load s =>
    have hsh := hg s rfl
    simp only [Chain.apply, Chain.load, LevelWF]
    rw [clear_props]
    rw [← h1] at hsh
    obtain ⟨i1, i2⟩ := loadProps_wf c.props s.props h2 hsh
    exact ⟨by rw [i1, h1], i2⟩
  | rewrite st =>
    simp only [Chain.apply, LevelWF]
    rw [(rewriteLast_fields c st).2.2.2.2.1]; exact ⟨h1, h2⟩
  | reset =>
    simp only [Chain.apply, resetProposals, LevelWF]
    refine ⟨?_, ?_⟩
    · rw [List.map_map, ← h1]; congr 1; funext p; exact reset_cfg p
    · intro p hp
      simp only [List.mem_map] at hp
      obtain ⟨q, hq, rfl⟩ := hp
      exact propWF_reset q (h2 q hq)

theorem setStarts_length : ∀ (ls : List Chain) (xs : List (List Val × Eval)),
    (PTChain.setStarts ls xs).length = ls.length
  | [], xs => by cases xs <;> rfl
  | _ :: _, [] => rfl
  | l :: ls, (_, _) :: xs => by simp [PTChain.setStarts, setStarts_length ls xs]

/-- No operation changes the number of levels or the static configuration of a chain. -/
theorem static_apply (c : PTChain) (op : PTChain.Op) :
    (c.apply op).levels.length = c.levels.length ∧ (c.apply op).s = c.s ∧
    (c.apply op).resetAfterSwap = c.resetAfterSwap ∧ (c.apply op).dynamic = c.dynamic := by
  cases op with
  | start xs => exact ⟨setStarts_length _ _, rfl, rfl, rfl⟩
  | step i =>
    simp only [PTChain.apply]
    cases hs : c.step i with
    | none => exact ⟨rfl, rfl, rfl, rfl⟩
    | some c' =>
      simp only [Option.getD_some]
      have hn := C18.step_ntemps hs
      unfold PTChain.step at hs
      simp only [bind, Option.bind] at hs
      cases h1 : PTChain.stepLevels c.levels i.levels with
      | none => simp [h1] at hs
      | some ls =>
        simp only [h1] at hs
        refine ⟨hn, ?_⟩
        split at hs
        · unfold PTChain.swapTemperatures at hs
          split at hs
          · simp only [Option.some.injEq] at hs
            subst hs
            unfold PTChain.afterSweep
            simp only
            split <;> exact ⟨rfl, rfl, rfl⟩
          · simp at hs
        · simp [pure] at hs; subst hs; exact ⟨rfl, rfl, rfl⟩
  | clear => simp [PTChain.apply, PTChain.clear]
  | extend n => simp [PTChain.apply, PTChain.extendFor, PTChain.setScratchlen]
  | load sv => simp [PTChain.apply, PTChain.load, C17.loadLevels_length]

theorem static_runOps (c : PTChain) (ops : List PTChain.Op) :
    (PTChain.runOps c ops).levels.length = c.levels.length ∧ (PTChain.runOps c ops).s = c.s ∧
    (PTChain.runOps c ops).resetAfterSwap = c.resetAfterSwap ∧
    (PTChain.runOps c ops).dynamic = c.dynamic := by
  induction ops generalizing c with
  | nil => exact ⟨rfl, rfl, rfl, rfl⟩
  | cons op ops ih =>
    obtain ⟨a1, a2, a3, a4⟩ := ih (c.apply op)
    obtain ⟨b1, b2, b3, b4⟩ := static_apply c op
    exact ⟨a1.trans b1, a2.trans b2, a3.trans b3, a4.trans b4⟩

theorem freshFor_of_cfgs (cfgs : List PropCfg) (cid : Nat) : ∀ (bs : List Rat) (ss : List Chain),
    bs.length = ss.length → (∀ l ∈ ss, l.props.map (·.cfg) = cfgs) →
    FreshFor (bs.map fun b => Chain.fresh b cfgs cid) ss
  | [], [], _, _ => trivial
  | b :: bs, s :: ss, hl, h => by
    refine ⟨⟨rfl, rfl, ?_⟩, freshFor_of_cfgs cfgs cid bs ss (by simpa using hl)
      (fun l hl => h l (by simp [hl]))⟩
    have := h s (by simp)
    simp only [Chain.fresh]
    rw [← this, List.map_map]; rfl
  | [], _ :: _, hl, _ => by simp at hl
  | _ :: _, [], hl, _ => by simp at hl

/-- RESUME FROM ANY REACHABLE STATE. `hist` is everything that happened to the source sampler's
    chain since it was built (`PTChain.fresh`: any ladder, swap interval, proposal list,
    `reset_after_swap`, annealing flag): start positions, iterations with their sweeps, clears,
    growth, loads of well-shaped states. If the state can be saved at all (`hsv`), then a newly
    built chain of the same configuration that loads it behaves, under EVERY continuation `ops`,
    exactly like the source continuing — the conclusion of `C05_resume_bisim`. The only
    assumptions are about the proposal classes: each saves its counter and only adaptive
    classes have a window (the `StateComplete` table obligation + translator). -/
theorem C05_resume_reachable (betas : List Rat) (s : Nat) (cfgs : List PropCfg) (reset dyn : Bool)
    (cid cid' : Nat)
    (hcfg : ∀ cfg ∈ cfgs, cfg.savesNsteps = true ∧ (cfg.adaptive = false → cfg.window = .none))
    (hist : List PTChain.Op) (hg : ∀ op ∈ hist, op.guarded (fun sv => ShapeOK cfgs sv.props))
    (svs : List Saved)
    (hsv : (PTChain.runOps (PTChain.fresh betas s cfgs reset dyn cid) hist).save = some svs)
    (ops : List C06.Op) :
    PSfx (C06.runOps ((PTChain.fresh betas s cfgs reset dyn cid').load svs) ops)
         (C06.runOps (PTChain.runOps (PTChain.fresh betas s cfgs reset dyn cid) hist) (C06.strip ops)) ∧
    ((C06.runOps ((PTChain.fresh betas s cfgs reset dyn cid').load svs) ops).levels.map Chain.save =
       (C06.runOps (PTChain.runOps (PTChain.fresh betas s cfgs reset dyn cid) hist)
          (C06.strip ops)).levels.map Chain.save) := by
  have hfresh : ∀ cid, ∀ l ∈ (PTChain.fresh betas s cfgs reset dyn cid).levels, LevelWF cfgs l := by
    intro cid l hl
    simp only [PTChain.fresh, List.mem_map] at hl
    obtain ⟨b, _, rfl⟩ := hl
    refine ⟨by simp only [Chain.fresh, List.map_map]; exact List.map_id' cfgs |>.symm ▸ (by
      induction cfgs with
      | nil => rfl
      | cons c cs ih => simp), ?_⟩
    intro p hp
    simp only [Chain.fresh, List.mem_map] at hp
    obtain ⟨cfg, hc, rfl⟩ := hp
    exact propWF_fresh cfg (hcfg cfg hc).2
  have hwf := lift_runOpsG (LevelWF cfgs) (fun sv => ShapeOK cfgs sv.props)
    (fun c op hgd h => levelWF_apply cfgs c op hgd h) (fun c b h => h) (hfresh cid) hist hg
  have hinv := lift_runOps Chain.Inv (fun c op h => inv_apply h op) (fun c b h => ⟨h.1, h.2⟩)
    (c := PTChain.fresh betas s cfgs reset dyn cid) (by
      intro l hl
      simp only [PTChain.fresh, List.mem_map] at hl
      obtain ⟨b, _, rfl⟩ := hl
      exact inv_fresh b cfgs cid) hist
  obtain ⟨hlen, hs', hr', hd'⟩ := static_runOps (PTChain.fresh betas s cfgs reset dyn cid) hist
  refine C05_resume_bisim _ _ svs ?_ hsv ?_ ⟨?_, C17.C17_fresh_coherent _ _ _ _ _ _⟩ ?_ ops
  · intro l hl
    obtain ⟨w1, w2⟩ := hwf l hl
    refine ⟨hinv l hl, w2, ?_⟩
    intro p hp
    have : p.cfg ∈ cfgs := by rw [← w1]; exact List.mem_map_of_mem hp
    exact (hcfg _ this).1
  · have : (PTChain.fresh betas s cfgs reset dyn cid').levels =
        betas.map fun b => Chain.fresh b cfgs cid' := rfl
    rw [this]
    apply freshFor_of_cfgs
    · rw [hlen]; simp [PTChain.fresh]
    · intro l hl; exact (hwf l hl).1
  · exact C17.C17_coherent _ hist (C17.C17_fresh_coherent _ _ _ _ _ _)
  · exact ⟨hs'.symm, hr'.symm, hd'.symm⟩

/-! ### Non-vacuity: a concrete history (start, growth, an iteration with an accepted move, a
rejected move and an exchanging sweep) ends in a state that can be saved, its loads are guarded,
its proposal configuration meets `hcfg` — so `C05_resume_reachable` applies to it, and the state
`PropSt.save` produces always has the guarded shape. -/

example : ∃ svs, (PTChain.runOps (PTChain.fresh [1, 1/2] 1 [C08.cfg0]) C08.ops0).save = some svs := by
  have h : ((PTChain.runOps (PTChain.fresh [1, 1/2] 1 [C08.cfg0]) C08.ops0).save).isSome = true := by
    decide +kernel
  exact Option.isSome_iff_exists.mp h

example : ∀ op ∈ C08.ops0, op.guarded (fun sv => ShapeOK [C08.cfg0] sv.props) := by
  intro op h
  simp only [C08.ops0, List.mem_cons, List.not_mem_nil, or_false] at h
  rcases h with rfl | rfl | rfl <;> trivial

example : ∀ cfg ∈ [C08.cfg0], cfg.savesNsteps = true ∧ (cfg.adaptive = false → cfg.window = .none) := by
  intro cfg h; simp at h; subst h; exact ⟨rfl, fun _ => rfl⟩

example (l : Chain) (sv : Saved) (h : l.save = some sv) : ShapeOK (l.props.map (·.cfg)) sv.props := by
  unfold save at h
  split at h
  · simp only [Option.some.injEq] at h; subst h; exact shapeOK_save _
  · simp at h

end Epsie.C05
