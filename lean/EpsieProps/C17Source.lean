/-
  C17, source tie: the ladder recursion of `DynamicalAnnealer.__call__` as translated from
  `epsie/chain/ptchain.py` on every run by harness/gen_source.py (`Gen.annealLoop`)

      for i in range(1, chain.ntemps - 1):
          chain.betas[i] = 1./(1./chain.betas[i-1] + numpy.exp(self._S[i-1]))
          chain.chains[i].beta = chain.betas[i]

  computes the same ladder as the hand-written model `Ladder.anneal` about which the C17 theorems
  are proved, and gives every intermediate level object exactly the beta stored in the ladder at
  its index.
-/
import EpsieModel.Generated.Source
import EpsieModel.Ladder
namespace Epsie.C17
open Epsie Ladder

/-! ### Lemmas about the prelude operations -/

theorem src17_get_nat (l : List Rat) (i : Nat) : Src.get l (i : Int) = l.getD i 0 := by
  unfold Src.get
  have h : ¬ ((i : Int) < 0) := by omega
  simp only [h, if_false, Int.toNat_natCast]
  rfl

theorem src17_set_nat {α} (l : List α) (i : Nat) (v : α) : Src.set l (i : Int) v = l.set i v := by
  unfold Src.set
  have h : ¬ ((i : Int) < 0) := by omega
  simp [h]

theorem src17_rangeUp_nil (a b : Int) (h : b ≤ a) : Src.rangeUp a b = [] := by
  unfold Src.rangeUp
  have h0 : (b - a).toNat = 0 := by omega
  rw [h0]; rfl

theorem src17_rangeUp_cons (a b : Int) (h : a < b) :
    Src.rangeUp a b = a :: Src.rangeUp (a + 1) b := by
  unfold Src.rangeUp
  obtain ⟨m, hm⟩ : ∃ m : Nat, (b - (a + 1)).toNat = m := ⟨_, rfl⟩
  have h1 : (b - a).toNat = m + 1 := by omega
  rw [h1, hm, List.range_succ_eq_map, List.map_cons, List.map_map]
  congr 1
  · simp
  · apply List.map_congr_left
    intro i _
    show a + ((i + 1 : Nat) : Int) = a + 1 + (i : Int)
    omega

theorem al_getD_append_len (pre : List Rat) (a : Rat) (tl : List Rat) :
    (pre ++ a :: tl).getD pre.length 0 = a := by
  induction pre with
  | nil => simp
  | cons p pre ih => simp

theorem al_getD_append_len_succ (pre : List Rat) (a b : Rat) (tl : List Rat) :
    (pre ++ a :: b :: tl).getD (pre.length + 1) 0 = b := by
  induction pre with
  | nil => simp
  | cons p pre ih => simp

theorem al_set_append_len_succ (pre : List Rat) (a x b : Rat) (tl : List Rat) :
    (pre ++ a :: x :: tl).set (pre.length + 1) b = pre ++ a :: b :: tl := by
  induction pre with
  | nil => simp
  | cons p pre ih => simp

theorem al_getD_pad (es : List Rat) (p j : Nat) :
    (es ++ List.replicate p (0 : Rat)).getD j 0 = es.getD j 0 := by
  simp only [List.getD_eq_getElem?_getD, List.getElem?_append, List.getElem?_replicate]
  split
  · rfl
  · rename_i h
    have : es[j]? = none := List.getElem?_eq_none (by omega)
    rw [this]
    split <;> rfl

/-! ### The model's recursion -/

theorem al_annealFrom_nil (prev : Rat) (es : List Rat) : annealFrom prev [] es = [] := by
  unfold annealFrom; rfl

theorem al_annealFrom_single (prev last : Rat) (es : List Rat) :
    annealFrom prev [last] es = [last] := by
  unfold annealFrom; rfl

theorem al_annealFrom_cons (prev x y e : Rat) (r es : List Rat) :
    annealFrom prev (x :: y :: r) (e :: es)
      = (1 / (1 / prev + e)) :: annealFrom (1 / (1 / prev + e)) (y :: r) es := by
  rw [annealFrom]
  simp

theorem al_annealFrom_length (rest : List Rat) :
    ∀ (prev : Rat) (es : List Rat), (annealFrom prev rest es).length = rest.length := by
  induction rest with
  | nil => intro prev es; rw [al_annealFrom_nil]
  | cons x r ih =>
    intro prev es
    cases r with
    | nil => rw [al_annealFrom_single]
    | cons y r' =>
      cases es with
      | nil => unfold annealFrom; rfl
      | cons e es' => rw [al_annealFrom_cons, List.length_cons, ih, List.length_cons, List.length_cons, List.length_cons]

/-! ### The loop body and its invariant -/

/-- The loop-carried state of the translated loop: `(betas, levelW)`. -/
abbrev ASt := List Rat × List (Int × Rat)

/-- The body of the `for` loop of `Gen.annealLoop` (`Gen.annealLoop` is literally the fold of this
    body: `annealLoop_eq`, by `rfl`). -/
def annealBody (es : List Rat) (i : Int) : ASt → ASt :=
  fun (betas, levelW) =>
      let betas := Src.set betas i (((1 : Rat) : Rat) / (((((1 : Rat) : Rat) / ((Src.get betas (i - 1)) : Rat)) + (Src.get es (i - 1))) : Rat))
      let levelW := Src.wr levelW i (Src.get betas i)
      (betas, levelW)

theorem annealLoop_eq (ntemps : Int) (betas es : List Rat) :
    Gen.annealLoop ntemps betas es
      = Src.forIn (Src.rangeUp 1 (ntemps - 1)) (betas, []) (annealBody es) := rfl

/-- One iteration at level `pre.length + 1`: reads the (already updated) colder neighbour `prev`
    and `es[pre.length]`, overwrites the old beta `x` of this level, and logs the stored value. -/
theorem annealBody_step (es pre : List Rat) (prev x : Rat) (tl : List Rat) (log : List (Int × Rat)) :
    annealBody es ((pre.length : Int) + 1) (pre ++ prev :: x :: tl, log) =
      (pre ++ prev :: (1 / (1 / prev + es.getD pre.length 0)) :: tl,
       log ++ [((pre.length : Int) + 1, 1 / (1 / prev + es.getD pre.length 0))]) := by
  have hi : (pre.length : Int) + 1 - 1 = (pre.length : Int) := by omega
  have hi' : (pre.length : Int) + 1 = ((pre.length + 1 : Nat) : Int) := by omega
  have h1 : Src.get (pre ++ prev :: x :: tl) (pre.length : Int) = prev := by
    rw [src17_get_nat, al_getD_append_len]
  have h2 : Src.get es (pre.length : Int) = es.getD pre.length 0 := src17_get_nat _ _
  have h3 : ∀ b : Rat, Src.set (pre ++ prev :: x :: tl) ((pre.length + 1 : Nat) : Int) b
      = pre ++ prev :: b :: tl := by
    intro b; rw [src17_set_nat, al_set_append_len_succ]
  have h4 : ∀ b : Rat, Src.get (pre ++ prev :: b :: tl) ((pre.length + 1 : Nat) : Int) = b := by
    intro b; rw [src17_get_nat, al_getD_append_len_succ]
  simp only [annealBody, hi, h1, h2]
  rw [hi']
  simp only [h3, h4, Src.wr]

/-- Loop invariant, generalised over the position reached: with `pre ++ [prev]` already final and
    `rest` (old values, the hottest last) still to visit, the translated `for` loop over
    `range(pre.length + 1, pre.length + rest.length)` rewrites `rest` into the model's
    `annealFrom prev rest (es.drop pre.length)` and logs one entry per rewritten level, holding the
    value stored in the ladder. -/
theorem annealLoop_invariant (es : List Rat) :
    ∀ (rest pre : List Rat) (prev : Rat) (log : List (Int × Rat)) (hi : Int),
      hi = (pre.length : Int) + (rest.length : Int) →
      pre.length + rest.length ≤ es.length + 1 →
      Src.forIn (Src.rangeUp ((pre.length : Int) + 1) hi) (pre ++ prev :: rest, log) (annealBody es)
        = (pre ++ prev :: annealFrom prev rest (es.drop pre.length),
           log ++ (List.range (rest.length - 1)).map (fun (j : Nat) =>
              ((pre.length : Int) + 1 + (j : Int),
               (annealFrom prev rest (es.drop pre.length)).getD j 0))) := by
  intro rest
  induction rest with
  | nil =>
    intro pre prev log hi hhi _
    rw [src17_rangeUp_nil _ _ (by simp at hhi; omega), al_annealFrom_nil]
    simp [Src.forIn]
  | cons x r ih =>
    intro pre prev log hi hhi hes
    cases r with
    | nil =>
      rw [src17_rangeUp_nil _ _ (by simp at hhi; omega), al_annealFrom_single]
      simp [Src.forIn]
    | cons y r' =>
      simp only [List.length_cons] at hhi hes
      have hk : pre.length < es.length := by omega
      have hdrop : es.drop pre.length = es.getD pre.length 0 :: es.drop (pre.length + 1) := by
        rw [List.drop_eq_getElem_cons hk]
        simp [List.getD_eq_getElem?_getD, List.getElem?_eq_getElem hk]
      rw [src17_rangeUp_cons _ _ (by omega)]
      unfold Src.forIn
      rw [List.foldl_cons, annealBody_step]
      have hlen : (pre ++ [prev]).length = pre.length + 1 := by simp
      have hIH := ih (pre ++ [prev]) (1 / (1 / prev + es.getD pre.length 0))
        (log ++ [((pre.length : Int) + 1, 1 / (1 / prev + es.getD pre.length 0))]) hi
        (by rw [hlen]; simp only [List.length_cons]; omega)
        (by rw [hlen]; simp only [List.length_cons]; omega)
      unfold Src.forIn at hIH
      rw [hlen] at hIH
      have hc : ((pre.length + 1 : Nat) : Int) = (pre.length : Int) + 1 := by omega
      rw [hc] at hIH
      simp only [List.append_assoc, List.singleton_append] at hIH
      rw [hIH, hdrop, al_annealFrom_cons]
      congr 1
      simp only [List.length_cons, Nat.add_sub_cancel]
      rw [List.range_succ_eq_map, List.map_cons, List.map_map]
      congr 2
      apply List.map_congr_left
      intro j _
      simp only [Function.comp_apply, Nat.succ_eq_add_one, List.getD_cons_succ]
      congr 1
      omega

theorem src17_mem_rangeUp (a b i : Int) : i ∈ Src.rangeUp a b ↔ a ≤ i ∧ i < b := by
  unfold Src.rangeUp
  simp only [List.mem_map, List.mem_range]
  constructor
  · rintro ⟨j, hj, rfl⟩; omega
  · rintro ⟨h1, h2⟩; exact ⟨(i - a).toNat, by omega, by omega⟩

theorem al_foldl_congr {σ} (f g : σ → Int → σ) (l : List Int)
    (h : ∀ s, ∀ v ∈ l, f s v = g s v) : ∀ s, l.foldl f s = l.foldl g s := by
  induction l with
  | nil => intro s; rfl
  | cons v l ih =>
    intro s
    rw [List.foldl_cons, List.foldl_cons, h s v (by simp)]
    exact ih (fun s w hw => h s w (by simp [hw])) _

/-- The translation reads `es` totally (`Src.get`, out of range ↦ `0`), so appending zeros to `es`
    does not change what the translated loop computes.  (The Python code would raise `IndexError`
    instead; the statements below that carry no hypothesis on `es.length` are, for a too short
    `es`, statements about this totalisation.) -/
theorem annealLoop_pad (ntemps : Int) (betas es : List Rat) (p : Nat) :
    Gen.annealLoop ntemps betas (es ++ List.replicate p 0) = Gen.annealLoop ntemps betas es := by
  rw [annealLoop_eq, annealLoop_eq]
  unfold Src.forIn
  apply al_foldl_congr
  intro s v hv
  obtain ⟨b, l⟩ := s
  rw [src17_mem_rangeUp] at hv
  obtain ⟨j, hj⟩ : ∃ j : Nat, v - 1 = (j : Int) := ⟨(v - 1).toNat, by omega⟩
  simp only [annealBody, hj, src17_get_nat es, src17_get_nat (es ++ _), al_getD_pad]

/-- The whole translated loop on a non-empty ladder `b0 :: rest` with `es` long enough. -/
theorem annealLoop_cons (b0 : Rat) (rest es : List Rat) (hes : rest.length ≤ es.length + 1) :
    Gen.annealLoop ((rest.length + 1 : Nat) : Int) (b0 :: rest) es
      = (b0 :: annealFrom b0 rest es,
         (List.range (rest.length - 1)).map (fun (j : Nat) =>
            ((1 : Int) + (j : Int), (annealFrom b0 rest es).getD j 0))) := by
  rw [annealLoop_eq]
  have h := annealLoop_invariant es rest [] b0 [] (((rest.length + 1 : Nat) : Int) - 1)
    (by simp only [List.length_nil]; omega) (by simp only [List.length_nil]; omega)
  simpa using h

/-! ### Facts about the model's recursion used below -/

theorem al_annealFrom_last (rest : List Rat) :
    ∀ (prev : Rat) (es : List Rat),
      (annealFrom prev rest es)[rest.length - 1]? = rest[rest.length - 1]? := by
  induction rest with
  | nil => intro prev es; rw [al_annealFrom_nil]
  | cons x r ih =>
    intro prev es
    cases r with
    | nil => rw [al_annealFrom_single]
    | cons y r' =>
      cases es with
      | nil => unfold annealFrom; rfl
      | cons e es' =>
        rw [al_annealFrom_cons]
        have := ih (1 / (1 / prev + e)) es'
        simpa using this

theorem al_annealFrom_rec (rest : List Rat) :
    ∀ (prev : Rat) (es : List Rat) (j : Nat), j + 1 < rest.length → j < es.length →
      (annealFrom prev rest es).getD j 0
        = 1 / (1 / (prev :: annealFrom prev rest es).getD j 0 + es.getD j 0) := by
  induction rest with
  | nil => intro prev es j h; simp at h
  | cons x r ih =>
    intro prev es j hj hje
    cases r with
    | nil => simp at hj
    | cons y r' =>
      cases es with
      | nil => simp at hje
      | cons e es' =>
        rw [al_annealFrom_cons]
        cases j with
        | zero => simp
        | succ j' =>
          have := ih (1 / (1 / prev + e)) es' j' (by simpa using hj) (by simpa using hje)
          simpa using this

/-! ### The tie -/

/-- THE TRANSLATED LADDER RECURSION IS THE MODEL'S, for every ladder: with `betas.length = n`
    (`n = chain.ntemps`; `n = 0, 1, 2` included — the loop does not run and both sides return
    `betas`) and `es` long enough for the code not to read beyond its end (`n - 2 ≤ es.length`,
    natural subtraction: no condition when `n ≤ 2`), the ladder left by the translated `for` loop
    is `Ladder.anneal betas es`.

    The length hypothesis is needed: for a too short `es` the Python code raises `IndexError`, the
    translation reads `0` (`Src.get`) and so copies the colder neighbour, whereas `Ladder.anneal`
    stops rewriting and keeps the old betas (see the last `example`). -/
theorem C17_source_anneal_loop (n : Nat) (betas es : List Rat) (hlen : betas.length = n)
    (hes : n - 2 ≤ es.length) :
    (Gen.annealLoop (n : Int) betas es).1 = Ladder.anneal betas es := by
  subst hlen
  cases betas with
  | nil =>
    rw [annealLoop_eq, src17_rangeUp_nil _ _ (by simp)]
    rfl
  | cons b0 rest =>
    rw [List.length_cons, annealLoop_cons b0 rest es (by simp only [List.length_cons] at hes; omega)]
    rfl

/-- For `n ≤ 2` the loop does not run: nothing is rewritten, nothing is logged, whatever `es`. -/
theorem C17_source_anneal_loop_short (n : Int) (betas es : List Rat) (hn : n ≤ 2) :
    Gen.annealLoop n betas es = (betas, []) := by
  rw [annealLoop_eq, src17_rangeUp_nil _ _ (by omega)]
  rfl

/-- LEVELS AND LADDER CANNOT DRIFT APART: the write log of `chain.chains[i].beta = ...` is exactly
    `[(i, newbetas[i]) for i in range(1, n-1)]` with `newbetas` the ladder the loop leaves — every
    intermediate level object is given precisely the value stored in the ladder at its index, in
    index order, once. -/
theorem C17_source_levels_get_ladder (n : Nat) (betas es : List Rat) (hlen : betas.length = n) :
    (Gen.annealLoop (n : Int) betas es).2
      = (Src.rangeUp 1 ((n : Int) - 1)).map
          (fun i => (i, Src.get (Gen.annealLoop (n : Int) betas es).1 i)) := by
  rw [← annealLoop_pad _ _ es n]
  subst hlen
  cases betas with
  | nil =>
    rw [annealLoop_eq, src17_rangeUp_nil _ _ (by simp)]
    rfl
  | cons b0 rest =>
    rw [List.length_cons, annealLoop_cons b0 rest _ (by simp; omega)]
    simp only
    unfold Src.rangeUp
    have hm : (((rest.length + 1 : Nat) : Int) - 1 - 1).toNat = rest.length - 1 := by omega
    rw [hm, List.map_map]
    apply List.map_congr_left
    intro j _
    have hj : (1 : Int) + (j : Int) = ((j + 1 : Nat) : Int) := by omega
    simp only [Function.comp_apply]
    rw [hj, src17_get_nat, List.getD_cons_succ]

/-- Hence every logged write `(i, v)` is at an intermediate level `1 ≤ i ≤ n-2` and carries the
    ladder's value; in particular the coldest level (index 0) and the hottest (index n-1) are
    never written. -/
theorem C17_source_levels_written (n : Nat) (betas es : List Rat) (hlen : betas.length = n)
    (i : Int) (v : Rat) (h : (i, v) ∈ (Gen.annealLoop (n : Int) betas es).2) :
    1 ≤ i ∧ i ≤ (n : Int) - 2 ∧ v = Src.get (Gen.annealLoop (n : Int) betas es).1 i := by
  rw [C17_source_levels_get_ladder n betas es hlen, List.mem_map] at h
  obtain ⟨i', hi', heq⟩ := h
  rw [src17_mem_rangeUp] at hi'
  simp only [Prod.mk.injEq] at heq
  obtain ⟨rfl, rfl⟩ := heq
  exact ⟨hi'.1, by omega, rfl⟩

theorem C17_source_levels_endpoints_not_written (n : Nat) (betas es : List Rat)
    (hlen : betas.length = n) (v : Rat) :
    ((0 : Int), v) ∉ (Gen.annealLoop (n : Int) betas es).2 ∧
    ((n : Int) - 1, v) ∉ (Gen.annealLoop (n : Int) betas es).2 := by
  constructor
  · intro h
    have := C17_source_levels_written n betas es hlen _ _ h
    omega
  · intro h
    have := C17_source_levels_written n betas es hlen _ _ h
    omega

/-- Conversely every intermediate level is written (exactly once, by the list form above). -/
theorem C17_source_levels_all_written (n : Nat) (betas es : List Rat) (hlen : betas.length = n)
    (i : Int) (h1 : 1 ≤ i) (h2 : i ≤ (n : Int) - 2) :
    (i, Src.get (Gen.annealLoop (n : Int) betas es).1 i) ∈ (Gen.annealLoop (n : Int) betas es).2 := by
  rw [C17_source_levels_get_ladder n betas es hlen, List.mem_map]
  exact ⟨i, (src17_mem_rangeUp _ _ _).mpr ⟨h1, by omega⟩, rfl⟩

/-- The ladder keeps its length, its coldest entry and its hottest entry (whatever `es`). -/
theorem C17_source_endpoints_fixed (n : Nat) (betas es : List Rat) (hlen : betas.length = n) :
    (Gen.annealLoop (n : Int) betas es).1.length = n ∧
    (Gen.annealLoop (n : Int) betas es).1[0]? = betas[0]? ∧
    (Gen.annealLoop (n : Int) betas es).1[n - 1]? = betas[n - 1]? := by
  rw [← annealLoop_pad _ _ es n]
  subst hlen
  cases betas with
  | nil =>
    rw [annealLoop_eq, src17_rangeUp_nil _ _ (by simp)]
    exact ⟨rfl, rfl, rfl⟩
  | cons b0 rest =>
    rw [List.length_cons, annealLoop_cons b0 rest _ (by simp; omega)]
    refine ⟨by simp [al_annealFrom_length], by simp, ?_⟩
    cases rest with
    | nil => rw [al_annealFrom_nil]
    | cons x r =>
      have := al_annealFrom_last (x :: r) b0 (es ++ List.replicate ((x :: r).length + 1) 0)
      simpa using this

/-- THE RECURSION, with the colder neighbour ALREADY updated: for `1 ≤ i ≤ n-2`,
    `newbetas[i] = 1 / (1 / newbetas[i-1] + es[i-1])` (`es[i-1] = exp(S[i-1])`; read as `0` beyond
    the end of `es`, where the Python code would raise). -/
theorem C17_source_recursion (n : Nat) (betas es : List Rat) (hlen : betas.length = n)
    (i : Nat) (h1 : 1 ≤ i) (h2 : i + 2 ≤ n) :
    (Gen.annealLoop (n : Int) betas es).1.getD i 0
      = 1 / (1 / (Gen.annealLoop (n : Int) betas es).1.getD (i - 1) 0 + es.getD (i - 1) 0) := by
  rw [← annealLoop_pad _ _ es n, ← al_getD_pad es n (i - 1)]
  subst hlen
  cases betas with
  | nil => simp at h2
  | cons b0 rest =>
    rw [List.length_cons, annealLoop_cons b0 rest _ (by simp; omega)]
    obtain ⟨j, rfl⟩ : ∃ j, i = j + 1 := ⟨i - 1, by omega⟩
    simp only [Nat.add_sub_cancel, List.getD_cons_succ]
    exact al_annealFrom_rec rest b0 _ j (by simp only [List.length_cons] at h2; omega)
      (by simp only [List.length_cons] at h2; simp; omega)

/-! ### Concrete ladders (kernel evaluation of the translated code and of the model) -/

/-- Four levels, `betas = [1, 1/2, 1/4, 0]`, `exp(S) = [2, 1/2]`: `betas[1] = 1/(1/1 + 2) = 1/3`,
    `betas[2] = 1/(1/(1/3) + 1/2) = 2/7` (from the UPDATED `betas[1]`, not from the old `1/2`, which
    would give `2/5`); levels 1 and 2 get these values, levels 0 and 3 are untouched. -/
example :
    Gen.annealLoop 4 [1, 1/2, 1/4, 0] [2, 1/2] = ([1, 1/3, 2/7, 0], [(1, 1/3), (2, 2/7)])
    ∧ Ladder.anneal [1, 1/2, 1/4, 0] [2, 1/2] = [1, 1/3, 2/7, 0] := by
  decide +kernel

/-- The hypothesis `n - 2 ≤ es.length` of `C17_source_anneal_loop` cannot be dropped: with four
    levels and a single increment the translation reads `es[1]` as `0` and copies `betas[1]` into
    `betas[2]` (Python: `IndexError`), the model keeps the old `1/4`. -/
example :
    Gen.annealLoop 4 [1, 1/2, 1/4, 0] [2] = ([1, 1/3, 1/3, 0], [(1, 1/3), (2, 1/3)])
    ∧ Ladder.anneal [1, 1/2, 1/4, 0] [2] = [1, 1/3, 1/4, 0] := by
  decide +kernel

end Epsie.C17
