/-
  C15 — A slow parameter moves only every jump_interval-th step, then every step.

  Model: `PropSt.callJump` is `BaseProposal._call_jump` verbatim; it gates
  `jump`, `logpdf` and `update` alike; the private counter advances on every
  chain iteration (`PropSt.update`).  The table obligation "every class passes a
  requested jump_interval to the base class" is in EpsieProps/C15Table.lean.
-/
import EpsieProofs.Schedule
namespace Epsie.C15
open Chain

/-- The schedule, exactly: a proposal is due iff its interval is 1, or its duration of
    proposal steps has elapsed (measured from `start_step` for adaptive classes), or the
    private counter is a multiple of the interval. -/
theorem C15_schedule (p : PropSt) :
    p.callJump = true ↔
      (p.cfg.k = 1 ∨ (p.cfg.dur : Int) ≤ p.dkJump ∨ p.raw % p.cfg.k = 0) := by
  unfold PropSt.callJump
  by_cases h1 : p.cfg.k = 1 ∨ p.dkJump ≥ (p.cfg.dur : Int)
  · simp only [h1, if_true, true_iff]
    rcases h1 with h | h
    · exact Or.inl h
    · exact Or.inr (Or.inl h)
  · simp only [h1, if_false]
    have hk : ¬ p.cfg.k = 1 := fun h => h1 (Or.inl h)
    have hd : ¬ (p.cfg.dur : Int) ≤ p.dkJump := fun h => h1 (Or.inr h)
    by_cases h2 : p.raw % p.cfg.k = 0
    · simp [h2]
    · simp [h2, hk, hd]

/-- The private counter of every proposal is the number of iterations its chain has made:
    it advances on every iteration whether or not the proposal was due. Holds across
    clears, scratch growth, swaps, resets, and loads of states that carry the counter. -/
theorem C15_counter (c : Chain) (ops : List Op) (h : CounterOK c)
    (hload : ∀ s, Op.load s ∈ ops → s.props.length = c.props.length ∧
                  ∀ sp ∈ s.props, sp.raw = some s.iteration) :
    CounterOK (runOps c ops) ∧ (runOps c ops).props.length = c.props.length := by
  induction ops generalizing c with
  | nil => exact ⟨h, rfl⟩
  | cons op ops ih =>
    have key : CounterOK (c.apply op) ∧ (c.apply op).props.length = c.props.length := by
      cases op with
      | start pos e =>
        simp only [Chain.apply]; unfold setStart
        split
        · exact ⟨by simpa using h, by simp⟩
        · exact ⟨h, rfl⟩
      | step i =>
        simp only [Chain.apply]
        cases hs : c.step i with
        | none => exact ⟨by simpa using h, by simp⟩
        | some c' =>
          refine ⟨by simpa using counterOK_step h hs, ?_⟩
          unfold step at hs
          split at hs
          · simp at hs
          · simp at hs; subst hs; simp
      | clear =>
        simp only [Chain.apply]; unfold clear
        split
        · exact ⟨h, rfl⟩
        · exact ⟨h, rfl⟩
      | grow n => exact ⟨h, rfl⟩
      | extend n => exact ⟨h, rfl⟩
      | load s =>
        obtain ⟨hlen, hraw⟩ := hload s (by simp)
        have hcl : c.clear.props = c.props := by unfold clear; split <;> rfl
        have aux : ∀ (ps : List PropSt) (ss : List SavedProp), ss.length = ps.length →
            (∀ sp ∈ ss, sp.raw = some s.iteration) →
            (∀ p ∈ loadProps ps ss, p.raw = s.iteration) ∧ (loadProps ps ss).length = ps.length := by
          intro ps
          induction ps with
          | nil => intro ss _ _; cases ss <;> simp [loadProps]
          | cons p ps ihp =>
            intro ss hl hr
            cases ss with
            | nil => simp at hl
            | cons sp ss =>
              have := ihp ss (by simpa using hl) (fun x hx => hr x (by simp [hx]))
              refine ⟨?_, by simp [loadProps, this.2]⟩
              intro q hq
              simp only [loadProps, List.mem_cons] at hq
              rcases hq with rfl | hq
              · simp [PropSt.load, hr sp (by simp)]
              · exact this.1 q hq
        have := aux c.props s.props hlen hraw
        refine ⟨?_, ?_⟩
        · intro p hp
          simp only [Chain.apply, load, hcl] at hp
          simpa [Chain.apply, load] using this.1 p hp
        · simp only [Chain.apply, load, hcl]; exact this.2
      | rewrite st =>
        obtain ⟨h1, _, _, _, h5, _⟩ := rewriteLast_fields c st
        refine ⟨?_, by simp [Chain.apply, h5]⟩
        intro p hp
        simp only [Chain.apply, h5] at hp
        simpa [Chain.apply, h1] using h p hp
      | reset =>
        refine ⟨?_, by simp [Chain.apply, resetProposals]⟩
        intro p hp
        simp only [Chain.apply, resetProposals, List.mem_map] at hp
        obtain ⟨q, hq, rfl⟩ := hp
        have := h q hq
        have hit : (c.apply Op.reset).iteration = c.iteration := rfl
        rw [hit]
        unfold PropSt.reset
        split <;> simpa using this
    have hl' : ∀ s, Op.load s ∈ ops → s.props.length = (c.apply op).props.length ∧
        ∀ sp ∈ s.props, sp.raw = some s.iteration := by
      intro s hs
      have := hload s (by simp [hs])
      exact ⟨by rw [key.2]; exact this.1, this.2⟩
    have := ih (c.apply op) key.1 hl'
    exact ⟨this.1, by rw [runOps_cons, this.2, key.2]⟩

/-- Readable form for a non-adaptive proposal at chain iteration `i+1` (counter `i`), `k > 1`:
    until `D` proposal steps have elapsed it is due exactly when `i` is a multiple of `k`
    (iterations 1, k+1, 2k+1, …); afterwards it is due at every iteration. -/
theorem C15_schedule_iterations (p : PropSt) (hna : p.cfg.adaptive = false) (hk : 1 < p.cfg.k) :
    (p.raw / p.cfg.k < p.cfg.dur → (p.callJump = true ↔ p.raw % p.cfg.k = 0)) ∧
    (p.cfg.dur ≤ p.raw / p.cfg.k → p.callJump = true) := by
  have hs := C15_schedule p
  have hdk : p.dkJump = ((p.raw / p.cfg.k : Nat) : Int) := by simp [PropSt.dkJump, hna, PropSt.nsteps]
  constructor
  · intro hlt
    rw [hs, hdk]
    constructor
    · rintro (h | h | h)
      · omega
      · omega
      · exact h
    · exact fun h => Or.inr (Or.inr h)
  · intro hge
    rw [hs, hdk]
    exact Or.inr (Or.inl (by omega))

/-- The same for an adaptive proposal: the duration is measured from its start step. -/
theorem C15_schedule_iterations_adaptive (p : PropSt) (ha : p.cfg.adaptive = true) (hk : 1 < p.cfg.k) :
    (((p.raw / p.cfg.k : Nat) : Int) - p.startStep + 1 < p.cfg.dur →
        (p.callJump = true ↔ p.raw % p.cfg.k = 0)) ∧
    ((p.cfg.dur : Int) ≤ ((p.raw / p.cfg.k : Nat) : Int) - p.startStep + 1 → p.callJump = true) := by
  have hs := C15_schedule p
  have hdk : p.dkJump = ((p.raw / p.cfg.k : Nat) : Int) - p.startStep + 1 := by
    simp [PropSt.dkJump, ha, PropSt.nsteps]
  constructor
  · intro hlt
    rw [hs, hdk]
    constructor
    · rintro (h | h | h)
      · omega
      · omega
      · exact h
    · exact fun h => Or.inr (Or.inr h)
  · intro hge
    rw [hs, hdk]
    exact Or.inr (Or.inl hge)

/-- On an iteration where a proposal is not due, the proposed point keeps each of its
    parameters at the current value (parameters belong to one proposal only). -/
theorem C15_nonjump_keeps_parameters (pos : List Val) (ps : List PropSt) (js : List (List Val))
    (p : PropSt) (_hp : p ∈ ps) (hnd : p.callJump = false) (j : Nat) (hj : j ∈ p.cfg.params)
    (hdisj : ∀ q ∈ ps, q ≠ p → j ∉ q.cfg.params) :
    (jointJump pos ps js)[j]? = pos[j]? := by
  apply jointJump_untouched
  intro q hq hdue
  by_cases hqp : q = p
  · subst hqp; rw [hnd] at hdue; cases hdue
  · exact hdisj q hq hqp

/-- ... it contributes nothing to the acceptance probability: the Hastings term does not
    depend on anything the proposal would report ... -/
theorem C15_nonjump_no_hastings (ps : List PropSt) (rev fwd rev' fwd' : List Rat)
    (hr : rev.length = rev'.length) (hf : fwd.length = fwd'.length)
    (h : ∀ i, (hi : i < ps.length) → ps[i].callJump = true → rev[i]? = rev'[i]? ∧ fwd[i]? = fwd'[i]?) :
    hastings ps rev fwd = hastings ps rev' fwd' := by
  unfold hastings
  split
  · rfl
  · rw [sumContrib_not_due ps rev rev' (fun i hi hc => (h i hi (by
          unfold contributes at hc; simp at hc; exact hc.2)).1) hr,
        sumContrib_not_due ps fwd fwd' (fun i hi hc => (h i hi (by
          unfold contributes at hc; simp at hc; exact hc.2)).2) hf]

/-- ... and it is not adapted, while its counter still advances. -/
theorem C15_nonjump_not_adapted (p : PropSt) (hnd : p.callJump = false) (a : Bool) (r : AR)
    (pos : List Val) :
    (p.update a r pos).events = p.events ∧ (p.update a r pos).raw = p.raw + 1 ∧
    (p.update a r pos).startStep = p.startStep ∧ (p.update a r pos).cfg = p.cfg := by
  simp [PropSt.update, hnd]

/-- Other proposals of the chain are unaffected: after a step every proposal's state is a
    function of its own previous state and of the record just written only. -/
theorem C15_others_unaffected {c c' : Chain} {i : StepIn} (hs : c.step i = some c') :
    ∃ cur, c.current = some cur ∧
      c'.props = c.props.map (fun p => p.update (stepRec c cur i).acc.accepted
                                                 (stepRec c cur i).acc.ar (stepRec c cur i).st.pos) := by
  unfold step at hs
  split at hs
  · simp at hs
  · rename_i cur hc
    simp at hs
    subst hs
    exact ⟨cur, hc, rfl⟩

/-- The schedule is not disturbed by `clear` ... -/
theorem C15_clear_invariant (c : Chain) : c.clear.props = c.props ∧ c.clear.iteration = c.iteration := by
  unfold clear; split <;> exact ⟨rfl, rfl⟩

/-- ... nor by a resume, for a class whose `state` carries the counter (table obligation
    `StateComplete`, EpsieProps/C05Table.lean): a freshly constructed proposal that loads the
    saved state has the same counter, start step and absorbed updates. -/
theorem C15_resume_invariant (p : PropSt) (hsn : p.cfg.savesNsteps = true) :
    ((PropSt.fresh p.cfg).load p.save).raw = p.raw ∧
    (p.cfg.adaptive = true → ((PropSt.fresh p.cfg).load p.save).startStep = p.startStep ∧
                              ((PropSt.fresh p.cfg).load p.save).events = p.events) ∧
    ((PropSt.fresh p.cfg).load p.save).callJump = p.callJump := by
  have hraw : ((PropSt.fresh p.cfg).load p.save).raw = p.raw := by
    simp [PropSt.load, PropSt.save, PropSt.fresh, hsn]
  refine ⟨hraw, ?_, ?_⟩
  · intro ha; simp [PropSt.load, PropSt.save, PropSt.fresh, ha]
  · by_cases ha : p.cfg.adaptive = true
    · have hst : ((PropSt.fresh p.cfg).load p.save).startStep = p.startStep := by
        simp [PropSt.load, PropSt.save, PropSt.fresh, ha]
      have hcfg : ((PropSt.fresh p.cfg).load p.save).cfg = p.cfg := by
        simp [PropSt.load, PropSt.fresh]
      unfold PropSt.callJump PropSt.dkJump PropSt.nsteps
      rw [hraw, hst, hcfg]
    · have hcfg : ((PropSt.fresh p.cfg).load p.save).cfg = p.cfg := by
        simp [PropSt.load, PropSt.fresh]
      unfold PropSt.callJump PropSt.dkJump PropSt.nsteps
      rw [hraw, hcfg]
      simp [ha]

/-- Without the counter in the saved state the schedule IS disturbed (what the table
    obligation protects against): interval 3, duration 5, saved after 4 iterations. -/
theorem C15_resume_needs_counter :
    ∃ p : PropSt, p.cfg.savesNsteps = false ∧
      ((PropSt.fresh p.cfg).load p.save).callJump ≠ p.callJump := by
  refine ⟨{ cfg := { params := [0], symmetric := true, adaptive := false, k := 3, dur := 5,
                     window := .none, T := 0, start0 := 1, comp := false, savesNsteps := false }
            raw := 4, startStep := 1, events := [] }, rfl, ?_⟩
  decide

/-! ### Non-vacuity -/

/-- interval 3, duration 2: due at counters 0, 3 and from 6 on (iterations 1, 4, 7, 8, 9 …). -/
example : (List.range 9).map (fun n =>
    ({ cfg := { params := [0], symmetric := true, adaptive := false, k := 3, dur := 2,
                window := .none, T := 0, start0 := 1, comp := false, savesNsteps := true }
       raw := n, startStep := 1, events := [] } : PropSt).callJump)
    = [true, false, false, true, false, false, true, true, true] := by decide

end Epsie.C15
