/-
  C04 — Same seed and inputs give bit-identical results in any process; different
  chains draw from different streams; every random decision of a chain comes from
  that chain's own stream.

  Statements only (helper lemmas: EpsieProofs/StreamsLemmas.lean; model:
  EpsieModel/Streams.lean).  `build v cfg env` is the whole construction of a
  sampler — the user's proposal objects, `set_proposals`, the seed,
  `create_bit_generators`, per-chain / per-level deep copies, `JointProposal` —
  in an interpreter session `env` (iteration order of sets, reads of the entropy
  pool, global generator state), for the code variant `v`.  Which variant /repo is
  today is measured on every run (`Generated.Sharing.variant`).  The theorems hold
  for every variant, every configuration (any number of parameters, proposals,
  chains, levels), every session; the hypotheses are exactly those the proofs
  force, and the `C04_pinned_counterexample_*` theorems show that each of them is
  necessary (for the variants that the table reports today these are failing
  inputs of the real code; the same configurations are run on the real code by
  harness/streams.py).

  Determinism of `run` given the built object graph is true by construction in a
  pure model and is not an obligation here; numpy's guarantee that different spawn
  keys give independent streams is trusted.
-/
import EpsieProofs.StreamsLemmas
import EpsieModel.Generated.Sharing
namespace Epsie.C04
open Epsie.Streams

/-- No nested transdimensional proposal in the configuration. -/
def NotTransdimensional (cfg : Cfg) : Prop := ∀ c, c ∈ cfg.props → c.isPlain = true

instance (cfg : Cfg) : Decidable (NotTransdimensional cfg) := by unfold NotTransdimensional; infer_instance

/-- Every draw site reachable from chain `i` of a built sampler — the Metropolis
    uniform, the swap uniform, every elementary proposal including the default one,
    and, for transdimensional configurations, the component choice, the model-index
    proposal, the in-model proposals and the births — draws from the generator
    *object* that the sampler spawned for chain `i` with key `(i,)`.
    Hypothesis forced by the proof: re-seating reaches inside nested proposals, or
    there is none. -/
theorem C04_chain_owns_its_draw_sites {v : Variant} {cfg : Cfg} {env : Env} {s : SamplerO}
    (h : build v cfg env = some s)
    (hreseat : v.reseatsInner = true ∨ NotTransdimensional cfg) :
    ∀ (i : Nat) (c : AnyChain), s.chains[i]? = some c →
      c.gen.stream = .spawn (rootOf v cfg env) i ∧
      ∀ x : Site, x ∈ c.sites → x.gen = some c.gen := by
  intro i c hc
  obtain ⟨h1, h2⟩ := chain_owns h hreseat i c hc
  exact ⟨by rw [h1], h2⟩

/-- Different chains of one sampler hold different generator objects with different
    spawn keys (no hypothesis). -/
theorem C04_chains_distinct {v : Variant} {cfg : Cfg} {env : Env} {s : SamplerO}
    (h : build v cfg env = some s) :
    ∀ (i j : Nat) (ci cj : AnyChain), s.chains[i]? = some ci → s.chains[j]? = some cj → i ≠ j →
      ci.gen.id ≠ cj.gen.id ∧ ci.gen.stream ≠ cj.gen.stream := by
  intro i j ci cj hi hj hne
  rw [chain_gen h i ci hi, chain_gen h j cj hj]
  constructor
  · simp only; omega
  · intro he
    injection he with _ h2
    exact hne h2

/-- With a seed given, no observable of the built sampler — which decision draws from
    which stream, over which parameters in which order — depends on the session: not
    on the iteration order of any set, not on any read of the entropy pool, not on
    the global generators.  Hypotheses forced by the proof: complete re-seating (or no
    transdimensional proposal), and an ordered default proposal (or at most one
    defaulted parameter). -/
theorem C04_env_independent (v : Variant) (cfg : Cfg) (env env' : Env) (hv : env.Valid) (hv' : env'.Valid)
    (seed : Nat) (hseed : cfg.seed = some seed)
    (hreseat : v.reseatsInner = true ∨ NotTransdimensional cfg)
    (hdefault : v.defaultOrder ≠ .hashSet ∨ cfg.missing.length ≤ 1) :
    obs v cfg env = obs v cfg env' :=
  obs_env v cfg env env' hv hv' seed hseed hreseat hdefault

/-! ### The hypotheses are necessary: failing inputs for the variants that lack them -/

def sessionA : Env := ⟨id, fun _ => 0, 0⟩
def sessionB : Env := ⟨List.reverse, fun k => k + 1, 7⟩

theorem sessionA_valid : sessionA.Valid := fun l => List.Perm.refl l
theorem sessionB_valid : sessionB.Valid := fun l => List.reverse_perm l

/-- Two unlisted parameters, everything else explicit (replay: harness/streams.py `F9`). -/
def cfgTwoDefaulted : Cfg := { params := [0, 1], props := [], kind := .mh, nchains := 1, seed := some 1 }

/-- A nested transdimensional proposal made the documented way (replay: `F10`). -/
def cfgNested : Cfg :=
  { params := [0, 1, 2], props := [.nested none 2 [[0], [1]]], kind := .mh, nchains := 2, seed := some 1 }

/-- F9: when the default proposal takes its parameters from a set, two sessions that
    differ only in their string-hash seed build different samplers from one seed. -/
theorem C04_pinned_counterexample_default_set_order (v : Variant) (hv : v.defaultOrder = .hashSet) :
    cfgTwoDefaulted.seed = some 1 ∧ sessionA.Valid ∧ sessionB.Valid ∧
    obs v cfgTwoDefaulted sessionA ≠ obs v cfgTwoDefaulted sessionB := by
  refine ⟨rfl, sessionA_valid, sessionB_valid, ?_⟩
  obtain ⟨d, r, a⟩ := v
  simp only at hv
  subst hv
  cases r <;> cases a <;> decide

/-- F10 (a): when re-seating stops at the nested proposal, its inside keeps the
    entropy-seeded generator made at construction: two sessions with one seed differ. -/
theorem C04_pinned_counterexample_nested_entropy (v : Variant) (hv : v.reseatsInner = false) :
    cfgNested.seed = some 1 ∧ obs v cfgNested sessionA ≠ obs v cfgNested sessionB := by
  refine ⟨rfl, ?_⟩
  obtain ⟨d, r, a⟩ := v
  simp only at hv
  subst hv
  cases d <;> cases a <;> decide

/-- F10 (b): then chain 0 has draw sites that are not fed by chain 0's generator, and
    chains 0 and 1 have draw sites fed by the same stream (copies of one generator). -/
theorem C04_pinned_counterexample_nested_foreign_stream (v : Variant) (hv : v.reseatsInner = false) :
    ∃ s c0 c1, build v cfgNested sessionA = some s ∧ s.chains[0]? = some c0 ∧ s.chains[1]? = some c1 ∧
      (∃ x, x ∈ c0.sites ∧ x.gen ≠ some c0.gen) ∧
      (∃ x y g g', x ∈ c0.sites ∧ y ∈ c1.sites ∧ x.gen = some g ∧ y.gen = some g' ∧
        g.id ≠ g'.id ∧ g.stream = g'.stream) := by
  obtain ⟨d, r, a⟩ := v
  simp only at hv
  subst hv
  cases d <;> cases a <;>
    exact ⟨_, _, _, rfl, rfl, rfl,
      ⟨⟨.modelIndex, [2], some ⟨10, .direct (.entropy 0)⟩⟩, by decide, by decide⟩,
      ⟨⟨.modelIndex, [2], some ⟨10, .direct (.entropy 0)⟩⟩, ⟨.modelIndex, [2], some ⟨17, .direct (.entropy 0)⟩⟩,
        ⟨10, .direct (.entropy 0)⟩, ⟨17, .direct (.entropy 0)⟩, by decide, by decide, rfl, rfl, by decide, rfl⟩⟩

/-! ### Obligations about the tables regenerated from /repo on every run -/

open Epsie.Generated.Sharing in
/-- The generator's probes recognised what they measured. -/
theorem C04_generated_no_probe_errors : probeErrors = [] := by decide

open Epsie.Generated.Sharing in
/-- The model, under the measured variant, predicts the partition of the draw sites of
    every freshly built real sampler kind by generator object, by generator state and by
    origin (MH, PT, PT with annealer, transdimensional under MH and PT, …). -/
theorem C04_generated_sites_match_model :
    ∀ r, r ∈ rows → modelRows variant r.cfg = some r.chains := by decide +kernel

open Epsie.Generated.Sharing in
/-- Every place in epsie/ that can consult an unordered container, the entropy pool or
    a foreign random stream is a place where the model consults `Env`, or is on the
    justified allow-list; in particular no site reads the global generators. -/
theorem C04_generated_scan_sites_accounted :
    ∀ s, s ∈ scanSites → s.accounted variant = true := by decide

/-- chain `i`'s sites all have origin `spawn i` -/
def rowOwned : Nat → List (List SiteRow) → Bool
  | _, [] => true
  | i, ch :: rest => ch.all (fun s => decide (s.origin = .spawn i)) && rowOwned (i + 1) rest

open Epsie.Generated.Sharing in
/-- On the measured rows themselves: wherever `C04_chain_owns_its_draw_sites` applies
    under the measured variant (and a seed was given), every draw site of chain `i` of the
    real sampler is fed by the generator spawned with key `(i,)`. -/
theorem C04_generated_rows_owned_where_proved :
    ∀ r, r ∈ rows → (variant.reseatsInner = true ∨ NotTransdimensional r.cfg) → r.cfg.seed.isSome = true →
      rowOwned 0 r.chains = true := by decide

/-! ### Non-vacuity -/

def repaired : Variant := ⟨.asGiven, true, true⟩
def pinned : Variant := ⟨.hashSet, false, false⟩

/-- a transdimensional PT configuration with a default proposal meets the hypotheses of the
    three theorems under the repaired variant, and is actually built -/
def cfgFull : Cfg :=
  { params := [0, 1, 2, 3, 4], props := [.nested none 4 [[1], [2]], .plain [3] true], kind := .pt 3 true,
    nchains := 3, seed := some 5 }

example : (build repaired cfgFull sessionB).isSome = true := by decide
example : repaired.reseatsInner = true ∨ NotTransdimensional cfgFull := Or.inl rfl
example : repaired.defaultOrder ≠ .hashSet ∨ cfgFull.missing.length ≤ 1 := Or.inl (by decide)
example : obs repaired cfgFull sessionA = obs repaired cfgFull sessionB :=
  C04_env_independent repaired cfgFull sessionA sessionB sessionA_valid sessionB_valid 5 rfl (Or.inl rfl) (Or.inl (by decide))

/-- under the variant measured today the theorems still cover e.g. a PT sampler with explicit
    proposals and one defaulted parameter -/
def cfgPlain : Cfg :=
  { params := [0, 1, 2], props := [.plain [0, 1] false], kind := .pt 2 false, nchains := 2, seed := some 9 }

example : (build pinned cfgPlain sessionB).isSome = true := by decide
example : NotTransdimensional cfgPlain := by decide
example : cfgPlain.missing.length ≤ 1 := by decide
example : obs pinned cfgPlain sessionA = obs pinned cfgPlain sessionB :=
  C04_env_independent pinned cfgPlain sessionA sessionB sessionA_valid sessionB_valid 9 rfl (Or.inr (by decide)) (Or.inr (by decide))

/-- rejected inputs are rejected by the model too: no chains, an empty ladder, a parameter with
    two proposals -/
example : build pinned { cfgPlain with nchains := 0 } sessionA = none := by decide
example : build pinned { cfgPlain with kind := .pt 0 false } sessionA = none := by decide
example : build pinned { cfgPlain with props := [.plain [0, 1] false, .plain [1] false] } sessionA = none := by decide

end Epsie.C04
