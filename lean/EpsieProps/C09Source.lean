/-
  C09 (and C06 / C17 through the rows the annealer reads), source tie: the sweep schedule of
  `ParallelTemperedChain.step`, the record and row indices of `swap_temperatures`, the row count
  of the views `temperature_swaps` / `temperature_acceptance`, and the row the annealer reads,
  all translated from `epsie/chain/ptchain.py` on every run, agree with the model
  (`PTChain.sweepDue`, the `(len - 1) / s` row of `PTChain.afterSweep`, `PTChain.nrows`).
-/
import EpsieModel.Generated.Source
import EpsieModel.PTChain
import EpsieProps.C15Source
namespace Epsie.C09
open Epsie.C15 (fdiv_nat pmod_nat)

/-- The sweep condition of `ParallelTemperedChain.step` is the model's `sweepDue`. -/
theorem C09_source_sweep_due (ntemps s it : Nat) :
    Gen.sweepDue (ntemps : Int) (it : Int) (s : Int) = PTChain.sweepDue ntemps s it := by
  unfold Gen.sweepDue PTChain.sweepDue
  rw [pmod_nat]
  by_cases h1 : ntemps > 1 <;> by_cases h2 : it % s = 0 <;> simp [h1, h2] <;> first | omega | exact_mod_cast h2

/-- The sweep rewrites the last record (`len - 1`) of every level and stores its row at
    `(len - 1) // swap_interval` — the indices the model's `afterSweep` uses. -/
theorem C09_source_sweep_row (c : PTChain) (hlen : 0 < c.len) (hlc : c.lastclear ≤ c.iteration) :
    Gen.sweepRow (c.iteration : Int) (c.lastclear : Int) (c.s : Int)
      = (((c.len - 1 : Nat) : Int), (((c.len - 1) / c.s : Nat) : Int)) := by
  unfold Gen.sweepRow
  -- whatever way the code writes `iteration - lastclear - 1`, it is the natural number `len - 1`
  have he : ∀ e : Int, e = ((c.len - 1 : Nat) : Int) →
      (e, Src.fdiv e (c.s : Int)) = (((c.len - 1 : Nat) : Int), (((c.len - 1) / c.s : Nat) : Int)) := by
    intro e h
    subst h
    simp only [fdiv_nat]
  refine he _ ?_
  unfold PTChain.len at *
  omega

/-- The views show `len // swap_interval` rows — the model's `nrows`. -/
theorem C09_source_rows_viewed (c : PTChain) :
    Gen.swapRowsViewed (c.len : Int) (c.s : Int) = (c.nrows : Int) := by
  unfold Gen.swapRowsViewed PTChain.nrows
  exact fdiv_nat _ _

/-- The annealer reads the row the sweep has just written (not the last row of the view). -/
theorem C09_source_annealer_reads_written_row (c : PTChain) (hlen : 0 < c.len) (hlc : c.lastclear ≤ c.iteration) :
    (Gen.annealerRow (c.iteration : Int) (c.len : Int) (c.s : Int)).2
      = (Gen.sweepRow (c.iteration : Int) (c.lastclear : Int) (c.s : Int)).2 := by
  rw [C09_source_sweep_row c hlen hlc]
  unfold Gen.annealerRow
  have h : (c.len : Int) - 1 = ((c.len - 1 : Nat) : Int) := by omega
  simp only [h, fdiv_nat]

/-- The annealer's decay clock is the number of completed sweeps since construction. -/
theorem C09_source_annealer_clock (it s : Nat) :
    (Gen.annealerRow (it : Int) 0 (s : Int)).1 = ((it / s : Nat) : Int) := by
  unfold Gen.annealerRow
  exact fdiv_nat _ _

example : Gen.sweepDue 3 6 3 = true ∧ Gen.sweepDue 3 7 3 = false ∧ Gen.sweepDue 1 6 3 = false := by decide
/-- The recorded finding F6 in the translated code: cleared at 5, now at 6, interval 3 — the sweep
    writes row 0 while the view shows 0 rows. -/
example : Gen.sweepRow 6 5 3 = (0, 0) ∧ Gen.swapRowsViewed (6 - 5) 3 = 0 := by decide

end Epsie.C09
