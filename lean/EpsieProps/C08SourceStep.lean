/-
  C08, the step itself as translated from `Chain.step` (`Gen.stepCore`, tied in
  EpsieProps/C18Source.lean): every scratch array is written exactly once per step, at index
  `len(chain)` (the blobs iff the chain has blobs), an accepted step records the proposed point
  with the stats and blob of THAT evaluation, the iteration advances by one.  Restated under C08.
-/
import EpsieProps.C18Source
namespace Epsie.C08
open Epsie.C18

theorem C08_source_step_writes {α β : Type} (hasblobs : Bool) (len iteration : Int) (current_pos : α)
    (current_stats : Rat × Rat) (current_blob : Option β) (jumped : α) (r_logl r_logp : Rat)
    (r_blob : Option β) (NEGINF : Rat → Bool) (ACCEPT : Rat → Rat → α → Rat → Rat → α → Bool × AR) :
    let out := Gen.stepCore α β hasblobs len iteration current_pos current_stats current_blob jumped
        r_logl r_logp r_blob NEGINF ACCEPT
    out.1 = jumped
    ∧ (∃ p, out.2.1 = [(len, p)])
    ∧ (∃ s, out.2.2.1 = [(len, s)])
    ∧ (∃ a, out.2.2.2.1 = [(len, a)])
    ∧ (hasblobs = true → ∃ b, out.2.2.2.2.1 = [(len, b)])
    ∧ (hasblobs = false → out.2.2.2.2.1 = [])
    ∧ out.2.2.2.2.2.1 = iteration + 1 :=
  C18_source_writes hasblobs len iteration current_pos current_stats current_blob jumped r_logl r_logp r_blob
    NEGINF ACCEPT

theorem C08_source_accept_records_proposed {α β : Type} (hasblobs : Bool) (len iteration : Int)
    (current_pos : α) (current_stats : Rat × Rat) (current_blob : Option β) (jumped : α)
    (r_logl r_logp : Rat) (r_blob : Option β) (NEGINF : Rat → Bool)
    (ACCEPT : Rat → Rat → α → Rat → Rat → α → Bool × AR) (ar : AR)
    (hneg : NEGINF r_logp = false)
    (hacc : ACCEPT r_logp r_logl jumped current_stats.2 current_stats.1 current_pos = (true, ar)) :
    Gen.stepCore α β hasblobs len iteration current_pos current_stats current_blob jumped
        r_logl r_logp r_blob NEGINF ACCEPT
      = (jumped, [(len, jumped)], [(len, (r_logl, r_logp))], [(len, (ar, true))],
         (if hasblobs then [(len, r_blob)] else []), iteration + 1, 1, 1) :=
  C18_source_accept_records_proposal hasblobs len iteration current_pos current_stats current_blob jumped
    r_logl r_logp r_blob NEGINF ACCEPT ar hneg hacc

end Epsie.C08
