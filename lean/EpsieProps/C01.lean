/-
  C01 — Each chain step is an exact Metropolis–Hastings move at its temperature.

  Statements only (helper lemmas: EpsieProofs/MHLemmas.lean).  The model is
  `EpsieModel/Chain.lean` (`logAR`, `hastings`, `decision`, `stepRec`, `step`), over exact
  rationals; probabilities and transcendental values are stated over ℝ through the cast
  `ℚ → ℝ`.  What is *not* proved here, by design: that the densities a proposal reports
  are the law of its jumps (that is property C02) — C01 is proved for whatever `q` the
  reported ratio is the ratio of; and that `Generator.uniform()` is uniform on `[0,1)`
  and `numpy.exp` is monotone (trusted).
-/
import EpsieProofs.MHLemmas
namespace Epsie.C01
open Chain MH

/-! ### The decision: log space ↔ the code's test, and its probability -/

/-- The model decides `logu ≤ logar`; the code decides `u <= exp(logar)`. For `u > 0` they are
    the same test (`u = 0` is accepted by the code for every finite `logar`; the harness feeds the
    model a `logu` below every finite `logar` in that case). -/
theorem C01_logspace_test {u l : ℝ} (hu : 0 < u) : Real.log u ≤ l ↔ u ≤ Real.exp l :=
  logspace_test hu

/-- Hence the model's `Decision.accepted` on a rational `logu` that separates the rationals like
    `log u` does is the code's outcome on `u`, for every decision. -/
theorem C01_model_test_is_code_test (d : Decision) (logu : Rat) {u : ℝ} (hu : 0 < u)
    (hside : ∀ l : Rat, logu ≤ l ↔ Real.log u ≤ (l : ℝ)) :
    d.accepted logu = true ↔ acceptedU d u :=
  accepted_iff_acceptedU d logu hu hside

/-- The probability that a step accepts, the uniform being Lebesgue on `[0,1)`, is exactly the
    recorded acceptance ratio: `0` when the proposed point has zero prior, else
    `min 1 (exp logar)`; for every β, current record, evaluation and Hastings term. -/
theorem C01_accept_probability (beta : Rat) (cur : St) (e : Eval) (h : Rat) :
    MeasureTheory.volume {u : ℝ | u ∈ Set.Ico (0:ℝ) 1 ∧ acceptedU (decision beta cur e h) u}
        = ENNReal.ofReal (arReal (decision beta cur e h).ar) ∧
    (arReal Decision.forced.ar = 0 ∧ arReal Decision.sure.ar = 1 ∧
      ∀ l : Rat, arReal (Decision.draw l).ar = Real.exp (l : ℝ)) ∧
    (e.logp = none → arReal (decision beta cur e h).ar = 0) ∧
    (∀ lp, e.logp = some lp →
      arReal (decision beta cur e h).ar
        = min 1 (Real.exp ((logAR beta cur e.logl lp h : Rat) : ℝ))) := by
  refine ⟨volume_accepted _ (decision_wf beta cur e h), ⟨rfl, rfl, fun _ => rfl⟩, ?_, ?_⟩
  · intro h0; simp [decision, h0, Decision.ar, arReal]
  · intro lp hlp
    simp only [decision, hlp]
    split
    · rename_i hl
      have hl' : (0:ℝ) < ((logAR beta cur e.logl lp h : Rat) : ℝ) := by exact_mod_cast hl
      have : 1 ≤ Real.exp ((logAR beta cur e.logl lp h : Rat) : ℝ) := by
        rw [← Real.exp_zero]; exact Real.exp_le_exp.mpr hl'.le
      simp [Decision.ar, arReal, min_eq_left this]
    · rename_i hl
      have hl' : ((logAR beta cur e.logl lp h : Rat) : ℝ) ≤ 0 := by
        have := Rat.not_lt.mp hl; exact_mod_cast this
      have : Real.exp ((logAR beta cur e.logl lp h : Rat) : ℝ) ≤ 1 := by
        rw [← Real.exp_zero]; exact Real.exp_le_exp.mpr hl'
      simp [Decision.ar, arReal, min_eq_right this]

/-- `exp logar` is the Metropolis–Hastings ratio at inverse temperature β (β multiplies the
    log-likelihood only): for positive reals whose logs are the model's inputs, every β. -/
theorem C01_ar_formula (beta : Rat) (cur : St) (logl logp h : Rat) {p L p' L' qr qf : ℝ}
    (hp : 0 < p) (hL : 0 < L) (hp' : 0 < p') (hL' : 0 < L') (hqr : 0 < qr) (hqf : 0 < qf)
    (h1 : (cur.logp : ℝ) = Real.log p) (h2 : (cur.logl : ℝ) = Real.log L)
    (h3 : (logp : ℝ) = Real.log p') (h4 : (logl : ℝ) = Real.log L')
    (h5 : (h : ℝ) = Real.log qr - Real.log qf) :
    Real.exp ((logAR beta cur logl logp h : Rat) : ℝ)
      = p' * L' ^ (beta : ℝ) * qr / (p * L ^ (beta : ℝ) * qf) := by
  rw [cast_logAR, h1, h2, h3, h4, h5]
  exact exp_logar_formula hp hL hp' hL' hqr hqf

/-- The same with the canonical witnesses: every rational input is the log of its exponential. -/
theorem C01_ar_formula_exp (beta : Rat) (cur : St) (logl logp rev fwd : Rat) :
    Real.exp ((logAR beta cur logl logp (rev - fwd) : Rat) : ℝ)
      = Real.exp logp * Real.exp logl ^ (beta : ℝ) * Real.exp rev
        / (Real.exp cur.logp * Real.exp cur.logl ^ (beta : ℝ) * Real.exp fwd) :=
  C01_ar_formula beta cur logl logp (rev - fwd) (Real.exp_pos _) (Real.exp_pos _) (Real.exp_pos _)
    (Real.exp_pos _) (Real.exp_pos _) (Real.exp_pos _) (Real.log_exp _).symm (Real.log_exp _).symm
    (Real.log_exp _).symm (Real.log_exp _).symm (by push_cast; rw [Real.log_exp, Real.log_exp])

/-! ### Zero prior ⇒ rejected; rejected ⇒ nothing moves -/

/-- A proposal of zero prior probability (`logp = −∞`) is rejected whatever the likelihood, the
    Hastings term and the uniform are; the recorded acceptance ratio is 0, the record repeats the
    current one, and no uniform is consumed. -/
theorem C01_zero_prior_rejected (c : Chain) (cur : St) (i : StepIn) (h0 : i.eval.logp = none) :
    decision c.beta cur i.eval (hastings c.props i.rev i.fwd) = Decision.forced ∧
    (stepRec c cur i).acc.accepted = false ∧ (stepRec c cur i).acc.ar = AR.zero ∧
    (stepRec c cur i).st = cur ∧
    (decision c.beta cur i.eval (hastings c.props i.rev i.fwd)).usesUniform = false ∧
    ∀ u : ℝ, ¬ acceptedU (decision c.beta cur i.eval (hastings c.props i.rev i.fwd)) u := by
  have hd : decision c.beta cur i.eval (hastings c.props i.rev i.fwd) = Decision.forced := by
    simp [decision, h0]
  refine ⟨hd, ?_, ?_, ?_, ?_, ?_⟩ <;>
    simp [stepRec, hd, Decision.accepted, Decision.ar, Decision.usesUniform, acceptedU]

/-- A rejected step leaves the chain exactly where it was: the record written at the new
    iteration carries the previous position, log-likelihood, log-prior and blob, and that is
    the chain's new current state (cf. `C08_reject_repeats_previous`). -/
theorem C01_reject_keeps_state {c c' : Chain} {i : StepIn} {cur : St}
    (hcur : c.current = some cur) (hs : c.step i = some c')
    (hrej : (stepRec c cur i).acc.accepted = false) (hlc : c.lastclear ≤ c.iteration) :
    rowAt c'.scratch c.len = some (stepRec c cur i) ∧ (stepRec c cur i).st = cur ∧
    c'.current = some cur := by
  obtain ⟨cur', hcur', hit, hl, hsc, _⟩ := step_fields hs
  rw [hcur] at hcur'; cases hcur'
  have hrow : rowAt c'.scratch c.len = some (stepRec c cur i) := by rw [hsc, rowAt_setAt_same]
  have hst : (stepRec c cur i).st = cur := by
    unfold stepRec at hrej ⊢
    simp only at hrej ⊢
    split at hrej
    · simp at hrej
    · rename_i ha; simp [ha]
  refine ⟨hrow, hst, ?_⟩
  have hlen : c'.len = c.len + 1 := by simp [Chain.len_def, hit, hl]; omega
  unfold Chain.current
  simp [hlen, hrow, hst]

/-! ### The joint proposal's Hastings term -/

/-- For constituents over disjoint parameter blocks that jump independently (product law), the
    model's `hastings` — the sum over the non-symmetric constituents that are due, or 0 when the
    joint proposal is flagged symmetric — is the log-ratio of the joint law
    `Π_{i due} q_i(x_i|x'_i) / Π_{i due} q_i(x'_i|x_i)`; constituents that are not due copy their
    block and contribute nothing. Every list of constituents, every schedule state. -/
theorem C01_joint_hastings (bs : List Block) (hok : ∀ b ∈ bs, b.ok) :
    ((hastings (bs.map (·.st)) (bs.map (·.lr)) (bs.map (·.lf)) : Rat) : ℝ)
      = Real.log (jointDensity (·.qr) bs) - Real.log (jointDensity (·.qf) bs) ∧
    Real.exp ((hastings (bs.map (·.st)) (bs.map (·.lr)) (bs.map (·.lf)) : Rat) : ℝ)
      = jointDensity (·.qr) bs / jointDensity (·.qf) bs := by
  have h1 := hastings_eq_jointLogRatio _ _ _ (symOK_of_blocks bs hok)
  have h2 := cast_jointLogRatio bs hok
  have pa := jointDensity_pos (·.qr) bs (fun c hc => (hok c hc).1)
  have pb := jointDensity_pos (·.qf) bs (fun c hc => (hok c hc).2.1)
  refine ⟨by rw [h1, h2], ?_⟩
  rw [h1, h2, Real.exp_sub, Real.exp_log pa, Real.exp_log pb]

/-- The product structure that `C01_joint_hastings` presupposes is what the model's joint jump
    does: over disjoint parameter blocks (`JointProposal.__init__` rejects repeated parameters),
    the block of a constituent that is due is exactly what its own `_jump` returned, and every
    parameter outside the blocks of the constituents that are due keeps its current value. -/
theorem C01_joint_jump_is_blockwise (zs : List (PropSt × List Val)) (pos : List Val)
    (hok : BlocksOK pos.length zs) :
    (∀ z ∈ zs, z.1.callJump = true → ∀ k (hk : k < z.1.cfg.params.length),
      (jointJump pos (zs.map (·.1)) (zs.map (·.2)))[z.1.cfg.params[k]]? = z.2[k]?) ∧
    (∀ j, (∀ z ∈ zs, z.1.callJump = true → j ∉ z.1.cfg.params) →
      (jointJump pos (zs.map (·.1)) (zs.map (·.2)))[j]? = pos[j]?) :=
  ⟨jointJump_block zs pos hok, fun j h => jointJump_untouched zs pos j h⟩

/-- The rational form: `hastings` is the sum of `rev − fwd` over the constituents that are due. -/
theorem C01_joint_hastings_rat (ps : List PropSt) (rev fwd : List Rat) (h : SymOK ps rev fwd) :
    hastings ps rev fwd = jointLogRatio ps rev fwd :=
  hastings_eq_jointLogRatio ps rev fwd h

/-- The joint flag must be the conjunction of the constituents' flags: with `any` in its place
    (`hastingsAny`) the statement is false. -/
def hastingsAny (ps : List PropSt) (rev fwd : List Rat) : Rat :=
  if ps.any (·.cfg.symmetric) then 0 else sumContrib ps rev - sumContrib ps fwd

def cfgSym : PropCfg :=
  { params := [0], symmetric := true, adaptive := false, k := 1, dur := 0, window := .none,
    T := 0, start0 := 1, comp := false, savesNsteps := true }
def cfgAsym : PropCfg := { cfgSym with params := [1], symmetric := false }

theorem C01_joint_flag_any_is_wrong :
    ¬ ∀ (ps : List PropSt) (rev fwd : List Rat), SymOK ps rev fwd →
        hastingsAny ps rev fwd = jointLogRatio ps rev fwd := by
  intro h
  have := h [PropSt.fresh cfgSym, PropSt.fresh cfgAsym] [0, 1] [0, 0]
    (by simp [SymOK, PropSt.fresh, cfgSym, cfgAsym])
  revert this
  decide +kernel

/-! ### Detailed balance and stationarity on finite state spaces -/

set_option linter.unusedSectionVars false
section Stationary
variable {S : Type*} [Fintype S] [DecidableEq S]

/-- The tempered target `f = p · L^β`. -/
noncomputable def target (p L : S → ℝ) (b : ℝ) (x : S) : ℝ := p x * L x ^ b

theorem target_nonneg {p L : S → ℝ} (hp : ∀ x, 0 ≤ p x) (hL : ∀ x, 0 < L x) (b : ℝ) (x : S) :
    0 ≤ target p L b x :=
  mul_nonneg (hp x) (Real.rpow_nonneg (hL x).le b)

/-- The kernel `mhKernel (target p L β) q` is built from the model's acceptance probability:
    for a current point of non-zero prior and a proposed point `y` with `q x y, q y x > 0`,
    whenever the model's inputs are the logs of `p, L, q` at `x` and `y` (and `logp = −∞` encodes
    `p y = 0`), the recorded acceptance ratio is `acceptProb (target p L β) q x y`. -/
theorem C01_model_acceptance_is_kernel (p L : S → ℝ) (q : S → S → ℝ) (beta : Rat) (x y : S)
    (cur : St) (e : Eval) (h : Rat)
    (hpx : 0 < p x) (hLx : 0 < L x) (hLy : 0 < L y) (hqxy : 0 < q x y) (hqyx : 0 < q y x)
    (h1 : (cur.logp : ℝ) = Real.log (p x)) (h2 : (cur.logl : ℝ) = Real.log (L x))
    (h3 : match e.logp with
          | none => p y = 0
          | some lp => 0 < p y ∧ (lp : ℝ) = Real.log (p y))
    (h4 : (e.logl : ℝ) = Real.log (L y))
    (h5 : (h : ℝ) = Real.log (q y x) - Real.log (q x y)) :
    arReal (decision beta cur e h).ar = acceptProb (target p L (beta : ℝ)) q x y := by
  obtain ⟨_, _, hnone, hsome⟩ := C01_accept_probability beta cur e h
  unfold acceptProb target
  cases hlp : e.logp with
  | none =>
    rw [hlp] at h3
    rw [hnone hlp, h3]; simp
  | some lp =>
    rw [hlp] at h3
    rw [hsome lp hlp, C01_ar_formula beta cur e.logl lp h hpx hLx h3.1 hLy hqyx hqxy h1 h2 h3.2 h4 h5]

/-- Detailed balance of the step kernel with respect to `p · L^β`: arbitrary finite state space,
    arbitrary non-negative proposal kernel `q` (zeros allowed), prior `p ≥ 0` (holes allowed),
    likelihood `L > 0`, every β. -/
theorem C01_detailed_balance (p L : S → ℝ) (q : S → S → ℝ) (b : ℝ)
    (hp : ∀ x, 0 ≤ p x) (hL : ∀ x, 0 < L x) (hq : ∀ x y, 0 ≤ q x y) (x y : S) :
    target p L b x * mhKernel (target p L b) q x y
      = target p L b y * mhKernel (target p L b) q y x :=
  mhKernel_detailed_balance (target_nonneg hp hL b) hq x y

/-- The step kernel is a Markov kernel when `q` is row-stochastic. -/
theorem C01_kernel_stochastic (p L : S → ℝ) (q : S → S → ℝ) (b : ℝ)
    (hp : ∀ x, 0 ≤ p x) (hL : ∀ x, 0 < L x) (hq : ∀ x y, 0 ≤ q x y)
    (hrow : ∀ x, ∑ y, q x y = 1) (x : S) :
    (∀ y, 0 ≤ mhKernel (target p L b) q x y) ∧ ∑ y, mhKernel (target p L b) q x y = 1 :=
  ⟨mhKernel_nonneg (target_nonneg hp hL b) hq hrow x, mhKernel_row_sum _ q x⟩

/-- `prior × likelihood^β` is stationary: `f P = f` exactly. -/
theorem C01_stationary (p L : S → ℝ) (q : S → S → ℝ) (b : ℝ)
    (hp : ∀ x, 0 ≤ p x) (hL : ∀ x, 0 < L x) (hq : ∀ x y, 0 ≤ q x y) (y : S) :
    ∑ x, target p L b x * mhKernel (target p L b) q x y = target p L b y :=
  mhKernel_stationary (target_nonneg hp hL b) hq y

end Stationary

/-! ### Non-vacuity -/

/-- `C01_logspace_test`, `C01_model_test_is_code_test`: `u = 1`, `logu = 0`. -/
example : (0:ℝ) < 1 ∧ ∀ l : Rat, (0:Rat) ≤ l ↔ Real.log 1 ≤ (l : ℝ) := by
  refine ⟨one_pos, fun l => ?_⟩
  rw [Real.log_one]; exact_mod_cast Iff.rfl

def cur0 : St := { pos := [.num 1], logl := -1, logp := 0, blob := [] }
def evUp : Eval := { logl := 0, logp := some 0, blob := [] }
def evDown : Eval := { logl := -3, logp := some (-1/2), blob := [] }
def evHole : Eval := { logl := 5, logp := none, blob := [] }

/-- `C01_accept_probability`: the three kinds of decision all occur (β = 1/2). -/
example : decision (1/2) cur0 evUp 0 = .sure ∧ decision (1/2) cur0 evDown (1/4) = .draw (-5/4) ∧
    decision (1/2) cur0 evHole 0 = .forced := by decide +kernel

/-- `C01_ar_formula`: positive reals with the stated logs exist for every rational input. -/
example (cur : St) (logl logp rev fwd : Rat) :
    ∃ p L p' L' qr qf : ℝ, 0 < p ∧ 0 < L ∧ 0 < p' ∧ 0 < L' ∧ 0 < qr ∧ 0 < qf ∧
      (cur.logp : ℝ) = Real.log p ∧ (cur.logl : ℝ) = Real.log L ∧ (logp : ℝ) = Real.log p' ∧
      (logl : ℝ) = Real.log L' ∧ ((rev - fwd : Rat) : ℝ) = Real.log qr - Real.log qf :=
  ⟨Real.exp cur.logp, Real.exp cur.logl, Real.exp logp, Real.exp logl, Real.exp rev, Real.exp fwd,
    Real.exp_pos _, Real.exp_pos _, Real.exp_pos _, Real.exp_pos _, Real.exp_pos _, Real.exp_pos _,
    (Real.log_exp _).symm, (Real.log_exp _).symm, (Real.log_exp _).symm, (Real.log_exp _).symm,
    by push_cast; rw [Real.log_exp, Real.log_exp]⟩

def chain0 : Chain :=
  { beta := 1/2, props := [PropSt.fresh cfgSym], start := some cur0 }
def inHole : StepIn := { jumps := [[.num 7]], eval := evHole, rev := [0], fwd := [0], logu := -100 }
def inDown : StepIn := { jumps := [[.num 2]], eval := evDown, rev := [0], fwd := [0], logu := -1 }

/-- `C01_zero_prior_rejected` / `C01_reject_keeps_state`: a chain, a step into a prior hole and a
    step rejected by the draw; both satisfy the hypotheses. -/
example : chain0.current = some cur0 ∧ (chain0.step inHole).isSome ∧ inHole.eval.logp = none ∧
    (chain0.step inDown).isSome ∧ (stepRec chain0 cur0 inDown).acc.accepted = false ∧
    (stepRec chain0 cur0 inDown).acc.ar = .exp (-3/2) ∧
    chain0.lastclear ≤ chain0.iteration := by decide +kernel

/-- `C01_joint_hastings`: a symmetric and a non-symmetric constituent, both due. -/
noncomputable def blocks0 : List Block :=
  [ { st := PropSt.fresh cfgSym, qr := 1, qf := 1, lr := 0, lf := 0 },
    { st := PropSt.fresh cfgAsym, qr := Real.exp 1, qf := Real.exp 3, lr := 1, lf := 3 } ]

example : ∀ b ∈ blocks0, b.ok := by
  intro b hb
  simp only [blocks0, List.mem_cons, List.mem_nil_iff, or_false] at hb
  rcases hb with rfl | rfl
  · simp [Block.ok]
  · refine ⟨Real.exp_pos _, Real.exp_pos _, ?_, ?_, ?_⟩
    · simp
    · simp
    · simp [PropSt.fresh, cfgAsym]

/-- `C01_joint_jump_is_blockwise`: two constituents over the blocks {0} and {1} of a
    three-parameter position. -/
example : BlocksOK [Val.num 1, Val.num 2, Val.num 3].length
    [(PropSt.fresh cfgSym, [Val.num 7]), (PropSt.fresh cfgAsym, [Val.num 9])] := by
  refine ⟨?_, ?_, ?_, ?_⟩ <;> simp [PropSt.fresh, cfgSym, cfgAsym]

/-- `C01_detailed_balance`, `C01_stationary`, `C01_kernel_stochastic`: three states, a prior hole,
    a non-symmetric row-stochastic proposal kernel with a zero entry. -/
noncomputable def p0 : Fin 3 → ℝ := ![1, 0, 2]
noncomputable def L0 : Fin 3 → ℝ := ![1, 5, 3]
noncomputable def q0 : Fin 3 → Fin 3 → ℝ := ![![1/2, 1/2, 0], ![1/3, 1/3, 1/3], ![1/4, 1/4, 1/2]]

example : (∀ x, 0 ≤ p0 x) ∧ (∀ x, 0 < L0 x) ∧ (∀ x y, 0 ≤ q0 x y) ∧ (∀ x, ∑ y, q0 x y = 1) := by
  refine ⟨?_, ?_, ?_, ?_⟩
  · intro x; fin_cases x <;> simp [p0]
  · intro x; fin_cases x <;> simp [L0]
  · intro x y; fin_cases x <;> fin_cases y <;> simp [q0]
  · intro x; fin_cases x <;> simp [q0, Fin.sum_univ_three] <;> norm_num

end Epsie.C01
