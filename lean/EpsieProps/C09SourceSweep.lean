/-
  C09, "swap_index arises from adjacent exchanges made from the hottest pair downwards": the sweep
  loop as translated from the source (`Gen.sweepLoop`) computes the sequential adjacent-exchange
  specification (EpsieProps/C03SourceSpec.lean).  Restated under C09 so that a change of the loop
  breaks an obligation of C09 as well as of C03.
-/
import EpsieProps.C03SourceSpec
namespace Epsie.C09
open Epsie Swap Epsie.C03

theorem C09_source_swap_index_from_adjacent_exchanges (betas logls us : List Rat)
    (hlen : logls.length = betas.length) (hn : 1 ≤ betas.length)
    (r : List Nat × List AR) (rest : List Rat)
    (h : specLoop betas logls (betas.length - 1) (List.range betas.length, []) us = some (r, rest)) :
    let g := Gen.sweepLoop (betas.length : Int) betas logls us
    g.1 = r.1.map (fun (i : Nat) => (i : Int)) ∧ g.2.1 = r.2.reverse ∧ g.2.2.2 = rest :=
  C03_source_sweep_is_sequential_spec betas logls us hlen hn r rest h

end Epsie.C09
