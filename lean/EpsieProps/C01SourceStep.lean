/-
  C01, the step itself as translated from `Chain.step` (`Gen.stepCore`, tied in
  EpsieProps/C18Source.lean): a proposal of zero prior probability is always rejected — the
  acceptance routine is not even consulted — and a rejected step leaves the chain exactly where it
  was (position, stats, blob).  Restated under C01 so that a change of `Chain.step` breaks an
  obligation of C01 as well as of C18.
-/
import EpsieProps.C18Source
namespace Epsie.C01
open Epsie.C18

/-- `logp == -inf`: the record written is the current one with acceptance `(0, False)`, whatever the
    acceptance routine would have said. -/
theorem C01_source_zero_prior_rejected {α β : Type} (hasblobs : Bool) (len iteration : Int) (current_pos : α)
    (current_stats : Rat × Rat) (current_blob : Option β) (jumped : α) (r_logl r_logp : Rat)
    (r_blob : Option β) (NEGINF : Rat → Bool) (ACCEPT ACCEPT' : Rat → Rat → α → Rat → Rat → α → Bool × AR)
    (hneg : NEGINF r_logp = true) :
    Gen.stepCore α β hasblobs len iteration current_pos current_stats current_blob jumped
        r_logl r_logp r_blob NEGINF ACCEPT
      = (jumped, [(len, current_pos)], [(len, current_stats)], [(len, (AR.zero, false))],
         (if hasblobs then [(len, current_blob)] else []), iteration + 1, 1, 1)
    ∧ Gen.stepCore α β hasblobs len iteration current_pos current_stats current_blob jumped
        r_logl r_logp r_blob NEGINF ACCEPT
      = Gen.stepCore α β hasblobs len iteration current_pos current_stats current_blob jumped
        r_logl r_logp r_blob NEGINF ACCEPT' :=
  C18_source_forced_reject hasblobs len iteration current_pos current_stats current_blob jumped r_logl r_logp
    r_blob NEGINF ACCEPT ACCEPT' hneg

/-- A rejected step records the current position, stats and blob again. -/
theorem C01_source_reject_keeps_state {α β : Type} (hasblobs : Bool) (len iteration : Int)
    (current_pos : α) (current_stats : Rat × Rat) (current_blob : Option β) (jumped : α)
    (r_logl r_logp : Rat) (r_blob : Option β) (NEGINF : Rat → Bool)
    (ACCEPT : Rat → Rat → α → Rat → Rat → α → Bool × AR) (ar : AR)
    (hneg : NEGINF r_logp = false)
    (hacc : ACCEPT r_logp r_logl jumped current_stats.2 current_stats.1 current_pos = (false, ar)) :
    Gen.stepCore α β hasblobs len iteration current_pos current_stats current_blob jumped
        r_logl r_logp r_blob NEGINF ACCEPT
      = (jumped, [(len, current_pos)], [(len, current_stats)], [(len, (ar, false))],
         (if hasblobs then [(len, current_blob)] else []), iteration + 1, 1, 1) :=
  C18_source_reject_keeps_current hasblobs len iteration current_pos current_stats current_blob jumped r_logl
    r_logp r_blob NEGINF ACCEPT ar hneg hacc

end Epsie.C01
