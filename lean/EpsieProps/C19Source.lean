/-
  C19, source tie: `BaseAdaptiveSupport._reset_adaptation` as harness/gen_source.py translates
  it on every run from epsie/proposals/base.py (`Gen.resetStart`:
  `start_step = max(nsteps, 1)` with `nsteps = _nsteps // jump_interval`) is, for every
  proposal state, the clock part of the model's `PropSt.reset`; consequently the update clock
  `dk = nsteps - start_step + 1` restarts at `1` and a full adaptation window follows.

  (The other half of `_reset_adaptation`, restoring the stored initial proposal parameters, is a
  loop over a dictionary that the translator does not model: see the NOTEs on `Gen.resetStart`.)
  Core Lean only.
-/
import EpsieModel.Generated.Source
import EpsieModel.Adapt
import EpsieProps.C15Source
set_option linter.unusedVariables false
namespace Epsie.C19
open Epsie.Adapt

/-- `_reset_adaptation` as translated sets `start_step` to the model's `(p.reset).startStep`,
    for every adaptive proposal state (any counter, any jump interval — `k = 0` included, where
    Python would raise and both sides use Lean's `x / 0 = 0`). -/
theorem C19_source_reset_start (p : PropSt) (ha : p.cfg.adaptive = true) :
    Gen.resetStart (p.raw : Int) (p.cfg.k : Int) = ((p.reset).startStep : Int) := by
  unfold Gen.resetStart PropSt.reset
  simp only [ha, if_true, C15.C15_source_nsteps]
  omega

/-- Nothing else of the clock is touched by the model's reset: counter and configuration stay. -/
theorem C19_source_reset_keeps_counter (p : PropSt) :
    (p.reset).raw = p.raw ∧ (p.reset).cfg = p.cfg ∧ (p.reset).nsteps = p.nsteps := by
  unfold PropSt.reset PropSt.nsteps
  cases p.cfg.adaptive <;> simp

/-- After the reset the update clock, computed from the TRANSLATED `start_step`, is `1` as soon as
    the proposal has made a step (`nsteps ≥ 1`) and `0` before (exactly the constructor's state
    `start_step = 1`, `nsteps = 0`); and this is the model's `(p.reset).dkUpdate`. -/
theorem C19_source_reset_window_restarts (p : PropSt) (ha : p.cfg.adaptive = true) :
    (p.reset).dkUpdate = (p.nsteps : Int) - Gen.resetStart (p.raw : Int) (p.cfg.k : Int) + 1 ∧
    (1 ≤ p.nsteps → (p.reset).dkUpdate = 1) ∧
    (p.nsteps = 0 → (p.reset).dkUpdate = 0) := by
  have h := C19_source_reset_start p ha
  have hn := (C19_source_reset_keeps_counter p).2.2
  have hs : (p.reset).startStep = max p.nsteps 1 := by
    unfold PropSt.reset; simp [ha]
  refine ⟨?_, ?_, ?_⟩
  · rw [h]; unfold PropSt.dkUpdate; rw [hn]
  · intro h1; unfold PropSt.dkUpdate; rw [hn, hs]; omega
  · intro h0; unfold PropSt.dkUpdate; rw [hn, hs]; omega

/-- "A full window follows": `j` proposal steps after the reset (any later state `q` of the same
    proposal: same configuration, the `start_step` the reset installed, `nsteps` advanced by `j`)
    the update clock reads `1 + j`, so the guard `1 ≤ dk < T` (Veitch) holds for exactly the
    `T - 1` updates `j = 0 … T-2` and `1 < dk < T` (Andrieu–Thoms, eigenvector, solid angle) for
    `j = 1 … T-2` — the same windows as after construction. -/
theorem C19_source_reset_full_window (p q : PropSt) (ha : p.cfg.adaptive = true) (j : Nat)
    (h1 : 1 ≤ p.nsteps) (hc : q.cfg = p.cfg)
    (hs : (q.startStep : Int) = Gen.resetStart (p.raw : Int) (p.cfg.k : Int))
    (hq : q.nsteps = p.nsteps + j) :
    q.dkUpdate = 1 + (j : Int) ∧
    (q.cfg.window = .veitch → (q.inWindow = true ↔ j + 1 < q.cfg.T)) ∧
    (q.cfg.window = .at → (q.inWindow = true ↔ 1 ≤ j ∧ j + 1 < q.cfg.T)) := by
  have hst : (p.reset).startStep = max p.nsteps 1 := by
    unfold PropSt.reset; simp [ha]
  have hdk : q.dkUpdate = 1 + (j : Int) := by
    unfold PropSt.dkUpdate
    rw [hs, C19_source_reset_start p ha, hst, hq]; omega
  refine ⟨hdk, ?_, ?_⟩
  · intro hw; unfold PropSt.inWindow; rw [hw]; simp only [hdk, decide_eq_true_eq]; omega
  · intro hw; unfold PropSt.inWindow; rw [hw]; simp only [hdk, decide_eq_true_eq]; omega

/-- Purely on the translated code: `_reset_adaptation` followed by `AdaptiveSupport._update` at the
    same counter adapts (the clock is `dk = 1`) whenever the window is non-empty (`1 < T`),
    however long ago the previous window closed. -/
theorem C19_source_reset_then_veitch_adapts (raw k T : Int) (h1 : 1 ≤ Gen.nsteps raw k)
    (accepted : Bool) (xi g delta sigma : Rat) :
    Gen.veitchUpdate (Gen.nsteps raw k) (Gen.resetStart raw k) T accepted xi g delta sigma
      = if 1 < T then veitchComp (veitchAlpha xi accepted) g delta sigma else sigma := by
  have hdk : Gen.nsteps raw k - Gen.resetStart raw k + 1 = 1 := by
    unfold Gen.resetStart; simp only []; omega
  unfold Gen.veitchUpdate veitchComp veitchAlpha
  simp only [hdk]
  by_cases hT : 1 < T <;> cases accepted <;> simp [hT]

/-- ... while the Andrieu–Thoms family (guard `1 < dk`) starts one update later, at `dk = 2`. -/
theorem C19_source_reset_then_at (raw k T : Int) (h1 : 1 ≤ Gen.nsteps raw k)
    (xi g ar log_kappa : Rat) :
    Gen.vmfUpdate (Gen.nsteps raw k) (Gen.resetStart raw k) T xi g ar log_kappa = log_kappa ∧
    Gen.vmfUpdate (Gen.nsteps raw k + 1) (Gen.resetStart raw k) T xi g ar log_kappa
      = if 2 < T then vmfLogKappa g xi log_kappa ar else log_kappa := by
  have hdk : Gen.nsteps raw k - Gen.resetStart raw k + 1 = 1 := by
    unfold Gen.resetStart; simp only []; omega
  have hdk2 : Gen.nsteps raw k + 1 - Gen.resetStart raw k + 1 = 2 := by omega
  unfold Gen.vmfUpdate vmfLogKappa
  simp only [hdk, hdk2]
  by_cases hT : 2 < T <;> simp [hT]

/-! ## Non-vacuity -/

/-- counter 23, jump interval 4: nsteps = 5, so `start_step ← 5`; a fresh counter gives 1. -/
example : Gen.resetStart 23 4 = 5 ∧ Gen.resetStart 0 4 = 1 ∧ Gen.resetStart 3 4 = 1 := by decide

def exState (w : Window) (T k raw start : Nat) : PropSt :=
  { cfg := { params := [0], symmetric := true, adaptive := true, k := k, dur := 0, window := w,
             T := T, start0 := 1, comp := false, savesNsteps := true }
    raw := raw, startStep := start, events := [] }

-- long after the window closed (dk = 41 ≥ T = 10) the reset reopens it
example : (exState .veitch 10 1 41 1).inWindow = false ∧
    ((exState .veitch 10 1 41 1).reset).startStep = 41 ∧
    ((exState .veitch 10 1 41 1).reset).dkUpdate = 1 ∧
    ((exState .veitch 10 1 41 1).reset).inWindow = true := by decide

-- the closed window is reopened on the translated code as well: frozen before, adapting after
example : Gen.veitchUpdate (Gen.nsteps 41 1) 1 10 true (1/4) (1/2) 2 1 = 1 ∧
    Gen.veitchUpdate (Gen.nsteps 41 1) (Gen.resetStart 41 1) 10 true (1/4) (1/2) 2 1 = 43/40 := by
  decide +kernel

end Epsie.C19
