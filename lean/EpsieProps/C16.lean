/-
  C16 — A state snapshot is a value: running cannot change it, it couples nothing.

  Statements only (the invariants are in EpsieProofs/AliasLemmas.lean).  The
  model is `EpsieModel.Alias`: array objects in a heap, attributes bound to
  locations, `_update` writing in place or re-binding, `state` / `set_state` /
  `_reset_adaptation` aliasing or copying — each per measured `FieldSpec`.

  Quantification.  `pre` is ANY history (constructions, updates, snapshots,
  loads of any snapshot object into any number of samplers, resets; no bound
  on lengths or on the number of samplers), `ops` / `bursts` ANY continuation.
  Operations act on single attributes, so every interleaving of sampler-level
  operations (each of which is a list of these) is among those quantified over.

  Hypothesis.  `CopyDiscipline tbl` (the predicate of `EpsieModel.Tables` about
  the measured family table) for worlds all of whose attributes are attributes
  of families of `tbl`; or, finer, `FieldSpec.copyOK` of every constructed
  attribute (the predicate `Alias.CopyOK` about the table measured by
  `harness/gen_alias.py`, which also sees arrays shared between two attributes
  of one proposal).  Whether the measured tables satisfy them is decided in
  `EpsieProps/C16Table.lean`, which the check builds separately.

  Partial in one respect only: the table is measured on live instances, not
  derived from CPython's semantics (trusted: `numpy.shares_memory`, `is`).
-/
import EpsieProofs.AliasLemmas
namespace Epsie.C16
open Alias

/-- Every attribute that the history constructs obeys the copy discipline. -/
def Disciplined (ops : List EOp) : Prop := ∀ op ∈ ops, op.specs FieldSpec.copyOK

/-- A spec agrees with a `buffers` entry of the family table (the bits that table
    does not measure are arbitrary). -/
def MatchesBuffer (spec : FieldSpec) (b : Buffer) : Prop :=
  spec.inplace = b.inplace ∧ spec.hot = b.inplace ∧ spec.liveInState = b.liveInState ∧
  spec.aliasedByLoad = b.aliasedByLoad

/-- Every constructed attribute is an attribute of a family of `tbl`: one listed in
    its `buffers`, or an unlisted one (those are never mutated in place: the
    generator lists every attribute that is). -/
def FromTable (tbl : List Family) (ops : List EOp) : Prop :=
  ∀ op ∈ ops, op.specs fun spec =>
    (∃ f ∈ tbl, ∃ b ∈ f.buffers, MatchesBuffer spec b) ∨ (spec.inplace = false ∧ spec.hot = false)

theorem C16_disciplined_of_table {tbl : List Family} (h : CopyDiscipline tbl) {ops : List EOp}
    (hf : FromTable tbl ops) : Disciplined ops := by
  intro op hop
  refine specs_mono (hf op hop) ?_
  rintro spec (⟨f, hft, b, hb, h1, h2, h3, h4⟩ | ⟨h1, h2⟩)
  · have hd := h f hft b hb
    refine ⟨fun hp => ?_, fun hh => ?_⟩
    · rw [h1] at hp
      exact ⟨by rw [h2]; exact hp, by rw [h4]; exact (hd hp).2⟩
    · rw [h2] at hh
      rw [h3]; exact (hd hh).1
  · exact ⟨fun hp => by simp [h1] at hp, fun hh => by simp [h2] at hh⟩

theorem C16_reach {pre : List EOp} (h : Disciplined pre) :
    Inv (World.empty.run pre) ∧ Specs FieldSpec.copyOK (World.empty.run pre) :=
  inv_run inv_empty (specs_empty _) pre h

/-- **A snapshot is immutable.**  Whatever is done afterwards — by the sampler it was
    taken from or by any other — every entry of every existing snapshot object stays
    bound to the same array, and that array keeps its content. -/
theorem C16_snapshot_immutable_spec (pre ops : List EOp) (hpre : Disciplined pre)
    (hops : Disciplined ops) (s k j : Nat) (l : Loc)
    (hs : (World.empty.run pre).snap s k j = some l) :
    ((World.empty.run pre).run ops).snap s k j = some l ∧
    ((World.empty.run pre).run ops).snapVal s k j = (World.empty.run pre).snapVal s k j := by
  obtain ⟨hI, hS⟩ := C16_reach hpre
  have := snap_stable_run hI hS hs ops hops
  refine ⟨this.1, ?_⟩
  simp [World.snapVal, this.1, hs, this.2]

/-- The same for the measured family table: `CopyDiscipline tbl →` for all operation
    sequences on any samplers, the content of a snapshot is unchanged. -/
theorem C16_snapshot_immutable (tbl : List Family) (h : CopyDiscipline tbl) (pre ops : List EOp)
    (hpre : FromTable tbl pre) (hops : FromTable tbl ops) (s k j : Nat)
    (hs : ((World.empty.run pre).snapVal s k j).isSome) :
    ((World.empty.run pre).run ops).snapVal s k j = (World.empty.run pre).snapVal s k j := by
  cases hl : (World.empty.run pre).snap s k j with
  | none => simp [World.snapVal, hl] at hs
  | some l =>
    exact (C16_snapshot_immutable_spec pre ops (C16_disciplined_of_table h hpre)
      (C16_disciplined_of_table h hops) s k j l hl).2

/-- **Separation** (the invariant of every operation): an array that an in-place
    attribute of some sampler is bound to, or keeps as its stored initial value, is
    referenced by attributes of that sampler only, and by no snapshot. -/
theorem C16_separation (pre : List EOp) (hpre : Disciplined pre) :
    (∀ s j f s' j' g l, (World.empty.run pre).fld s j = some f → (World.empty.run pre).fld s' j' = some g →
      g.spec.inplace = true → refsOf g l → refsOf f l → s = s') ∧
    (∀ s k j l s' j' g, (World.empty.run pre).snap s k j = some l → (World.empty.run pre).fld s' j' = some g →
      g.spec.inplace = true → ¬ refsOf g l) := by
  obtain ⟨hI, _⟩ := C16_reach hpre
  exact ⟨fun _ _ _ _ _ _ _ h1 h2 h3 h4 h5 => (hI.own h1 h2 h3 h4 h5).1,
         fun _ _ _ _ _ _ _ h1 h2 h3 => hI.snap_sep h1 h2 h3⟩

/-- **No coupling**, attribute granularity: after any history (in particular: any
    number of samplers set from one snapshot object), for any interleaving `ops` of
    the samplers' running (updates, resets, reads of `state`), sampler `s` ends up
    with exactly the names, counters and contents it has when only its own
    operations are performed. -/
theorem C16_no_coupling_spec (pre ops : List EOp) (hpre : Disciplined pre)
    (hrun : ∀ op ∈ ops, op.isRun = true) (s : Nat) :
    Agree s ((World.empty.run pre).run ops)
            ((World.empty.run pre).run (ops.filter fun o => o.owner = s)) := by
  obtain ⟨hI, hS⟩ := C16_reach hpre
  exact agree_run hI hS (Agree.refl _ _) ops hrun

/-- **No coupling**, sampler level: every burst of a sampler may be an arbitrary
    function of what that sampler sees of itself (its adaptive updates are computed
    from its own current distribution).  `CopyDiscipline tbl →` for any number of
    samplers loaded from one snapshot object (any `pre`) and any interleaving of
    their bursts, each sees exactly what it sees when it runs alone. -/
theorem C16_no_coupling (tbl : List Family) (h : CopyDiscipline tbl) (pre : List EOp)
    (hpre : FromTable tbl pre) (bursts : List SOp) (s : Nat) :
    ((World.empty.run pre).srun bursts).view s =
    ((World.empty.run pre).srun (bursts.filter fun o => o.s = s)).view s := by
  obtain ⟨hI, hS⟩ := C16_reach (C16_disciplined_of_table h hpre)
  exact (agree_srun hI hS (Agree.refl _ _) bursts).view

/-- The finer form of the same, for the table of `harness/gen_alias.py`. -/
theorem C16_no_coupling_fine (pre : List EOp) (hpre : Disciplined pre) (bursts : List SOp) (s : Nat) :
    ((World.empty.run pre).srun bursts).view s =
    ((World.empty.run pre).srun (bursts.filter fun o => o.s = s)).view s := by
  obtain ⟨hI, hS⟩ := C16_reach hpre
  exact (agree_srun hI hS (Agree.refl _ _) bursts).view

/-- The discipline of a measured variant table gives the discipline of every history
    that constructs attributes of its variants only. -/
theorem C16_disciplined_of_variants (tbl : List Variant) (h : CopyOK tbl) (ops : List EOp)
    (hf : ∀ op ∈ ops, op.specs fun spec => ∃ v ∈ tbl, spec ∈ v.fields) : Disciplined ops := by
  intro op hop
  refine specs_mono (hf op hop) ?_
  rintro spec ⟨v, hv, hs⟩
  exact (h v hv).2 spec hs

/-! ### Non-vacuity: concrete objects meeting the hypotheses -/

/-- An in-place attribute handled the disciplined way (copies in `state`, `set_state`, reset). -/
def goodStd : FieldSpec :=
  { attr := "_std", adapted := true, inplace := true, hot := true, inState := true,
    liveInState := false, aliasedByLoad := false, storeAliases := false, reset := .copy }

/-- Two samplers with an in-place `_std`; a snapshot of the first loaded into both; then
    the second adapts. -/
def demoPre : List EOp :=
  [.construct 0 0 goodStd (.nums [1]) none, .construct 1 0 goodStd (.nums [2]) none,
   .write 0 0 (.nums [3]), .snap 0 0 0, .load 1 0 0 0, .load 0 0 0 0, .write 1 0 (.nums [4])]

example : Disciplined demoPre := by
  intro op hop
  simp [demoPre] at hop
  rcases hop with rfl | rfl | rfl | rfl | rfl | rfl | rfl <;> simp [EOp.specs, FieldSpec.copyOK, goodStd]

example : (World.empty.run demoPre).snapVal 0 0 0 = some (.nums [3]) := by decide
example : (World.empty.run demoPre).deref 1 0 = some (.nums [4]) := by decide
example : (World.empty.run demoPre).deref 0 0 = some (.nums [3]) := by decide

/-- A row of the measured family table (Veitch adaptive normal) that satisfies the discipline. -/
def veitchRow : Family :=
  { name := "adaptive_normal", known := true, symmetric := true, adaptive := true, window := .veitch,
    savesNsteps := true, savesStartStep := true, restoresNsteps := true, passesJumpInterval := true,
    digestRoundTrip := true, snapshotStable := true, loadDecoupled := true,
    resetRestores1 := true, resetRestores2 := true, resetStartStep := true,
    buffers := [{ attr := "_std", inplace := false, liveInState := true, aliasedByLoad := true }],
    resets := [{ attr := "_std", inplace := false, resetAliases := true }] }

example : CopyDiscipline [veitchRow] := by decide

/-! ### The pinned tree: what the measured Sivia–Skilling `_std` does (F11) -/

/-- `_std` as measured on the pinned tree: `*=` in place, handed out live, aliased by `set_state`. -/
def pinnedStd : FieldSpec :=
  { attr := "_std", adapted := true, inplace := true, hot := true, inState := true,
    liveInState := true, aliasedByLoad := true, storeAliases := false, reset := .alias }

/-- With that spec the snapshot changes as the sampler runs on, and a sampler set from
    it is coupled to the source: the discipline is necessary, and this is the replay
    of F11 on the real code (`harness/alias.py`). -/
theorem C16_pinned_counterexample :
    let w := World.empty.run [.construct 0 0 pinnedStd (.nums [1]) none,
                              .construct 1 0 pinnedStd (.nums [2]) none, .snap 0 0 0]
    w.snapVal 0 0 0 = some (.nums [1]) ∧
    (w.run [.write 0 0 (.nums [5])]).snapVal 0 0 0 = some (.nums [5]) ∧
    ((w.run [.load 1 0 0 0]).run [.write 1 0 (.nums [7])]).deref 0 0 = some (.nums [7]) := by
  decide

end Epsie.C16
