/-
  C03, source tie over the extended values: the hot-to-cold loop of
  `ParallelTemperedChain.swap_temperatures` as translated from `epsie/chain/ptchain.py` over `EL`
  (finite / -inf / +inf / nan, `EpsieModel/ExtLog.lean`): `Gen.sweepLoopX`.  The rational translation
  `Gen.sweepLoop` (tied to the model in `C03Source.lean`) cannot express a likelihood that vanishes
  on part of the prior support (`logl = -inf`); in the sampler such a state can only sit at a level
  with `beta = 0` (`C01SourceExt.lean`), i.e. at the hottest level.

  * `C03_source_ext_finite`: on finite inputs the extended loop is the rational one (no length
    hypothesis is needed: `default : EL` is `EL.fin (default : Rat)`, so even the out-of-range reads
    correspond);
  * `C03_source_ext_zero_likelihood_rest`, `C03_source_ext_zero_likelihood_stays_hot`: the hottest
    level holds a state of likelihood 0, the colder ones finite log-likelihoods, finite ladder whose
    hottest pair is strictly ordered: the hottest pair has `logar = -inf`, acceptance ratio exactly
    0, one uniform consumed and the swap refused whatever it is; the rest of the sweep is the
    rational loop body on finite values; the hottest slot still holds the hottest state, and no
    `nan` is recorded, for every uniform stream;
  * `C03_source_ext_two_zero_likelihoods_nan`: two levels both at `-inf`: `logar = nan`; unlike
    `_acceptance_ratio` the code does not raise: it records `nan`, consumes a uniform, does not swap.
-/
import EpsieProps.C03Source
namespace Epsie.C03
open Epsie

/-! ### The extended loop body and the encoding of the rational state -/

/-- The rational acceptance probability among the extended ones (as `C01.arx`). -/
def sx_arx : AR → ARX
  | .zero => .zero
  | .one => .one
  | .exp l => .exp l

theorem sx_arx_ne_nan (a : AR) : sx_arx a ≠ ARX.nan := by cases a <;> simp [sx_arx]

/-- The loop-carried state of the extended loop: `(swap_index, loglk, ars, us)`. -/
abbrev sx_GSt := List Int × EL × List ARX × List Rat

/-- The body of the `for` loop of `Gen.sweepLoopX` (`sx_sweepLoopX_eq`, by `rfl`). -/
def sx_genBodyX (dbetas logls : List EL) (tk : Int) : sx_GSt → sx_GSt :=
  fun (swap_index, loglk, ars, us) =>
      let swk := (Src.get swap_index tk)
      let tj := (tk - 1)
      let loglj := (Src.get logls tj)
      let swj := (Src.get swap_index tj)
      let logar : EL := ((Src.get dbetas tj) * (loglj - loglk))
      if (decide (logar > 0)) then
        let ar : ARX := ARX.one
        let swap := true
        if swap then
          let swap_index := Src.set swap_index tk swj
          let swap_index := Src.set swap_index tj swk
          let ars := Src.set ars tj ar
          (swap_index, loglk, ars, us)
        else
          let loglk : EL := loglj
          let ars := Src.set ars tj ar
          (swap_index, loglk, ars, us)
      else
        let ar : ARX := (ARX.ofExp logar)
        let drawn_us := Src.draw us
        let us := us.tail
        let u := drawn_us
        let swap := (ARX.uLe u ar)
        if swap then
          let swap_index := Src.set swap_index tk swj
          let swap_index := Src.set swap_index tj swk
          let ars := Src.set ars tj ar
          (swap_index, loglk, ars, us)
        else
          let loglk : EL := loglj
          let ars := Src.set ars tj ar
          (swap_index, loglk, ars, us)

theorem sx_sweepLoopX_eq (ntemps : Int) (betas logls : List EL) (us : List Rat) :
    Gen.sweepLoopX ntemps betas logls us =
      (let r := Src.forIn (Src.rangeDown (ntemps - 1) 0)
          (Src.arange ntemps, Src.get logls (-1), Src.zerosARX (ntemps - 1), us)
          (sx_genBodyX (Src.diffX betas) logls)
       (r.1, r.2.2.1, r.2.1, r.2.2.2)) := rfl

/-- A state of the rational loop as a state of the extended one. -/
def sx_enc (s : GSt) : sx_GSt := (s.1, .fin s.2.1, s.2.2.1.map sx_arx, s.2.2.2)

/-- A result of `Gen.sweepLoop` as a result of `Gen.sweepLoopX`: same swap index, acceptance ratios
    through `sx_arx`, carried log-likelihood through `.fin`, same remaining stream. -/
def sx_res (r : List Int × List AR × Rat × List Rat) : List Int × List ARX × EL × List Rat :=
  (r.1, r.2.1.map sx_arx, .fin r.2.2.1, r.2.2.2)

/-! ### `EL` arithmetic and the prelude on encoded lists -/

theorem sx_fin_sub (a b : Rat) : EL.fin a - EL.fin b = EL.fin (a - b) := by
  show EL.fin (a + -b) = EL.fin (a - b)
  rw [Rat.sub_eq_add_neg]

theorem sx_fin_mul (a b : Rat) : EL.fin a * EL.fin b = EL.fin (a * b) := rfl

theorem sx_fin_pos (a : Rat) : (EL.fin a > 0) ↔ (a > 0) := by
  show (EL.ltb (EL.fin 0) (EL.fin a) = true) ↔ _
  simp [EL.ltb]

theorem sx_default : (default : EL) = EL.fin (default : Rat) := rfl

/-- Reads correspond at every index, out of range included (`default : EL = .fin default`). -/
theorem sx_get_map_fin (l : List Rat) (i : Int) :
    Src.get (l.map EL.fin) i = EL.fin (Src.get l i) := by
  unfold Src.get
  rw [sx_default]
  split <;> simp [List.getD_eq_getElem?_getD, List.getElem?_map] <;>
    (cases h : l[_]? <;> simp)

theorem sx_set_map {α β} (f : α → β) (l : List α) (i : Int) (v : α) :
    Src.set (l.map f) i (f v) = (Src.set l i v).map f := by
  unfold Src.set
  split <;> simp [List.map_set]

theorem sx_diffX_map (l : List Rat) : Src.diffX (l.map EL.fin) = (Src.diff l).map EL.fin := by
  induction l with
  | nil => rfl
  | cons a t ih =>
    cases t with
    | nil => rfl
    | cons b rest =>
      have ih' : Src.diffX (EL.fin b :: rest.map EL.fin) = (Src.diff (b :: rest)).map EL.fin := by
        simpa using ih
      simp [Src.diffX, Src.diff, sx_fin_sub, ih']

/-! ### 1. Finite inputs -/

/-- One iteration of the extended body on an encoded state is one iteration of the rational body,
    as soon as the two reads of the iteration (`dbetas[tj]`, `logls[tj]`) are the rational ones. -/
theorem sx_genBodyX_enc (dX lX : List EL) (d l : List Rat) (tk : Int) (s : GSt)
    (hd : Src.get dX (tk - 1) = .fin (Src.get d (tk - 1)))
    (hl : Src.get lX (tk - 1) = .fin (Src.get l (tk - 1))) :
    sx_genBodyX dX lX tk (sx_enc s) = sx_enc (genBody d l tk s) := by
  obtain ⟨idx, lk, ars, us⟩ := s
  have h1 : Src.set (ars.map sx_arx) (tk - 1) ARX.one = (Src.set ars (tk - 1) AR.one).map sx_arx :=
    sx_set_map sx_arx ars (tk - 1) AR.one
  have h2 : ∀ x : Rat, Src.set (ars.map sx_arx) (tk - 1) (ARX.exp x)
      = (Src.set ars (tk - 1) (AR.exp x)).map sx_arx :=
    fun x => sx_set_map sx_arx ars (tk - 1) (AR.exp x)
  simp only [sx_genBodyX, genBody, sx_enc, hd, hl, sx_fin_sub, sx_fin_mul, sx_fin_pos]
  by_cases hpos : Src.get d (tk - 1) * (Src.get l (tk - 1) - lk) > 0
  · simp [hpos, h1]
  · by_cases hu : Src.draw us ≤ Src.get d (tk - 1) * (Src.get l (tk - 1) - lk)
    · simp [hpos, hu, h2, ARX.ofExp, ARX.uLe, Src.uLe]
    · simp [hpos, hu, h2, ARX.ofExp, ARX.uLe, Src.uLe]

/-- The whole `for` loop, over any list of loop values whose reads correspond. -/
theorem sx_forIn_enc (dX lX : List EL) (d l : List Rat) (vals : List Int) (s : GSt)
    (h : ∀ tk ∈ vals, Src.get dX (tk - 1) = .fin (Src.get d (tk - 1))
        ∧ Src.get lX (tk - 1) = .fin (Src.get l (tk - 1))) :
    Src.forIn vals (sx_enc s) (sx_genBodyX dX lX) = sx_enc (Src.forIn vals s (genBody d l)) := by
  induction vals generalizing s with
  | nil => rfl
  | cons v rest ih =>
    unfold Src.forIn
    rw [List.foldl_cons, List.foldl_cons,
      sx_genBodyX_enc dX lX d l v s (h v (by simp)).1 (h v (by simp)).2]
    exact ih _ (fun tk htk => h tk (by simp [htk]))

theorem sx_zeros (n : Int) : Src.zerosARX n = (Src.zerosAR n).map sx_arx := by
  simp [Src.zerosARX, Src.zerosAR, sx_arx]

/-- On finite inputs (any lengths, any `ntemps`) the extended loop is the rational one: same swap
    index, same acceptance ratios (through `sx_arx`), same carried log-likelihood (through `.fin`),
    same remaining stream. -/
theorem C03_source_ext_finite (ntemps : Int) (betas logls us : List Rat) :
    Gen.sweepLoopX ntemps (betas.map .fin) (logls.map .fin) us
      = sx_res (Gen.sweepLoop ntemps betas logls us) := by
  rw [sx_sweepLoopX_eq, sweepLoop_eq]
  have hinit : (Src.arange ntemps, Src.get (logls.map EL.fin) (-1), Src.zerosARX (ntemps - 1), us)
      = sx_enc (Src.arange ntemps, Src.get logls (-1), Src.zerosAR (ntemps - 1), us) := by
    simp [sx_enc, sx_get_map_fin, sx_zeros]
  rw [hinit, sx_diffX_map,
    sx_forIn_enc _ _ (Src.diff betas) logls _ _ (fun tk _ => ⟨sx_get_map_fin _ _, sx_get_map_fin _ _⟩)]
  rfl

/-- In particular no `nan` is recorded on finite inputs. -/
theorem C03_source_ext_finite_no_nan (ntemps : Int) (betas logls us : List Rat) :
    ∀ a ∈ (Gen.sweepLoopX ntemps (betas.map .fin) (logls.map .fin) us).2.1, a ≠ ARX.nan := by
  rw [C03_source_ext_finite]
  intro a ha
  simp only [sx_res, List.mem_map] at ha
  obtain ⟨b, _, rfl⟩ := ha
  exact sx_arx_ne_nan b

/-! ### 2. The hottest level holds a state of likelihood 0 -/

theorem sx_mem_rangeDown (m : Nat) (tk : Int) (h : tk ∈ Src.rangeDown (m : Int) 0) :
    1 ≤ tk ∧ tk ≤ (m : Int) := by
  simp only [Src.rangeDown, List.mem_map, List.mem_range] at h
  obtain ⟨i, hi, rfl⟩ := h
  omega

/-- What an iteration leaves alone: the slots of `swap_index` above `tk`, the slots of `ars` above
    `tj = tk - 1` (whatever the values involved, `nan` included). -/
theorem sx_genBodyX_frame (dX lX : List EL) (k : Nat) (s : sx_GSt) :
    (∀ N, k + 1 < N → (sx_genBodyX dX lX ((k + 1 : Nat) : Int) s).1[N]? = s.1[N]?)
    ∧ (∀ M, k < M → (sx_genBodyX dX lX ((k + 1 : Nat) : Int) s).2.2.1[M]? = s.2.2.1[M]?) := by
  obtain ⟨idx, lk, ars, us⟩ := s
  have htj : ((k + 1 : Nat) : Int) - 1 = (k : Int) := by omega
  simp only [sx_genBodyX, htj, src_set_nat]
  refine ⟨fun N hN => ?_, fun M hM => ?_⟩
  · have h1 : k + 1 ≠ N := by omega
    have h2 : k ≠ N := by omega
    split
    · simp [List.getElem?_set_ne h1, List.getElem?_set_ne h2]
    · split <;> simp [List.getElem?_set_ne h1, List.getElem?_set_ne h2]
  · have h2 : k ≠ M := by omega
    split
    · simp [List.getElem?_set_ne h2]
    · split <;> simp [List.getElem?_set_ne h2]

/-- The loop over `range(m, 0, -1)` leaves alone the slots of `swap_index` above `m` and the slots
    of `ars` from `m` on. -/
theorem sx_forIn_frame (dX lX : List EL) (m : Nat) (s : sx_GSt) :
    (∀ N, m < N →
        (Src.forIn (Src.rangeDown (m : Int) 0) s (sx_genBodyX dX lX)).1[N]? = s.1[N]?)
    ∧ (∀ M, m ≤ M →
        (Src.forIn (Src.rangeDown (m : Int) 0) s (sx_genBodyX dX lX)).2.2.1[M]? = s.2.2.1[M]?) := by
  induction m generalizing s with
  | zero =>
    rw [show ((0 : Nat) : Int) = 0 from rfl, src_rangeDown_zero]
    exact ⟨fun _ _ => rfl, fun _ _ => rfl⟩
  | succ k ih =>
    rw [src_rangeDown_succ]
    unfold Src.forIn
    rw [List.foldl_cons]
    have hb := sx_genBodyX_frame dX lX k s
    have hi := ih (sx_genBodyX dX lX ((k + 1 : Nat) : Int) s)
    unfold Src.forIn at hi
    refine ⟨fun N hN => ?_, fun M hM => ?_⟩
    · rw [hi.1 N (by omega), hb.1 N hN]
    · rw [hi.2 M (by omega), hb.2 M (by omega)]

theorem sx_get_append_fin (ls : List Rat) (x : EL) (j : Nat) (hj : j < ls.length) :
    Src.get (ls.map EL.fin ++ [x]) (j : Int) = EL.fin (Src.get ls (j : Int)) := by
  rw [src_get_nat, src_get_nat]
  simp [List.getD_eq_getElem?_getD, List.getElem?_append_left, hj]

theorem sx_get_last_append (l : List EL) (x : EL) : Src.get (l ++ [x]) (-1) = x := by
  unfold Src.get
  have h : (((l ++ [x]).length : Int) + -1).toNat = l.length := by simp; omega
  rw [if_pos (by decide), h]
  simp

/-- `finite - (-inf) = +inf`. -/
theorem sx_fin_sub_ninf (a : Rat) : EL.fin a - EL.ninf = EL.pinf := rfl

/-- `negative * (+inf) = -inf`. -/
theorem sx_nonpos_mul_pinf (q : Rat) (hne : q ≠ 0) (hnp : ¬ q > 0) :
    EL.fin q * EL.pinf = EL.ninf := by
  show EL.infTimes true q = _
  simp [EL.infTimes, hne, hnp]

/-- The hottest pair: `logar = (β_hot − β_cold) * (logl_cold − (−inf)) = negative * (+inf) = −inf`,
    recorded acceptance ratio 0, one uniform consumed, no swap whatever it is; the carried
    log-likelihood becomes the (finite) one of the colder level. -/
theorem sx_hot_first (k : Nat) (bs ls us : List Rat) (hb : bs.length = k + 2)
    (hl : ls.length = k + 1) (hhot : bs.getD (k + 1) 0 < bs.getD k 0) :
    sx_genBodyX (Src.diffX (bs.map .fin)) (ls.map .fin ++ [.ninf]) ((k + 1 : Nat) : Int)
        (Src.arange ((k + 2 : Nat) : Int), .ninf, Src.zerosARX (((k + 2 : Nat) : Int) - 1), us)
      = sx_enc (Src.arange ((k + 2 : Nat) : Int), ls.getD k 0,
          Src.zerosAR (((k + 2 : Nat) : Int) - 1), us.tail) := by
  have htj : ((k + 1 : Nat) : Int) - 1 = (k : Int) := by omega
  have hz : ((k + 2 : Nat) : Int) - 1 = ((k + 1 : Nat) : Int) := by omega
  have hlj : Src.get (ls.map EL.fin ++ [EL.ninf]) (k : Int) = EL.fin (ls.getD k 0) := by
    rw [sx_get_append_fin ls _ k (by omega), src_get_nat]; rfl
  have hd : Src.get (Src.diffX (bs.map EL.fin)) (k : Int)
      = EL.fin (bs.getD (k + 1) 0 - bs.getD k 0) := by
    rw [sx_diffX_map, sx_get_map_fin, src_get_nat]
    show EL.fin ((Src.diff bs).getD k 0) = _
    rw [src_diff_getD bs k (by omega)]
  have hne : bs.getD (k + 1) 0 - bs.getD k 0 ≠ 0 := by grind
  have hnp : ¬ (bs.getD (k + 1) 0 - bs.getD k 0 > 0) := by grind
  have hlogar : EL.fin (bs.getD (k + 1) 0 - bs.getD k 0) * (EL.fin (ls.getD k 0) - EL.ninf)
      = EL.ninf := by
    rw [sx_fin_sub_ninf, sx_nonpos_mul_pinf _ hne hnp]
  have hng : ¬ (EL.ninf > 0) := by
    show ¬ (EL.ltb (EL.fin 0) EL.ninf = true)
    simp [EL.ltb]
  simp only [sx_genBodyX, sx_enc, htj, hz, hlj, hd, hlogar, hng, src_set_nat]
  simp [ARX.ofExp, ARX.uLe, Src.zerosARX, Src.zerosAR, sx_arx]

/-- The sweep after its first iteration (the hottest pair, refused at the cost of one uniform): the
    extended loop over the remaining pairs, from an encoded (finite) state. -/
theorem sx_hot_unfold (k : Nat) (bs ls us : List Rat) (hb : bs.length = k + 2)
    (hl : ls.length = k + 1) (hhot : bs.getD (k + 1) 0 < bs.getD k 0) :
    Gen.sweepLoopX ((k + 2 : Nat) : Int) (bs.map .fin) (ls.map .fin ++ [.ninf]) us
      = (let r := Src.forIn (Src.rangeDown (k : Int) 0)
            (sx_enc (Src.arange ((k + 2 : Nat) : Int), ls.getD k 0,
              Src.zerosAR (((k + 2 : Nat) : Int) - 1), us.tail))
            (sx_genBodyX (Src.diffX (bs.map .fin)) (ls.map .fin ++ [.ninf]))
         (r.1, r.2.2.1, r.2.1, r.2.2.2)) := by
  rw [sx_sweepLoopX_eq, sx_get_last_append]
  have hr : ((k + 2 : Nat) : Int) - 1 = ((k + 1 : Nat) : Int) := by omega
  have h1 := sx_hot_first k bs ls us hb hl hhot
  rw [hr] at h1 ⊢
  rw [src_rangeDown_succ]
  unfold Src.forIn
  rw [List.foldl_cons, h1]

/-- The reads of the remaining pairs are finite: they are the rational ones. -/
theorem sx_hot_reads (k : Nat) (bs ls : List Rat) (hl : ls.length = k + 1) :
    ∀ tk ∈ Src.rangeDown (k : Int) 0,
      Src.get (Src.diffX (bs.map .fin)) (tk - 1) = .fin (Src.get (Src.diff bs) (tk - 1))
      ∧ Src.get (ls.map EL.fin ++ [EL.ninf]) (tk - 1) = .fin (Src.get ls (tk - 1)) := by
  intro tk htk
  obtain ⟨h1, h2⟩ := sx_mem_rangeDown k tk htk
  refine ⟨by rw [sx_diffX_map, sx_get_map_fin], ?_⟩
  obtain ⟨j, hj⟩ : ∃ j : Nat, tk - 1 = (j : Int) := ⟨(tk - 1).toNat, by omega⟩
  rw [hj]
  exact sx_get_append_fin ls _ j (by omega)

/-- The sweep with a state of likelihood 0 at the hottest level, finite log-likelihoods below, a
    finite ladder whose hottest pair is strictly ordered: the hottest pair is refused with
    acceptance ratio 0 at the cost of one uniform, and what follows is the *rational* loop body
    (`genBody`, the body of `Gen.sweepLoop`) over the remaining pairs `n-3 .. 0`, from the carried
    log-likelihood of level `n-2`. -/
theorem C03_source_ext_zero_likelihood_rest (n : Nat) (bs ls us : List Rat) (hn : 2 ≤ n)
    (hb : bs.length = n) (hl : ls.length = n - 1)
    (hhot : bs.getD (n - 1) 0 < bs.getD (n - 2) 0) :
    Gen.sweepLoopX (n : Int) (bs.map .fin) (ls.map .fin ++ [.ninf]) us
      = (let r := Src.forIn (Src.rangeDown ((n - 2 : Nat) : Int) 0)
            (Src.arange (n : Int), ls.getD (n - 2) 0, Src.zerosAR ((n : Int) - 1), us.tail)
            (genBody (Src.diff bs) ls)
         (r.1, r.2.2.1.map sx_arx, EL.fin r.2.1, r.2.2.2)) := by
  obtain ⟨k, rfl⟩ : ∃ k, n = k + 2 := ⟨n - 2, by omega⟩
  have hk1 : k + 2 - 1 = k + 1 := by omega
  have hk2 : k + 2 - 2 = k := by omega
  rw [hk1] at hl hhot
  rw [hk2] at hhot
  simp only [hk2]
  rw [sx_hot_unfold k bs ls us hb hl hhot,
    sx_forIn_enc _ _ (Src.diff bs) ls _ _ (sx_hot_reads k bs ls hl)]
  rfl

/-- The hottest level holds a state of likelihood 0 (`logl = -inf`), all colder levels have finite
    log-likelihoods, the ladder is finite and strictly decreasing (only the strictness of the
    hottest pair is used): for every uniform stream, after the whole sweep
    * the hottest slot still holds the hottest state (`swap_index[n-1] = n-1`),
    * the recorded acceptance ratio of the hottest pair is exactly 0 (`ars[n-2] = 0.`),
    * no `nan` is recorded for any pair,
    * the carried log-likelihood is finite. -/
theorem C03_source_ext_zero_likelihood_stays_hot (n : Nat) (bs ls us : List Rat) (hn : 2 ≤ n)
    (hb : bs.length = n) (hl : ls.length = n - 1)
    (hdec : ∀ i (h : i + 1 < bs.length), bs[i + 1] < bs[i]) :
    let r := Gen.sweepLoopX (n : Int) (bs.map .fin) (ls.map .fin ++ [.ninf]) us
    r.1[n - 1]? = some ((n : Int) - 1) ∧ r.2.1[n - 2]? = some ARX.zero
      ∧ (∀ a ∈ r.2.1, a ≠ ARX.nan) ∧ (∃ q : Rat, r.2.2.1 = .fin q) := by
  intro r
  obtain ⟨k, rfl⟩ : ∃ k, n = k + 2 := ⟨n - 2, by omega⟩
  have hk1 : k + 2 - 1 = k + 1 := by omega
  have hk2 : k + 2 - 2 = k := by omega
  have hhot : bs.getD (k + 1) 0 < bs.getD k 0 := by
    have h := hdec k (by omega)
    have e1 : bs.getD (k + 1) 0 = bs[k + 1]'(by omega) := by
      simp [List.getD_eq_getElem?_getD, List.getElem?_eq_getElem (show k + 1 < bs.length by omega)]
    have e0 : bs.getD k 0 = bs[k]'(by omega) := by
      simp [List.getD_eq_getElem?_getD, List.getElem?_eq_getElem (show k < bs.length by omega)]
    rw [e1, e0]; exact h
  rw [hk1] at hl
  simp only [hk1, hk2]
  have hX : r = _ := sx_hot_unfold k bs ls us hb hl hhot
  have hQ : r = _ := C03_source_ext_zero_likelihood_rest (k + 2) bs ls us hn hb (by omega)
    (by rw [hk1, hk2]; exact hhot)
  have hfr := sx_forIn_frame (Src.diffX (bs.map .fin)) (ls.map .fin ++ [.ninf]) k
    (sx_enc (Src.arange ((k + 2 : Nat) : Int), ls.getD k 0,
      Src.zerosAR (((k + 2 : Nat) : Int) - 1), us.tail))
  refine ⟨?_, ?_, ?_, ?_⟩
  · rw [hX]
    show (Src.forIn (σ := sx_GSt) _ _ _).1[k + 1]? = _
    rw [hfr.1 (k + 1) (by omega)]
    simp [sx_enc, Src.arange]
    omega
  · rw [hX]
    show (Src.forIn (σ := sx_GSt) _ _ _).2.2.1[k]? = _
    rw [hfr.2 k (by omega)]
    have hz : (((k + 2 : Nat) : Int) - 1).toNat = k + 1 := by omega
    simp only [sx_enc, Src.zerosAR, hz]
    simp [sx_arx]
  · rw [hQ]
    intro a ha
    simp only [List.mem_map] at ha
    obtain ⟨b, _, rfl⟩ := ha
    exact sx_arx_ne_nan b
  · rw [hQ]
    exact ⟨_, rfl⟩

/-! ### 3. Two vanishing likelihoods: `nan`, recorded and not raised -/

/-- Two levels, both holding a state of likelihood 0 (not reachable by sampling, reachable by a
    start position): `logar = dβ * (−inf − (−inf)) = nan`.  Unlike `Chain._acceptance_ratio`
    (`C01_source_ext_both_zero_raises`) the sweep does NOT raise: it records `nan` as the acceptance
    ratio of the pair, consumes one uniform and does not swap -- for every finite ladder and every
    stream. -/
theorem C03_source_ext_two_zero_likelihoods_nan (b0 b1 : Rat) (us : List Rat) :
    Gen.sweepLoopX 2 [.fin b0, .fin b1] [.ninf, .ninf] us
      = ([0, 1], [ARX.nan], .ninf, us.tail) := by
  have hlogar : (EL.fin b1 - EL.fin b0) * (EL.ninf - EL.ninf) = EL.nan := by
    rw [sx_fin_sub]; rfl
  have hng : ¬ (EL.nan > 0) := by
    show ¬ (EL.ltb (EL.fin 0) EL.nan = true)
    simp [EL.ltb]
  rw [sx_sweepLoopX_eq]
  simp [Src.rangeDown, Src.forIn, sx_genBodyX, Src.arange, Src.get, Src.set, Src.diffX,
    Src.zerosARX, List.range_succ, hlogar, hng, ARX.ofExp, ARX.uLe]

/-- The same on concrete values, by evaluation. -/
example :
    Gen.sweepLoopX 2 [.fin 1, .fin (1/2)] [.ninf, .ninf] [-3, 5]
      = ([0, 1], [ARX.nan], .ninf, [5]) := by
  decide +kernel

/-! ### 4. Concrete runs -/

/-- Three levels, all finite (the data of `C03Source.lean`): the extended loop agrees with the
    rational one. -/
example :
    Gen.sweepLoopX 3 ([1, 1/2, 1/4].map .fin) ([2, -3, -1].map .fin) [-2, 7]
      = ([2, 0, 1], [ARX.exp (-3/2), ARX.one], .fin (-1), [7])
    ∧ Gen.sweepLoopX 3 ([1, 1/2, 1/4].map .fin) ([2, -3, -1].map .fin) [-2, 7]
      = sx_res (Gen.sweepLoop 3 [1, 1/2, 1/4] [2, -3, -1] [-2, 7]) := by
  decide +kernel

/-- Three levels, the hottest at likelihood 0: the pair (1,2) has acceptance ratio 0 and is refused
    (the uniform `-2` is consumed); the pair (0,1) then runs on finite values, `logar = -5/2`, and is
    accepted by the uniform with logarithm `-3 ≤ -5/2`.  The hottest slot keeps the hottest state. -/
example :
    Gen.sweepLoopX 3 ([1, 1/2, 1/4].map .fin) ([2, -3].map .fin ++ [.ninf]) [-2, -3, 9]
      = ([1, 0, 2], [ARX.exp (-5/2), ARX.zero], .fin (-3), [9]) := by
  decide +kernel

/-- The same with the second uniform's logarithm `7 > -5/2`: no swap at all. -/
example :
    Gen.sweepLoopX 3 ([1, 1/2, 1/4].map .fin) ([2, -3].map .fin ++ [.ninf]) [-2, 7, 9]
      = ([0, 1, 2], [ARX.exp (-5/2), ARX.zero], .fin 2, [9]) := by
  decide +kernel

/-- Why the strictness of the hottest pair is assumed: with `β_hot = β_cold` the hottest pair has
    `logar = 0 * (+inf) = nan`, which is recorded (no raise, no swap). -/
example :
    Gen.sweepLoopX 3 ([1, 1/2, 1/2].map .fin) ([2, -3].map .fin ++ [.ninf]) [-2, 7, 9]
      = ([0, 1, 2], [ARX.exp (-5/2), ARX.nan], .fin 2, [9]) := by
  decide +kernel

end Epsie.C03
