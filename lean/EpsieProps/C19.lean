/-
  C19 — Resetting adaptation restores the initial adaptive state, every time.

  Statements only (invariants in EpsieProofs/AliasLemmas.lean).

  * Distribution: model `EpsieModel.Alias` — `_initial_proposal_params` as stored
    locations; `_reset_adaptation` assigns the stored location or a copy per
    measured `FieldSpec`.  `pre` is ANY interleaving of constructions, updates,
    resets (any number) and reads of `state`; the invariant is that a stored
    initial array is never the array an in-place attribute is bound to.
    `set_state` is excluded from `pre` in the theorems that assume the reset
    discipline alone (the property quantifies over steps and resets);
    `C19_reset_restores_with_loads` allows it under both disciplines.
  * Clock: `PropSt.reset` / `PropSt.update` of `EpsieModel.Proposal`.
  * What the code rejects: nothing at a reset.  `_reset_adaptation` assigns
    `self.start_step = max(self.nsteps, 1)`; the `start_step` setter still raises
    `ValueError` for a value `< 1` (`Alias.setStartStep`), and is never given one
    (`C19_reset_always_succeeds`).  Before the proposal's first completed proposal
    step "the current step" is step 1: the clock after such a reset is that of a
    freshly constructed proposal (`C19_window_step0_as_fresh`).
  * `reset_after_swap`: `PTChain.applySwap` (the apply block of
    `swap_temperatures`).  That the real method call exists at all is not a fact
    of the model: the failing-input search runs real PT samplers with the option
    on (`harness/alias.py`).

  Hypotheses `ResetDiscipline tbl` (family table of `EpsieModel.Tables`) /
  `FieldSpec.resetSafe` (finer table of `harness/gen_alias.py`) are decided about
  the measured tables in `EpsieProps/C19Table.lean`, built separately by the check.
  Partial in that respect only: the tables are measured, not derived from CPython.
-/
import EpsieProofs.AliasLemmas
namespace Epsie.C19
open Alias

/-- A history of constructions obeying the reset discipline, updates, resets and reads of `state`. -/
def Disciplined (ops : List EOp) : Prop :=
  ∀ op ∈ ops, op.noLoad = true ∧ op.specs FieldSpec.resetSafe

/-- A spec agrees with a `resets` entry of the family table.  That table does not
    measure the construction-time store: it is a copy here (`Generated/Alias.lean`
    measures it; `C19_reset_restores_spec` covers a store by reference). -/
def MatchesReset (spec : FieldSpec) (r : ResetBuf) : Prop :=
  spec.inplace = r.inplace ∧ spec.hot = r.inplace ∧ spec.storeAliases = false ∧
  (spec.reset = .alias → r.resetAliases = true)

/-- Every constructed attribute belongs to an adaptive family of `tbl`: a listed entry
    of `_initial_proposal_params`, or an attribute never mutated in place. -/
def FromTable (tbl : List Family) (ops : List EOp) : Prop :=
  ∀ op ∈ ops, op.noLoad = true ∧ op.specs fun spec =>
    (∃ f ∈ tbl, f.adaptive = true ∧ ∃ r ∈ f.resets, MatchesReset spec r) ∨
    (spec.inplace = false ∧ spec.hot = false)

theorem C19_disciplined_of_table {tbl : List Family} (h : ResetDiscipline tbl) {ops : List EOp}
    (hf : FromTable tbl ops) : Disciplined ops := by
  intro op hop
  refine ⟨(hf op hop).1, specs_mono (hf op hop).2 ?_⟩
  rintro spec (⟨f, hft, hfa, r, hr, h1, h2, h3, h4⟩ | ⟨h1, h2⟩)
  · have hd := (h f hft hfa).1 r hr
    refine ⟨fun hp => ⟨fun ha => ?_, h3⟩, fun _ => h3⟩
    rw [h1] at hp
    have := hd hp
    rw [h4 ha] at this; cases this
  · exact ⟨fun hp => by simp [h1] at hp, fun hh => by simp [h2] at hh⟩

/-- What "restored" means for a whole proposal: each of its attributes that the
    reset restores or recomputes holds its construction-time content. -/
def RestoredProp (w0 w : World) (p : AProp) : Prop :=
  ∀ j ∈ p.slots, ∀ f, w0.fld p.s j = some f → f.spec.reset ≠ .none →
    ∃ f', w.fld p.s j = some f' ∧ f'.spec = f.spec ∧ w.deref p.s j = some f.v0

/-- **A reset always succeeds** (any proposal, any state, before the first step too): the
    `start_step` setter is handed `max(nsteps, 1) ≥ 1`, which it accepts; the clock part is
    `PropSt.reset`, the attributes are re-installed one by one. -/
theorem C19_reset_always_succeeds (p : AProp) (w : World) :
    p.reset w = some ({ p with st := p.st.reset },
                      if p.st.cfg.adaptive then w.run (resetAll p.s p.slots) else w) ∧
    (p.st.cfg.adaptive = true → p.st.reset.startStep = max p.st.nsteps 1 ∧ 1 ≤ p.st.reset.startStep ∧
      (1 ≤ p.st.nsteps → p.st.reset.startStep = p.st.nsteps)) := by
  refine ⟨?_, fun ha => ?_⟩
  · unfold AProp.reset
    by_cases ha : p.st.cfg.adaptive = true
    · have hlt : ¬ max p.st.nsteps 1 < 1 := by omega
      simp [ha, setStartStep, hlt, PropSt.reset]
    · have ha' : p.st.cfg.adaptive = false := by simpa using ha
      simp [ha', PropSt.reset_nonadaptive p.st ha']
  · have hf := (PropSt.reset_facts p.st ha).2.1
    refine ⟨hf, by omega, fun h1 => by omega⟩

theorem C19_reset_restores_from_invariant {w : World} (hg : GoodR w) (p : AProp) (p' : AProp) (w' : World)
    (hr : p.reset w = some (p', w')) (ha : p.st.cfg.adaptive = true) :
    GoodR w' ∧ p'.st.startStep = max p'.st.nsteps 1 ∧ p'.st.nsteps = p.st.nsteps ∧
    p'.st.events = [] ∧ RestoredProp w w' p := by
  rw [(C19_reset_always_succeeds p w).1, if_pos ha] at hr
  cases hr
  obtain ⟨g1, _, g3⟩ := restored_resetAll hg p.s p.slots
  have hf := PropSt.reset_facts p.st ha
  have hn : p.st.reset.nsteps = p.st.nsteps := by
    unfold PropSt.nsteps; rw [hf.2.2.1, hf.1]
  refine ⟨g1, ?_, hn, hf.2.2.2, ?_⟩
  · show p.st.reset.startStep = max p.st.reset.nsteps 1
    rw [hn]; exact hf.2.1
  · intro j hj f hf0 hm
    obtain ⟨f', hf', hv⟩ := g3 j hj f hf0 hm
    obtain ⟨f'', hf'', hsp, hv0⟩ := spec_run hf0 (resetAll p.s p.slots)
    rw [hf'] at hf''; cases hf''
    refine ⟨f', hf', hsp, ?_⟩
    show (World.deref _ p.s j) = some f.v0
    unfold World.deref
    rw [hf']
    simp [hv, hv0]

/-- **A reset restores, every time** (fine table).  After ANY interleaving `pre` of
    updates and resets (any number, of any attributes of any samplers), a successful
    `_reset_adaptation` of an adaptive proposal leaves `start_step = max(nsteps, 1)`, an empty
    adaptation record, and every attribute that the reset restores or recomputes with
    exactly its construction-time content; and the resulting state again satisfies the
    invariant, so the same holds after every later reset. -/
theorem C19_reset_restores_spec (pre : List EOp) (hpre : Disciplined pre) (p p' : AProp) (w' : World)
    (hr : p.reset (World.empty.run pre) = some (p', w')) (ha : p.st.cfg.adaptive = true) :
    p'.st.startStep = max p'.st.nsteps 1 ∧ p'.st.events = [] ∧
    RestoredProp (World.empty.run pre) w' p ∧ GoodR w' := by
  have hg := goodR_empty.run pre hpre
  obtain ⟨g, h1, _, h2, h3⟩ := C19_reset_restores_from_invariant hg p p' w' hr ha
  exact ⟨h1, h2, h3, g⟩

/-- The same from the measured family table: `ResetDiscipline tbl →` for all
    interleavings of steps and resets, right after each reset every adaptive
    proposal's restored attributes equal their construction-time values and
    `start_step = nsteps` (`= 1` before the first completed proposal step). -/
theorem C19_reset_restores (tbl : List Family) (h : ResetDiscipline tbl) (pre : List EOp)
    (hpre : FromTable tbl pre) (p p' : AProp) (w' : World)
    (hr : p.reset (World.empty.run pre) = some (p', w')) (ha : p.st.cfg.adaptive = true) :
    p'.st.startStep = max p'.st.nsteps 1 ∧ p'.st.events = [] ∧ RestoredProp (World.empty.run pre) w' p :=
  let r := C19_reset_restores_spec pre (C19_disciplined_of_table h hpre) p p' w' hr ha
  ⟨r.1, r.2.1, r.2.2.1⟩

/-- With `set_state` anywhere in the history too, under both disciplines. -/
theorem C19_reset_restores_with_loads (pre : List EOp)
    (hpre : ∀ op ∈ pre, op.specs FieldSpec.copyOK ∧ op.specs FieldSpec.resetSafe)
    (p p' : AProp) (w' : World)
    (hr : p.reset (World.empty.run pre) = some (p', w')) (ha : p.st.cfg.adaptive = true) :
    p'.st.startStep = max p'.st.nsteps 1 ∧ p'.st.events = [] ∧ RestoredProp (World.empty.run pre) w' p := by
  have hg := (good_empty.run pre hpre).toGoodR
  obtain ⟨_, h1, _, h2, h3⟩ := C19_reset_restores_from_invariant hg p p' w' hr ha
  exact ⟨h1, h2, h3⟩

/-- Completeness of the reset for a measured variant table: every attribute that an
    update can change is restored or recomputed (so "restored attributes" above are
    all the attributes that can have changed). -/
theorem C19_reset_complete (tbl : List Variant) (h : ResetOK tbl) :
    ∀ v ∈ tbl, v.adaptive = true → ∀ f ∈ v.fields, f.adapted = true → f.reset ≠ .none :=
  fun v hv ha f hf => ((h v hv).2 ha f hf).2

/-- An update never writes an attribute that no `_update` was measured to change. -/
theorem C19_non_adapted_never_written (w : World) (s j : Nat) (v : Buf) (f : Field)
    (hf : w.fld s j = some f) (hna : f.spec.adapted = false) : w.write s j v = w := by
  simp [World.write, hf, hna]

/-- **The window restarts at the current step**, whatever the jump interval: after a
    reset and any number of further updates the adaptation clock reads
    `nsteps − max(nsteps at the reset, 1) + 1`, and nothing of the earlier history is left. -/
theorem C19_window_restarts (p : PropSt) (ha : p.cfg.adaptive = true) (us : List (Bool × AR × List Val)) :
    (p.reset.advance us).startStep = max p.nsteps 1 ∧
    (p.reset.advance us).raw = p.raw + us.length ∧
    (p.reset.advance us).dkUpdate =
      ((p.reset.advance us).nsteps : Int) - ((max p.nsteps 1 : Nat) : Int) + 1 ∧
    p.reset.events = [] := by
  have hf := PropSt.reset_facts p ha
  have ha' := PropSt.advance_facts p.reset us
  refine ⟨by rw [ha'.2.1, hf.2.1], by rw [ha'.2.2, hf.2.2.1], ?_, hf.2.2.2⟩
  unfold PropSt.dkUpdate
  rw [ha'.2.1, hf.2.1]

/-- The clock value at the first update after a reset: 1 once a proposal step has been
    completed, 0 (as at construction) before. -/
def firstDk (p : PropSt) : Int := if p.nsteps = 0 then 0 else 1

/-- **…and the proposal adapts for a full window again** (jump interval 1): of the `n`
    updates after a reset exactly `cnt window T (firstDk p) n` change the distribution,
    independently of everything else before the reset. -/
theorem C19_window_full (p : PropSt) (ha : p.cfg.adaptive = true) (hk : p.cfg.k = 1)
    (us : List (Bool × AR × List Val)) :
    (p.reset.advance us).events.length = PropSt.cnt p.cfg.window p.cfg.T (firstDk p) us.length := by
  have hf := PropSt.reset_facts p ha
  have := PropSt.events_advance p.reset (by rw [hf.1]; exact hk) us
  rw [this, hf.2.2.2, hf.1]
  have hdk : p.reset.dkUpdate = firstDk p := by
    unfold PropSt.dkUpdate firstDk
    have hn : p.reset.nsteps = p.nsteps := by unfold PropSt.nsteps; rw [hf.2.2.1, hf.1]
    rw [hn, hf.2.1]
    split <;> omega
  rw [hdk]; simp

/-- Before the first completed proposal step a reset leaves the clock of a freshly
    constructed proposal (`start_step = 1`): the following updates adapt exactly as its do. -/
theorem C19_window_step0_as_fresh (p : PropSt) (ha : p.cfg.adaptive = true) (hk : p.cfg.k = 1)
    (h0 : p.nsteps = 0) (h1 : p.cfg.start0 = 1) (us : List (Bool × AR × List Val)) :
    (p.reset.advance us).dkUpdate = ((PropSt.fresh p.cfg).advance us).dkUpdate ∧
    (p.reset.advance us).events.length = ((PropSt.fresh p.cfg).advance us).events.length := by
  have hf := PropSt.reset_facts p ha
  have hraw : p.raw = 0 := by
    have : p.raw / p.cfg.k = 0 := h0
    rw [hk] at this; simpa using this
  have a1 := PropSt.advance_facts p.reset us
  have a2 := PropSt.advance_facts (PropSt.fresh p.cfg) us
  refine ⟨?_, ?_⟩
  · unfold PropSt.dkUpdate PropSt.nsteps
    rw [a1.1, a1.2.1, a1.2.2, a2.1, a2.2.1, a2.2.2, hf.1, hf.2.1, hf.2.2.1, h0, hraw]
    simp [PropSt.fresh, h1]
  · rw [C19_window_full p ha hk us, PropSt.events_advance (PropSt.fresh p.cfg) hk us]
    have hdk : (PropSt.fresh p.cfg).dkUpdate = 0 := by
      simp [PropSt.dkUpdate, PropSt.nsteps, PropSt.fresh, h1]
    rw [hdk]
    simp [firstDk, h0, PropSt.fresh]

/-- A freshly constructed proposal (`start_step = 1`) never adapts at its very first
    update; its next `n` updates adapt exactly as often as the `n` updates after a reset. -/
theorem C19_window_same_as_fresh (cfg : PropCfg) (hk : cfg.k = 1) (h1 : cfg.start0 = 1)
    (hw : cfg.window = .veitch ∨ cfg.window = .at) (u : Bool × AR × List Val)
    (us : List (Bool × AR × List Val)) :
    ((PropSt.fresh cfg).advance (u :: us)).events.length = PropSt.cnt cfg.window cfg.T 1 us.length := by
  have := PropSt.events_advance (PropSt.fresh cfg) hk (u :: us)
  rw [this]
  have hdk : (PropSt.fresh cfg).dkUpdate = 0 := by
    simp [PropSt.dkUpdate, PropSt.nsteps, PropSt.fresh, h1]
  rw [hdk]
  simp only [PropSt.fresh, List.length_nil, Nat.zero_add, List.length_cons]
  exact PropSt.cnt_shift _ _ _ hw

/-- Closed forms: a full window is `T − 1` updates (Veitch), `T − 2` (Andrieu–Thoms
    style guards `1 < dk`), every update (Sivia–Skilling) — whether the clock starts at 1
    (reset after a completed step) or at 0 (construction, reset before the first step). -/
theorem C19_window_length (T n : Nat) :
    PropSt.cnt .veitch T 1 n = min n (T - 1) ∧
    PropSt.cnt .at T 1 (n + 1) = min n (T - 2) ∧
    PropSt.cnt .ss T 1 n = n ∧
    PropSt.cnt .veitch T 0 (n + 1) = min n (T - 1) ∧
    PropSt.cnt .at T 0 (n + 2) = min n (T - 2) := by
  refine ⟨?_, ?_, PropSt.cnt_ss T 1 n, ?_, ?_⟩
  rotate_left 2
  · rw [PropSt.cnt_shift _ _ _ (Or.inl rfl), PropSt.cnt_veitch T n 1 (by omega)]; omega
  · rw [PropSt.cnt_shift _ _ _ (Or.inr rfl), PropSt.cnt, show ((1 : Int) + 1) = 2 from rfl,
      PropSt.cnt_at T n 2 (by omega)]
    simp [PropSt.inWin]; omega
  · rw [PropSt.cnt_veitch T n 1 (by omega)]; omega
  · rw [PropSt.cnt, show ((1 : Int) + 1) = 2 from rfl, PropSt.cnt_at T n 2 (by omega)]
    simp [PropSt.inWin]; omega

/-- **Proposals without adaptation are untouched**: by the proposal-level reset … -/
theorem C19_non_adaptive_untouched (p : AProp) (w : World) (hna : p.st.cfg.adaptive = false) :
    p.reset w = some (p, w) := by
  simp [AProp.reset, hna]

/-- … and by `Chain.reset_proposals`, which changes nothing of the chain but the
    adaptive proposals' clocks. -/
theorem C19_non_adaptive_untouched_chain (c : Chain) :
    (∀ (i : Nat) (p : PropSt), c.props[i]? = some p → p.cfg.adaptive = false →
      c.resetProposals.props[i]? = some p) ∧
    c.resetProposals.props.length = c.props.length ∧
    c.resetProposals.scratch = c.scratch ∧ c.resetProposals.iteration = c.iteration ∧
    c.resetProposals.lastclear = c.lastclear ∧ c.resetProposals.start = c.start ∧
    c.resetProposals.proposed = c.proposed ∧ c.resetProposals.beta = c.beta := by
  refine ⟨?_, by simp [Chain.resetProposals], rfl, rfl, rfl, rfl, rfl, rfl⟩
  intro i p hp hna
  simp [Chain.resetProposals, hp, PropSt.reset_nonadaptive p hna]

/-- **`reset_after_swap` resets exactly the levels whose state was exchanged**: level
    `t` of the result has its proposals reset iff `swap_index[t] ≠ t`; every other
    level keeps its proposals as they are. -/
theorem C19_reset_after_swap_exact (levels : List Chain) (idx : List Nat) (t : Nat)
    (ht : t < levels.length) :
    ∃ l', (PTChain.applySwap true levels idx)[t]? = some l' ∧
      l'.props = if idx.getD t t ≠ t then levels[t].props.map PropSt.reset else levels[t].props := by
  obtain ⟨l', h1, h2⟩ := PTChain.applySwap_getElem? true levels idx t ht
  refine ⟨l', h1, ?_⟩
  rw [h2]
  simp

/-- Without the option nothing is reset. -/
theorem C19_no_reset_without_option (levels : List Chain) (idx : List Nat) (t : Nat)
    (ht : t < levels.length) :
    ∃ l', (PTChain.applySwap false levels idx)[t]? = some l' ∧ l'.props = levels[t].props := by
  obtain ⟨l', h1, h2⟩ := PTChain.applySwap_getElem? false levels idx t ht
  exact ⟨l', h1, by simpa using h2⟩

/-! ### Non-vacuity -/

/-- An in-place attribute stored and restored the disciplined way. -/
def goodStd : FieldSpec :=
  { attr := "_std", adapted := true, inplace := true, hot := true, inState := true,
    liveInState := false, aliasedByLoad := false, storeAliases := false, reset := .copy }

def demoCfg : PropCfg :=
  { params := [0], symmetric := true, adaptive := true, k := 1, dur := 0, window := .ss, T := 5,
    start0 := 1, comp := false, savesNsteps := true }

/-- Construct, adapt twice, reset, adapt, (then reset again below). -/
def demoPre : List EOp :=
  [.construct 0 0 goodStd (.nums [1]) none, .write 0 0 (.nums [2]), .write 0 0 (.nums [3]),
   .reset 0 0, .write 0 0 (.nums [9])]

def demoProp : AProp := { st := { cfg := demoCfg, raw := 3, startStep := 2, events := [] }, s := 0, slots := [0] }

example : Disciplined demoPre := by
  intro op hop
  simp [demoPre] at hop
  rcases hop with rfl | rfl | rfl | rfl | rfl <;> simp [EOp.specs, EOp.noLoad, FieldSpec.resetSafe, goodStd]

example : (World.empty.run demoPre).deref 0 0 = some (.nums [9]) := by decide
example : ((demoProp.reset (World.empty.run demoPre)).map fun r => (r.2.deref 0 0, r.1.st.startStep)) =
    some (some (.nums [1]), 3) := by decide

/-- The same proposal before any step. -/
def demoProp0 : AProp := { st := { cfg := demoCfg, raw := 0, startStep := 1, events := [] }, s := 0, slots := [0] }

/-- A reset before any step: it succeeds, the window starts at step 1 with the clock at 0. -/
example : ((demoProp0.reset (World.empty.run [.construct 0 0 goodStd (.nums [1]) none])).map
    fun r => (r.2.deref 0 0, r.1.st.startStep, r.1.st.dkUpdate)) = some (some (.nums [1]), 1, 0) := by decide

def veitchRow : Family :=
  { name := "adaptive_normal", known := true, symmetric := true, adaptive := true, window := .veitch,
    savesNsteps := true, savesStartStep := true, restoresNsteps := true, passesJumpInterval := true,
    digestRoundTrip := true, snapshotStable := true, loadDecoupled := true,
    resetRestores1 := true, resetRestores2 := true, resetStartStep := true,
    buffers := [{ attr := "_std", inplace := false, liveInState := true, aliasedByLoad := true }],
    resets := [{ attr := "_std", inplace := false, resetAliases := true }] }

example : ResetDiscipline [veitchRow] := by decide

/-- A swap sweep that exchanged levels 0 and 1 of three: exactly those two are reset. -/
example :
    let lv (r : Nat) : Chain := { beta := 1, props := [{ cfg := demoCfg, raw := r, startStep := 1, events := [] }] }
    ((PTChain.applySwap true [lv 4, lv 4, lv 4] [1, 0, 2]).map fun l => l.props.map (·.startStep)) =
      [[4], [4], [1]] := by decide

/-! ### The pinned tree (F12) -/

/-- `_std` of a Sivia–Skilling proposal as measured on the pinned tree. -/
def pinnedStd : FieldSpec :=
  { attr := "_std", adapted := true, inplace := true, hot := true, inState := true,
    liveInState := true, aliasedByLoad := true, storeAliases := false, reset := .alias }

/-- With the stored object itself re-installed, the first reset restores, the in-place
    updates that follow overwrite the stored initial value, and the second reset
    restores nothing — the replay of F12 on the real code (`harness/alias.py`). -/
theorem C19_pinned_counterexample :
    let w1 := World.empty.run [.construct 0 0 pinnedStd (.nums [1]) none, .write 0 0 (.nums [2]), .reset 0 0]
    let w2 := w1.run [.write 0 0 (.nums [5]), .reset 0 0]
    w1.deref 0 0 = some (.nums [1]) ∧ w2.deref 0 0 = some (.nums [5]) := by
  decide

end Epsie.C19
