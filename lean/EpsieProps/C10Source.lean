/-
  C10, source tie: `NestedTransdimensional._jump(fromx)` as translated from
  `epsie/proposals/nested_transdimensional.py` on every run by harness/gen_source.py
  (`Gen.tdJump K k newk current_state chosen`)

      current_state = fromx['_state'];  dk = newk - k                  -- `newk`: oracle (model proposal)
      if dk != 0:
          indx = where(~current_state) if dk > 0 else where(current_state)
          mask = random_generator.choice(indx, size=abs(dk), replace=False)   -- `chosen`: oracle
          proposed_state = current_state.copy();  proposed_state[mask] = ~proposed_state[mask]
          bd_mask = ~cur & prop  (dk > 0)   /   cur & ~prop  (dk < 0)
          for prop in proposals[bd_mask]: birth (dk > 0) / NaN-out (dk < 0)
      else: proposed_state = current_state
      for prop in proposals[cur & prop]: in-model jump

  returns `(newk, proposed_state, choiceW, bornW, killedW, movedW)`: the request made to `choice`
  (candidate list, size) and, in increasing component order, which components drew a birth value /
  were NaN-ed out / made an in-model jump.  It is characterised here exactly, for ALL arguments
  (`K` = the length of the active set), and tied to the hand-written model `Transdim.jump` about
  which the C10 theorems (EpsieProps/C10.lean) are proved.

  Route: `Src.rangeUp 0 n` is `List.range n` cast to `Int` (`src10_rangeUp`); a guarded
  log-appending loop appends the filtered index list (`src10_loop1`, `src10_loop2` for the loop
  that carries the pair `(bornW, killedW)`); hence the closed form `C10_source_closed_form`.  The
  translator renders the fancy-index assignment `arr[mask] = ~arr[mask]` as a sequential flip
  (`Src.flipAt`); it is the model's all-at-once `flip` when the indices are pairwise different
  (`src10_flipAt_eq_flip`), and NOT otherwise (example below).

  Core Lean only.
-/
import EpsieModel.Generated.Source
import EpsieModel.Transdim
namespace Epsie.C10
open Epsie Transdim

/-! ### Prelude operations on natural indices -/

theorem src10_get_bool (l : List Bool) (i : Nat) : Src.get l (i : Int) = l.getD i false := by
  unfold Src.get
  have h : ¬ ((i : Int) < 0) := by omega
  simp only [h, if_false, Int.toNat_natCast]
  rfl

theorem src10_set (l : List Bool) (i : Nat) (v : Bool) : Src.set l (i : Int) v = l.set i v := by
  unfold Src.set
  have h : ¬ ((i : Int) < 0) := by omega
  simp only [h, if_false, Int.toNat_natCast]

theorem src10_rangeUp (n : Nat) :
    Src.rangeUp 0 (n : Int) = (List.range n).map (fun (t : Nat) => (t : Int)) := by
  unfold Src.rangeUp
  have h : ((n : Int) - 0).toNat = n := by omega
  rw [h]
  apply List.map_congr_left
  intro i _
  omega

/-- Filtering the cast range is casting the filtered range. -/
theorem src10_filter_range (n : Nat) (c : Int → Bool) :
    ((List.range n).map (fun (t : Nat) => (t : Int))).filter c
      = ((List.range n).filter (fun (t : Nat) => c (t : Int))).map (fun (t : Nat) => (t : Int)) := by
  rw [List.filter_map]; rfl

/-! ### The loops -/

abbrev Log := List (Int × Unit)

theorem src10_loop1 (c : Int → Bool) (l : List Int) (m : Log) :
    Src.forIn l m (fun j m => if c j then Src.wr m j () else m)
      = m ++ (l.filter c).map (fun j => (j, ())) := by
  induction l generalizing m with
  | nil => simp [Src.forIn]
  | cons t l ih =>
    unfold Src.forIn at ih ⊢
    rw [List.foldl_cons, ih]
    cases hc : c t <;> simp [Src.wr, hc]

theorem src10_loop2 (cb ck : Int → Bool) (f : Int → Log × Log → Log × Log)
    (hf : ∀ v b k, f v (b, k)
      = (if cb v then Src.wr b v () else b, if ck v then Src.wr k v () else k))
    (l : List Int) (b k : Log) :
    Src.forIn l (b, k) f
      = (b ++ (l.filter cb).map (fun j => (j, ())), k ++ (l.filter ck).map (fun j => (j, ()))) := by
  induction l generalizing b k with
  | nil => simp [Src.forIn]
  | cons t l ih =>
    unfold Src.forIn at ih ⊢
    rw [List.foldl_cons, hf, ih]
    cases hb : cb t <;> cases hk : ck t <;> simp [Src.wr, hb, hk]

/-- The log of the components `j < n` selected by `sel`, increasing. -/
def logOf (n : Nat) (sel : Nat → Bool) : Log :=
  ((List.range n).filter sel).map (fun (j : Nat) => ((j : Int), ()))

theorem src10_log (n : Nat) (c : Int → Bool) (sel : Nat → Bool) (h : ∀ j : Nat, c (j : Int) = sel j) :
    (((List.range n).map (fun (t : Nat) => (t : Int))).filter c).map (fun j => (j, ()))
      = logOf n sel := by
  rw [src10_filter_range, List.map_map]
  unfold logOf
  congr 2
  funext j; exact h j

/-- The translated `_jump`, all six outputs, for ALL arguments (`K` = the length of the active set;
    `chosen` any list of Python integers). -/
theorem C10_source_closed_form (k newk : Int) (cur : List Bool) (chosen : List Int) :
    Gen.tdJump (cur.length : Int) k newk cur chosen
      = if newk = k then
          (newk, cur, [], [], [], logOf cur.length (fun j => cur.getD j false && cur.getD j false))
        else
          let y := Src.flipAt cur chosen
          (newk, y,
           [((candidates (decide (newk - k > 0)) cur).map (fun (j : Nat) => (j : Int)),
             ((newk - k).natAbs : Int))],
           logOf cur.length (fun j => decide (newk > k) && !(cur.getD j false) && y.getD j false),
           logOf cur.length (fun j => decide (newk < k) && cur.getD j false && !(y.getD j false)),
           logOf cur.length (fun j => cur.getD j false && y.getD j false)) := by
  unfold Gen.tdJump
  by_cases h0 : newk = k
  · subst h0
    have e1 : decide (newk - newk ≠ 0) = false := decide_eq_false (by omega)
    simp only [e1, Bool.false_eq_true, if_false, if_true]
    rw [src10_rangeUp, src10_loop1, List.nil_append,
      src10_log _ _ (fun j => cur.getD j false && cur.getD j false)
        (fun j => by simp only [src10_get_bool])]
  · have e1 : decide (newk - k ≠ 0) = true := decide_eq_true (by omega)
    simp only [e1, if_true, h0, if_false]
    have hm := src10_log cur.length
      (fun j => Src.get cur j && Src.get (Src.flipAt cur chosen) j)
      (fun j => cur.getD j false && (Src.flipAt cur chosen).getD j false)
      (fun j => by simp only [src10_get_bool])
    by_cases hp : newk - k > 0
    · have e2 : decide (newk - k > 0) = true := decide_eq_true hp
      have e3 : decide (newk > k) = true := decide_eq_true (by omega)
      have e4 : decide (newk < k) = false := decide_eq_false (by omega)
      simp only [e2, if_true]
      rw [src10_rangeUp, src10_loop1,
        src10_loop2 (fun j => !Src.get cur j && Src.get (Src.flipAt cur chosen) j) (fun _ => false) _
          (by intro v b k
              cases hc : (!Src.get cur v && Src.get (Src.flipAt cur chosen) v) <;> simp)]
      simp only [List.nil_append, Src.wr]
      rw [hm,
        src10_log cur.length _
          (fun j => decide (newk > k) && !(cur.getD j false) && (Src.flipAt cur chosen).getD j false)
          (fun j => by simp only [src10_get_bool, e3, Bool.true_and]),
        src10_log cur.length _
          (fun j => decide (newk < k) && cur.getD j false && !((Src.flipAt cur chosen).getD j false))
          (fun j => by simp only [e4, Bool.false_and]),
        src10_filter_range]
      unfold candidates
      simp only [src10_get_bool, if_true]
    · have e2 : decide (newk - k > 0) = false := decide_eq_false hp
      have e2' : decide (newk - k < 0) = true := decide_eq_true (by omega)
      have e3 : decide (newk > k) = false := decide_eq_false (by omega)
      have e4 : decide (newk < k) = true := decide_eq_true (by omega)
      simp only [e2, e2', Bool.false_eq_true, if_false, if_true]
      rw [src10_rangeUp, src10_loop1,
        src10_loop2 (fun _ => false) (fun j => Src.get cur j && !Src.get (Src.flipAt cur chosen) j) _
          (by intro v b k
              cases hc : (Src.get cur v && !Src.get (Src.flipAt cur chosen) v) <;> simp)]
      simp only [List.nil_append, Src.wr]
      rw [hm,
        src10_log cur.length _
          (fun j => decide (newk > k) && !(cur.getD j false) && (Src.flipAt cur chosen).getD j false)
          (fun j => by simp only [e3, Bool.false_and]),
        src10_log cur.length _
          (fun j => decide (newk < k) && cur.getD j false && !((Src.flipAt cur chosen).getD j false))
          (fun j => by simp only [src10_get_bool, e4, Bool.true_and]),
        src10_filter_range]
      unfold candidates
      simp only [src10_get_bool, Bool.false_eq_true, if_false]

/-! ### Sequential flipping vs the model's `flip` -/

theorem src10_nodupB_cons {a : Nat} {l : List Nat} (h : nodupB (a :: l) = true) :
    a ∉ l ∧ nodupB l = true := by
  simpa [nodupB] using h

theorem src10_flipAt_cons (l : List Bool) (c : Nat) (ch : List Nat) :
    Src.flipAt l ((c :: ch).map (fun (j : Nat) => (j : Int)))
      = Src.flipAt (l.set c (!(l.getD c false))) (ch.map (fun (j : Nat) => (j : Int))) := by
  unfold Src.flipAt
  rw [List.map_cons, List.foldl_cons, src10_set, src10_get_bool]

theorem src10_flip_set (l : List Bool) (c : Nat) (ch : List Nat) (hc : c ∉ ch) :
    flip (l.set c (!(l.getD c false))) ch = flip l (c :: ch) := by
  unfold Transdim.flip
  rw [List.length_set]
  apply List.map_congr_left
  intro j hj
  have hj : j < l.length := List.mem_range.mp hj
  by_cases hjc : j = c
  · subst hjc
    simp [hc, List.getD_eq_getElem?_getD, hj]
  · have hcj : ¬ c = j := fun h => hjc h.symm
    simp [hjc, hcj, List.getD_eq_getElem?_getD]

theorem src10_flip_nil (l : List Bool) : flip l [] = l := by
  apply List.ext_getElem (by simp [Transdim.flip])
  intro j h1 h2
  simp [Transdim.flip, List.getD_eq_getElem?_getD, h2]

/-- `proposed_state[mask] = logical_not(proposed_state[mask])`, as the translator renders it (one
    component after the other, each reading the array as it then is), is the model's `flip` (all at
    once, by membership) when the entries of `mask` are pairwise different. -/
theorem src10_flipAt_eq_flip (l : List Bool) (ch : List Nat) (hnd : nodupB ch = true) :
    Src.flipAt l (ch.map (fun (j : Nat) => (j : Int))) = flip l ch := by
  induction ch generalizing l with
  | nil => rw [src10_flip_nil]; rfl
  | cons c ch ih =>
    obtain ⟨hc, hnd'⟩ := src10_nodupB_cons hnd
    rw [src10_flipAt_cons, ih _ hnd', src10_flip_set l c ch hc]

/-! ### Counting -/

theorem src10_mem_candidates (up : Bool) (cur : List Bool) (c : Nat) :
    c ∈ candidates up cur ↔ c < cur.length ∧ cur.getD c false = !up := by
  unfold candidates
  rw [List.mem_filter, List.mem_range]
  cases up <;> simp

theorem src10_count_set (l : List Bool) (c : Nat) (h : c < l.length) (v : Bool)
    (hv : l.getD c false = !v) :
    (countTrue (l.set c v) : Int) = countTrue l + (if v then 1 else -1) := by
  unfold countTrue
  have hg : l[c] = !v := by
    simpa [List.getD_eq_getElem?_getD, h] using hv
  rw [List.count_set h, hg]
  cases v
  · have hpos : 0 < List.count true l := by
      rw [List.count_pos_iff]
      have : l[c] = true := by simpa using hg
      exact this ▸ List.getElem_mem h
    simp; omega
  · simp

/-- Flipping `|ch|` pairwise different candidates moves the number of active components by
    `+|ch|` (birth: candidates are the inactive ones) resp. `-|ch|` (death: the active ones). -/
theorem src10_count_flip (up : Bool) (ch : List Nat) : ∀ (cur : List Bool), nodupB ch = true →
    (∀ c ∈ ch, c ∈ candidates up cur) →
    (countTrue (Transdim.flip cur ch) : Int)
      = countTrue cur + (if up then (ch.length : Int) else -(ch.length : Int)) := by
  induction ch with
  | nil => intro cur _ _; rw [src10_flip_nil]; cases up <;> simp
  | cons c ch ih =>
    intro cur hnd hall
    obtain ⟨hc, hnd'⟩ := src10_nodupB_cons hnd
    obtain ⟨hlt, hval⟩ := (src10_mem_candidates up cur c).mp (hall c (by simp))
    rw [← src10_flip_set cur c ch hc, hval, Bool.not_not]
    rw [ih (cur.set c up) hnd', src10_count_set cur c hlt up hval]
    · cases up <;> simp <;> omega
    · intro d hd
      have hdc : ¬ c = d := fun h => hc (h ▸ hd)
      obtain ⟨hdl, hdv⟩ := (src10_mem_candidates up cur d).mp (hall d (by simp [hd]))
      rw [src10_mem_candidates]
      refine ⟨by simpa using hdl, ?_⟩
      rw [← hdv]
      simp [List.getD_eq_getElem?_getD, hdc]

/-! ### The statements -/

/-- The index of the output is the one the model proposal jumped to. -/
theorem C10_source_newk (k newk : Int) (cur : List Bool) (chosen : List Int) :
    (Gen.tdJump (cur.length : Int) k newk cur chosen).1 = newk := by
  rw [C10_source_closed_form]; split <;> rfl

/-- **The request to `choice`.**  When `newk ≠ k` exactly one request is made: `|newk - k|` out of
    the model's `candidates` (the inactive components for a birth, the active ones for a death,
    in increasing order); when `newk = k` none is made (no draw). -/
theorem C10_source_candidates (k newk : Int) (cur : List Bool) (chosen : List Int) :
    (Gen.tdJump (cur.length : Int) k newk cur chosen).2.2.1
      = if newk = k then []
        else [((candidates (decide (newk - k > 0)) cur).map (fun (j : Nat) => (j : Int)),
               ((newk - k).natAbs : Int))] := by
  rw [C10_source_closed_form]; split <;> rfl

/-- The proposed active set, for an arbitrary answer `chosen` of `choice`: the current one when
    `newk = k`, else the current one flipped at `chosen`, one index after the other. -/
theorem C10_source_proposed_state_raw (k newk : Int) (cur : List Bool) (chosen : List Int) :
    (Gen.tdJump (cur.length : Int) k newk cur chosen).2.1
      = if newk = k then cur else Src.flipAt cur chosen := by
  rw [C10_source_closed_form]; split <;> rfl

/-- **The proposed active set** is the model's `flip` of the current one at the chosen components.
    `hnd` (pairwise different, what `replace=False` guarantees) is needed: the translation flips
    one index after the other, so a repeated index is flipped back, whereas the model's `flip`
    (and numpy's `arr[mask] = ~arr[mask]`, which evaluates the right-hand side first) flips it
    once — see the example below.
    `_hlt` (indices in range) is stated because outside it the real code raises `IndexError`; the
    proof does not use it (`Src.set` out of range is a no-op and so is the model's `flip`). -/
theorem C10_source_proposed_state (k newk : Int) (cur : List Bool) (chosenNat : List Nat)
    (_hlt : ∀ c ∈ chosenNat, c < cur.length) (hnd : nodupB chosenNat = true) :
    (Gen.tdJump (cur.length : Int) k newk cur (chosenNat.map (fun (j : Nat) => (j : Int)))).2.1
      = if newk = k then cur else Transdim.flip cur chosenNat := by
  rw [C10_source_proposed_state_raw, src10_flipAt_eq_flip cur chosenNat hnd]

/-- `nodupB` cannot be dropped from `C10_source_proposed_state`: with the index 0 repeated the
    translated code flips component 0 twice, the model once. -/
example :
    (Gen.tdJump 1 0 1 [false] [0, 0]).2.1 = [false] ∧ Transdim.flip [false] [0, 0] = [true] := by
  decide +kernel

theorem src10_logs_aux (k newk : Int) (cur : List Bool) (chosen : List Int)
    (r : Int × List Bool × List (List Int × Int) × Log × Log × Log)
    (hr : r = Gen.tdJump (cur.length : Int) k newk cur chosen) :
    r.2.2.2.1
        = ((List.range cur.length).filter
            (fun j => decide (newk > k) && !(cur.getD j false) && r.2.1.getD j false)).map
            (fun (j : Nat) => ((j : Int), ()))
      ∧ r.2.2.2.2.1
        = ((List.range cur.length).filter
            (fun j => decide (newk < k) && cur.getD j false && !(r.2.1.getD j false))).map
            (fun (j : Nat) => ((j : Int), ()))
      ∧ r.2.2.2.2.2
        = ((List.range cur.length).filter
            (fun j => cur.getD j false && r.2.1.getD j false)).map
            (fun (j : Nat) => ((j : Int), ())) := by
  rw [C10_source_closed_form] at hr
  by_cases h0 : newk = k
  · simp only [h0, if_true] at hr
    have e3 : decide (k > k) = false := decide_eq_false (by omega)
    subst hr
    simp only [h0, e3, Bool.false_and]
    exact ⟨by simp, by simp, rfl⟩
  · simp only [h0, if_false] at hr
    subst hr
    exact ⟨rfl, rfl, rfl⟩

/-- **Which components moved.**  With `y` the proposed active set: `bornW` lists exactly the
    `j < n` with `newk > k ∧ ¬cur[j] ∧ y[j]` (the condition of the model's `bornSet`), `killedW`
    exactly those with `newk < k ∧ cur[j] ∧ ¬y[j]` (`killedSet`), `movedW` exactly those with
    `cur[j] ∧ y[j]` (`movedSet`), each once and in increasing order.  For ALL arguments. -/
theorem C10_source_born_killed_moved (k newk : Int) (cur : List Bool) (chosen : List Int) :
    let r := Gen.tdJump (cur.length : Int) k newk cur chosen
    let y := r.2.1
    r.2.2.2.1
        = ((List.range cur.length).filter
            (fun j => decide (newk > k) && !(cur.getD j false) && y.getD j false)).map
            (fun (j : Nat) => ((j : Int), ()))
      ∧ r.2.2.2.2.1
        = ((List.range cur.length).filter
            (fun j => decide (newk < k) && cur.getD j false && !(y.getD j false))).map
            (fun (j : Nat) => ((j : Int), ()))
      ∧ r.2.2.2.2.2
        = ((List.range cur.length).filter
            (fun j => cur.getD j false && y.getD j false)).map
            (fun (j : Nat) => ((j : Int), ())) := by
  intro r y
  exact src10_logs_aux k newk cur chosen r rfl

/-- A component is never both born and moved. -/
theorem C10_source_born_not_moved (k newk : Int) (cur : List Bool) (chosen : List Int)
    (e : Int × Unit) :
    let r := Gen.tdJump (cur.length : Int) k newk cur chosen
    e ∈ r.2.2.2.1 → e ∉ r.2.2.2.2.2 := by
  intro r hb hm
  obtain ⟨h1, _, h3⟩ := C10_source_born_killed_moved k newk cur chosen
  rw [h1] at hb
  rw [h3] at hm
  obtain ⟨a, ha, rfl⟩ := List.mem_map.mp hb
  obtain ⟨b, hb', hab⟩ := List.mem_map.mp hm
  have hab' : b = a := by
    have := congrArg Prod.fst hab
    simp only at this
    omega
  subst hab'
  have ha := (List.mem_filter.mp ha).2
  have hb' := (List.mem_filter.mp hb').2
  generalize cur.getD b false = c at ha hb'
  cases c <;> simp at ha hb'

/-- A component is never both NaN-ed out and moved. -/
theorem C10_source_killed_not_moved (k newk : Int) (cur : List Bool) (chosen : List Int)
    (e : Int × Unit) :
    let r := Gen.tdJump (cur.length : Int) k newk cur chosen
    e ∈ r.2.2.2.2.1 → e ∉ r.2.2.2.2.2 := by
  intro r hb hm
  obtain ⟨_, h2, h3⟩ := C10_source_born_killed_moved k newk cur chosen
  rw [h2] at hb
  rw [h3] at hm
  obtain ⟨a, ha, rfl⟩ := List.mem_map.mp hb
  obtain ⟨b, hb', hab⟩ := List.mem_map.mp hm
  have hab' : b = a := by
    have := congrArg Prod.fst hab
    simp only at this
    omega
  subst hab'
  have ha := (List.mem_filter.mp ha).2
  have hb' := (List.mem_filter.mp hb').2
  generalize (Gen.tdJump (cur.length : Int) k newk cur chosen).2.1.getD b false = c at ha hb'
  cases c <;> simp at ha hb'

/-- A same-dimension move (`newk = k`): the active set is kept, `choice` is not called, nothing is
    born or killed, and exactly the active components make an in-model jump. -/
theorem C10_source_same_dim (k : Int) (cur : List Bool) (chosen : List Int) :
    let r := Gen.tdJump (cur.length : Int) k k cur chosen
    r.2.1 = cur ∧ r.2.2.1 = [] ∧ r.2.2.2.1 = [] ∧ r.2.2.2.2.1 = []
      ∧ r.2.2.2.2.2
        = ((List.range cur.length).filter (fun j => cur.getD j false)).map
            (fun (j : Nat) => ((j : Int), ())) := by
  intro r
  have hr : r = _ := C10_source_closed_form k k cur chosen
  simp only [if_true] at hr
  rw [hr]
  refine ⟨rfl, rfl, rfl, rfl, ?_⟩
  simp only [logOf, Bool.and_self]

/-! ### The tie to `Transdim.jump` -/

/-- What `jump cfg x i = .ok y` says (read off the definition of `Transdim.jump`). -/
theorem src10_jump_ok_inv {cfg : Cfg} {x y : SPoint} {i : JumpIn} (h : jump cfg x i = .ok y) :
    y.pt.k = i.newk ∧
      ((i.newk = x.pt.k ∧ y.state = x.state) ∨
       (i.newk ≠ x.pt.k ∧ i.chosen.length = (i.newk - x.pt.k).natAbs ∧ nodupB i.chosen = true
          ∧ (∀ c ∈ i.chosen, c ∈ candidates (decide (i.newk - x.pt.k > 0)) x.state)
          ∧ y.state = Transdim.flip x.state i.chosen)) := by
  unfold jump at h
  split at h
  · cases h
  split at h
  · cases h
  simp only at h
  split at h
  · rename_i hdk
    injection h with h; subst h
    exact ⟨rfl, Or.inl ⟨by omega, rfl⟩⟩
  · rename_i hdk
    split at h
    · cases h
    split at h
    · cases h
    rename_i hok
    have hok := Classical.not_not.mp hok
    injection h with h; subst h
    exact ⟨rfl, Or.inr ⟨by omega, hok.1, hok.2.1, hok.2.2, rfl⟩⟩

/-- **C10, source tie.**  Whenever the model's jump succeeds (`jump cfg x i = .ok y`: current and
    new index within the bounds, and for `dk ≠ 0` enough candidates and `i.chosen` a list of `|dk|`
    pairwise different candidates), the translated `_jump`, called as the real method is (`K` =
    the length of the `'_state'` mask, current index and mask those of `x`, the oracles those of
    `i`), returns the index and the mask of `y`, made the request to `choice` that the model
    assumes, and drew a birth value for / NaN-ed out / in-model-jumped exactly the components of
    the model's `bornSet x y` / `killedSet x y` / `movedSet x y`, in increasing order. -/
theorem C10_source_model {cfg : Cfg} {x y : SPoint} {i : JumpIn} (h : jump cfg x i = .ok y) :
    Gen.tdJump (x.state.length : Int) x.pt.k i.newk x.state
        (i.chosen.map (fun (j : Nat) => (j : Int)))
      = (y.pt.k, y.state,
         (if i.newk = x.pt.k then []
          else [((candidates (decide (i.newk - x.pt.k > 0)) x.state).map (fun (j : Nat) => (j : Int)),
                 ((i.newk - x.pt.k).natAbs : Int))]),
         (bornSet x y).map (fun (j : Nat) => ((j : Int), ())),
         (killedSet x y).map (fun (j : Nat) => ((j : Int), ())),
         (movedSet x y).map (fun (j : Nat) => ((j : Int), ()))) := by
  obtain ⟨hk, hst⟩ := src10_jump_ok_inv h
  have hy : (Gen.tdJump (x.state.length : Int) x.pt.k i.newk x.state
      (i.chosen.map (fun (j : Nat) => (j : Int)))).2.1 = y.state := by
    rw [C10_source_proposed_state_raw]
    rcases hst with ⟨h0, hs⟩ | ⟨h0, _, hnd, _, hs⟩
    · rw [if_pos h0, hs]
    · rw [if_neg h0, hs, src10_flipAt_eq_flip _ _ hnd]
  obtain ⟨h1, h2, h3⟩ := C10_source_born_killed_moved x.pt.k i.newk x.state
    (i.chosen.map (fun (j : Nat) => (j : Int)))
  simp only [hy] at h1 h2 h3
  refine Prod.ext ?_ (Prod.ext hy (Prod.ext ?_ (Prod.ext ?_ (Prod.ext ?_ ?_))))
  · rw [C10_source_newk, hk]
  · exact C10_source_candidates _ _ _ _
  · rw [h1]; unfold bornSet; rw [hk]
  · rw [h2]; unfold killedSet; rw [hk]
  · rw [h3]; rfl

/-! ### Well-formedness consequence -/

/-- If the current active set has `k` active components and the answer of `choice` was legal
    (`|newk - k|` pairwise different candidates), the proposed active set has `newk` of them. -/
theorem C10_source_count (k newk : Int) (cur : List Bool) (chosenNat : List Nat)
    (hwf : (countTrue cur : Int) = k)
    (hnd : nodupB chosenNat = true)
    (hin : ∀ c ∈ chosenNat, c ∈ candidates (decide (newk - k > 0)) cur)
    (hlen : chosenNat.length = (newk - k).natAbs) :
    (countTrue (Gen.tdJump (cur.length : Int) k newk cur
        (chosenNat.map (fun (j : Nat) => (j : Int)))).2.1 : Int) = newk := by
  rw [C10_source_proposed_state_raw]
  by_cases h0 : newk = k
  · rw [if_pos h0, hwf, h0]
  · rw [if_neg h0, src10_flipAt_eq_flip cur chosenNat hnd,
      src10_count_flip (decide (newk - k > 0)) chosenNat cur hnd hin, hlen, hwf]
    by_cases hp : newk - k > 0
    · simp only [hp, decide_true, if_true]; omega
    · simp only [hp, decide_false, Bool.false_eq_true, if_false]; omega

/-! ### Concrete runs of the translated code (`K = 4`)

  (`synthInstance.maxSize` is raised only because the `DecidableEq` instance of the 6-tuple is
  large; it does not affect any proof.) -/

set_option synthInstance.maxSize 4096 in
/-- A birth of two components (`k: 1 → 3`, active set `[T,F,F,F]`): `choice` is asked for 2 of the
    inactive components `[1,2,3]` and answers `[1,3]`; components 1 and 3 draw a birth value,
    nothing is NaN-ed out, component 0 makes an in-model jump. -/
example :
    Gen.tdJump 4 1 3 [true, false, false, false] [1, 3]
      = (3, [true, true, false, true], [([1, 2, 3], 2)],
         [(1, ()), (3, ())], [], [(0, ())]) := by
  decide +kernel

set_option synthInstance.maxSize 4096 in
/-- A death of one component (`k: 3 → 2`, active set `[T,T,F,T]`): `choice` is asked for 1 of the
    active components `[0,1,3]` and answers `[1]`; nothing is born, component 1 is NaN-ed out,
    components 0 and 3 make an in-model jump. -/
example :
    Gen.tdJump 4 3 2 [true, true, false, true] [1]
      = (2, [true, false, false, true], [([0, 1, 3], 1)],
         [], [(1, ())], [(0, ()), (3, ())]) := by
  decide +kernel

end Epsie.C10
