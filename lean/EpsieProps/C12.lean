/-
  C12 — Proposed points always lie in the proposal's declared domain.

  Statements only (helper lemmas are in EpsieProofs/DomainLemmas.lean).  The model
  (`EpsieModel/Domain.lean`) takes the values returned by the random generator as
  an arbitrary stream, so "whatever the scale, whatever the draws (extreme
  quantiles included), whatever the start point in the domain, any number of
  parameters, any fuel" is a plain ∀ below.

  Where floats matter.  Comparisons (`lo <= v <= hi`, `abs(v) > h`), `floor`,
  `ceil`, `round`, `int()` and integer addition are exact in the real code, so the
  theorems about the bounded and the discrete families are statements about the
  code's decisions as they are.  The angular wrap, the uniform birth and the whole
  solid-angle family compute in floating point; there the theorems are about
  exact arithmetic (ℚ or ℝ), the IEEE effects are *not* proved and are listed in
  the doc-comments; theorems that reach the float code only under such explicit
  hypotheses are named `…_partial`.
-/
import EpsieProofs.DomainLemmas
namespace Epsie.C12
open Epsie.Domain

/-! ## Bounded proposals stay within their bounds -/

/-- `BoundedNormal` (and its adaptive heirs, which only change the scale, i.e. the draw
    stream): whenever a jump returns, every parameter got a value (the lists have equal
    length) and each value lies in that parameter's closed interval — for every number of
    parameters, every fuel and every stream of generator values. -/
theorem C12_bounded_in_bounds {boxes : List Box} {x : List Rat} {fuel : Nat} {draws ys : List Rat}
    (h : bnJump? boxes x fuel draws = some ys) :
    List.Forall₂ (fun b y => b.lo ≤ y ∧ y ≤ b.hi) boxes ys := by
  obtain ⟨_, r, hl⟩ := bnJump_ok_iff.mp h
  exact (bnLoop_in hl).imp (fun _ _ ⟨a, b, _⟩ => ⟨a, b⟩)

/-- `BoundedDiscrete`: every proposed value is an integer (by typing) between
    `floor(lower)` and `ceil(upper)`, the integer bounds the proposal declares. -/
theorem C12_bounded_in_bounds_discrete {boxes : List DBox} {x : List Rat} {fuel : Nat}
    {draws : List Rat} {ys : List Int} (h : bdJump? boxes x fuel draws = some ys) :
    ys.length = boxes.length ∧
    List.Forall₂ (fun (bx : DBox × Rat) (y : Int) => bx.1.lo.floor ≤ y ∧ y ≤ bx.1.hi.ceil)
      (boxes.zip x) ys := by
  obtain ⟨_, r, hl⟩ := bdJump_ok_iff.mp h
  exact ⟨bdLoop_length hl, (bdLoop_in hl).imp (fun _ _ ⟨a, b, _⟩ => ⟨a, b⟩)⟩

/-- `BoundedEigenvector`: a returned point passed `__contains__`, which snaps values
    within the `numpy.isclose` tolerance (`|v − b| ≤ 1e-8 + 1e-5·|b|`) to the face; hence
    every coordinate is within that tolerance of its interval (`Box.tol` = the larger of
    the tolerances at the two faces).  Holds for any stream of candidate points, in
    particular for the float values `fromx + dx·e` the code forms. -/
theorem C12_bounded_eigen_tolerance {boxes : List Box} {x : List Rat} {fuel : Nat}
    {cands : List (List Rat)} {y : List Rat} (h : beJump? boxes x fuel cands = some y) :
    y ∈ cands ∧
    List.Forall₂ (fun b v => b.lo - b.tol ≤ v ∧ v ≤ b.hi + b.tol)
      (boxes.take y.length) (y.take boxes.length) := by
  obtain ⟨_, k, hf⟩ := beJump_ok_iff.mp h
  exact ⟨(beFirst_ok hf).2, allInTol_band (beFirst_ok hf).1⟩

/-- The same for the jump as a map of the base draws along the eigenvector `e`. -/
theorem C12_bounded_eigen_tolerance_draws {boxes : List Box} {x e : List Rat} {fuel : Nat}
    {dxs : List Rat} {y : List Rat} (h : beJumpDraws? boxes x e fuel dxs = some y) :
    (∃ dx ∈ dxs, y = beCand x e dx) ∧
    List.Forall₂ (fun b v => b.lo - b.tol ≤ v ∧ v ≤ b.hi + b.tol)
      (boxes.take y.length) (y.take boxes.length) := by
  obtain ⟨hm, hb⟩ := C12_bounded_eigen_tolerance h
  obtain ⟨dx, hdx, rfl⟩ := List.mem_map.mp hm
  exact ⟨⟨dx, hdx, rfl⟩, hb⟩

/-- The tolerance is what the code applies: 1e-8 + 1e-5·|bound|, never negative. -/
theorem C12_bounded_eigen_tolerance_value (b : Box) :
    b.tol = max (1 / 100000000 + 1 / 100000 * rabs b.lo) (1 / 100000000 + 1 / 100000 * rabs b.hi) := by
  unfold Box.tol tolAt atol rtol
  split
  · rw [max_eq_right (le_of_lt ‹_›)]
  · rw [max_eq_left (not_lt.mp ‹_›)]

/-! ## Refusal from outside the bounds -/

/-- A bounded normal proposal asked to jump from a point with some coordinate outside
    its interval refuses (the code raises `ValueError`) — it consumes no draw and returns
    no point, whatever the other coordinates, the fuel and the stream. -/
theorem C12_outside_refuses {boxes : List Box} {x : List Rat} (i : Nat) {b : Box} {v : Rat}
    (hb : boxes[i]? = some b) (hv : x[i]? = some v) (hout : v < b.lo ∨ b.hi < v)
    (fuel : Nat) (draws : List Rat) :
    bnJump boxes x fuel draws = .refuse ∧ bnJump? boxes x fuel draws = none := by
  have := allIn_false_of_outside i hb hv hout
  simp [bnJump?, bnJump, this, Outcome.toOption]

/-- The same for `BoundedDiscrete`, whose start check uses the integer bounds. -/
theorem C12_outside_refuses_discrete {boxes : List DBox} {x : List Rat} (i : Nat) {b : DBox} {v : Rat}
    (hb : boxes[i]? = some b) (hv : x[i]? = some v)
    (hout : v < (b.lo.floor : Rat) ∨ (b.hi.ceil : Rat) < v) (fuel : Nat) (draws : List Rat) :
    bdJump boxes x fuel draws = .refuse ∧ bdJump? boxes x fuel draws = none := by
  have hb' : (boxes.map DBox.box)[i]? = some b.box := by simp [hb]
  have := allIn_false_of_outside i hb' hv (by simpa [DBox.box, DBox.ilo, DBox.ihi] using hout)
  simp [bdJump?, bdJump, this, Outcome.toOption]

/-- The same for `BoundedEigenvector`, beyond its tolerance band. -/
theorem C12_outside_refuses_eigen {boxes : List Box} {x : List Rat} (i : Nat) {b : Box} {v : Rat}
    (hb : boxes[i]? = some b) (hv : x[i]? = some v) (hout : v < b.lo - b.tol ∨ b.hi + b.tol < v)
    (fuel : Nat) (cands : List (List Rat)) :
    beJump? boxes x fuel cands = none := by
  have := allInTol_false_of_outside i hb hv hout
  simp [beJump?, beJump, this]

/-- Conversely the model never refuses a start point inside the domain: the only other
    way not to return is a rejection loop that ran out of fuel / of draws. -/
theorem C12_inside_never_refuses {boxes : List Box} {x : List Rat} (h : allIn boxes x = true)
    (fuel : Nat) (draws : List Rat) : bnJump boxes x fuel draws ≠ .refuse := by
  unfold bnJump
  rw [if_pos h]
  split <;> simp

/-! ## Discrete proposals propose integers, and (non-successive) never the current one -/

/-- `NormalDiscrete`: the proposed values are integers by construction — the truncated
    start plus `_floorceil` (or `round`, when successive) of a draw the parameter accepts
    (any draw when successive, otherwise the first non-zero one). -/
theorem C12_discrete_integer {succ : List Bool} {x : List Rat} {fuel : Nat} {draws : List Rat}
    {ys : List Int} (h : ndJump? succ x fuel draws = some ys) :
    List.Forall₂ (fun (sx : Bool × Rat) (y : Int) =>
        ∃ d : Rat, ndOk sx.1 d = true ∧ y = truncZ sx.2 + dstep sx.1 d)
      (succ.zip x) ys := by
  unfold ndJump? ndJump at h
  split at h
  · rename_i ys' r hl
    simp only [Outcome.toOption, Option.some.injEq] at h
    subst h
    exact ndLoop_spec hl
  · simp [Outcome.toOption] at h

/-- The integer step is within one unit of the real-valued draw (away from zero for
    `_floorceil`, to the nearest integer for `round`). -/
theorem C12_integer_step_near_draw (successive : Bool) (d : Rat) :
    (dstep successive d : Rat) - d < 1 ∧ d - (dstep successive d : Rat) < 1 := by
  unfold dstep
  cases successive
  · simp only [Bool.false_eq_true, if_false]
    rcases lt_trichotomy d 0 with h | h | h
    · obtain ⟨h1, h2⟩ := (floorceil_spec d).2 h; constructor <;> linarith
    · subst h; simp [floorceil_zero]
    · obtain ⟨h1, h2⟩ := (floorceil_spec d).1 h; constructor <;> linarith
  · simp only [if_true]
    obtain ⟨h1, h2⟩ := roundHalfEven_spec d
    constructor <;> linarith

/-- A non-zero draw always moves a non-successive discrete proposal. -/
theorem C12_nonsuccessive_moves {d : Rat} (h : d ≠ 0) : floorceil d ≠ 0 :=
  floorceil_ne_zero h

/-- Jump level: with `successive = False` for a parameter the integer proposed for it differs
    from the current one (`int(fromx[p])`) — for EVERY stream of generator values, zeros
    included (the code draws again on an exact zero), unbounded and bounded variant, any
    number of parameters, any fuel. -/
theorem C12_nonsuccessive_moves_jump {succ : List Bool} {x : List Rat} {fuel : Nat}
    {draws : List Rat} {ys : List Int} (h : ndJump? succ x fuel draws = some ys) :
    List.Forall₂ (fun (sx : Bool × Rat) (y : Int) => sx.1 = false → y ≠ truncZ sx.2) (succ.zip x) ys := by
  unfold ndJump? ndJump at h
  split at h
  · rename_i ys' r hl
    simp only [Outcome.toOption, Option.some.injEq] at h
    subst h
    exact ndLoop_moves hl
  · simp [Outcome.toOption] at h

theorem C12_nonsuccessive_moves_bounded {boxes : List DBox} {x : List Rat} {fuel : Nat}
    {draws : List Rat} {ys : List Int} (h : bdJump? boxes x fuel draws = some ys) :
    List.Forall₂ (fun (bx : DBox × Rat) (y : Int) => bx.1.succ = false → y ≠ truncZ bx.2)
      (boxes.zip x) ys := by
  obtain ⟨_, r, hl⟩ := bdJump_ok_iff.mp h
  exact bdLoop_moves hl

/-! ## Angular proposals -/

/-- `_apply_cyclic` in exact arithmetic: `v % (2h)` lies in `[0, 2h)`. -/
theorem C12_angular_range {v h : Rat} (hh : 0 < h) :
    0 ≤ pyMod v (2 * h) ∧ pyMod v (2 * h) < 2 * h :=
  pyMod_range (by linarith)

/-- `Angular._jump` in exact arithmetic: every proposed angle lies in `[0, 2·h·f)`
    (`h = 1`, `f = π`: `[0, 2π)`), for every start value, scale, fuel and draw stream.
    Not proved: the float evaluation.  `fmod` is exact but Python's sign fix-up
    `r += 2h` rounds, so a tiny negative sum wraps to exactly `2h` and the code can return
    exactly `2π` (inside the property's closed interval `[0, 2π]`); the products with
    `1/π` and `π` round to nearest, which cannot leave `[0, fl(2π)]` since rounding is
    monotone.  These float facts are checked on the real code by the search. -/
theorem C12_angular_jump_range_partial {c : AngCfg} (hh : 0 < c.h) (hf : 0 < c.f) {x : List Rat}
    {fuel : Nat} {draws ys : List Rat} (h : angJump? c x fuel draws = some ys) :
    ∀ y ∈ ys, 0 ≤ y ∧ y < 2 * c.h * c.f := by
  unfold angJump? angJump at h
  split at h
  · rename_i ys' r hl
    simp only [Outcome.toOption, Option.some.injEq] at h
    subst h
    exact angLoop_range hh hf hl
  · simp [Outcome.toOption] at h

/-- The rescaling by π over the reals: `(v mod 2)·π ∈ [0, 2π)`. -/
theorem C12_angular_range_real (v : ℝ) :
    0 ≤ (v - 2 * (⌊v / 2⌋ : ℝ)) * Real.pi ∧ (v - 2 * (⌊v / 2⌋ : ℝ)) * Real.pi < 2 * Real.pi := by
  have h1 := Int.floor_le (v / 2)
  have h2 := Int.lt_floor_add_one (v / 2)
  have hpi := Real.pi_pos
  constructor
  · apply mul_nonneg _ hpi.le; linarith
  · apply mul_lt_mul_of_pos_right _ hpi; linarith

/-- The model's `%` is that real-number operation (cast of the rational result). -/
theorem C12_pyMod_cast (a m : ℚ) :
    ((pyMod a m : ℚ) : ℝ) = (a : ℝ) - (m : ℝ) * (⌊(a : ℝ) / (m : ℝ)⌋ : ℝ) := by
  have : ⌊(a : ℝ) / (m : ℝ)⌋ = (a / m).floor := by
    rw [← Rat.cast_div, Rat.floor_cast]; rfl
  rw [this]
  unfold pyMod
  push_cast
  ring

/-! ## Solid-angle proposals -/

/-- The inverse cdf of `_new_point` over the reals, in the form the code now evaluates,
    `w = 1 + log(1 + u·(e^{−2κ} − 1))/κ`: for every uniform `u ∈ [0, 1]` and concentration
    `κ > 0` it lies in `[−1, 1]`, so the polar angle `arccos w` is defined. -/
theorem C12_vmf_w_range {κ u : ℝ} (hκ : 0 < κ) (h0 : 0 ≤ u) (h1 : u ≤ 1) :
    -1 ≤ vmfW κ u ∧ vmfW κ u ≤ 1 :=
  vmfW_range hκ h0 h1

/-- The rewrite kept the law: the old expression `log(e^κ − κ·u/(2π·norm))/κ` with
    `norm = κ/(4π sinh κ)` is the same real number. -/
theorem C12_vmf_formula_agrees {κ u : ℝ} (hκ : 0 < κ) (h0 : 0 ≤ u) (h1 : u ≤ 1) :
    vmfWOld κ u = vmfW κ u :=
  vmfW_eq_old hκ h0 h1

/-- `numpy.clip(·, −1, 1)`: whatever the float evaluation of `w` produced — any finite value
    or an infinity — the value handed to `arccos` is in `[−1, 1]`, unconditionally (only a NaN
    stays a NaN, and `clipXR` then returns no finite value). -/
theorem C12_clip_range :
    (∀ q : Rat, -1 ≤ clip1 q ∧ clip1 q ≤ 1) ∧
    (∀ (x : XR) (w : Rat), clipXR x = .fin w → -1 ≤ w ∧ w ≤ 1) :=
  ⟨clip1_range, fun _ _ h => clipXR_range h⟩

/-- Model level: the argument of `log1p` computed exactly from the float `em = expm1(−2κ)`
    is in `[−1, 0]`, the domain of `log1p`, whenever `em ∈ [−1, 0]` (true of numpy's `expm1` at
    a negative argument) and `u ∈ [0, 1]`.  Not proved: that the float product `u·em` stays in
    `[−1, 0]` (it does: rounding is monotone and −1, 0 are floats) and the accuracy of numpy's
    `expm1`/`log1p`; if the recorded argument were below −1 the model yields the explicit
    outcome `nan "vmf-log1p"`.  Rounding of `1 + L/κ` outside `[−1, 1]` is absorbed by the clip
    (`C12_clip_range`). -/
theorem C12_vmf_log1p_arg_partial {em u : Rat} (he : -1 ≤ em ∧ em ≤ 0) (h0 : 0 ≤ u) (h1 : u ≤ 1) :
    -1 ≤ u * em ∧ u * em ≤ 0 := by
  obtain ⟨h2, h3⟩ := he
  constructor <;> nlinarith

/-- `_rotmat(mu)` is orthogonal: the matrix built from the cosines and sines of two angles
    preserves the Euclidean norm of every vector, so the rotated draw stays on the unit
    sphere.  Over ℝ with the real `cos`/`sin`.
    Not proved for floats: there `cos² + sin² = 1` and the products hold up to a few ulps,
    so the third component can exceed 1 by an ulp (then `arccos` gives NaN; searched for on
    the real code).  At a pole `mu = (0, 0, ±1)` the code takes γ = 0, whose cosine and sine
    are exactly 1 and 0. -/
theorem C12_rotation_keeps_unit_sphere (β γ x y z : ℝ) :
    (Real.cos β * Real.cos γ * x - Real.sin γ * y + Real.sin β * Real.cos γ * z) ^ 2
      + (Real.cos β * Real.sin γ * x + Real.cos γ * y + Real.sin β * Real.sin γ * z) ^ 2
      + (-Real.sin β * x + Real.cos β * z) ^ 2 = x ^ 2 + y ^ 2 + z ^ 2 :=
  rot_norm (Real.cos_sq_add_sin_sq β) (Real.cos_sq_add_sin_sq γ) x y z

/-- The same algebra for the model's `rotApply` over ℚ, under the (float-approximate)
    hypothesis that the four oracle values are a cosine/sine pair each. -/
theorem C12_rotation_keeps_unit_sphere_partial {sb cb sg cg : Rat}
    (hb : cb ^ 2 + sb ^ 2 = 1) (hg : cg ^ 2 + sg ^ 2 = 1) (v : Rat × Rat × Rat) :
    (rotApply sb cb sg cg v).1 ^ 2 + (rotApply sb cb sg cg v).2.1 ^ 2 + (rotApply sb cb sg cg v).2.2 ^ 2
      = v.1 ^ 2 + v.2.1 ^ 2 + v.2.2 ^ 2 := by
  obtain ⟨x, y, z⟩ := v
  exact rot_norm hb hg x y z

/-- `_rotmat` sends the north pole to `mu`: the third column is
    `(sin β cos γ, sin β sin γ, cos β)`. -/
theorem C12_rotation_maps_pole (sb cb sg cg : Rat) :
    rotApply sb cb sg cg (0, 0, 1) = (sb * cg, sb * sg, cb) := by
  simp [rotApply]

/-- `_cartesian2spherical` over the reals (`sphOut`, with `arctan2(y, x) = arg(x + iy)`) in the
    four conventions: azimuth in `[0, 2π)` resp. `[0, 360)`; polar angle in `[0, π]`,
    `[−π/2, π/2]` (radec), `[0, 180]`, `[−90, 90]` (degrees). -/
theorem C12_spherical_ranges (radec degs : Bool) (x y z : ℝ) :
    0 ≤ (sphOut radec degs x y z).1 ∧
    (sphOut radec degs x y z).1 < (if degs then 360 else 2 * Real.pi) ∧
    (if radec then (if degs then -90 else -(Real.pi / 2)) else 0) ≤ (sphOut radec degs x y z).2 ∧
    (sphOut radec degs x y z).2 ≤
      (if radec then (if degs then 90 else Real.pi / 2) else (if degs then 180 else Real.pi)) := by
  have hpi := Real.pi_pos
  have ha1 := Complex.neg_pi_lt_arg ⟨x, y⟩
  have ha2 := Complex.arg_le_pi ⟨x, y⟩
  have ht1 := Real.arccos_nonneg z
  have ht2 := Real.arccos_le_pi z
  have hk : 0 < 180 / Real.pi := by positivity
  have hk2 : Real.pi * (180 / Real.pi) = 180 := by field_simp
  -- the azimuth before the unit conversion
  have hphi : 0 ≤ (if Complex.arg ⟨x, y⟩ < 0 then Complex.arg ⟨x, y⟩ + 2 * Real.pi else Complex.arg ⟨x, y⟩) ∧
      (if Complex.arg ⟨x, y⟩ < 0 then Complex.arg ⟨x, y⟩ + 2 * Real.pi else Complex.arg ⟨x, y⟩) < 2 * Real.pi := by
    split <;> constructor <;> linarith
  obtain ⟨hp1, hp2⟩ := hphi
  have hd1 : Real.arccos z * (180 / Real.pi) ≤ 180 := by
    calc Real.arccos z * (180 / Real.pi) ≤ Real.pi * (180 / Real.pi) :=
          mul_le_mul_of_nonneg_right ht2 hk.le
      _ = 180 := hk2
  have hd0 : 0 ≤ Real.arccos z * (180 / Real.pi) := mul_nonneg ht1 hk.le
  unfold sphOut
  cases radec <;> cases degs <;> simp only [Bool.false_eq_true, if_false, if_true]
  · exact ⟨hp1, hp2, ht1, ht2⟩
  · refine ⟨mul_nonneg hp1 hk.le, ?_, hd0, hd1⟩
    calc _ < 2 * Real.pi * (180 / Real.pi) := mul_lt_mul_of_pos_right hp2 hk
      _ = 360 := by rw [mul_assoc, hk2]; norm_num
  · refine ⟨hp1, hp2, by linarith, by linarith⟩
  · refine ⟨mul_nonneg hp1 hk.le, ?_, by linarith, by linarith⟩
    calc _ < 2 * Real.pi * (180 / Real.pi) := mul_lt_mul_of_pos_right hp2 hk
      _ = 360 := by rw [mul_assoc, hk2]; norm_num

/-- Model level (`saFromColat`, exact arithmetic with the code's float constants): if the
    two oracle values are in the ranges numpy guarantees for finite arguments
    (`arctan2 ∈ [−P, P]`, `arccos ∈ [0, P]`, `P = fl(π)`), the returned pair is in the
    image of those ranges under the convention's affine maps: azimuth in `[0, 2P·s]`,
    polar angle in `[−off, P·s − off]` (`s = 180/π` as a float or 1, `off` = 90, `P/2` or 0).
    Not proved: that the float products `P·s`, `2P·s` round to 180, 360 (they do; the
    search checks the real outputs against the exact ranges `[0, 360]`, `[−90, 90]`, …),
    and the ranges of numpy's `arctan2`/`arccos` themselves (hypotheses `ha`, `ht`). -/
theorem C12_spherical_ranges_model_partial (k : Consts) (c : SACfg) (a t : Rat)
    (hpi : 0 < k.pi) (hr : 0 < k.r2d) (ha : -k.pi ≤ a ∧ a ≤ k.pi) (ht : 0 ≤ t ∧ t ≤ k.pi) :
    0 ≤ (saFromColat k c a t).1 ∧
    (saFromColat k c a t).1 ≤ 2 * k.pi * (if c.degs then k.r2d else 1) ∧
    -(if c.radec then (if c.degs then 90 else k.pi / 2) else 0) ≤ (saFromColat k c a t).2 ∧
    (saFromColat k c a t).2 ≤ k.pi * (if c.degs then k.r2d else 1)
        - (if c.radec then (if c.degs then 90 else k.pi / 2) else 0) := by
  obtain ⟨ha1, ha2⟩ := ha
  obtain ⟨ht1, ht2⟩ := ht
  have hphi : 0 ≤ (if a < 0 then a + 2 * k.pi else a) ∧ (if a < 0 then a + 2 * k.pi else a) ≤ 2 * k.pi := by
    split <;> constructor <;> linarith
  obtain ⟨hp1, hp2⟩ := hphi
  unfold saFromColat
  cases hr' : c.radec <;> cases hd' : c.degs <;>
    simp only [Bool.false_eq_true, if_false, if_true]
  · exact ⟨hp1, by linarith, by linarith, by linarith⟩
  · exact ⟨mul_nonneg hp1 hr.le, mul_le_mul_of_nonneg_right hp2 hr.le,
      by linarith [mul_nonneg ht1 hr.le], by linarith [mul_le_mul_of_nonneg_right ht2 hr.le]⟩
  · exact ⟨hp1, by linarith, by linarith, by linarith⟩
  · exact ⟨mul_nonneg hp1 hr.le, mul_le_mul_of_nonneg_right hp2 hr.le,
      by linarith [mul_nonneg ht1 hr.le], by linarith [mul_le_mul_of_nonneg_right ht2 hr.le]⟩

/-- The executable model of `IsotropicSolidAngle._jump` returns a pair only on the path where
    no numpy call produced a non-finite value, and that pair is `saFromColat` of the recorded
    `arctan2` and `arccos` values, the latter taken at an argument in `[−1, 1]`.  Hence, under
    the same hypotheses on numpy's ranges as above, every pair the model returns is a valid
    azimuth/polar pair of the convention — whatever the start point (poles included), κ, the
    two uniforms and the other oracle values.  Missing for the real code: as in
    `C12_spherical_ranges_model_partial`. -/
theorem C12_solid_angle_jump_ranges_partial {k : Consts} {c : SACfg} {p t u1 u2 : Rat} {o : SAOracle}
    {phi theta dev : Rat} (hpi : 0 < k.pi) (hr : 0 < k.r2d)
    (hatan : ∀ a, o.atan2.val = .fin a → -k.pi ≤ a ∧ a ≤ k.pi)
    (hacos : ∀ z v, o.acosZ.arg = .fin z → -1 ≤ z → z ≤ 1 → o.acosZ.val = .fin v → 0 ≤ v ∧ v ≤ k.pi)
    (h : saJump k c p t u1 u2 o = .ok phi theta dev) :
    0 ≤ phi ∧ phi ≤ 2 * k.pi * (if c.degs then k.r2d else 1) ∧
    -(if c.radec then (if c.degs then 90 else k.pi / 2) else 0) ≤ theta ∧
    theta ≤ k.pi * (if c.degs then k.r2d else 1)
        - (if c.radec then (if c.degs then 90 else k.pi / 2) else 0) := by
  obtain ⟨a, tt, z, ha, ht, hz, hz1, hz2, he⟩ := saJump_ok h
  have := C12_spherical_ranges_model_partial k c a tt hpi hr (hatan a ha) (hacos z tt hz hz1 hz2 ht)
  rw [← he] at this
  exact this

/-- No NaN of the model's own making: if none of the numpy calls that can return NaN did so
    (`log1p` and the `arccos` calls) and the oracle record fits the model (no `desync`, which
    is what the correspondence checks on every run), the jump returns a pair, and the pair is
    in range.  The code no longer has a NaN branch of its own: the division by `rxy` is made
    only when `rxy > 0`, and the argument of the first `arccos` is clipped. -/
theorem C12_no_numpy_nan_in_range_partial {k : Consts} {c : SACfg} {p t u1 u2 : Rat} {o : SAOracle}
    (hpi : 0 < k.pi) (hr : 0 < k.r2d)
    (hatan : ∀ a, o.atan2.val = .fin a → -k.pi ≤ a ∧ a ≤ k.pi)
    (hacos : ∀ z v, o.acosZ.arg = .fin z → -1 ≤ z → z ≤ 1 → o.acosZ.val = .fin v → 0 ≤ v ∧ v ≤ k.pi)
    (hfit : ∀ s, saJump k c p t u1 u2 o ≠ .desync s)
    (hnan : o.log1p.val ≠ .nan ∧ o.acosW.val ≠ .nan ∧ o.acosMz.val ≠ .nan ∧
      (∀ s, o.acosG = some s → s.val ≠ .nan) ∧ o.acosZ.val ≠ .nan) :
    ∃ phi theta dev, saJump k c p t u1 u2 o = .ok phi theta dev ∧
      0 ≤ phi ∧ phi ≤ 2 * k.pi * (if c.degs then k.r2d else 1) ∧
      -(if c.radec then (if c.degs then 90 else k.pi / 2) else 0) ≤ theta ∧
      theta ≤ k.pi * (if c.degs then k.r2d else 1)
          - (if c.radec then (if c.degs then 90 else k.pi / 2) else 0) := by
  cases hres : saJump k c p t u1 u2 o with
  | ok phi theta dev =>
    exact ⟨phi, theta, dev, rfl, C12_solid_angle_jump_ranges_partial hpi hr hatan hacos hres⟩
  | nan site dev =>
    exfalso
    obtain ⟨h1, h2, h3, h4, h5⟩ := hnan
    rcases saJump_nan hres with h | h | h | ⟨s, hs, h⟩ | h
    · exact h1 h
    · exact h2 h
    · exact h3 h
    · exact h4 s hs h
    · exact h5 h
  | desync s => exact absurd hres (hfit s)

/-- A start exactly at a pole (the code finds `rxy = 0`, makes no `arccos(mu[0]/rxy)` call and
    uses γ = 0) yields an in-range pair under the same hypotheses; nothing about the pole is
    left that could produce a NaN azimuth. -/
theorem C12_pole_start_in_range_partial {k : Consts} {c : SACfg} {p t u1 u2 : Rat} {o : SAOracle}
    (hpi : 0 < k.pi) (hr : 0 < k.r2d) (hpole : o.acosG = none)
    (hatan : ∀ a, o.atan2.val = .fin a → -k.pi ≤ a ∧ a ≤ k.pi)
    (hacos : ∀ z v, o.acosZ.arg = .fin z → -1 ≤ z → z ≤ 1 → o.acosZ.val = .fin v → 0 ≤ v ∧ v ≤ k.pi)
    (hfit : ∀ s, saJump k c p t u1 u2 o ≠ .desync s)
    (hnan : o.log1p.val ≠ .nan ∧ o.acosW.val ≠ .nan ∧ o.acosMz.val ≠ .nan ∧ o.acosZ.val ≠ .nan) :
    ∃ phi theta dev, saJump k c p t u1 u2 o = .ok phi theta dev ∧
      0 ≤ phi ∧ phi ≤ 2 * k.pi * (if c.degs then k.r2d else 1) ∧
      -(if c.radec then (if c.degs then 90 else k.pi / 2) else 0) ≤ theta ∧
      theta ≤ k.pi * (if c.degs then k.r2d else 1)
          - (if c.radec then (if c.degs then 90 else k.pi / 2) else 0) :=
  C12_no_numpy_nan_in_range_partial hpi hr hatan hacos hfit
    ⟨hnan.1, hnan.2.1, hnan.2.2.1, fun s hs => by simp [hpole] at hs, hnan.2.2.2⟩

/-! ## Birth distributions propose where their own density is positive -/

/-- `UniformBirth` in exact arithmetic: `lo + (hi − lo)·u ∈ [lo, hi]` for `u ∈ [0, 1)`, where
    the uniform density `1/(hi − lo)` is positive.  `NormalBirth`: the normal density is
    positive everywhere, in particular at `μ + σ·z`.  `LogNormalBirth`: `exp(m + s·z) > 0`
    and the log-normal density is positive at every positive point.
    Not proved: float rounding of `lo + (hi−lo)·u` (can it exceed `hi` by an ulp?) and underflow
    of `exp` to 0 (model: the explicit `none` of `birthLogNormal`); the log-width
    `sqrt(log1p((σ/μ)²))` is a constructor constant, positive for every σ ≠ 0 now that `log1p` is
    used; the search evaluates the real `logpdf` at the real `birth`. -/
theorem C12_birth_support :
    (∀ (b : Box) (u : Rat), b.lo ≤ b.hi → 0 ≤ u → u < 1 →
        b.lo ≤ birthUniform b u ∧ birthUniform b u ≤ b.hi) ∧
    (∀ (μ σ x : ℝ), 0 < σ →
        0 < Real.exp (-(x - μ) ^ 2 / (2 * σ ^ 2)) / (σ * Real.sqrt (2 * Real.pi))) ∧
    (∀ (m s z : ℝ), 0 < Real.exp (m + s * z)) ∧
    (∀ (m s x : ℝ), 0 < s → 0 < x →
        0 < Real.exp (-(Real.log x - m) ^ 2 / (2 * s ^ 2)) / (x * s * Real.sqrt (2 * Real.pi))) := by
  refine ⟨fun b u hb h0 h1 => birthUniform_range hb h0 h1, ?_, fun m s z => Real.exp_pos _, ?_⟩
  · intro μ σ x hσ
    have : 0 < Real.sqrt (2 * Real.pi) := Real.sqrt_pos.mpr (by positivity)
    exact div_pos (Real.exp_pos _) (mul_pos hσ this)
  · intro m s x hs hx
    have : 0 < Real.sqrt (2 * Real.pi) := Real.sqrt_pos.mpr (by positivity)
    exact div_pos (Real.exp_pos _) (mul_pos (mul_pos hx hs) this)

/-- The model's log-normal birth returns a point only if it is positive. -/
theorem C12_birth_lognormal_model {e y : Rat} (h : birthLogNormal e = some y) : 0 < y := by
  unfold birthLogNormal at h
  split at h
  · simp only [Option.some.injEq] at h; subst h; assumption
  · simp at h

/-! ## The rejection loops never give up (long streaks of rejected draws)

The loops of the real code (`while newpt not in self`, `while not inbnds`, `while dx == 0`,
`while abs(newpt) > self._halfwidth`, `while True: ... if out in self: return out`) have no cap on
the number of draws.  The theorems above say that what a jump *returns* is in the domain; they
would also hold for a loop that stops after some number of draws.  The theorems of this section
say that the model's loops do not: for every number of parameters and streaks of rejected values
of ANY length at every position, the jump returns the first accepted value of each loop and
consumes exactly the values up to it (the unconsumed `rest` is handed back), the only condition
being that the fuel (the harness passes more than the number of draws) exceeds the longest
streak.  The harness holds the real loops against this with streaks of 99..250001 draws
(`harness/domain.py`, `gen_streaks`). -/

/-- `BoundedNormal._jump`: each parameter's loop skips its whole streak of values outside the
    closed interval and takes the first one inside. -/
theorem C12_rejection_streak_bounded {boxes : List Box} {x : List Rat} {fuel : Nat}
    {ps : List (List Rat × Rat)} (rest : List Rat) (hx : allIn boxes x = true)
    (h : List.Forall₂ (fun (b : Box) (p : List Rat × Rat) =>
        (∀ d ∈ p.1, ¬ (b.lo ≤ d ∧ d ≤ b.hi)) ∧ (b.lo ≤ p.2 ∧ p.2 ≤ b.hi) ∧ p.1.length < fuel)
      boxes ps) :
    bnJump boxes x fuel (streakStream ps rest) = .ok (ps.map Prod.snd) rest := by
  have h' := bnLoop_streaks (rest := rest) (h.imp (fun b p ⟨h1, h2, h3⟩ =>
    (⟨fun d hd => by rw [← Bool.not_eq_true, Box.contains_iff]; exact h1 d hd,
      Box.contains_iff.mpr h2, h3⟩ :
      (∀ d ∈ p.1, b.contains d = false) ∧ b.contains p.2 = true ∧ p.1.length < fuel)))
  simp [bnJump, hx, h']

/-- `BoundedDiscrete._jump`: each parameter's loop skips every draw its acceptance test
    (`DBox.accepts`: integer image inside the integer bounds and, unless successive jumps are
    allowed, not a zero step) rejects, and proposes the integer image of the first accepted one. -/
theorem C12_rejection_streak_bounded_discrete {boxes : List DBox} {x : List Rat} {fuel : Nat}
    {ps : List (List Rat × Rat)} (rest : List Rat)
    (hx : allIn (boxes.map DBox.box) x = true) (hl : x.length = boxes.length)
    (h : List.Forall₂ (fun (bx : DBox × Rat) (p : List Rat × Rat) =>
        (∀ d ∈ p.1, bx.1.accepts (truncZ bx.2) d = false) ∧ bx.1.accepts (truncZ bx.2) p.2 = true ∧
          p.1.length < fuel) (boxes.zip x) ps) :
    bdJump boxes x fuel (streakStream ps rest) =
      .ok (List.zipWith (fun (bx : DBox × Rat) (p : List Rat × Rat) =>
        truncZ bx.2 + dstep bx.1.succ p.2) (boxes.zip x) ps) rest := by
  simp [bdJump, hx, bdLoop_streaks (rest := rest) hl h]

/-- `NormalDiscrete._jump`: without successive jumps a parameter skips every draw that is exactly
    zero, however many there are (with successive jumps there is no loop: the streak is empty). -/
theorem C12_rejection_streak_discrete {succ : List Bool} {x : List Rat} {fuel : Nat}
    {ps : List (List Rat × Rat)} (rest : List Rat) (hl : x.length = succ.length)
    (h : List.Forall₂ (fun (s : Bool) (p : List Rat × Rat) =>
        (∀ d ∈ p.1, s = false ∧ d = 0) ∧ (s = true ∨ p.2 ≠ 0) ∧ p.1.length < fuel) succ ps) :
    ndJump succ x fuel (streakStream ps rest) =
      .ok (List.zipWith (fun (sx : Bool × Rat) (p : List Rat × Rat) => truncZ sx.2 + dstep sx.1 p.2)
        (succ.zip x) ps) rest := by
  have h' := ndLoop_streaks (rest := rest) hl (h.imp (fun s p ⟨h1, h2, h3⟩ =>
    (⟨fun d hd => by obtain ⟨rfl, rfl⟩ := h1 d hd; simp [ndOk],
      by rcases h2 with rfl | h2 <;> simp [ndOk, *], h3⟩ :
      (∀ d ∈ p.1, ndOk s d = false) ∧ ndOk s p.2 = true ∧ p.1.length < fuel)))
  simp [ndJump, h']

/-- `Angular._jump`: each parameter's loop skips every draw beyond the half width and wraps the
    first one within it. -/
theorem C12_rejection_streak_angular {c : AngCfg} {x : List Rat} {fuel : Nat}
    {ps : List (List Rat × Rat)} (rest : List Rat)
    (h : List.Forall₂ (fun (_ : Rat) (p : List Rat × Rat) =>
        (∀ d ∈ p.1, ¬ rabs d ≤ c.h) ∧ rabs p.2 ≤ c.h ∧ p.1.length < fuel) x ps) :
    angJump c x fuel (streakStream ps rest) =
      .ok (List.zipWith (fun (xi : Rat) (p : List Rat × Rat) => wrap c (p.2 + xi * c.invf) * c.f) x ps)
        rest := by
  simp [angJump, angLoop_streaks (rest := rest) h]

/-- `BoundedEigenvector._jump` (one loop): every candidate outside the box (beyond the tolerance)
    is skipped; the first one inside is returned, having tested `streak + 1` candidates. -/
theorem C12_rejection_streak_eigen {boxes : List Box} {x : List Rat} {fuel : Nat}
    (pre : List (List Rat)) (c : List Rat) (rest : List (List Rat))
    (hx : allInTol boxes x = true) (hpre : ∀ e ∈ pre, allInTol boxes e = false)
    (hc : allInTol boxes c = true) (hf : pre.length < fuel) :
    beJump boxes x fuel (pre ++ c :: rest) = .ok c (pre.length + 1) := by
  simp [beJump, hx, beFirst_streak (rest := rest) hc pre fuel hpre hf]

/-- ... and a loop whose stream holds no acceptable value returns nothing -- never the last
    rejected value, never the start point: the model has no "give up" branch. -/
theorem C12_rejection_all_rejected_starves {b : Box} {bs : List Box} {x : List Rat} {fuel : Nat}
    {draws : List Rat} (hx : allIn (b :: bs) x = true)
    (h : ∀ d ∈ draws, ¬ (b.lo ≤ d ∧ d ≤ b.hi)) :
    bnJump (b :: bs) x fuel draws = .starved := by
  have := firstIn_all_rejected (ok := b.contains) draws fuel
    (fun d hd => by rw [← Bool.not_eq_true, Box.contains_iff]; exact h d hd)
  simp [bnJump, hx, bnLoop, this]

/-! ## Non-vacuity: concrete jumps that return, refuse, starve, wrap and hit the pole -/

-- two parameters; the first draw of each loop is rejected (17.1 > 1; 3.0002 > 3)
example : bnJump? [⟨0, 1⟩, ⟨-2, 3⟩] [1/2, 3] 10 [171/10, 3/10, 30002/10000, 3] = some [3/10, 3] := by decide +kernel
-- from outside: refusal; a loop that never lands: no value
example : bnJump [⟨0, 1⟩] [3/2] 10 [1/2] = .refuse := by decide +kernel
example : bnJump? [⟨0, 1⟩] [1/2] 10 [2, 3, -1] = none := by decide +kernel
-- bounds (-0.5, 4.2) become the integers -1..5; the float start 4.7 is truncated to 4;
-- round(2.5) = 2 leaves the bounds, round(-2.5) = -2 lands
example : bdJump? [⟨-1/2, 21/5, true⟩] [47/10] 5 [5/2, -5/2] = some [2] := by decide +kernel
example : ndJump? [false, true] [3, 3] 5 [-1/1000, 5/2] = some [2, 5] := by decide +kernel
-- draws of exactly zero are drawn again when successive jumps are off (3 draws used, then 1);
-- with successive jumps a zero is a valid "stay"
example : ndJump [false, true] [3, 3] 5 [0, 0, 1/2, 0, 7] = .ok [4, 3] [7] := by decide +kernel
example : bdJump? [⟨0, 5, false⟩] [3] 10 [0, 0, -1/4] = some [2] := by decide +kernel
example : bdJump? [⟨0, 5, true⟩] [3] 10 [0, 0, -1/4] = some [3] := by decide +kernel
-- angular with h = 1, invf = 1/3, f = 3: the draw 2 is rejected, -1/2 wraps to 3/2
example : angJump? ⟨1, 1/3, 3⟩ [6] 4 [2, -1/2] = some [9/2] := by decide +kernel
example : pyMod (-1/10) 2 = 19/10 := by decide +kernel
-- a point inside the isclose band of the upper face (3 + 1e-5) is accepted, one beyond is not
example : beJump? [⟨0, 1⟩, ⟨-2, 3⟩] [1/2, 1] 4 [[1/2, 3 + 1/10000], [1/2, 3 + 1/100000]] = some [1/2, 3 + 1/100000] := by
  decide +kernel
example : (⟨-2, 3⟩ : Box).tol = 1/100000000 + 3/100000 := by decide +kernel
-- hypotheses of the real-number theorems are satisfiable
example : -1 ≤ vmfW 10 1 ∧ vmfW 10 1 ≤ 1 := C12_vmf_w_range (by norm_num) (by norm_num) (by norm_num)
example : -1 ≤ (1/2 : Rat) * (-4/5) ∧ (1/2 : Rat) * (-4/5) ≤ 0 :=
  C12_vmf_log1p_arg_partial ⟨by norm_num, by norm_num⟩ (by norm_num) (by norm_num)
example : clip1 (1 + 1/1000000) = 1 ∧ clip1 (-3) = -1 ∧ clip1 (1/3) = 1/3 ∧ clipXR .ninf = .fin (-1) := by
  decide +kernel
example : ∃ sb cb sg cg : Rat, cb ^ 2 + sb ^ 2 = 1 ∧ cg ^ 2 + sg ^ 2 = 1 ∧ sb ≠ 0 ∧ sg ≠ 0 :=
  ⟨3/5, 4/5, 5/13, 12/13, by norm_num, by norm_num, by norm_num, by norm_num⟩
-- the refusal theorem applied to a concrete outside start; a non-successive jump with non-zero draws
example : bnJump [⟨0, 1⟩] [3/2] 10 [1/2] = .refuse :=
  (C12_outside_refuses (boxes := [⟨0, 1⟩]) (x := [3/2]) 0 rfl rfl (Or.inr (by decide +kernel)) 10 [1/2]).1
example : bdJump? [⟨0, 5, false⟩, ⟨-3, 2, false⟩] [5, -3] 9 [1/2, -1/2, -7, 1/3] = some [4, -2] := by decide +kernel
-- a complete oracle record (away from the pole) on which the solid-angle model returns a pair
def okOracle : SAOracle :=
  { sinT0 := ⟨.fin 1, .fin 0, .fin (3/5)⟩, cosP0 := ⟨.fin 0, .fin 0, .fin 1⟩,
    sinP0 := ⟨.fin 0, .fin 0, .fin 0⟩, cosT0 := ⟨.fin 1, .fin 0, .fin (4/5)⟩,
    expm1 := ⟨.fin (-2), .fin 0, .fin (-4/5)⟩, log1p := ⟨.fin (-2/5), .fin 0, .fin (-1/2)⟩,
    clipW := ⟨.fin (1/2), .fin 0, .fin (1/2)⟩, acosW := ⟨.fin (1/2), .fin 0, .fin (7/10)⟩,
    sinT1 := ⟨.fin (7/10), .fin 0, .fin (3/5)⟩, cosP1 := ⟨.fin 0, .fin 0, .fin 1⟩,
    sinP1 := ⟨.fin 0, .fin 0, .fin 0⟩, cosT1 := ⟨.fin (7/10), .fin 0, .fin (4/5)⟩,
    acosMz := ⟨.fin (4/5), .fin 0, .fin (13/20)⟩, sqrtR := ⟨.fin (9/25), .fin 0, .fin (3/5)⟩,
    acosG := some ⟨.fin 1, .fin 0, .fin 0⟩,
    sinB := ⟨.fin (13/20), .fin 0, .fin (3/5)⟩, sinG := ⟨.fin 0, .fin 0, .fin 0⟩,
    cosB := ⟨.fin (13/20), .fin 0, .fin (4/5)⟩, cosG := ⟨.fin 0, .fin 0, .fin 1⟩,
    atan2 := ⟨.fin 0, .fin (24/25), .fin (-1/100)⟩, acosZ := ⟨.fin (7/25), .fin 0, .fin (13/10)⟩ }
example : saJump ⟨3, 1/60, 60⟩ ⟨true, false, 1⟩ 0 (-1/2) 0 (1/2) okOracle
    = .ok (599/100) (-1/5) 0 := by decide +kernel
-- a start exactly at the north pole: rxy = 0, no arccos call for γ, γ = 0, and a pair comes out;
-- the float `1 + L/κ` is recorded a little above 1 and is clipped
def poleOracle : SAOracle :=
  { okOracle with
    sinT0 := ⟨.fin 0, .fin 0, .fin 0⟩, cosT0 := ⟨.fin 0, .fin 0, .fin 1⟩,
    log1p := ⟨.fin (-2/5), .fin 0, .fin 0⟩,
    clipW := ⟨.fin 1, .fin 0, .fin 1⟩, acosW := ⟨.fin 1, .fin 0, .fin (7/10)⟩,
    acosMz := ⟨.fin 1, .fin 0, .fin 0⟩, sqrtR := ⟨.fin 0, .fin 0, .fin 0⟩, acosG := none,
    sinB := ⟨.fin 0, .fin 0, .fin 0⟩, cosB := ⟨.fin 0, .fin 0, .fin 1⟩,
    atan2 := ⟨.fin 0, .fin (3/5), .fin 0⟩, acosZ := ⟨.fin (4/5), .fin 0, .fin (13/20)⟩ }
example : saJump ⟨3, 1/60, 60⟩ ⟨false, false, 1⟩ 0 0 0 (1/2) poleOracle = .ok 0 (13/20) 0 := by
  decide +kernel
example : poleOracle.acosG = none ∧ (∀ s, saJump ⟨3, 1/60, 60⟩ ⟨false, false, 1⟩ 0 0 0 (1/2) poleOracle ≠ .desync s) := by
  refine ⟨rfl, fun s => ?_⟩
  rw [show saJump ⟨3, 1/60, 60⟩ ⟨false, false, 1⟩ 0 0 0 (1/2) poleOracle = .ok 0 (13/20) 0 by decide +kernel]
  simp
example : birthUniform ⟨-1, 3⟩ (1/4) = 0 := by decide +kernel
example : birthLogNormal 0 = none ∧ birthLogNormal (1/2) = some (1/2) := by decide +kernel

-- rejection streaks: 65536 rejected values for the first parameter, 999 for the second
example : bnJump [⟨0, 1⟩, ⟨-2, 3⟩] [1/2, 3] 100000
    (streakStream [(List.replicate 65536 2, 1/4), (List.replicate 999 (-5/2), 3)] [7]) =
    .ok [1/4, 3] [7] :=
  C12_rejection_streak_bounded [7] (by decide +kernel)
    (.cons ⟨fun d hd => by rw [List.eq_of_mem_replicate hd]; norm_num, by norm_num,
        by rw [List.length_replicate]; decide⟩
      (.cons ⟨fun d hd => by rw [List.eq_of_mem_replicate hd]; norm_num, by norm_num,
        by rw [List.length_replicate]; decide⟩ .nil))
example : bnJump [⟨0, 1⟩, ⟨-2, 3⟩] [1/2, 3] 100000 (List.replicate 65536 2) = .starved :=
  C12_rejection_all_rejected_starves (by decide +kernel)
    (fun d hd => by rw [List.eq_of_mem_replicate hd]; norm_num)
-- 65536 zero draws without successive jumps, then -1/4 (floor: -1)
example : bdJump [⟨0, 5, false⟩] [3] 70000 (streakStream [(List.replicate 65536 0, -1/4)] [9]) =
    .ok [2] [9] := by
  have := C12_rejection_streak_bounded_discrete (boxes := [⟨0, 5, false⟩]) (x := [3]) (fuel := 70000)
    (ps := [(List.replicate 65536 0, -1/4)]) [9] (by decide +kernel) rfl
    (.cons ⟨fun d hd => by rw [List.eq_of_mem_replicate hd]; decide +kernel, by decide +kernel,
      by rw [List.length_replicate]; decide⟩ .nil)
  rw [this]
  decide +kernel
example : ndJump [false, true] [3, 3] 2000 (streakStream [(List.replicate 1000 0, 1/2), ([], 5/2)] []) =
    .ok [4, 5] [] := by
  have := C12_rejection_streak_discrete (succ := [false, true]) (x := [3, 3]) (fuel := 2000)
    (ps := [(List.replicate 1000 0, 1/2), ([], 5/2)]) [] rfl
    (.cons ⟨fun d hd => ⟨rfl, List.eq_of_mem_replicate hd⟩, Or.inr (by norm_num),
      by rw [List.length_replicate]; decide⟩
      (.cons ⟨fun d hd => absurd hd List.not_mem_nil, Or.inl rfl, by decide⟩ .nil))
  rw [this]
  decide +kernel
example : angJump ⟨1, 1/3, 3⟩ [6] 6000 (streakStream [(List.replicate 5000 2, -1/2)] [1]) =
    .ok [9/2] [1] := by
  have := C12_rejection_streak_angular (c := ⟨1, 1/3, 3⟩) (x := [6]) (fuel := 6000)
    (ps := [(List.replicate 5000 2, -1/2)]) [1]
    (.cons ⟨fun d hd => by rw [List.eq_of_mem_replicate hd]; decide +kernel, by decide +kernel,
      by rw [List.length_replicate]; decide⟩ .nil)
  rw [this]
  decide +kernel
example : beJump [⟨0, 1⟩, ⟨-2, 3⟩] [1/2, 1] 20000
    (List.replicate 10000 [1/2, 4] ++ [1/2, 2] :: []) = .ok [1/2, 2] 10001 := by
  have := C12_rejection_streak_eigen (boxes := [⟨0, 1⟩, ⟨-2, 3⟩]) (x := [1/2, 1]) (fuel := 20000)
    (List.replicate 10000 [1/2, 4]) [1/2, 2] [] (by decide +kernel)
    (fun e he => by rw [List.eq_of_mem_replicate he]; decide +kernel) (by decide +kernel)
    (by rw [List.length_replicate]; decide)
  rw [List.length_replicate] at this
  exact this

end Epsie.C12
