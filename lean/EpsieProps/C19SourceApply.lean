/-
  C19, source tie for `reset_after_swap`: the levels whose proposals the apply block of
  `swap_temperatures` resets — as translated from the source on every run (`Gen.sweepApply`,
  tied in EpsieProps/C09SourceApply.lean) — are exactly the levels `t` with `swap_index[t] ≠ t`,
  in increasing order, and none when `reset_after_swap` is off.  Restated here so that a change of
  that block breaks an obligation of C19 as well as of C09.
-/
import EpsieProps.C09SourceApply
namespace Epsie.C19
open Epsie.C09

/-- With `reset_after_swap` on, level `t` is reset iff the sweep gave it another level's state. -/
theorem C19_source_apply_reset_exact (α σ β γ : Type) [i1 : Inhabited α] [i2 : Inhabited σ] [i3 : Inhabited β]
    [i4 : Inhabited γ] (n : Nat) (td hb rs : Bool) (iteration lastclear : Int) (swap_index : List Int)
    (cur_pos : List α) (cur_stats : List σ) (cur_blob : List β) (cur_active : List γ)
    (hn : swap_index.length = n) (t : Nat) :
    (((t : Int), ()) ∈ (Gen.sweepApply α σ β γ i1 i2 i3 i4 (n : Int)
        td hb rs iteration lastclear swap_index cur_pos cur_stats cur_blob cur_active).2.2.2.2)
      ↔ (t < n ∧ rs = true ∧ Src.get swap_index (t : Int) ≠ (t : Int)) :=
  C09_source_apply_reset_mem α σ β γ n td hb rs iteration lastclear swap_index cur_pos cur_stats cur_blob cur_active hn t

end Epsie.C19
