/-
  C03 — Temperature swaps leave the joint tempered distribution invariant.

  Statements only (helper lemmas: EpsieProofs/SwapLemmas.lean).  The model is
  `EpsieModel/Swap.lean` — the loop of `ParallelTemperedChain.swap_temperatures` verbatim
  (`swap_index`, carried `loglk`, `logar = dbetas[tj]·(loglj − loglk)`) — and the "apply" block
  of `EpsieModel/PTChain.lean` (level `t` receives what level `swap_index[t]` held, here
  `permute`).  Numbers of the model are exact rationals; probabilities are over ℝ.

  Not proved here, by design: that the betas of the ladder are the betas at which the levels
  sample (property C17), that the apply block moves whole states (C09), and that
  `Generator.uniform()` is uniform on `[0,1)` with independent successive draws (trusted).
-/
import EpsieProofs.SwapLemmas
namespace Epsie.C03
open Swap MH

/-- The state in which `swap_temperatures` enters its loop over `n` levels. -/
def init (n : Nat) (logls : List Rat) : SweepSt :=
  { idx := List.range n, loglk := logls.getD (n - 1) 0, ars := [] }

/-! ### The loop with its carry refines sequential adjacent exchanges -/

/-- For every number of levels `n ≥ 1`, every assignment of log-likelihoods (ties included; the
    ladder plays no role here) and every decision path `ds` (hottest pair first, also partial
    paths): the loop's `swap_index` is the configuration obtained by applying the adjacent
    exchanges sequentially from the hottest pair down; the slots not yet visited still hold
    their own level; and the carried `loglk` is the log-likelihood of the level whose state
    currently sits in the hotter slot of the next pair. -/
theorem C03_sweep_refines_sequential (n : Nat) (hn : 0 < n) (logls : List Rat) (ds : List Bool)
    (hd : ds.length ≤ n - 1) :
    (loopDec logls (n - 1) (init n logls) ds).idx = seqDec (n - 1) (List.range n) ds ∧
    (∀ t, t < n - 1 - ds.length → (loopDec logls (n - 1) (init n logls) ds).idx[t]? = some t) ∧
    ∃ k, (loopDec logls (n - 1) (init n logls) ds).idx[n - 1 - ds.length]? = some k ∧
      (loopDec logls (n - 1) (init n logls) ds).loglk = logls.getD k 0 := by
  obtain ⟨h1, h2⟩ := loopDec_idx_loglk logls (n - 1) (init n logls) ds (carryInv_init logls n hn) hd
  exact ⟨h1, h2.low, h2.hot⟩

/-- The loop driven by the uniforms is, output for output (swap index, recorded ratios, uniforms
    consumed), the sequential specification that compares the states *currently* in the two
    slots with the betas *of the slots*: every ladder, every log-likelihoods, every stream. -/
theorem C03_sweep_eq_sequential_spec (betas logls us : List Rat) (hn : 0 < betas.length) :
    sweep betas logls us =
      (specLoop betas logls (betas.length - 1) (List.range betas.length, []) us).map
        (fun r => ({ idx := r.1.1, ars := r.1.2.reverse }, r.2)) := by
  have h := loop_eq_specLoop betas logls (betas.length - 1) (init betas.length logls) us
    (carryInv_init logls betas.length hn)
  simp only [init] at h
  simp only [sweep]
  rw [← h]
  generalize loop betas logls (betas.length - 1)
    { idx := List.range betas.length, loglk := logls.getD (betas.length - 1) 0, ars := [] } us = r
  cases r <;> rfl

/-- Every completed run of the loop follows one of the `2^(n-1)` decision paths, and a path is
    followed exactly by the uniform streams that realise it (a pair with `logar > 0` swaps
    without a draw). -/
theorem C03_every_outcome_is_a_path (betas logls us : List Rat) (m : Nat) (s s' : SweepSt) :
    loop betas logls m s us = some (s', []) ↔
      ∃ ds, ds.length = m ∧ Realises betas logls m s ds us ∧ s' = loopPath betas logls m s ds :=
  loop_iff_path betas logls m s s' us

/-! ### The pair ratio and detailed balance of one exchange -/

/-- `exp logar = (L_j / L_k)^(β_k − β_j)`: `L_j` the likelihood of the state in the colder slot
    `tj`, `L_k` the carried one (hotter slot), the betas those of the *slots* `tj`, `tj+1`; and
    the recorded ratio is `min 1` of it. -/
theorem C03_pair_ratio (betas logls : List Rat) (tj : Nat) (loglk : Rat) {Lj Lk : ℝ}
    (hj : 0 < Lj) (hk : 0 < Lk) (h1 : ((logls.getD tj 0 : Rat) : ℝ) = Real.log Lj)
    (h2 : (loglk : ℝ) = Real.log Lk) :
    Real.exp ((pairLogAR betas logls tj loglk : Rat) : ℝ)
      = (Lj / Lk) ^ (((betas.getD (tj+1) 0 : Rat) : ℝ) - ((betas.getD tj 0 : Rat) : ℝ)) ∧
    arReal (pairAR betas logls tj loglk)
      = min 1 ((Lj / Lk) ^ (((betas.getD (tj+1) 0 : Rat) : ℝ) - ((betas.getD tj 0 : Rat) : ℝ))) := by
  have : Real.exp ((pairLogAR betas logls tj loglk : Rat) : ℝ)
      = (Lj / Lk) ^ (((betas.getD (tj+1) 0 : Rat) : ℝ) - ((betas.getD tj 0 : Rat) : ℝ)) := by
    rw [cast_pairLogAR, h1, h2]; exact exp_pair_ratio hj hk
  exact ⟨this, by rw [arReal_pairAR, this]⟩

section Invariance
variable {S : Type*} {n : ℕ}

/-- Detailed balance of one exchange with respect to `π(c) = Π_t p(c t)·L(c t)^{β_t}`:
    any slots `j ≠ k`, any ladder (β = 0 allowed), `L > 0`, any prior weights. -/
theorem C03_exchange_detailed_balance (p L : S → ℝ) (hL : ∀ x, 0 < L x) (β : Fin n → ℝ)
    {j k : Fin n} (hjk : j ≠ k) (c : Fin n → S) :
    tempered p L β c * exchAcc L β j k c
      = tempered p L β (c ∘ Equiv.swap j k) * exchAcc L β j k (c ∘ Equiv.swap j k) :=
  exchange_detailed_balance p L hL β hjk c

/-! ### Probability of a decision path -/

/-- Under independent uniforms on `[0,1)`, one per pair, the probability that the loop takes
    the decisions `ds` — pair `i` decides `ds[i]` by `u_i <= ar_i`, where `ar_i` is the ratio the
    loop records at pair `i` along this path — is the product over the pairs of `ar_i` (swap) or
    `1 − ar_i` (no swap). -/
theorem C03_path_probability (betas logls : List Rat) (m : Nat) (s : SweepSt) (ds : List Bool) :
    MeasureTheory.volume
        (Set.pi Set.univ fun i : Fin (pathPairs betas logls m s ds).length =>
          pairEvent (pathPairs betas logls m s ds)[i.val].1 (pathPairs betas logls m s ds)[i.val].2)
      = ENNReal.ofReal (pathWeight betas logls m s ds) ∧
    (loopPath betas logls m s ds).ars = s.ars ++ (pathPairs betas logls m s ds).map (·.1) ∧
    (ds.length = m → (pathPairs betas logls m s ds).map (·.2) = ds) :=
  ⟨volume_path _ (pathPairs_wf betas logls m s ds), loopPath_ars betas logls m s ds,
    pathPairs_snd betas logls m s ds⟩

/-- The event of one pair is the model's decision: for `u ∈ (0,1)` whose log is separated from
    the rationals like the `logu` handed to the model, `u` lies in the "swap" event of a drawn
    pair iff the model's test `logu ≤ logar` succeeds. -/
theorem C03_pair_event_is_model_decision (l logu : Rat) {u : ℝ} (hu : 0 < u)
    (hside : ∀ r : Rat, logu ≤ r ↔ Real.log u ≤ (r : ℝ)) (d : Bool) :
    u ∈ pairEvent (AR.exp l) d ↔ (u ∈ Set.Ico (0:ℝ) 1 ∧ d = decide (logu ≤ l)) :=
  pairEvent_exp_iff l logu hu hside d

/-- Soundness of the path events: if every pair's uniform lies in the event of
    `C03_path_probability` (one uniform per pair; the one of a pair with `logar > 0` is ignored),
    then the model's loop, fed with the logs of the uniforms of the pairs that draw, follows
    exactly the path `ds` and uses the stream up. (The events of different paths are disjoint
    and their probabilities sum to one, `C03_sweep_kernel_stochastic`.) -/
theorem C03_path_event_follows_path (betas logls : List Rat) (m : Nat) (s : SweepSt)
    (ds : List Bool) (us : List ℝ) (xs : List Rat) (hd : ds.length = m)
    (h : InEvents (pathPairs betas logls m s ds) us xs) :
    loop betas logls m s (drawnLogs (pathPairs betas logls m s ds) xs)
      = some (loopPath betas logls m s ds, []) :=
  (loop_iff_path betas logls m s _ _).mpr
    ⟨ds, hd, realises_of_inEvents betas logls m s ds us xs hd h, rfl⟩

/-! ### The sweep kernel and its invariant law -/

variable [Fintype S] [DecidableEq S]
set_option linter.unusedSectionVars false

/-- The transition kernel of one sweep on configurations (`c t` = state of level `t`): the law
    of the model's loop started on `stats['logl']` of `c`, pushed through the apply block. -/
noncomputable def sweepKernel (betas : List Rat) (ℓ : S → Rat) (c c' : Fin n → S) : ℝ :=
  loopLaw betas (loglsOf ℓ c) (fun idx => if permute c idx = c' then 1 else 0) (n - 1)
    (init n (loglsOf ℓ c))

/-- The kernel is the sum, over the `2^(n-1)` decision paths, of the path's probability
    (`C03_path_probability`) at the configuration the path produces. -/
theorem C03_sweep_kernel_is_path_sum (betas : List Rat) (ℓ : S → Rat) (c c' : Fin n → S) :
    sweepKernel betas ℓ c c'
      = ∑ ds : Fin (n - 1) → Bool,
          pathWeight betas (loglsOf ℓ c) (n - 1) (init n (loglsOf ℓ c)) (List.ofFn ds)
            * (if permute c (loopPath betas (loglsOf ℓ c) (n - 1) (init n (loglsOf ℓ c))
                  (List.ofFn ds)).idx = c' then 1 else 0) :=
  loopLaw_eq_path_sum betas (loglsOf ℓ c) _ (n - 1) _

/-- It is a Markov kernel. -/
theorem C03_sweep_kernel_stochastic (betas : List Rat) (ℓ : S → Rat) (c : Fin n → S) :
    (∀ c', 0 ≤ sweepKernel betas ℓ c c') ∧ ∑ c', sweepKernel betas ℓ c c' = 1 := by
  constructor
  · intro c'
    apply loopLaw_nonneg
    intro i; split <;> norm_num
  · unfold sweepKernel
    rw [← loopLaw_sum]
    have : (fun idx => ∑ c' : Fin n → S, if permute c idx = c' then (1:ℝ) else 0) = fun _ => 1 := by
      funext idx; simp
    rw [this, loopLaw_one]

/-- `π ⬝ K_sweep = π` for `π(c) = Π_t p(c t)·L(c t)^{β_t}` with `L = exp ℓ`: any finite state
    type, any number of levels `n ≥ 1`, any ladder (no ordering or range assumed, β = 0 allowed),
    any log-likelihoods (ties included), any prior weights. -/
theorem C03_sweep_invariant (hn : 0 < n) (p : S → ℝ) (betas : List Rat) (ℓ : S → Rat)
    (c' : Fin n → S) :
    ∑ c, tempered p (likOf ℓ) (betaFn betas) c * sweepKernel betas ℓ c c'
      = tempered p (likOf ℓ) (betaFn betas) c' := by
  have h : ∀ c : Fin n → S, sweepKernel betas ℓ c c'
      = absLaw (likOf ℓ) (betaFn betas) (fun d => if d = c' then 1 else 0) (n - 1) c := by
    intro c
    unfold sweepKernel
    rw [loopLaw_eq_absLaw betas ℓ c (fun d => if d = c' then 1 else 0) (n - 1)
      (init n (loglsOf ℓ c)) (by omega) (carryInv_init _ n hn) (idxOK_range n)]
    simp [init, permute_range]
  simp_rw [h]
  rw [absLaw_invariant p (likOf ℓ) (likOf_pos ℓ) (betaFn betas)]
  simp

end Invariance

/-! ### Non-vacuity -/

def betas0 : List Rat := [1, 1/2, 1/4, 0]
def logls0 : List Rat := [0, -1/2, -1, -1/2]     -- level 1 ties with level 3

/-- `C03_sweep_refines_sequential`: four levels, the path swap / no swap / swap. -/
example : (0 < 4) ∧ [true, false, true].length ≤ 4 - 1 ∧
    (loopDec logls0 3 (init 4 logls0) [true, false, true]).idx = [1, 0, 3, 2] ∧
    (loopDec logls0 3 (init 4 logls0) [true, false, true]).loglk = -1/2 := by decide +kernel

/-- `C03_sweep_eq_sequential_spec` / `C03_every_outcome_is_a_path`: a sweep on that ladder: the
    hottest pair swaps surely (`logar = 1/8 > 0`, no draw), the next pair is a tie between the
    carried state and level 1 (`logar = 0`, drawn, `log u = -1/100 ≤ 0`: swap), the coldest pair
    is drawn and rejected (`logar = -1/4 < log u = -1/5`). -/
example : sweep betas0 logls0 [-1/100, -1/5] =
    some ({ idx := [0, 3, 1, 2], ars := [.exp (-1/4), .exp 0, .one] }, []) := by decide +kernel

example : ∃ ds, ds.length = 3 ∧ Realises betas0 logls0 3 (init 4 logls0) ds [-1/100, -1/5] ∧
    ({ idx := [0, 3, 1, 2], loglk := 0, ars := [.one, .exp 0, .exp (-1/4)] } : SweepSt)
      = loopPath betas0 logls0 3 (init 4 logls0) ds :=
  (C03_every_outcome_is_a_path betas0 logls0 [-1/100, -1/5] 3 (init 4 logls0) _).mp
    (by decide +kernel)

/-- `C03_pair_ratio`: the reals with the stated logs exist for every rational input. -/
example (logls : List Rat) (tj : Nat) (loglk : Rat) :
    ∃ Lj Lk : ℝ, 0 < Lj ∧ 0 < Lk ∧ ((logls.getD tj 0 : Rat) : ℝ) = Real.log Lj ∧
      (loglk : ℝ) = Real.log Lk :=
  ⟨Real.exp (logls.getD tj 0 : Rat), Real.exp loglk, Real.exp_pos _, Real.exp_pos _,
    (Real.log_exp _).symm, (Real.log_exp _).symm⟩

/-- `C03_exchange_detailed_balance`, `C03_sweep_invariant`: three states, four levels with
    `β_hottest = 0`, a likelihood with a tie. -/
def ell0 : Fin 3 → Rat := ![0, -2, -2]

example : (0 < 4) ∧ (∀ x, 0 < likOf ell0 x) ∧ betas0.getD 3 7 = 0 ∧ ell0 1 = ell0 2 ∧
    ((0 : Fin 4) ≠ 1) :=
  ⟨by norm_num, likOf_pos ell0, by decide +kernel, by decide +kernel, by decide⟩

/-- `C03_path_probability`: along the path above the three ratios are `1`, `exp 0`, `exp(-1/4)`. -/
example : (pathPairs betas0 logls0 3 (init 4 logls0) [true, true, false]).map (·.1)
    = [.one, .exp 0, .exp (-1/4)] := by decide +kernel

/-- `C03_path_event_follows_path`: two levels `β = (1, 0)`, log-likelihoods `(0, -1)`: the pair is
    drawn at `logar = -1`; the uniform `u = exp(-2)` (handed to the model as `-2`) lies in the
    event of the decision "swap". -/
example : InEvents (pathPairs [1, 0] [0, -1] 1 (init 2 [0, -1]) [true]) [Real.exp (-2)] [-2] := by
  have hp : pathPairs [1, 0] [0, -1] 1 (init 2 [0, -1]) [true] = [(.exp (-1), true)] := by
    decide +kernel
  rw [hp]
  refine ⟨Real.exp_pos _, fun r => ?_, ⟨⟨(Real.exp_pos _).le, ?_⟩, ?_⟩, trivial⟩
  · rw [Real.log_exp]; exact_mod_cast Iff.rfl
  · rw [← Real.exp_zero]; exact Real.exp_lt_exp.mpr (by norm_num)
  · simp only [acceptedAR, iff_true]
    exact Real.exp_le_exp.mpr (by norm_num)

end Epsie.C03
