/-
  C08 — Recorded history is faithful: stats and blobs belong to recorded positions.

  Statements only (helper lemmas are in EpsieProofs/).  `m` is the user's model
  as a pure function; `Reachable m c` says that `c` arises from a freshly
  constructed (parallel-tempered or plain) chain by ANY sequence of start /
  step (with sweeps on schedule) / clear / scratch growth / load operations
  whose oracle evaluations are `m`'s outputs.  No bound on lengths.
-/
import EpsieProofs.PTInv
namespace Epsie.C08
open Chain

def Reachable (m : List Val → Eval) (c : PTChain) : Prop :=
  ∃ betas s cfgs reset dyn cid ops,
    PTChain.OkRun m (PTChain.fresh betas s cfgs reset dyn cid) ops ∧
    c = PTChain.runOps (PTChain.fresh betas s cfgs reset dyn cid) ops

theorem rowAt_some_lt {α} {l : List (Option α)} {i : Nat} {r : α} (h : rowAt l i = some r) :
    i < l.length := by
  unfold rowAt at h
  by_cases hi : i < l.length
  · exact hi
  · simp [List.getElem?_eq_none (Nat.le_of_not_lt hi)] at h

/-- Lengths: `len = iterations - last clear`, and exactly the rows `[0, len)` of the
    scratch space are retained and written (also after growth, clears, loads and swaps). -/
theorem C08_len {m : List Val → Eval} {c : PTChain} (h : Reachable m c) :
    ∀ l ∈ c.levels, l.len = l.iteration - l.lastclear ∧ l.lastclear ≤ l.iteration ∧
      l.len ≤ l.scratch.length ∧ l.view.length = l.len ∧
      ∀ i, i < l.len → ∃ r, rowAt l.view i = some r := by
  obtain ⟨betas, s, cfgs, reset, dyn, cid, ops, hok, rfl⟩ := h
  intro l hl
  have hinv := (levelsOK_runOps (levelsOK_fresh m betas s cfgs reset dyn cid) ops hok l hl).1
  have hle : l.len ≤ l.scratch.length := by
    by_cases h0 : l.len = 0
    · omega
    · obtain ⟨r, hr⟩ := hinv.rows (l.len - 1) (by omega)
      have := rowAt_some_lt hr
      omega
  refine ⟨rfl, hinv.lc_le, hle, ?_, ?_⟩
  · simp [Chain.view]; omega
  · intro i hi
    obtain ⟨r, hr⟩ := hinv.rows i hi
    exact ⟨r, by simp [Chain.view, rowAt_take _ _ _ hi, hr]⟩

/-- At every retained iteration of every level the recorded log-likelihood, log-prior
    and blob are exactly the model's outputs at the recorded position — across
    temperature swaps, clears, resumes and scratch growth. The same holds for `current_*`. -/
theorem C08_faithful {m : List Val → Eval} {c : PTChain} (h : Reachable m c) :
    ∀ l ∈ c.levels,
      (∀ i r, i < l.len → rowAt l.view i = some r → StFaithful m r.st) ∧
      (∀ st, l.current = some st → StFaithful m st) := by
  obtain ⟨betas, s, cfgs, reset, dyn, cid, ops, hok, rfl⟩ := h
  intro l hl
  have hok' := levelsOK_runOps (levelsOK_fresh m betas s cfgs reset dyn cid) ops hok l hl
  refine ⟨?_, fun st hst => faithful_current hok'.2 hst⟩
  intro i r hi hr
  rw [Chain.view, rowAt_take _ _ _ hi] at hr
  exact hok'.2.rows i r hi hr

/-- Within a level, before any temperature swap of that iteration: the record written by a
    step is row `len` of the scratch; an accepted step records the proposed point with the
    outputs of that step's single evaluation ... -/
theorem C08_accept_records_proposed {c c' : Chain} {i : StepIn} {cur : St}
    (hcur : c.current = some cur) (hs : c.step i = some c')
    (hacc : (stepRec c cur i).acc.accepted = true) (hlc : c.lastclear ≤ c.iteration) :
    c'.len = c.len + 1 ∧
    rowAt c'.scratch c.len = some (stepRec c cur i) ∧
    (stepRec c cur i).st.pos = jointJump cur.pos c.props i.jumps ∧
    c'.proposed = some (stepRec c cur i).st.pos ∧
    (stepRec c cur i).st.logl = i.eval.logl ∧
    i.eval.logp = some (stepRec c cur i).st.logp ∧
    (stepRec c cur i).st.blob = i.eval.blob := by
  obtain ⟨cur', hcur', hit, hl, hsc, _, _, _, _, _, hprop⟩ := step_fields hs
  rw [hcur] at hcur'; cases hcur'
  have hlen : c'.len = c.len + 1 := by simp [Chain.len_def, hit, hl]; omega
  refine ⟨hlen, by rw [hsc, rowAt_setAt_same], ?_⟩
  unfold stepRec at hacc ⊢
  simp only at hacc ⊢
  split at hacc
  · rename_i ha
    obtain ⟨lp, hlp⟩ := accepted_logp_some ha
    simp [ha, hprop, hlp]
  · simp at hacc

/-- ... and a rejected step repeats the previous record's position, stats and blob exactly. -/
theorem C08_reject_repeats_previous {c c' : Chain} {i : StepIn} {cur : St}
    (hcur : c.current = some cur) (hs : c.step i = some c')
    (hrej : (stepRec c cur i).acc.accepted = false) :
    rowAt c'.scratch c.len = some (stepRec c cur i) ∧ (stepRec c cur i).st = cur := by
  obtain ⟨cur', hcur', _, _, hsc, _⟩ := step_fields hs
  rw [hcur] at hcur'; cases hcur'
  refine ⟨by rw [hsc, rowAt_setAt_same], ?_⟩
  unfold stepRec at hrej ⊢
  simp only at hrej ⊢
  split at hrej
  · simp at hrej
  · rename_i ha; simp [ha]

/-- Every recorded acceptance probability is 0, 1 or `exp l` with `l ≤ 0`
    (its real value lies in [0,1]: `C08_ar_unit_real` in EpsieProps/C08Real.lean). -/
theorem C08_ar_unit {m : List Val → Eval} {c : PTChain} (h : Reachable m c) :
    ∀ l ∈ c.levels, ∀ i r, rowAt l.scratch i = some r → r.acc.ar.wf := by
  obtain ⟨betas, s, cfgs, reset, dyn, cid, ops, _, rfl⟩ := h
  refine lift_runOps ArOK (fun c op h => arOK_apply h op) (fun c b h => h) ?_ ops
  intro l hl
  simp only [PTChain.fresh, List.mem_map] at hl
  obtain ⟨b, _, rfl⟩ := hl
  exact arOK_fresh b cfgs cid

/-- Every access path agrees: `chain[i]` for every valid (also negative) index is row
    `i mod len` of the array views; `current_*` is their last row, or the start values
    when nothing is retained. (The sampler-level stacks are these views, chain by chain.) -/
theorem C08_access_paths_agree (l : Chain) :
    (∀ i : Int, -(l.len : Int) ≤ i → i < l.len →
        l.getitem i = rowAt l.view (normIndex i l.len)) ∧
    (0 < l.len → l.current = (rowAt l.view (l.len - 1)).map (·.st)) ∧
    (l.len = 0 → l.current = l.start) :=
  ⟨getitem_eq_view l, current_eq_view_last l, current_eq_start l⟩

/-! ### Non-vacuity: a concrete reachable chain that has accepted, rejected and been swapped -/

def m0 : List Val → Eval := fun pos =>
  { logl := match pos with | [.num q] => -q | _ => 0, logp := some 0, blob := [] }

def cfg0 : PropCfg :=
  { params := [0], symmetric := true, adaptive := false, k := 1, dur := 0, window := .none,
    T := 0, start0 := 1, comp := false, savesNsteps := true }

def ops0 : List PTChain.Op :=
  [ .start [([.num 1], m0 [.num 1]), ([.num 2], m0 [.num 2])],
    .extend 2,
    .step { levels := [ { jumps := [[.num 3]], eval := m0 [.num 3], rev := [0], fwd := [0], logu := -1 },
                        { jumps := [[.num 0]], eval := m0 [.num 0], rev := [0], fwd := [0], logu := 0 } ],
            sweep := { us := [], newBetas := [] } } ]

example : Reachable m0 (PTChain.runOps (PTChain.fresh [1, 1/2] 1 [cfg0]) ops0) :=
  ⟨[1, 1/2], 1, [cfg0], false, false, 0, ops0, by
    simp [PTChain.OkRun, PTChain.Op.ok, ops0, StepsOk, StepOk, PTChain.apply, PTChain.fresh,
      PTChain.setStarts, Chain.fresh, Chain.setStart, m0, PTChain.extendFor, PTChain.setScratchlen,
      Chain.setScratchlen, Chain.current, Chain.len, PropSt.fresh, cfg0, jointJump,
      PropSt.callJump, applyJump], rfl⟩

end Epsie.C08
