/-
  C13 — Adaptation follows acceptance in the documented direction and then stops.

  Statements only (helper lemmas: EpsieProofs/AdaptLemmas.lean).  The model is
  `EpsieModel.Adapt` on the clock of `EpsieModel.Proposal`.  `α` is any linearly
  ordered field: at `α = Rat` these are theorems about the executable model that
  DriverAdapt.lean runs against the real classes (gains and exponentials are
  oracle tables, constrained by `VeitchGainOK` / `ATGainOK` / the `alphaUp`,
  `alphaDown` hypotheses); at `α = ℝ` the tables are the defining formulas, for
  which the constraints are proved (`C13_gain_exact_veitch`, `C13_gain_exact_at`,
  `C13_ss_factor_exact`).

  Conventions (DESIGN §2.8): for the Andrieu–Thoms and eigenvector families
  "widens / narrows" is a statement about the scale factor λ; the von
  Mises–Fisher concentration κ moves the other way (smaller κ = wider); the
  Sivia–Skilling family never stops adapting and is exempt from the freeze.
  All clock states are arbitrary: every start step, duration and jump interval.
-/
import EpsieProofs.AdaptLemmas
set_option linter.unusedSectionVars false
set_option linter.unusedVariables false
namespace Epsie.C13
open Epsie.Adapt

/-! ## The gains are positive inside the window (real analysis) -/

/-- `1 < dk < T → 0 < dk^-0.6 - T^-0.6` (Andrieu–Thoms, eigenvector, von Mises–Fisher). -/
theorem C13_gain_pos_at (T : ℕ) (dk : ℤ) (h1 : 1 < dk) (h2 : dk < T) : 0 < gainAT T dk :=
  gainAT_pos T dk h1 h2

/-- ... and it is `< 1` (the moment updates are convex combinations). -/
theorem C13_gain_lt_one_at (T : ℕ) (dk : ℤ) (h1 : 1 < dk) : gainAT T dk < 1 :=
  gainAT_lt_one T dk h1

/-- `1 ≤ dk < T → 0 < dk^(-1/log10 T) - T^(-1/log10 T)` (Veitch, default decay; the constant is the
    `0.1` of the reference, `gainV_default_const`). -/
theorem C13_gain_pos_veitch (T : ℕ) (dk : ℤ) (h1 : 1 ≤ dk) (h2 : dk < T) :
    0 < gainV T (1 / Real.logb 10 T) dk := by
  have hT : (1 : ℝ) < T := by
    have : (dk : ℝ) < T := by exact_mod_cast h2
    have : (1 : ℝ) ≤ dk := by exact_mod_cast h1
    linarith
  exact gainV_pos T _ (one_div_pos.mpr (Real.logb_pos (by norm_num) hT)) dk h1 h2

/-- The same for EVERY user-supplied positive `adaptation_decay` (the constant follows the decay since
    the repo fix of the third session; with the constant `0.1` of the unrepaired code a decay above the
    default made the gain negative before the window ended, and accepted steps narrowed the proposal). -/
theorem C13_gain_pos_veitch_decay (T : ℕ) (β : ℝ) (hβ : 0 < β) (dk : ℤ)
    (h1 : 1 ≤ dk) (h2 : dk < T) : 0 < gainV T β dk :=
  gainV_pos T β hβ dk h1 h2

/-- The unrepaired constant: with `0.1` and decay `1`, `dk = 11` has a negative gain. -/
theorem C13_gain_fixed_constant_counterexample : ((11 : ℝ) ^ (-(1 : ℝ))) - 0.1 < 0 := by
  rw [Real.rpow_neg_one]; norm_num

section Generic
variable {α : Type} [Field α] [LinearOrder α] [IsStrictOrderedRing α]

/-- What the direction theorems need of a Veitch gain table. -/
def VeitchGainOK (T : Nat) (gain : Int → α) : Prop := ∀ d : Int, 1 ≤ d → d < T → 0 < gain d

/-- What the direction (and C14 admissibility) theorems need of a `dk^-0.6 - T^-0.6` table. -/
def ATGainOK (T : Nat) (gain : Int → α) : Prop :=
  ∀ d : Int, 1 < d → d < T → 0 < gain d ∧ gain d < 1

end Generic

theorem C13_gain_exact_veitch (T : ℕ) : VeitchGainOK T (gainV T (1 / Real.logb 10 T)) :=
  fun d h1 h2 => C13_gain_pos_veitch T d h1 h2

theorem C13_gain_exact_at (T : ℕ) : ATGainOK T (gainAT T) :=
  fun d h1 h2 => ⟨gainAT_pos T d h1 h2, gainAT_lt_one T d h1⟩

/-- The exact Sivia–Skilling factors: `exp(1/n) > 1`, `0 < exp(-1/n) < 1` for `n ≥ 1`, and
    the same for their square roots (diagonal proposals). -/
theorem C13_ss_factor_exact (n : ℕ) (hn : 1 ≤ n) :
    1 < Real.exp (1 / n) ∧ (0 < Real.exp (-1 / n) ∧ Real.exp (-1 / n) < 1) ∧
    1 < Real.exp (1 / n) ^ (0.5 : ℝ) ∧
    (0 < Real.exp (-1 / n) ^ (0.5 : ℝ) ∧ Real.exp (-1 / n) ^ (0.5 : ℝ) < 1) := by
  have hn0 : (0 : ℝ) < n := by exact_mod_cast (by omega : 0 < n)
  have h1 : 1 < Real.exp (1 / n) := Real.one_lt_exp_iff.mpr (by positivity)
  have h2 : Real.exp (-1 / n) < 1 := Real.exp_lt_one_iff.mpr (by
    have : (-1 : ℝ) / n = -(1 / n) := by ring
    rw [this]; exact neg_neg_of_pos (by positivity))
  have h3 := Real.exp_pos (-1 / (n : ℝ))
  exact ⟨h1, ⟨h3, h2⟩, Real.one_lt_rpow h1 (by norm_num),
    ⟨Real.rpow_pos_of_pos h3 _, Real.rpow_lt_one h3.le h2 (by norm_num)⟩⟩

section Generic
variable {α : Type} [Field α] [LinearOrder α] [IsStrictOrderedRing α]

/-! ## Direction of every single update -/

/-- Veitch: an update made after an accepted step makes every width strictly larger; one
    made after a rejected step makes none larger, and strictly smaller unless that would
    make it negative or zero (the guard `newsigmas <= 0`, decided per parameter).  No update
    (outside the window, or the proposal did not jump at this iteration): nothing changes.
    Widths stay `≥ 0` (and positive ones positive: `C14_veitch_pos`). -/
theorem C13_veitch_dir {n : Nat} (c : VeitchCfg α n) {a a' : Ad (Vector α n)} {acc : Bool}
    (hw : a.clock.cfg.window = .veitch) (hg : VeitchGainOK a.clock.cfg.T c.gain)
    (hxi : 0 < c.xi ∧ c.xi < 1) (hd : ∀ i : Fin n, 0 < c.deltas[i])
    (hs : ∀ i : Fin n, 0 ≤ a.num[i]) (h : veitchUpdate c a acc = some a') :
    ((a.clock.callJump && a.clock.inWindow) = true →
      (acc = true → ∀ i : Fin n, a.num[i] < a'.num[i]) ∧
      (acc = false → ∀ i : Fin n, a'.num[i] ≤ a.num[i] ∧
        (0 < a.num[i] + -c.xi * c.gain a.clock.dkUpdate * c.deltas[i] / 10 →
          a'.num[i] < a.num[i]))) ∧
    ((a.clock.callJump && a.clock.inWindow) = false → a'.num = a.num) ∧
    (∀ i : Fin n, 0 ≤ a'.num[i]) := by
  obtain ⟨_, hcase⟩ := Ad.update_eq_some h
  rcases hcase with ⟨hu, hb⟩ | ⟨hu, hb⟩
  · simp only [Option.some.injEq] at hb
    have hin : a.clock.inWindow = true := by
      cases hcw : a.clock.inWindow <;> simp [hcw] at hu ⊢
    have hbd := inWindow_bounds (Or.inl hw) hin
    rw [hw] at hbd
    have hgp : 0 < c.gain a.clock.dkUpdate := hg _ (by have := hbd.1; simp [winLo] at this; omega) hbd.2
    refine ⟨fun _ => ⟨?_, ?_⟩, (fun hf => by rw [hu] at hf; cases hf), ?_⟩
    · intro hacc i
      rw [← hb, veitchBody_getElem, hacc]
      simp only [veitchAlpha, if_true]
      exact veitchComp_accept hxi.2 hgp (hd i) (hs i)
    · intro hacc i
      rw [← hb, veitchBody_getElem, hacc]
      simp only [veitchAlpha, Bool.false_eq_true, if_false]
      exact ⟨veitchComp_reject_le hxi.1.le hgp.le (hd i).le,
        fun hroom => veitchComp_reject_lt hxi.1 hgp (hd i) hroom⟩
    · intro i
      rw [← hb, veitchBody_getElem]
      exact veitchComp_nonneg (hs i)
  · exact ⟨(fun ht => by rw [hu] at ht; cases ht), fun _ => hb, fun i => by rw [hb]; exact hs i⟩

/-- Sivia–Skilling, one update (it has no window; it happens whenever the proposal
    jumped).  With `n` accepted among `nIter = dk + 1` proposal steps: rate above target ⇒
    the factor is `> 1`, below ⇒ in `(0,1)`, equal ⇒ 1.  A factor `≤ 1` is always applied to
    every entry; a widening factor is applied to every entry unless `factor * max > cap`
    (the documented cap), in which case nothing changes. -/
theorem C13_ss_dir {m : Nat} (c : SSCfg α) {a a' : Ad (SSSt α m)} {acc : Bool}
    (hxi : 0 < c.xi ∧ c.xi < 1)
    (hup : ∀ n, 1 ≤ n → 1 < c.alphaUp n)
    (hdn : ∀ n, 1 ≤ n → 0 < c.alphaDown n ∧ c.alphaDown n < 1)
    (hss : a.clock.cfg.window = .ss) (hj : a.clock.callJump = true)
    (h : ssUpdate c a acc = some a')
    {n nIter : Nat} {f : α} (hn' : n = a.num.nAcc + (if acc then 1 else 0))
    (hI : nIter = (a.clock.dkUpdate + 1).toNat) (hf : f = ssAlpha c n nIter) :
    a'.num.nAcc = n ∧
    (c.xi < (n : α) / (nIter : α) → 1 < f) ∧
    ((n : α) / (nIter : α) < c.xi → (0 < f ∧ f < 1) ∧ ∀ i : Fin m, a'.num.vals[i] = a.num.vals[i] * f) ∧
    ((n : α) / (nIter : α) = c.xi → f = 1 ∧ a'.num.vals = a.num.vals) ∧
    (ssAllowed c f a.num.vals = true → ∀ i : Fin m, a'.num.vals[i] = a.num.vals[i] * f) ∧
    (ssAllowed c f a.num.vals = false → a'.num.vals = a.num.vals) := by
  obtain ⟨_, hcase⟩ := Ad.update_eq_some h
  have hin : a.clock.inWindow = true := by simp [PropSt.inWindow, hss]
  rcases hcase with ⟨_, hb⟩ | ⟨hu, _⟩
  swap
  · simp [hj, hin] at hu
  obtain ⟨hpos, hn, hv⟩ := ssBody_eq_some hb
  rw [hn, ← hn', ← hI, ← hf] at hv
  rw [← hn'] at hn
  have hnI : 1 ≤ nIter := by rw [hI]; omega
  have hnIpos : (0 : α) < (nIter : α) := by exact_mod_cast hnI
  have happ : ssAllowed c f a.num.vals = true → ∀ i : Fin m, a'.num.vals[i] = a.num.vals[i] * f := by
    intro hal i
    rw [hv, hal]
    simp
  refine ⟨hn, ?_, ?_, ?_, happ, ?_⟩
  · intro hr
    have hn1 : 1 ≤ n := by
      by_contra h0
      have : n = 0 := by omega
      rw [this] at hr
      simp at hr
      exact absurd hr (not_lt.mpr hxi.1.le)
    rw [hf, ssAlpha, ssBranch_up hr]
    exact hup n hn1
  · intro hr
    have hlt : (n : α) < (nIter : α) := by
      have : (n : α) / (nIter : α) < 1 := lt_trans hr hxi.2
      rwa [div_lt_one hnIpos] at this
    have hlt' : n < nIter := by exact_mod_cast hlt
    have hf01 : 0 < f ∧ f < 1 := by
      rw [hf, ssAlpha, ssBranch_down hr]
      exact hdn (nIter - n) (by omega)
    exact ⟨hf01, happ (ssAllowed_of_le_one c _ hf01.2.le)⟩
  · intro hr
    have hf1 : f = 1 := by
      rw [hf, ssAlpha, hr]
      simp [ssBranch]
    refine ⟨hf1, ?_⟩
    apply Vector.ext
    intro i hi
    have := happ (ssAllowed_of_le_one c _ (le_of_eq hf1)) ⟨i, hi⟩
    simp only [Fin.getElem_fin] at this
    rw [this, hf1, mul_one]
  · intro hal
    rw [hv, hal]
    simp

/-- Sivia–Skilling: an update at a rate below the target strictly narrows every (positive)
    entry — always; the cap only limits widening. -/
theorem C13_ss_narrows {m : Nat} (c : SSCfg α) {a a' : Ad (SSSt α m)} {acc : Bool}
    (hxi : 0 < c.xi ∧ c.xi < 1)
    (hup : ∀ n, 1 ≤ n → 1 < c.alphaUp n)
    (hdn : ∀ n, 1 ≤ n → 0 < c.alphaDown n ∧ c.alphaDown n < 1)
    (hss : a.clock.cfg.window = .ss) (hj : a.clock.callJump = true)
    (hpos : ∀ i : Fin m, 0 < a.num.vals[i])
    (h : ssUpdate c a acc = some a')
    (hr : ((a.num.nAcc + (if acc then 1 else 0) : Nat) : α) /
        (((a.clock.dkUpdate + 1).toNat : Nat) : α) < c.xi) :
    ∀ i : Fin m, 0 < a'.num.vals[i] ∧ a'.num.vals[i] < a.num.vals[i] := by
  obtain ⟨_, _, hdown, _, _, _⟩ := C13_ss_dir c hxi hup hdn hss hj h rfl rfl rfl
  obtain ⟨⟨hf0, hf1⟩, hv⟩ := hdown hr
  intro i
  rw [hv i]
  constructor
  · exact mul_pos (hpos i) hf0
  · nlinarith [hpos i]

/-- Sivia–Skilling: an update at a rate above the target strictly widens every (positive)
    entry as long as the widened scale stays within the cap (always, without a cap). -/
theorem C13_ss_widens_within_cap {m : Nat} (c : SSCfg α) {a a' : Ad (SSSt α m)} {acc : Bool}
    (hxi : 0 < c.xi ∧ c.xi < 1)
    (hup : ∀ n, 1 ≤ n → 1 < c.alphaUp n)
    (hdn : ∀ n, 1 ≤ n → 0 < c.alphaDown n ∧ c.alphaDown n < 1)
    (hss : a.clock.cfg.window = .ss) (hj : a.clock.callJump = true)
    (hpos : ∀ i : Fin m, 0 < a.num.vals[i])
    (h : ssUpdate c a acc = some a')
    (hr : c.xi < ((a.num.nAcc + (if acc then 1 else 0) : Nat) : α) /
        (((a.clock.dkUpdate + 1).toNat : Nat) : α))
    (hroom : ∀ cap mx, c.cap = some cap → vmax a.num.vals = some mx →
      ssAlpha c (a.num.nAcc + (if acc then 1 else 0)) (a.clock.dkUpdate + 1).toNat * mx ≤ cap) :
    ∀ i : Fin m, a.num.vals[i] < a'.num.vals[i] := by
  obtain ⟨_, hupf, _, _, hallow, _⟩ := C13_ss_dir c hxi hup hdn hss hj h rfl rfl rfl
  have hf1 := hupf hr
  have hal : ssAllowed c (ssAlpha c (a.num.nAcc + (if acc then 1 else 0)) (a.clock.dkUpdate + 1).toNat)
      a.num.vals = true := by
    unfold ssAllowed
    cases hc : c.cap with
    | none => simp
    | some cap =>
      cases hmx : vmax a.num.vals with
      | none => simp
      | some mx => simp [hroom cap mx hc hmx]
  intro i
  rw [hallow hal i]
  nlinarith [hpos i]

/-- Andrieu–Thoms (normal, bounded, angular; global or componentwise scaling): an update
    moves `log λ` of every coordinate strictly up when the acceptance ratio that drives it
    (`arAt`: the step's own, or the coordinate's virtual move's) is above the target,
    strictly down when below, not at all when equal.  No update: nothing changes. -/
theorem C13_at_dir {n : Nat} (c : ATCfg α) {a a' : Ad (ATSt α n)} {acc : Bool} {i : ATIn α n}
    (hw : a.clock.cfg.window = .at) (hg : ATGainOK a.clock.cfg.T c.gain)
    (h : atUpdate c a acc i = some a') :
    ((a.clock.callJump && a.clock.inWindow) = true → ∀ j : Fin n,
      (c.xi < arAt a.num.logLam i j → lamAt a.num.logLam j < lamAt a'.num.logLam j) ∧
      (arAt a.num.logLam i j < c.xi → lamAt a'.num.logLam j < lamAt a.num.logLam j) ∧
      (arAt a.num.logLam i j = c.xi → lamAt a'.num.logLam j = lamAt a.num.logLam j)) ∧
    ((a.clock.callJump && a.clock.inWindow) = false → a'.num = a.num) := by
  obtain ⟨_, hcase⟩ := Ad.update_eq_some h
  rcases hcase with ⟨hu, hb⟩ | ⟨hu, hb⟩
  · simp only [Option.some.injEq] at hb
    have hin : a.clock.inWindow = true := by
      cases hcw : a.clock.inWindow <;> simp [hcw] at hu ⊢
    have hbd := inWindow_bounds (Or.inr hw) hin
    rw [hw] at hbd
    have hgp := (hg _ (by simpa [winLo] using hbd.1) hbd.2).1
    refine ⟨fun _ j => ?_, (fun hf => by rw [hu] at hf; cases hf)⟩
    rw [← hb, atBody_lamAt]
    exact ⟨fun hr => atLam_up hgp hr, fun hr => atLam_down hgp hr, fun hr => by rw [hr, atLam_same]⟩
  · exact ⟨(fun ht => by rw [hu] at ht; cases ht), fun _ => hb⟩

/-- Adaptive (bounded) eigenvector: the same for its scalar `log λ`. -/
theorem C13_eig_dir {n : Nat} (c : ATCfg α) (tol : α) {a a' : Ad (EigSt α n)} {acc : Bool}
    {i : EigIn α n} (hw : a.clock.cfg.window = .at) (hg : ATGainOK a.clock.cfg.T c.gain)
    (h : eigUpdate c tol a acc i = some a') :
    ((a.clock.callJump && a.clock.inWindow) = true →
      (c.xi < i.ar → a.num.logLam < a'.num.logLam) ∧
      (i.ar < c.xi → a'.num.logLam < a.num.logLam) ∧
      (i.ar = c.xi → a'.num.logLam = a.num.logLam)) ∧
    ((a.clock.callJump && a.clock.inWindow) = false → a'.num = a.num) := by
  obtain ⟨_, hcase⟩ := Ad.update_eq_some h
  rcases hcase with ⟨hu, hb⟩ | ⟨hu, hb⟩
  · have hin : a.clock.inWindow = true := by
      cases hcw : a.clock.inWindow <;> simp [hcw] at hu ⊢
    have hbd := inWindow_bounds (Or.inr hw) hin
    rw [hw] at hbd
    have hgp := (hg _ (by simpa [winLo] using hbd.1) hbd.2).1
    refine ⟨fun _ => ?_, (fun hf => by rw [hu] at hf; cases hf)⟩
    unfold eigBody at hb
    simp only at hb
    split at hb
    · cases hb
    · simp only [Option.some.injEq] at hb
      rw [← hb]
      exact ⟨fun hr => atLam_up hgp hr, fun hr => atLam_down hgp hr,
        fun hr => by simp only []; rw [hr, atLam_same]⟩
  · exact ⟨(fun ht => by rw [hu] at ht; cases ht), fun _ => hb⟩

/-- Adaptive von Mises–Fisher: acceptance above the target moves `log κ` strictly down
    (a less concentrated, i.e. wider, proposal), below strictly up. -/
theorem C13_vmf_dir (c : ATCfg α) {a a' : Ad (VmfSt α)} {acc : Bool} {i : VmfIn α}
    (hw : a.clock.cfg.window = .at) (hg : ATGainOK a.clock.cfg.T c.gain)
    (h : vmfUpdate c a acc i = some a') :
    ((a.clock.callJump && a.clock.inWindow) = true →
      (c.xi < i.ar → a'.num.logKappa < a.num.logKappa) ∧
      (i.ar < c.xi → a.num.logKappa < a'.num.logKappa) ∧
      (i.ar = c.xi → a'.num.logKappa = a.num.logKappa) ∧ a'.num.kappa = i.ek) ∧
    ((a.clock.callJump && a.clock.inWindow) = false → a'.num = a.num) := by
  obtain ⟨_, hcase⟩ := Ad.update_eq_some h
  rcases hcase with ⟨hu, hb⟩ | ⟨hu, hb⟩
  · have hin : a.clock.inWindow = true := by
      cases hcw : a.clock.inWindow <;> simp [hcw] at hu ⊢
    have hbd := inWindow_bounds (Or.inr hw) hin
    rw [hw] at hbd
    have hgp := (hg _ (by simpa [winLo] using hbd.1) hbd.2).1
    obtain ⟨_, _, hk, _, hl⟩ := vmfBody_eq_some hb
    refine ⟨fun _ => ?_, (fun hf => by rw [hu] at hf; cases hf)⟩
    rw [hl]
    exact ⟨fun hr => vmfLogKappa_down hgp hr, fun hr => vmfLogKappa_up hgp hr,
      fun hr => by rw [hr]; unfold vmfLogKappa; ring, hk⟩
  · exact ⟨(fun ht => by rw [hu] at ht; cases ht), fun _ => hb⟩

end Generic

/-- In exact arithmetic `κ = exp(log κ)`: acceptance above the target strictly lowers the
    concentration itself. -/
theorem C13_vmf_dir_exact (T : ℕ) (xi : ℝ) {a a' : Ad (VmfSt ℝ)} {acc : Bool} {i : VmfIn ℝ}
    (hw : a.clock.cfg.window = .at) (hT : a.clock.cfg.T = T)
    (hk : a.num.kappa = Real.exp a.num.logKappa)
    (hek : i.ek = Real.exp (vmfLogKappa (gainAT T a.clock.dkUpdate) xi a.num.logKappa i.ar))
    (h : vmfUpdate { xi := xi, gain := gainAT T } a acc i = some a')
    (hu : (a.clock.callJump && a.clock.inWindow) = true) :
    (xi < i.ar → a'.num.kappa < a.num.kappa) ∧ (i.ar < xi → a.num.kappa < a'.num.kappa) := by
  have hg : ATGainOK a.clock.cfg.T (gainAT T) := by rw [hT]; exact C13_gain_exact_at T
  obtain ⟨hdir, _⟩ := C13_vmf_dir { xi := xi, gain := gainAT T } hw hg h
  obtain ⟨hdown, hup, _, hkk⟩ := hdir hu
  obtain ⟨_, hcase⟩ := Ad.update_eq_some h
  rcases hcase with ⟨_, hb⟩ | ⟨hu', _⟩
  swap
  · rw [hu] at hu'; cases hu'
  obtain ⟨_, _, _, _, hl⟩ := vmfBody_eq_some hb
  rw [hkk, hek, hk, ← hl]
  exact ⟨fun hr => Real.exp_lt_exp.mpr (hdown hr), fun hr => Real.exp_lt_exp.mpr (hup hr)⟩

section Generic
variable {α : Type} [Field α] [LinearOrder α] [IsStrictOrderedRing α]

/-! ## Sustained one-sided acceptance: monotone over the whole window -/

/-- Veitch, every step accepted (any history length, start step, jump interval): no width
    ever decreases, and every width is strictly larger than at the start as soon as one
    update has been absorbed. -/
theorem C13_veitch_sustained_accept {n : Nat} (c : VeitchCfg α n) (hxi : 0 < c.xi ∧ c.xi < 1)
    (hd : ∀ i : Fin n, 0 < c.deltas[i]) (hs : List Bool) (hall : ∀ x ∈ hs, x = true)
    (a a' : Ad (Vector α n)) (hw : a.clock.cfg.window = .veitch)
    (hg : VeitchGainOK a.clock.cfg.T c.gain) (h0 : ∀ i : Fin n, 0 ≤ a.num[i])
    (hr : Ad.run (fun (acc : Bool) dk _ s => some (veitchBody c acc dk s)) id a hs = some a')
    (i : Fin n) :
    a.num[i] ≤ a'.num[i] ∧
    (a.clock.events.length < a'.clock.events.length → a.num[i] < a'.num[i]) := by
  have := Ad.run_mono (fun (acc : Bool) dk _ s => some (veitchBody c acc dk s)) id
    (fun s : Vector α n => s[i]) (fun x => x = true)
    (fun b => b.clock.cfg = a.clock.cfg ∧ ∀ j : Fin n, 0 ≤ b.num[j])
    (by
      intro b x b' hb hx hu
      have hw' : b.clock.cfg.window = .veitch := by rw [hb.1]; exact hw
      have hg' : VeitchGainOK b.clock.cfg.T c.gain := by rw [hb.1]; exact hg
      refine ⟨?_, (C13_veitch_dir c hw' hg' hxi hd hb.2 hu).2.2⟩
      rw [(Ad.update_eq_some hu).1, update_cfg]; exact hb.1)
    (by
      intro b x s' hb hx hu hbody
      have hw' : b.clock.cfg.window = .veitch := by rw [hb.1]; exact hw
      have hg' : VeitchGainOK b.clock.cfg.T c.gain := by rw [hb.1]; exact hg
      have hup : veitchUpdate c b x = some { clock := b.clock.update x (arTag x) [], num := s' } := by
        unfold veitchUpdate Ad.update
        simp only [Option.some.injEq] at hbody
        simp [hu, hbody]
      exact ((C13_veitch_dir c hw' hg' hxi hd hb.2 hup).1 hu).1 hx i)
    hs a a' ⟨rfl, h0⟩ hall hr
  exact ⟨this.1, this.2.2⟩

/-- Veitch, every step rejected: no width ever increases (each update strictly decreases it
    until the positivity guard would be violated, `C13_veitch_dir`). -/
theorem C13_veitch_sustained_reject {n : Nat} (c : VeitchCfg α n) (hxi : 0 < c.xi ∧ c.xi < 1)
    (hd : ∀ i : Fin n, 0 < c.deltas[i]) (hs : List Bool) (hall : ∀ x ∈ hs, x = false)
    (a a' : Ad (Vector α n)) (hw : a.clock.cfg.window = .veitch)
    (hg : VeitchGainOK a.clock.cfg.T c.gain) (h0 : ∀ i : Fin n, 0 ≤ a.num[i])
    (hr : Ad.run (fun (acc : Bool) dk _ s => some (veitchBody c acc dk s)) id a hs = some a')
    (i : Fin n) : a'.num[i] ≤ a.num[i] := by
  induction hs generalizing a with
  | nil => simp [Ad.run] at hr; subst hr; exact le_refl _
  | cons x xs ih =>
    have hx : x = false := hall x (List.mem_cons_self ..)
    simp only [Ad.run, Option.bind_eq_some_iff] at hr
    obtain ⟨b, hb, hr⟩ := hr
    have hdir := C13_veitch_dir c hw hg hxi hd h0 (show veitchUpdate c a x = some b from hb)
    have hcfg : b.clock.cfg = a.clock.cfg := by rw [(Ad.update_eq_some hb).1, update_cfg]
    have h1 := ih (fun y hy => hall y (List.mem_cons_of_mem _ hy)) b (by rw [hcfg]; exact hw)
      (by rw [hcfg]; exact hg) hdir.2.2 hr
    have h2 : b.num[i] ≤ a.num[i] := by
      by_cases hu : (a.clock.callJump && a.clock.inWindow) = true
      · exact (((hdir.1 hu).2 (by simpa using hx)) i).1
      · rw [hdir.2.1 (by simpa using hu)]
    exact le_trans h1 h2

/-- Sivia–Skilling, every step rejected since construction / reset (`n_accepted = 0`, so the
    rate is 0 < target at every update), any history length and jump interval, with or
    without a cap, from any positive scale — also one above the cap: no entry ever increases
    and every entry is strictly smaller once an update was absorbed. -/
theorem C13_ss_sustained_reject {m : Nat} (c : SSCfg α) (hxi : 0 < c.xi ∧ c.xi < 1)
    (hup : ∀ n, 1 ≤ n → 1 < c.alphaUp n)
    (hdn : ∀ n, 1 ≤ n → 0 < c.alphaDown n ∧ c.alphaDown n < 1)
    (hs : List Bool) (hall : ∀ x ∈ hs, x = false) (a a' : Ad (SSSt α m))
    (hss : a.clock.cfg.window = .ss) (h0 : a.num.nAcc = 0) (hpos : ∀ i : Fin m, 0 < a.num.vals[i])
    (hr : Ad.run (fun (acc : Bool) dk _ s => ssBody c acc dk s) id a hs = some a') (i : Fin m) :
    a'.num.vals[i] ≤ a.num.vals[i] ∧
    (a.clock.events.length < a'.clock.events.length → a'.num.vals[i] < a.num.vals[i]) := by
  have hrate : ∀ (b : Ad (SSSt α m)), b.num.nAcc = 0 →
      ((b.num.nAcc + (if false = true then 1 else 0) : Nat) : α) /
        (((b.clock.dkUpdate + 1).toNat : Nat) : α) < c.xi := by
    intro b hb
    rw [hb]; simpa using hxi.1
  have := Ad.run_mono (β := αᵒᵈ) (fun (acc : Bool) dk _ s => ssBody c acc dk s) id
    (fun s : SSSt α m => OrderDual.toDual s.vals[i]) (fun x => x = false)
    (fun b => b.clock.cfg = a.clock.cfg ∧ b.num.nAcc = 0 ∧ ∀ j : Fin m, 0 < b.num.vals[j])
    (by
      intro b x b' ⟨hcfg, hb0, hbpos⟩ hx hu
      subst hx
      obtain ⟨hc, hcase⟩ := Ad.update_eq_some hu
      refine ⟨by rw [hc, update_cfg]; exact hcfg, ?_⟩
      rcases hcase with ⟨hupd, hbody⟩ | ⟨_, hnum⟩
      · have hj : b.clock.callJump = true := by
          cases hcj : b.clock.callJump <;> simp [hcj] at hupd ⊢
        have hw' : b.clock.cfg.window = .ss := by rw [hcfg]; exact hss
        obtain ⟨_, hn, _⟩ := ssBody_eq_some hbody
        refine ⟨by rw [hn, hb0]; simp, fun j => ?_⟩
        exact (C13_ss_narrows c hxi hup hdn hw' hj hbpos (show ssUpdate c b false = some b' from hu)
          (hrate b hb0) j).1
      · rw [hnum]; exact ⟨hb0, hbpos⟩)
    (by
      intro b x s' ⟨hcfg, hb0, hbpos⟩ hx hu hbody
      subst hx
      have hj : b.clock.callJump = true := by
        cases hcj : b.clock.callJump <;> simp [hcj] at hu ⊢
      have hw' : b.clock.cfg.window = .ss := by rw [hcfg]; exact hss
      have hupd : ssUpdate c b false = some { clock := b.clock.update false (arTag false) [], num := s' } := by
        unfold ssUpdate Ad.update
        simp [hu, hbody]
      rw [OrderDual.toDual_lt_toDual]
      exact (C13_ss_narrows c hxi hup hdn hw' hj hbpos hupd (hrate b hb0) i).2)
    hs a a' ⟨rfl, h0, hpos⟩ hall hr
  exact ⟨OrderDual.toDual_le_toDual.mp this.1, fun hl => OrderDual.toDual_lt_toDual.mp (this.2.2 hl)⟩

/-- Andrieu–Thoms, every driving acceptance ratio above the target: `log λ` of every
    coordinate never decreases and is strictly larger once an update was absorbed. -/
theorem C13_at_sustained_above {n : Nat} (c : ATCfg α) (hs : List (Bool × ATIn α n))
    (hall : ∀ x ∈ hs, c.xi < x.2.ar ∧ ∀ j : Fin n, c.xi < x.2.vars[j])
    (a a' : Ad (ATSt α n)) (hw : a.clock.cfg.window = .at) (hg : ATGainOK a.clock.cfg.T c.gain)
    (hr : Ad.run (fun (x : Bool × ATIn α n) dk _ s => some (atBody c x.2 dk s)) (·.1) a hs = some a')
    (j : Fin n) :
    lamAt a.num.logLam j ≤ lamAt a'.num.logLam j ∧
    (a.clock.events.length < a'.clock.events.length →
      lamAt a.num.logLam j < lamAt a'.num.logLam j) := by
  have := Ad.run_mono (fun (x : Bool × ATIn α n) dk _ s => some (atBody c x.2 dk s)) (·.1)
    (fun s : ATSt α n => lamAt s.logLam j)
    (fun x => c.xi < x.2.ar ∧ ∀ j : Fin n, c.xi < x.2.vars[j])
    (fun b => b.clock.cfg = a.clock.cfg)
    (by
      intro b x b' hb hx hu
      rw [(Ad.update_eq_some hu).1, update_cfg]; exact hb)
    (by
      intro b x s' hb hx hu hbody
      have hw' : b.clock.cfg.window = .at := by rw [hb]; exact hw
      have hg' : ATGainOK b.clock.cfg.T c.gain := by rw [hb]; exact hg
      have hup : atUpdate c b x.1 x.2 = some { clock := b.clock.update x.1 (arTag x.1) [], num := s' } := by
        unfold atUpdate Ad.update
        simp [hu, hbody]
      refine (((C13_at_dir c hw' hg' hup).1 hu) j).1 ?_
      unfold arAt
      cases b.num.logLam with
      | glob _ => exact hx.1
      | comp _ => exact hx.2 j)
    hs a a' rfl hall hr
  exact ⟨this.1, this.2.2⟩

/-- ... and every driving acceptance ratio below the target: `log λ` never increases and is
    strictly smaller once an update was absorbed. -/
theorem C13_at_sustained_below {n : Nat} (c : ATCfg α) (hs : List (Bool × ATIn α n))
    (hall : ∀ x ∈ hs, x.2.ar < c.xi ∧ ∀ j : Fin n, x.2.vars[j] < c.xi)
    (a a' : Ad (ATSt α n)) (hw : a.clock.cfg.window = .at) (hg : ATGainOK a.clock.cfg.T c.gain)
    (hr : Ad.run (fun (x : Bool × ATIn α n) dk _ s => some (atBody c x.2 dk s)) (·.1) a hs = some a')
    (j : Fin n) :
    lamAt a'.num.logLam j ≤ lamAt a.num.logLam j ∧
    (a.clock.events.length < a'.clock.events.length →
      lamAt a'.num.logLam j < lamAt a.num.logLam j) := by
  have := Ad.run_mono (β := αᵒᵈ) (fun (x : Bool × ATIn α n) dk _ s => some (atBody c x.2 dk s)) (·.1)
    (fun s : ATSt α n => OrderDual.toDual (lamAt s.logLam j))
    (fun x => x.2.ar < c.xi ∧ ∀ j : Fin n, x.2.vars[j] < c.xi)
    (fun b => b.clock.cfg = a.clock.cfg)
    (by
      intro b x b' hb hx hu
      rw [(Ad.update_eq_some hu).1, update_cfg]; exact hb)
    (by
      intro b x s' hb hx hu hbody
      have hw' : b.clock.cfg.window = .at := by rw [hb]; exact hw
      have hg' : ATGainOK b.clock.cfg.T c.gain := by rw [hb]; exact hg
      have hup : atUpdate c b x.1 x.2 = some { clock := b.clock.update x.1 (arTag x.1) [], num := s' } := by
        unfold atUpdate Ad.update
        simp [hu, hbody]
      rw [OrderDual.toDual_lt_toDual]
      refine (((C13_at_dir c hw' hg' hup).1 hu) j).2.1 ?_
      unfold arAt
      cases b.num.logLam with
      | glob _ => exact hx.1
      | comp _ => exact hx.2 j)
    hs a a' rfl hall hr
  exact ⟨OrderDual.toDual_le_toDual.mp this.1, fun hl => OrderDual.toDual_lt_toDual.mp (this.2.2 hl)⟩

/-- Adaptive von Mises–Fisher, every acceptance ratio above the target: `log κ` never
    increases (the proposal never narrows) and is strictly smaller once an update was
    absorbed; histories on which an update raises are excluded by `hr` (C14). -/
theorem C13_vmf_sustained_above (c : ATCfg α) (hs : List (Bool × VmfIn α))
    (hall : ∀ x ∈ hs, c.xi < x.2.ar)
    (a a' : Ad (VmfSt α)) (hw : a.clock.cfg.window = .at) (hg : ATGainOK a.clock.cfg.T c.gain)
    (hr : Ad.run (fun (x : Bool × VmfIn α) dk _ s => vmfBody c x.2 dk s) (·.1) a hs = some a') :
    a'.num.logKappa ≤ a.num.logKappa ∧
    (a.clock.events.length < a'.clock.events.length → a'.num.logKappa < a.num.logKappa) := by
  have := Ad.run_mono (β := αᵒᵈ) (fun (x : Bool × VmfIn α) dk _ s => vmfBody c x.2 dk s) (·.1)
    (fun s : VmfSt α => OrderDual.toDual s.logKappa)
    (fun x => c.xi < x.2.ar)
    (fun b => b.clock.cfg = a.clock.cfg)
    (by
      intro b x b' hb hx hu
      rw [(Ad.update_eq_some hu).1, update_cfg]; exact hb)
    (by
      intro b x s' hb hx hu hbody
      have hw' : b.clock.cfg.window = .at := by rw [hb]; exact hw
      have hg' : ATGainOK b.clock.cfg.T c.gain := by rw [hb]; exact hg
      have hup : vmfUpdate c b x.1 x.2 = some { clock := b.clock.update x.1 (arTag x.1) [], num := s' } := by
        unfold vmfUpdate Ad.update
        simp [hu, hbody]
      rw [OrderDual.toDual_lt_toDual]
      exact ((C13_vmf_dir c hw' hg' hup).1 hu).1 hx)
    hs a a' rfl hall hr
  exact ⟨OrderDual.toDual_le_toDual.mp this.1, fun hl => OrderDual.toDual_lt_toDual.mp (this.2.2 hl)⟩

end Generic

/-! ## The window: when it is open, and that it closes for good -/

/-- The window in proposal steps, for every start step: Veitch `start ≤ nsteps < start+T-1`
    (`T-1` clock values), the others `start < nsteps < start+T-1` (`T-2` clock values). -/
theorem C13_window_exact (p : PropSt) :
    (p.cfg.window = .veitch →
      (p.inWindow = true ↔ p.startStep ≤ p.nsteps ∧ p.nsteps + 1 < p.startStep + p.cfg.T)) ∧
    (p.cfg.window = .at →
      (p.inWindow = true ↔ p.startStep < p.nsteps ∧ p.nsteps + 1 < p.startStep + p.cfg.T)) :=
  ⟨inWindow_veitch_iff p, inWindow_at_iff p⟩

/-- Jump intervals: an update happens only at an iteration at which the proposal jumped ... -/
theorem C13_no_update_without_jump {σ : Type} (body : Int → Nat → σ → Option σ) (a : Ad σ)
    (acc : Bool) (hj : a.clock.callJump = false) :
    a.update body acc = some { clock := a.clock.update acc (arTag acc) [], num := a.num } := by
  unfold Ad.update; simp [hj]

/-- ... and inside the window (adaptive classes: `jump_interval_duration =
    adaptation_duration`) that is exactly the first of the `jump_interval` iterations sharing
    a proposal step: each clock value of the window receives exactly one update. -/
theorem C13_one_update_per_clock_tick (p : PropSt) (hc : ClockOK p) (hw : Windowed p) :
    (p.callJump && p.inWindow) = true ↔ (p.raw = p.cfg.k * p.nsteps ∧ p.inWindow = true) := by
  constructor
  · intro hu
    have hj : p.callJump = true := by cases hcj : p.callJump <;> simp [hcj] at hu ⊢
    have hin : p.inWindow = true := by cases hcw : p.inWindow <;> simp [hcw] at hu ⊢
    exact ⟨callJump_inWindow_raw hc hw hj hin, hin⟩
  · rintro ⟨hr, hin⟩
    have : p.raw % p.cfg.k = 0 := by rw [hr]; exact Nat.mul_mod_right _ _
    simp [callJump_of_mod this, hin]

/-- Once `start_step + T - 1 ≤ nsteps`, an update changes nothing (and cannot raise),
    whatever the chain did.  (Veitch, Andrieu–Thoms, eigenvector, von Mises–Fisher windows;
    the Sivia–Skilling family has no window and is exempt.) -/
theorem C13_frozen_after_window {σ : Type} (body : Int → Nat → σ → Option σ) (a : Ad σ)
    (acc : Bool) (hw : Windowed a.clock)
    (hT : a.clock.startStep + a.clock.cfg.T ≤ a.clock.nsteps + 1) :
    ∃ a', a.update body acc = some a' ∧ a'.num = a.num ∧
      a'.clock.startStep + a'.clock.cfg.T ≤ a'.clock.nsteps + 1 := by
  have hl : Late a.clock := ⟨hw, hT⟩
  exact ⟨_, Ad.update_late body a acc hl, rfl, (late_update hl _ _ _).2⟩

/-- In chain iterations, with a jump interval `k ≥ 1`: frozen from iteration
    `k (start_step + T - 1)` on. -/
theorem C13_frozen_after_window_jump_interval (p : PropSt) (hk : 1 ≤ p.cfg.k)
    (hraw : p.cfg.k * (p.startStep + p.cfg.T - 1) ≤ p.raw) :
    p.startStep + p.cfg.T ≤ p.nsteps + 1 := by
  have : p.startStep + p.cfg.T - 1 ≤ p.nsteps := by
    unfold PropSt.nsteps
    rw [Nat.le_div_iff_mul_le (by omega)]
    rw [Nat.mul_comm]; exact hraw
  omega

/-- All later samples come from a fixed kernel: after the window no history whatsoever (any
    length, any accept/reject pattern, any positions, any oracle values) changes the
    numerical state of the proposal, and no update raises. -/
theorem C13_fixed_kernel {σ ι : Type} (body : ι → Int → Nat → σ → Option σ) (acc : ι → Bool)
    (a : Ad σ) (hw : Windowed a.clock)
    (hT : a.clock.startStep + a.clock.cfg.T ≤ a.clock.nsteps + 1) (hs : List ι) :
    ∃ a', Ad.run body acc a hs = some a' ∧ a'.num = a.num := by
  obtain ⟨a', h1, h2, _⟩ := Ad.run_late body acc hs a ⟨hw, hT⟩
  exact ⟨a', h1, h2⟩

/-- A reset of the adaptation (`Chain.reset_proposals()`, `reset_after_swap`) restarts the window at
    the current proposal step: the adapted quantities are the initial ones again, the iteration
    counter is untouched, `start_step = max(nsteps, 1)`, and the next update sees `dk = 1` (`dk = 0`
    if no proposal step was made yet) — durations, and the Sivia–Skilling count
    `n_iter = dk + 1`, are measured from the reset.  All the theorems above hold from the reset
    state on (they are stated for arbitrary clock states). -/
theorem C13_reset_restarts_window {σ : Type} (init : σ) (a : Ad σ) (h : a.clock.cfg.adaptive = true) :
    (a.reset init).num = init ∧ (a.reset init).clock.raw = a.clock.raw ∧
    (a.reset init).clock.cfg = a.clock.cfg ∧
    (a.reset init).clock.startStep = max a.clock.nsteps 1 ∧
    (a.reset init).clock.dkUpdate = (if 1 ≤ a.clock.nsteps then 1 else 0) := by
  have hr : a.clock.reset = { a.clock with startStep := max a.clock.nsteps 1, events := [] } := by
    unfold PropSt.reset; simp [h]
  refine ⟨rfl, ?_, ?_, ?_, ?_⟩
  · show a.clock.reset.raw = _; rw [hr]
  · show a.clock.reset.cfg = _; rw [hr]
  · show a.clock.reset.startStep = _; rw [hr]
  · show a.clock.reset.dkUpdate = _
    rw [hr]
    unfold PropSt.dkUpdate
    have hn : ({ a.clock with startStep := max a.clock.nsteps 1, events := [] } : PropSt).nsteps
        = a.clock.nsteps := rfl
    rw [hn]
    simp only
    generalize a.clock.nsteps = N
    split_ifs with h1
    · rw [max_eq_left h1]; omega
    · rw [max_eq_right (by omega)]; omega

/-- The update reads its own chain's record only: in a sampler (each chain owns its
    proposal objects) the outcome of chain `j` does not depend on the other chains'
    histories. -/
theorem C13_own_history_only {σ ι : Type} (body : ι → Int → Nat → σ → Option σ) (acc : ι → Bool)
    (chains : List (Ad σ)) (h h' : List (List ι)) (j : Nat) (hsame : h[j]? = h'[j]?) :
    (runAll body acc chains h)[j]? = (runAll body acc chains h')[j]? := by
  unfold runAll
  simp only [List.getElem?_zipWith]
  rw [hsame]

/-! ## Non-vacuity -/

def cfgAT : PropCfg :=
  { params := [0], symmetric := true, adaptive := true, k := 3, dur := 8, window := .at,
    T := 8, start0 := 2, comp := false, savesNsteps := true }

/-- a clock at iteration 12 of a proposal with jump interval 3 and start step 2:
    proposal step 4, `dk = 3`, inside the window, jumping. -/
def clk : PropSt := { cfg := cfgAT, raw := 12, startStep := 2, events := [] }

example : (clk.callJump && clk.inWindow) = true ∧ clk.dkUpdate = 3 := by decide
example : ClockOK clk ∧ Windowed clk := by
  refine ⟨⟨rfl, by decide, Or.inr (by decide)⟩, Or.inr rfl⟩
/-- a rational gain table satisfying the constraint (it is `1/d - 1/8`) -/
def gq : Int → Rat := fun d => 1 / (d : Rat) - 1 / 8
example : ATGainOK (α := Rat) 8 gq := by
  intro d h1 h2
  have hd : (1 : Rat) < d := by exact_mod_cast h1
  have hd8 : (d : Rat) < 8 := by exact_mod_cast h2
  have hpos : (0 : Rat) < d := by linarith
  unfold gq
  constructor
  · have : (1 : Rat) / 8 < 1 / d := by
      rw [div_lt_div_iff₀ (by norm_num) hpos]; linarith
    linarith
  · have : (1 : Rat) / d < 1 := by rw [div_lt_one hpos]; exact hd
    linarith
/-- a Veitch proposal in its window: the update of `C13_veitch_dir` happens and returns -/
def cfgV : PropCfg := { cfgAT with window := .veitch, k := 1, dur := 0, start0 := 1 }
def vq : VeitchCfg Rat 2 :=
  { xi := 117 / 500, deltas := #v[2, 4], gain := fun d => 1 / (d : Rat) - 1 / 10 }
def aV : Ad (Vector Rat 2) :=
  { clock := { cfg := cfgV, raw := 3, startStep := 1, events := [] }, num := #v[1 / 5, 2 / 5] }
example : (aV.clock.callJump && aV.clock.inWindow) = true ∧ (veitchUpdate vq aV true).isSome = true ∧
    (∀ i : Fin 2, 0 ≤ aV.num[i]) ∧ aV.clock.cfg.window = .veitch := by
  refine ⟨by decide, ?_, fun i => ?_, rfl⟩
  swap
  · fin_cases i
    · show (0 : Rat) ≤ 1 / 5; norm_num
    · show (0 : Rat) ≤ 2 / 5; norm_num
  unfold veitchUpdate Ad.update
  split <;> rfl
/-- the frozen clock: iteration 27 = 3·(2+8-1) -/
example : Windowed { clk with raw := 27 } ∧
    ({ clk with raw := 27 } : PropSt).startStep + cfgAT.T ≤ ({ clk with raw := 27 } : PropSt).nsteps + 1 := by
  refine ⟨Or.inr rfl, by decide⟩
/-- Sivia–Skilling factors as the constraint wants them (e.g. `1 + 1/n`, `1 - 1/(n+1)`) -/
example : (∀ n : Nat, 1 ≤ n → (1 : Rat) < 1 + 1 / n) ∧
    (∀ n : Nat, 1 ≤ n → (0 : Rat) < 1 - 1 / (n + 1) ∧ (1 : Rat) - 1 / (n + 1) < 1) := by
  refine ⟨fun n hn => ?_, fun n hn => ?_⟩
  · have : (0 : Rat) < n := by exact_mod_cast hn
    have : (0 : Rat) < 1 / n := by positivity
    linarith
  · have h0 : (0 : Rat) < (n : Rat) + 1 := by positivity
    have h1 : (1 : Rat) / (n + 1) < 1 := by
      rw [div_lt_one h0]
      have : (0 : Rat) < n := by exact_mod_cast hn
      linarith
    have h2 : (0 : Rat) < 1 / ((n : Rat) + 1) := by positivity
    constructor <;> linarith

end Epsie.C13
