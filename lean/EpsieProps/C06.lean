/-
  C06 — Splitting a run or clearing memory never changes the trajectory.

  A sampler does three things to each of its chains between setting the start
  position and any later moment: iterations (`step`: every level, then the sweep
  if due), `clear()`, and the scratch growth that `run(n)` requests up front
  (`extendFor n`).  A partition of a run into shorter runs is a placement of
  growth operations; clearing is a placement of clears.  `strip` removes both.

  The relation `PSfx a b` (EpsieProofs/SuffixPT.lean) says: level by level the
  two chains have the same iteration count, current position/stats/blob,
  proposed point, proposals (counters, adaptive events), betas, swap interval —
  everything a future step reads — and `a` retains a suffix of the records `b`
  retains.
-/
import EpsieProofs.SuffixPT
import EpsieProofs.PTInv
namespace Epsie.C06
open Chain

inductive Op where
  | step (i : PTChain.StepIn)
  | clear
  | extend (n : Nat)

def apply (c : PTChain) : Op → PTChain
  | .step i => (c.step i).getD c
  | .clear => c.clear
  | .extend n => c.extendFor n

def runOps (c : PTChain) (ops : List Op) : PTChain := ops.foldl apply c

/-- The iterations of an operation sequence, with every clear and every growth removed. -/
def strip : List Op → List Op
  | [] => []
  | .step i :: ops => .step i :: strip ops
  | _ :: ops => strip ops

/-- MASTER THEOREM. Running any operation sequence — any partition into runs, any placement of
    clears — leaves the chain in a state that is `PSfx`-related to the state reached by the bare
    iterations alone. No bound on the number or lengths of runs. -/
theorem C06_partition_and_clear_transparent {a b : PTChain} (h : PSfx a b) (ops : List Op) :
    PSfx (runOps a ops) (runOps b (strip ops)) := by
  induction ops generalizing a b with
  | nil => exact h
  | cons op ops ih =>
    cases op with
    | step i =>
      simp only [runOps, List.foldl_cons, strip]
      have hs := psfx_step h i
      cases ha : a.step i with
      | none =>
        have hb := hs.1.mp ha
        have ea : apply a (.step i) = a := by simp [apply, ha]
        have eb : apply b (.step i) = b := by simp [apply, hb]
        rw [ea, eb]
        exact ih h
      | some a' =>
        cases hb : b.step i with
        | none => rw [hs.1.mpr hb] at ha; cases ha
        | some b' =>
          have ea : apply a (.step i) = a' := by simp [apply, ha]
          have eb : apply b (.step i) = b' := by simp [apply, hb]
          rw [ea, eb]
          exact ih (hs.2 a' b' ha hb)
    | clear =>
      simp only [runOps, List.foldl_cons, strip]
      exact ih (psfx_clear_left h)
    | extend n =>
      simp only [runOps, List.foldl_cons, strip]
      exact ih (psfx_extend_left h n)

/-- A chain whose levels are structurally sound is related to itself. -/
theorem psfx_refl (c : PTChain) (h : ∀ l ∈ c.levels, Inv l) : PSfx c c := by
  refine ⟨?_, rfl, rfl, rfl, rfl⟩
  generalize c.levels = ls at h
  induction ls with
  | nil => trivial
  | cons l ls ih =>
    have hl := h l (by simp)
    exact ⟨⟨Sfx.refl hl.lc_le, hl, hl⟩, ih (fun x hx => h x (by simp [hx]))⟩

/-- Iteration counts, current position/stats/blob, the proposed point, the proposals' state
    and the ladder are the same however the run was partitioned and wherever it was cleared:
    two operation sequences with the same iterations lead to the same values, level by level. -/
theorem C06_counters_and_current (c : PTChain) (hc : ∀ l ∈ c.levels, Inv l) (ops₁ ops₂ : List Op)
    (hsame : strip ops₁ = strip ops₂) :
    let x := runOps c ops₁
    let y := runOps c ops₂
    x.levels.length = y.levels.length ∧ x.betas = y.betas ∧ x.iteration = y.iteration ∧
    ∀ t (hx : t < x.levels.length) (hy : t < y.levels.length),
      (x.levels[t]).iteration = (y.levels[t]).iteration ∧
      (x.levels[t]).current = (y.levels[t]).current ∧
      (x.levels[t]).proposed = (y.levels[t]).proposed ∧
      (x.levels[t]).props = (y.levels[t]).props ∧
      (x.levels[t]).beta = (y.levels[t]).beta ∧
      (x.levels[t]).len = (x.levels[t]).iteration - (x.levels[t]).lastclear := by
  intro x y
  have h1 := C06_partition_and_clear_transparent (psfx_refl c hc) ops₁
  have h2 := C06_partition_and_clear_transparent (psfx_refl c hc) ops₂
  rw [hsame] at h1
  have l1 := h1.levels.length_eq
  have l2 := h2.levels.length_eq
  refine ⟨by rw [l1, l2], by rw [h1.betas, h2.betas], by rw [h1.iteration, h2.iteration], ?_⟩
  intro t hx hy
  have hz : t < (runOps c (strip ops₂)).levels.length := by rw [← l1]; exact hx
  obtain ⟨s1, _, _⟩ := h1.levels.get t hx hz
  obtain ⟨s2, _, _⟩ := h2.levels.get t hy hz
  exact ⟨by rw [s1.iteration, s2.iteration], by rw [s1.current, s2.current],
         by rw [s1.proposed, s2.proposed], by rw [s1.props, s2.props], by rw [s1.beta, s2.beta], rfl⟩

/-- Clearing changes nothing except that the retained history starts at the clear: after any
    operation sequence, every retained record of every level is the record the never-cleared
    run holds at the corresponding iteration (positions, stats, blobs, acceptance — whole
    records), so the concatenation of what successive segments retain is the full history. -/
theorem C06_retained_history_is_suffix (c : PTChain) (hc : ∀ l ∈ c.levels, Inv l) (ops : List Op) :
    let x := runOps c ops
    let y := runOps c (strip ops)
    ∀ t (hx : t < x.levels.length) (hy : t < y.levels.length),
      (y.levels[t]).lastclear ≤ (x.levels[t]).lastclear ∧
      ∀ i, i < (x.levels[t]).len →
        rowAt (x.levels[t]).scratch i =
          rowAt (y.levels[t]).scratch (i + ((x.levels[t]).lastclear - (y.levels[t]).lastclear)) := by
  intro x y t hx hy
  have h1 := C06_partition_and_clear_transparent (psfx_refl c hc) ops
  obtain ⟨s1, _, _⟩ := h1.levels.get t hx hy
  exact ⟨s1.lc_ab, s1.rows⟩

/-- Running for `m + n` iterations is running for `m` and then for `n`. -/
theorem C06_run_split (c : PTChain) (xs ys : List PTChain.StepIn) :
    Sampler.evolve c (xs ++ ys) = (Sampler.evolve c xs).bind (fun c' => Sampler.evolve c' ys) := by
  induction xs generalizing c with
  | nil => simp [Sampler.evolve]
  | cons x xs ih =>
    simp only [List.cons_append, Sampler.evolve, bind, Option.bind]
    cases c.step x with
    | none => rfl
    | some c' => exact ih c'

/-- WHAT A CLEAR LEAVES. After `clear()` nothing is retained (`len = 0`), the iteration count is
    kept, the current position / stats / blob are unchanged, and — once at least one iteration has
    been made — the start position IS the point the chain stands on: "the retained history starts
    at the clear". For every level of a tempered chain alike. -/
theorem C06_clear_leaves (l : Chain) :
    l.clear.len = 0 ∧ l.clear.iteration = l.iteration ∧ l.clear.current = l.current ∧
    (0 < l.iteration → l.clear.start = l.current) ∧ l.clear.lastclear = l.iteration := by
  obtain ⟨_, _, hit, _, _, hlc, _⟩ := clear_fields l
  refine ⟨len_clear l, hit, clear_current l, ?_, hlc⟩
  intro h
  simp [Chain.clear, h]

theorem C06_clear_leaves_pt (c : PTChain) :
    ∀ l ∈ c.clear.levels, l.len = 0 ∧ ∃ l₀ ∈ c.levels, l = l₀.clear := by
  intro l hl
  simp only [PTChain.clear, List.mem_map] at hl
  obtain ⟨l₀, h₀, rfl⟩ := hl
  exact ⟨len_clear l₀, l₀, h₀, rfl⟩

/-! ### Non-vacuity: the hypotheses are met by every freshly built chain, and `strip` really
removes clears and growth -/

example (betas : List Rat) (s : Nat) (cfgs : List PropCfg) :
    ∀ l ∈ (PTChain.fresh betas s cfgs).levels, Chain.Inv l := by
  intro l hl
  simp only [PTChain.fresh, List.mem_map] at hl
  obtain ⟨b, _, rfl⟩ := hl
  exact inv_fresh b cfgs 0

example (i j : PTChain.StepIn) :
    strip [.extend 2, .step i, .clear, .extend 1, .step j, .clear] = [.step i, .step j] := rfl

end Epsie.C06
