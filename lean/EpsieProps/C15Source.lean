/-
  C15 (and C13/C05 through the clock), source tie: the definitions that
  harness/gen_source.py translates from `epsie/proposals/base.py` on every run
  (`BaseProposal.nsteps`, `_call_jump`, `update`, `jump`, `logpdf`) are, for all
  arguments, the hand-written model's `PropSt.nsteps`, `PropSt.callJump`, the
  counter/`_update` part of `PropSt.update`, and the "copy / contribute 0 when not
  due" behaviour that `Chain.applyJump` and `Chain.contributes` build on.
-/
import EpsieModel.Generated.Source
import EpsieModel.Chain
import EpsieProps.C15
namespace Epsie.C15

/-- How the model's proposal state is seen by the code: `start_step` exists iff adaptive. -/
def startOf (p : PropSt) : Option Int := if p.cfg.adaptive then some (p.startStep : Int) else none

theorem fdiv_nat (a k : Nat) : Src.fdiv (a : Int) (k : Int) = ((a / k : Nat) : Int) := by
  unfold Src.fdiv
  rw [Int.fdiv_eq_ediv_of_nonneg _ (Int.natCast_nonneg k)]
  exact (Int.natCast_ediv a k).symm

theorem pmod_nat (a k : Nat) : Src.pmod (a : Int) (k : Int) = ((a % k : Nat) : Int) := by
  unfold Src.pmod
  rw [Int.fmod_eq_emod_of_nonneg _ (Int.natCast_nonneg k)]
  exact (Int.natCast_emod a k).symm

/-- `BaseProposal.nsteps` as translated = the model's `nsteps`. -/
theorem C15_source_nsteps (p : PropSt) :
    Gen.nsteps (p.raw : Int) (p.cfg.k : Int) = (p.nsteps : Int) := by
  unfold Gen.nsteps PropSt.nsteps
  exact fdiv_nat _ _

/-- `BaseProposal._call_jump` as translated = the model's `callJump`, for every proposal state. -/
theorem C15_source_call_jump (p : PropSt) :
    Gen.callJump (p.raw : Int) (p.cfg.k : Int) (p.cfg.dur : Int) (startOf p) = p.callJump := by
  unfold Gen.callJump startOf PropSt.callJump PropSt.dkJump
  have hn := C15_source_nsteps p
  have hm := pmod_nat p.raw p.cfg.k
  have hk : ((p.cfg.k : Int) = 1) ↔ (p.cfg.k = 1) := by omega
  have h0 : ((((p.raw % p.cfg.k : Nat) : Int)) = 0) ↔ (p.raw % p.cfg.k = 0) := by omega
  by_cases ha : p.cfg.adaptive = true
  · simp only [ha, hn, hm, if_true]
    by_cases h1 : p.cfg.k = 1
    · simp [h1]
    · by_cases h2 : (p.cfg.dur : Int) ≤ (p.nsteps : Int) - (p.startStep : Int) + 1
      · simp [h2]
      · by_cases h4 : p.raw % p.cfg.k = 0 <;> simp [hk, h1, h2, h4] <;> exact_mod_cast h4
  · simp only [ha, hn, hm, if_false, Bool.false_eq_true]
    by_cases h1 : p.cfg.k = 1
    · simp [h1]
    · by_cases h2 : (p.cfg.dur : Int) ≤ (p.nsteps : Int)
      · simp [h2]
      · by_cases h4 : p.raw % p.cfg.k = 0 <;> simp [hk, h1, h2, h4] <;> exact_mod_cast h4

/-- `BaseProposal.update` as translated: `_update` is called iff the proposal was due, and the
    counter advances by exactly one in both cases — the model's `PropSt.update`. -/
theorem C15_source_update (p : PropSt) (acc : Bool) (ar : AR) (pos : List Val) :
    Gen.update (p.raw : Int) (p.cfg.k : Int) (p.cfg.dur : Int) (startOf p)
      = (p.callJump, ((p.update acc ar pos).raw : Int)) := by
  unfold Gen.update PropSt.update
  rw [C15_source_call_jump]
  first | done | (cases p.callJump <;> simp)

/-- An adaptive event is absorbed only when the translated `update` called `_update`. -/
theorem C15_source_update_event (p : PropSt) (acc : Bool) (ar : AR) (pos : List Val)
    (h : (Gen.update (p.raw : Int) (p.cfg.k : Int) (p.cfg.dur : Int) (startOf p)).1 = false) :
    (p.update acc ar pos).events = p.events := by
  rw [C15_source_update p acc ar pos] at h
  simp only at h
  unfold PropSt.update
  simp [h]

/-- `BaseProposal.jump` as translated: the point is copied when the proposal is not due. -/
theorem C15_source_jump {α : Type} (p : PropSt) (fromx jumped : α) :
    Gen.jump α (p.raw : Int) (p.cfg.k : Int) (p.cfg.dur : Int) (startOf p) fromx jumped
      = if p.callJump then jumped else fromx := by
  unfold Gen.jump
  rw [C15_source_call_jump]
  first | done | (cases p.callJump <;> simp)

/-- `BaseProposal.logpdf` as translated: a proposal that is not due reports log-density 0, so a
    non-symmetric constituent contributes its reported value iff `Chain.contributes`. -/
theorem C15_source_logpdf (p : PropSt) (lp : Rat) :
    Gen.logpdf (p.raw : Int) (p.cfg.k : Int) (p.cfg.dur : Int) (startOf p) lp
      = if p.callJump then lp else 0 := by
  unfold Gen.logpdf
  rw [C15_source_call_jump]
  first | done | (cases p.callJump <;> simp)

theorem C15_source_contribution (p : PropSt) (lp : Rat) (hns : p.cfg.symmetric = false) :
    Gen.logpdf (p.raw : Int) (p.cfg.k : Int) (p.cfg.dur : Int) (startOf p) lp
      = if Chain.contributes p then lp else 0 := by
  rw [C15_source_logpdf]
  unfold Chain.contributes
  simp [hns]


/-- The property's schedule, stated on the translated code: the proposal is due at counter `raw` iff
    its interval is 1, or `jump_interval_duration` proposal steps have elapsed on its clock, or `raw`
    is a multiple of the interval (composition of the source tie with `C15_schedule`). -/
theorem C15_source_schedule (p : PropSt) :
    Gen.callJump (p.raw : Int) (p.cfg.k : Int) (p.cfg.dur : Int) (startOf p) = true ↔
      (p.cfg.k = 1 ∨ (p.cfg.dur : Int) ≤ p.dkJump ∨ p.raw % p.cfg.k = 0) := by
  rw [C15_source_call_jump]
  exact C15_schedule p

/-- ... and on the translated `jump`: a proposal that is not due returns the point it was given. -/
theorem C15_source_not_due_copies {α : Type} (p : PropSt) (fromx jumped : α)
    (h : ¬ (p.cfg.k = 1 ∨ (p.cfg.dur : Int) ≤ p.dkJump ∨ p.raw % p.cfg.k = 0)) :
    Gen.jump α (p.raw : Int) (p.cfg.k : Int) (p.cfg.dur : Int) (startOf p) fromx jumped = fromx := by
  rw [C15_source_jump]
  have : p.callJump = false := by
    cases hc : p.callJump
    · rfl
    · exact absurd ((C15_schedule p).mp hc) h
  simp [this]

/-- Non-vacuity / sanity: a slow adaptive proposal (k = 3, duration 4, start step 1) at counter 4
    is not due, at counter 6 it is. -/
example : Gen.callJump 4 3 4 (some 1) = false ∧ Gen.callJump 6 3 4 (some 1) = true ∧
    Gen.callJump 13 3 4 (some 1) = true := by decide

end Epsie.C15
