/-
  C09, source tie (the "apply" block): what `ParallelTemperedChain.swap_temperatures`
  (epsie/chain/ptchain.py), translated on every run by harness/gen_source.py into
  `Gen.sweepApply`, writes after the sweep has produced `swap_index` — characterised exactly, for
  ALL arguments, and tied to the model's `PTChain.applySwap`.

  `Gen.sweepApply` returns five write logs, in program order:
    positions / stats / blobs : `[((level, row), value)]`   (`chain._positions[ii] = …` of level `tk`)
    active                    : `[(level, value)]`            (`chain.proposal_dist.active_props = …`)
    reset                     : `[(level, ())]`               (`chain.reset_proposals()`)

  C09_source_apply_acceptance_untouched (remark, no theorem needed): `Gen.sweepApply` has no
  acceptance input and no acceptance output — its arguments are `ntemps`, the three flags,
  `iteration`, `lastclear`, `swap_index` and the levels' current positions / stats / blobs / active
  sets, and its result is the five logs above.  The translator emits a log for every array or
  attribute the block assigns, so nothing in the block writes `_acceptance`: the acceptance
  records of the levels are not moved by a swap.

  Route: the `for tk in range(ntemps)` loop is a left fold of `applyBody` (`sweepApply_eq`, by
  `rfl`); folding it over any list `l` appends `l.map …` to every log (`apply_fold`); reading
  `new_positions[tk]` with `new_positions = [cur_pos[swk] for swk in swap_index]` is
  `cur_pos[swap_index[tk]]` (`apply_get_map`).
-/
import EpsieModel.Generated.Source
import EpsieModel.PTChain
namespace Epsie.C09
open Epsie

/-! ### Prelude operations -/

theorem apply_get_nat {α} [Inhabited α] (l : List α) (i : Nat) :
    Src.get l (i : Int) = l.getD i default := by
  unfold Src.get
  have h : ¬ ((i : Int) < 0) := by omega
  simp [h]

theorem apply_get_map {α β} [Inhabited α] [Inhabited β] (f : α → β) (l : List α) (t : Nat)
    (h : t < l.length) : Src.get (l.map f) (t : Int) = f (Src.get l (t : Int)) := by
  rw [apply_get_nat, apply_get_nat]
  simp [List.getD_eq_getElem?_getD, List.getElem?_eq_getElem h]

theorem apply_rangeUp (n : Nat) :
    Src.rangeUp 0 (n : Int) = (List.range n).map (fun (t : Nat) => (t : Int)) := by
  unfold Src.rangeUp
  have h : ((n : Int) - 0).toNat = n := by omega
  rw [h]
  apply List.map_congr_left
  intro i _
  omega

/-! ### The loop as a fold -/

/-- The loop-carried state: the five write logs. -/
abbrev ApplySt (α σ β γ : Type) :=
  List ((Int × Int) × α) × List ((Int × Int) × σ) × List ((Int × Int) × β) × List (Int × γ) × List (Int × Unit)

/-- The body of `for tk in range(ntemps)` in `Gen.sweepApply`, with the five right-hand sides
    abstracted (`Gen.sweepApply` is literally the fold of this body: `sweepApply_eq`, by `rfl`). -/
def applyBody {α σ β γ : Type} (transdimensional hasblobs : Bool) (ii : Int)
    (fp : Int → α) (fs : Int → σ) (fa : Int → γ) (fb : Int → β) (cond : Int → Bool) (tk : Int) :
    ApplySt α σ β γ → ApplySt α σ β γ :=
  fun (positionsW, statsW, blobsW, activeW, resetW) =>
      let positionsW := Src.wr positionsW (tk, ii) (fp tk)
      let statsW := Src.wr statsW (tk, ii) (fs tk)
      let activeW := if transdimensional then Src.wr activeW tk (fa tk) else activeW
      let blobsW := if hasblobs then Src.wr blobsW (tk, ii) (fb tk) else blobsW
      let resetW := if cond tk then Src.wr resetW tk () else resetW
      (positionsW, statsW, blobsW, activeW, resetW)

theorem sweepApply_eq (α σ β γ : Type) (i1 : Inhabited α) (i2 : Inhabited σ) (i3 : Inhabited β)
    (i4 : Inhabited γ) (ntemps : Int) (td hb rs : Bool) (iteration lastclear : Int)
    (swap_index : List Int) (cur_pos : List α) (cur_stats : List σ) (cur_blob : List β)
    (cur_active : List γ) :
    Gen.sweepApply α σ β γ i1 i2 i3 i4 ntemps td hb rs iteration lastclear swap_index cur_pos cur_stats
        cur_blob cur_active
      = Src.forIn (Src.rangeUp 0 ntemps) ([], [], [], [], [])
          (applyBody td hb (iteration - lastclear - 1)
            (fun tk => Src.get (swap_index.map fun swk => Src.get cur_pos swk) tk)
            (fun tk => Src.get (swap_index.map fun swk => Src.get cur_stats swk) tk)
            (fun tk => Src.get (if td then swap_index.map fun swk => Src.get cur_active swk else default) tk)
            (fun tk => Src.get (if hb then swap_index.map fun swk => Src.get cur_blob swk else default) tk)
            (fun tk => rs && decide (tk ≠ Src.get swap_index tk))) := rfl

/-- Folding the body over ANY list of levels appends, to every log, one entry per level in list
    order (the conditional logs only when their flag is set, the reset log only for the levels that
    satisfy the condition). -/
theorem apply_fold {α σ β γ : Type} (td hb : Bool) (ii : Int)
    (fp : Int → α) (fs : Int → σ) (fa : Int → γ) (fb : Int → β) (cond : Int → Bool)
    (l : List Int) (p : List ((Int × Int) × α)) (s : List ((Int × Int) × σ)) (b : List ((Int × Int) × β))
    (a : List (Int × γ)) (r : List (Int × Unit)) :
    Src.forIn l (p, s, b, a, r) (applyBody td hb ii fp fs fa fb cond)
      = (p ++ l.map (fun t => ((t, ii), fp t)),
         s ++ l.map (fun t => ((t, ii), fs t)),
         b ++ (if hb then l.map (fun t => ((t, ii), fb t)) else []),
         a ++ (if td then l.map (fun t => (t, fa t)) else []),
         r ++ (l.filter cond).map (fun t => (t, ()))) := by
  induction l generalizing p s b a r with
  | nil => cases hb <;> cases td <;> simp [Src.forIn]
  | cons t l ih =>
    unfold Src.forIn at ih ⊢
    have hstep : applyBody td hb ii fp fs fa fb cond t (p, s, b, a, r)
        = (Src.wr p (t, ii) (fp t), Src.wr s (t, ii) (fs t),
           (if hb then Src.wr b (t, ii) (fb t) else b),
           (if td then Src.wr a t (fa t) else a),
           (if cond t then Src.wr r t () else r)) := rfl
    rw [List.foldl_cons, hstep, ih]
    cases hb <;> cases td <;> cases hc : cond t <;> simp [Src.wr, hc]

/-! ### Exact characterisation

  `ntemps = n = swap_index.length`.  The entries of `swap_index` are arbitrary Python integers here
  (`Src.get` is Python indexing, negative entries count from the end); the natural-number reading
  `cur_pos.getD (idx.getD t 0) default` is `C09_source_apply_nat` below. -/

/-- All five logs at once. -/
theorem C09_source_apply_closed_form (α σ β γ : Type) [i1 : Inhabited α] [i2 : Inhabited σ]
    [i3 : Inhabited β] [i4 : Inhabited γ] (n : Nat) (td hb rs : Bool) (iteration lastclear : Int)
    (swap_index : List Int) (cur_pos : List α) (cur_stats : List σ) (cur_blob : List β)
    (cur_active : List γ) (hn : swap_index.length = n) :
    Gen.sweepApply α σ β γ i1 i2 i3 i4 (n : Int) td hb rs iteration lastclear swap_index cur_pos cur_stats
        cur_blob cur_active
      = (let ii := iteration - lastclear - 1
         let sw := fun (t : Nat) => Src.get swap_index (t : Int)
         ((List.range n).map (fun (t : Nat) => (((t : Int), ii), Src.get cur_pos (sw t))),
          (List.range n).map (fun (t : Nat) => (((t : Int), ii), Src.get cur_stats (sw t))),
          (if hb then (List.range n).map (fun (t : Nat) => (((t : Int), ii), Src.get cur_blob (sw t))) else []),
          (if td then (List.range n).map (fun (t : Nat) => ((t : Int), Src.get cur_active (sw t))) else []),
          ((List.range n).filter (fun (t : Nat) => rs && decide ((t : Int) ≠ sw t))).map
            (fun (t : Nat) => ((t : Int), ())))) := by
  rw [sweepApply_eq, apply_rangeUp, apply_fold]
  have hm : ∀ {δ ε : Type} [Inhabited δ] (f : Int → δ) (k : Nat → δ → ε),
      (List.range n).map (fun t => k t (Src.get (swap_index.map f) (t : Int)))
        = (List.range n).map (fun t => k t (f (Src.get swap_index (t : Int)))) := by
    intro δ ε _ f k
    apply List.map_congr_left
    intro t ht
    rw [apply_get_map f swap_index t (by rw [hn]; exact List.mem_range.mp ht)]
  simp only [List.nil_append, List.map_map, List.filter_map, Function.comp_def]
  cases hb <;> cases td <;> simp [hm]


section
variable (α σ β γ : Type) [i1 : Inhabited α] [i2 : Inhabited σ] [i3 : Inhabited β] [i4 : Inhabited γ]
  (n : Nat) (td hb rs : Bool) (iteration lastclear : Int) (swap_index : List Int)
  (cur_pos : List α) (cur_stats : List σ) (cur_blob : List β) (cur_active : List γ)

/-- Positions: level `t` receives, in row `ii = iteration - lastclear - 1`, the position that level
    `swap_index[t]` held; one write per level, levels in increasing order. -/
theorem C09_source_apply_positions (hn : swap_index.length = n) :
    (Gen.sweepApply α σ β γ i1 i2 i3 i4 (n : Int) td hb rs iteration lastclear swap_index cur_pos
        cur_stats cur_blob cur_active).1
      = (List.range n).map (fun (t : Nat) =>
          (((t : Int), iteration - lastclear - 1), Src.get cur_pos (Src.get swap_index (t : Int)))) := by
  rw [C09_source_apply_closed_form α σ β γ n td hb rs iteration lastclear swap_index cur_pos cur_stats
    cur_blob cur_active hn]

/-- Stats: the same rows, the same permutation. -/
theorem C09_source_apply_stats (hn : swap_index.length = n) :
    (Gen.sweepApply α σ β γ i1 i2 i3 i4 (n : Int) td hb rs iteration lastclear swap_index cur_pos
        cur_stats cur_blob cur_active).2.1
      = (List.range n).map (fun (t : Nat) =>
          (((t : Int), iteration - lastclear - 1), Src.get cur_stats (Src.get swap_index (t : Int)))) := by
  rw [C09_source_apply_closed_form α σ β γ n td hb rs iteration lastclear swap_index cur_pos cur_stats
    cur_blob cur_active hn]

/-- Blobs: the same list iff the chain has blobs, nothing otherwise. -/
theorem C09_source_apply_blobs (hn : swap_index.length = n) :
    (Gen.sweepApply α σ β γ i1 i2 i3 i4 (n : Int) td hb rs iteration lastclear swap_index cur_pos
        cur_stats cur_blob cur_active).2.2.1
      = if hb then (List.range n).map (fun (t : Nat) =>
          (((t : Int), iteration - lastclear - 1), Src.get cur_blob (Src.get swap_index (t : Int))))
        else [] := by
  rw [C09_source_apply_closed_form α σ β γ n td hb rs iteration lastclear swap_index cur_pos cur_stats
    cur_blob cur_active hn]

/-- Active sets (transdimensional proposals): level `t` is assigned the active set of level
    `swap_index[t]` iff the chain is transdimensional, nothing otherwise. -/
theorem C09_source_apply_active (hn : swap_index.length = n) :
    (Gen.sweepApply α σ β γ i1 i2 i3 i4 (n : Int) td hb rs iteration lastclear swap_index cur_pos
        cur_stats cur_blob cur_active).2.2.2.1
      = if td then (List.range n).map (fun (t : Nat) =>
          ((t : Int), Src.get cur_active (Src.get swap_index (t : Int))))
        else [] := by
  rw [C09_source_apply_closed_form α σ β γ n td hb rs iteration lastclear swap_index cur_pos cur_stats
    cur_blob cur_active hn]

/-- `reset_proposals()` is called exactly on the levels `t` with
    `reset_after_swap ∧ swap_index[t] ≠ t`, each once, in increasing order of `t`. -/
theorem C09_source_apply_reset (hn : swap_index.length = n) :
    (Gen.sweepApply α σ β γ i1 i2 i3 i4 (n : Int) td hb rs iteration lastclear swap_index cur_pos
        cur_stats cur_blob cur_active).2.2.2.2
      = ((List.range n).filter
            (fun (t : Nat) => rs && decide ((t : Int) ≠ Src.get swap_index (t : Int)))).map
          (fun (t : Nat) => ((t : Int), ())) := by
  rw [C09_source_apply_closed_form α σ β γ n td hb rs iteration lastclear swap_index cur_pos cur_stats
    cur_blob cur_active hn]

/-- Membership form of `C09_source_apply_reset`. -/
theorem C09_source_apply_reset_mem (hn : swap_index.length = n) (t : Nat) :
    ((t : Int), ()) ∈ (Gen.sweepApply α σ β γ i1 i2 i3 i4 (n : Int) td hb rs iteration lastclear
        swap_index cur_pos cur_stats cur_blob cur_active).2.2.2.2
      ↔ t < n ∧ rs = true ∧ Src.get swap_index (t : Int) ≠ (t : Int) := by
  rw [C09_source_apply_reset α σ β γ n td hb rs iteration lastclear swap_index cur_pos cur_stats
    cur_blob cur_active hn]
  simp only [List.mem_map, List.mem_filter, List.mem_range, Prod.mk.injEq, and_true]
  constructor
  · rintro ⟨a, ⟨ha, hc⟩, hat⟩
    have : a = t := by omega
    subst this
    simp only [Bool.and_eq_true, decide_eq_true_eq] at hc
    exact ⟨ha, hc.1, fun h => hc.2 h.symm⟩
  · rintro ⟨ht, hr, hne⟩
    exact ⟨t, ⟨ht, by simp [hr]; exact fun h => hne h.symm⟩, rfl⟩

/-- The reset log is strictly increasing in the level (so no level is reset twice). -/
theorem C09_source_apply_reset_increasing (hn : swap_index.length = n) :
    ((Gen.sweepApply α σ β γ i1 i2 i3 i4 (n : Int) td hb rs iteration lastclear swap_index cur_pos
        cur_stats cur_blob cur_active).2.2.2.2.map Prod.fst).Pairwise (· < ·) := by
  rw [C09_source_apply_reset α σ β γ n td hb rs iteration lastclear swap_index cur_pos cur_stats
    cur_blob cur_active hn, List.map_map]
  apply List.Pairwise.map (R := (· < ·))
  · intro a b hab
    show (a : Int) < (b : Int)
    omega
  · exact List.Pairwise.filter _ List.pairwise_lt_range

/-- Without `reset_after_swap` no proposal is reset. -/
theorem C09_source_apply_reset_off (hn : swap_index.length = n) :
    (Gen.sweepApply α σ β γ i1 i2 i3 i4 (n : Int) td hb false iteration lastclear swap_index cur_pos
        cur_stats cur_blob cur_active).2.2.2.2 = [] := by
  rw [C09_source_apply_reset α σ β γ n td hb false iteration lastclear swap_index cur_pos cur_stats
    cur_blob cur_active hn]
  simp

/-- One permutation for everything that moves: for every level `t < ntemps`, with
    `s = swap_index[t]`, the `t`-th entry of the positions, of the stats, of the blobs (when
    present) and of the active sets (when present) is what level `s` — the SAME `s` — held. -/
theorem C09_source_apply_one_permutation (hn : swap_index.length = n) (t : Nat) (ht : t < n) :
    let out := Gen.sweepApply α σ β γ i1 i2 i3 i4 (n : Int) td hb rs iteration lastclear swap_index
        cur_pos cur_stats cur_blob cur_active
    let ii := iteration - lastclear - 1
    let s := Src.get swap_index (t : Int)
    out.1[t]? = some (((t : Int), ii), Src.get cur_pos s)
    ∧ out.2.1[t]? = some (((t : Int), ii), Src.get cur_stats s)
    ∧ (hb = true → out.2.2.1[t]? = some (((t : Int), ii), Src.get cur_blob s))
    ∧ (td = true → out.2.2.2.1[t]? = some ((t : Int), Src.get cur_active s)) := by
  intro out ii s
  simp only [out, C09_source_apply_positions α σ β γ n td hb rs iteration lastclear swap_index cur_pos
    cur_stats cur_blob cur_active hn, C09_source_apply_stats α σ β γ n td hb rs iteration lastclear
    swap_index cur_pos cur_stats cur_blob cur_active hn, C09_source_apply_blobs α σ β γ n td hb rs
    iteration lastclear swap_index cur_pos cur_stats cur_blob cur_active hn,
    C09_source_apply_active α σ β γ n td hb rs iteration lastclear swap_index cur_pos cur_stats
    cur_blob cur_active hn]
  refine ⟨by simp [ht, ii, s], by simp [ht, ii, s], ?_, ?_⟩
  · intro h; simp [h, ht, ii, s]
  · intro h; simp [h, ht, s]

end

/-- Natural-number entries: with `swap_index = [↑i for i in idx]`, `cur[swap_index[t]]` is
    `cur.getD (idx.getD t 0) default`. -/
theorem C09_source_apply_nat {α : Type} [Inhabited α] (idx : List Nat) (cur : List α) (t : Nat)
    (ht : t < idx.length) :
    Src.get cur (Src.get (idx.map (fun (i : Nat) => (i : Int))) (t : Int))
      = cur.getD (idx.getD t 0) default := by
  rw [apply_get_map (fun (i : Nat) => (i : Int)) idx t ht, apply_get_nat, apply_get_nat]
  rfl

/-! ### The tie to the model

  The model keeps position, stats and blob of a record in one `St`; the code moves them with three
  separate assignments.  The tie reads the three logs back: `lastWrite log k` is the value that the
  array holds at key `k` after the writes of `log` were executed in order (the last write to `k`
  wins; here every key is written once). -/

/-- The value an array holds at key `k` after the writes of `log`, if `k` was written at all. -/
def lastWrite {κ α : Type} [BEq κ] (log : List (κ × α)) (k : κ) : Option α := log.reverse.lookup k

theorem lookup_map_key {κ α : Type} [BEq κ] [LawfulBEq κ] (key : Nat → κ) (f : Nat → α)
    (hinj : ∀ a b, key a = key b → a = b) (l : List Nat) (t : Nat) (ht : t ∈ l) :
    (l.map (fun t => (key t, f t))).lookup (key t) = some (f t) := by
  induction l with
  | nil => simp at ht
  | cons a l ih =>
    rw [List.map_cons, List.lookup_cons]
    by_cases h : key t = key a
    · have : t = a := hinj _ _ h
      subst this
      simp
    · have hb : (key t == key a) = false := by simpa using h
      rw [hb]
      have : t ∈ l := by
        rcases List.mem_cons.mp ht with h' | h'
        · exact absurd (congrArg key h') h
        · exact h'
      exact ih this

theorem lastWrite_map_key {κ α : Type} [BEq κ] [LawfulBEq κ] (key : Nat → κ) (f : Nat → α)
    (hinj : ∀ a b, key a = key b → a = b) (l : List Nat) (t : Nat) (ht : t ∈ l) :
    lastWrite (l.map (fun t => (key t, f t))) (key t) = some (f t) := by
  unfold lastWrite
  rw [← List.map_reverse]
  exact lookup_map_key key f hinj l.reverse t (List.mem_reverse.mpr ht)


/-- The row `ii = iteration - lastclear - 1` that the code rewrites is the row `l.len - 1` that the
    model's `rewriteLast` rewrites, for every level `l` that shares the chain's counters and has
    taken a step since the last clear. -/
theorem C09_source_apply_row (l : Chain) (h : l.lastclear < l.iteration) :
    (l.iteration : Int) - (l.lastclear : Int) - 1 = ((l.len - 1 : Nat) : Int) := by
  unfold Chain.len; omega

/-- The state the three logs assign to level `t` (row `ii`), packed as the model's `St`;
    a level whose blobs are not written (chain without blobs) has the empty blob. -/
def assignedSt (posW : List ((Int × Int) × List Val)) (statsW : List ((Int × Int) × (Rat × Rat)))
    (blobsW : List ((Int × Int) × List Val)) (t : Nat) (ii : Int) : Option St :=
  match lastWrite posW ((t : Int), ii), lastWrite statsW ((t : Int), ii) with
  | some p, some s =>
      some { pos := p, logl := s.1, logp := s.2, blob := (lastWrite blobsW ((t : Int), ii)).getD [] }
  | _, _ => none

/-- Tie to `PTChain.applySwap`.  Model levels `levels` whose current states are `curs`, a swap index
    `idx` (naturals below the number of levels, one per level).  Encoding of the arguments of the
    translated code: positions `s.pos`, stats `(s.logl, s.logp)` (the order of the dictionary
    `['logl', 'logp']`), blobs `s.blob`; any active sets, any `transdimensional` (the model's levels
    carry no active set); any `hasblobs`, provided that a chain without blobs has empty blobs in
    the model (which is how `Chain.setStart` defines `hasblobs`).

    Then `applySwap` is, level by level: rewrite the last record of level `t` with the state that
    the positions / stats / blobs logs assign to `t`, and reset the proposals of `t` iff `t` is in
    the reset log.  (Projection used: `assignedSt` packs the three logged components into an `St`;
    stats `(a, b)` ↦ `logl := a, logp := b`.) -/
theorem C09_source_apply_model {γ : Type} [i4 : Inhabited γ] (reset hb td : Bool)
    (levels : List Chain) (curs : List St) (idx : List Nat) (iteration lastclear : Int)
    (cur_active : List γ)
    (hcur : levels.map (·.current) = curs.map some)
    (hlen : idx.length = levels.length)
    (hidx : ∀ i ∈ idx, i < levels.length)
    (hblob : hb = false → ∀ s ∈ curs, s.blob = []) :
    let out := Gen.sweepApply (List Val) (Rat × Rat) (List Val) γ inferInstance inferInstance inferInstance i4
        (levels.length : Int) td hb reset iteration lastclear (idx.map (fun (i : Nat) => (i : Int)))
        (curs.map (·.pos)) (curs.map (fun s => (s.logl, s.logp))) (curs.map (·.blob)) cur_active
    let ii := iteration - lastclear - 1
    PTChain.applySwap reset levels idx
      = (levels.zip (List.range levels.length)).map fun (l, t) =>
          PTChain.maybeReset (decide (((t : Int), ()) ∈ out.2.2.2.2))
            (PTChain.maybeRewrite l (assignedSt out.1 out.2.1 out.2.2.1 t ii)) := by
  intro out ii
  have hn : (idx.map (fun (i : Nat) => (i : Int))).length = levels.length := by simp [hlen]
  have hcl : curs.length = levels.length := by
    have := congrArg List.length hcur
    simpa using this.symm
  have hinj : ∀ a b : Nat, (((a : Int), ii) = ((b : Int), ii)) → a = b := by
    intro a b h
    have := (Prod.mk.inj h).1
    omega
  unfold PTChain.applySwap
  apply List.map_congr_left
  rintro ⟨l, t⟩ hmem
  have ht : t < levels.length := List.mem_range.mp (List.of_mem_zip hmem).2
  have htr : t ∈ List.range levels.length := List.mem_range.mpr ht
  have hti : t < idx.length := by omega
  -- the level whose state goes to `t`
  have hj : idx.getD t t = idx[t] := by simp [List.getD_eq_getElem?_getD, List.getElem?_eq_getElem hti]
  have hjn : idx[t] < levels.length := hidx _ (List.getElem_mem hti)
  have hjc : idx[t] < curs.length := by omega
  have hsw : Src.get (idx.map (fun (i : Nat) => (i : Int))) (t : Int) = ((idx[t] : Nat) : Int) := by
    rw [apply_get_map (fun (i : Nat) => (i : Int)) idx t hti, apply_get_nat]
    simp [List.getD_eq_getElem?_getD, List.getElem?_eq_getElem hti]
  have hst : Src.get curs ((idx[t] : Nat) : Int) = curs[idx[t]] := by
    rw [apply_get_nat]
    simp [List.getD_eq_getElem?_getD, List.getElem?_eq_getElem hjc]
  -- the model's side
  have hold : (levels.map (·.current)).getD (idx.getD t t) none = some curs[idx[t]] := by
    rw [hcur, hj]
    simp [List.getD_eq_getElem?_getD, List.getElem?_eq_getElem hjc]
  -- the logs
  have hP : lastWrite out.1 ((t : Int), ii) = some curs[idx[t]].pos := by
    simp only [out, C09_source_apply_positions _ _ _ _ _ _ _ _ _ _ _ _ _ _ _ hn]
    rw [lastWrite_map_key (fun (t : Nat) => ((t : Int), ii)) _ hinj _ t htr, hsw,
      apply_get_map (·.pos) curs _ hjc, hst]
  have hS : lastWrite out.2.1 ((t : Int), ii) = some (curs[idx[t]].logl, curs[idx[t]].logp) := by
    simp only [out, C09_source_apply_stats _ _ _ _ _ _ _ _ _ _ _ _ _ _ _ hn]
    rw [lastWrite_map_key (fun (t : Nat) => ((t : Int), ii)) _ hinj _ t htr, hsw,
      apply_get_map (fun s : St => (s.logl, s.logp)) curs _ hjc, hst]
  have hB : (lastWrite out.2.2.1 ((t : Int), ii)).getD [] = curs[idx[t]].blob := by
    simp only [out, C09_source_apply_blobs _ _ _ _ _ _ _ _ _ _ _ _ _ _ _ hn]
    cases hb with
    | true =>
      simp only [if_true]
      rw [lastWrite_map_key (fun (t : Nat) => ((t : Int), ii)) _ hinj _ t htr, hsw,
        apply_get_map (·.blob) curs _ hjc, hst]
      rfl
    | false =>
      rw [hblob rfl _ (List.getElem_mem hjc)]
      rfl
  have hA : assignedSt out.1 out.2.1 out.2.2.1 t ii = some curs[idx[t]] := by
    unfold assignedSt
    rw [hP, hS, hB]
  -- the reset flag
  have hR : decide (((t : Int), ()) ∈ out.2.2.2.2) = (reset && idx.getD t t != t) := by
    have hm := C09_source_apply_reset_mem (List Val) (Rat × Rat) (List Val) γ levels.length td hb reset
      iteration lastclear (idx.map (fun (i : Nat) => (i : Int))) (curs.map (·.pos))
      (curs.map (fun s => (s.logl, s.logp))) (curs.map (·.blob)) cur_active hn t
    rw [hsw] at hm
    rw [hj, Bool.eq_iff_iff]
    simp only [decide_eq_true_eq, Bool.and_eq_true, bne_iff_ne, ne_eq]
    rw [show (((t : Int), ()) ∈ out.2.2.2.2) ↔ _ from hm]
    constructor
    · rintro ⟨_, hr, hne⟩; exact ⟨hr, fun h => hne (by rw [h])⟩
    · rintro ⟨hr, hne⟩; exact ⟨ht, hr, fun h => hne (by exact_mod_cast h)⟩
  simp only [hold, hA, hR]

/-! ### Concrete values

  (`synthInstance.maxSize` is raised only because the `DecidableEq` instance of the 5-tuple of logs
  is large; it does not affect any proof.) -/

set_option synthInstance.maxSize 4096 in
/-- Three levels, `swap_index = [1, 0, 2]`, `reset_after_swap`, blobs, no active sets; iteration 7,
    cleared at 3 (row 3): levels 0 and 1 exchange position, stats and blob and are reset, level 2
    keeps its own and is not reset. -/
example :
    Gen.sweepApply Nat (Rat × Rat) Nat Nat inferInstance inferInstance inferInstance inferInstance
        3 false true true 7 3 [1, 0, 2] [10, 11, 12] [(-1, -2), (-3, -4), (-5, -6)] [20, 21, 22] []
      = ([((0, 3), 11), ((1, 3), 10), ((2, 3), 12)],
         [((0, 3), (-3, -4)), ((1, 3), (-1, -2)), ((2, 3), (-5, -6))],
         [((0, 3), 21), ((1, 3), 20), ((2, 3), 22)],
         [],
         [(0, ()), (1, ())]) := by
  decide +kernel

end Epsie.C09
