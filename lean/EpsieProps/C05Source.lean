/-
  C05, source tie: the key flow of `Chain.state` / `Chain.set_state`, extracted from the source on
  every run (which key is saved from what; which attribute is restored from which key, in program
  order), is the field flow of the model's `Chain.save` / `Chain.load`:

      key of the code      field of `Chain.Saved`      restored into (code → model `Chain.load`)
      chain_id             chainId                     self.chain_id      → chainId
      beta                 beta                        self.beta          → beta
      iteration            iteration                   _iteration, _lastclear → iteration, lastclear
      current_position  ┐                              _start  ┐
      current_stats     ├  current : St                stats0  ├          → start := some current
      current_blob      ┘                              blob0   ┘
      proposed_position    proposed                    proposed_position  → proposed
      hasblobs             hasblobs                    _hasblobs          → hasblobs
      proposal_dist        props                       proposal_dist.set_state → loadProps

  Any change to either method changes the generated lists and these (closed, decidable) statements
  are re-checked.
-/
import EpsieModel.Generated.Source
import EpsieModel.Chain
namespace Epsie.C05

/-- What `Chain.state` saves, from what. -/
theorem C05_source_chain_state_keys :
    Gen.chainStateKeys =
      [("chain_id", "self.chain_id"), ("beta", "self.beta"), ("proposal_dist", "self.proposal_dist.state"),
       ("iteration", "self.iteration"), ("current_position", "self.current_position"),
       ("proposed_position", "self.proposed_position"), ("current_stats", "self.current_stats"),
       ("hasblobs", "self.hasblobs"), ("current_blob", "self.current_blob if self.hasblobs else None")] := by
  decide

/-- Every key `set_state` reads is a key `state` writes (chain-level state completeness). -/
theorem C05_source_chain_state_complete :
    ∀ f ∈ Gen.chainSetStateFlow, f.2.1 = "" ∨ f.2.1 ∈ Gen.chainStateKeys.map Prod.fst := by
  decide

/-- Every key `state` writes is restored by `set_state` (nothing saved is dropped on load). -/
theorem C05_source_chain_state_all_restored :
    ∀ k ∈ Gen.chainStateKeys, k.1 ∈ Gen.chainSetStateFlow.map (fun f => f.2.1) := by
  decide

/-- The restore flow, in program order: the model's `Chain.load` (clear first; both counters from
    `iteration`; start / stats0 / blob0 from the saved current position, stats, blob; the proposals'
    states through `proposal_dist.set_state`). -/
theorem C05_source_chain_set_state_flow :
    Gen.chainSetStateFlow =
      [("self.chain_id", "chain_id", ""), ("self.beta", "beta", "'beta' in state"), ("self.clear()", "", ""),
       ("self._iteration", "iteration", ""), ("self._lastclear", "iteration", ""),
       ("self._start", "current_position", ""), ("self.stats0", "current_stats", ""),
       ("self._hasblobs", "hasblobs", ""), ("self.blob0", "current_blob", ""),
       ("self.proposed_position", "proposed_position", ""), ("self.proposal_dist.set_state", "proposal_dist", ""),
       ("self._positions.dtypes = detect_dtypes(self._start)", "", ""),
       ("self._activate_proposals()", "", "self.transdimensional")] := by
  decide

/-- The memory is cleared before the counters are restored (`clear` sets `lastclear ← iteration` of
    the *old* counter; the restore then overwrites both), as in `Chain.load`. -/
theorem C05_source_clear_before_counters :
    Gen.chainSetStateFlow.idxOf ("self.clear()", "", "") < Gen.chainSetStateFlow.idxOf ("self._iteration", "iteration", "") ∧
    Gen.chainSetStateFlow.idxOf ("self._iteration", "iteration", "") < Gen.chainSetStateFlow.length := by
  decide

/-- `lastclear` is restored from the saved iteration (so `len = 0` after a load), not from a saved
    `lastclear`: `Chain.load` sets `lastclear := s.iteration`. -/
theorem C05_source_lastclear_from_iteration (c : Chain) (s : Chain.Saved) :
    ("self._lastclear", "iteration", "") ∈ Gen.chainSetStateFlow ∧
    (Chain.load c s).lastclear = s.iteration ∧ (Chain.load c s).iteration = s.iteration := by
  refine ⟨by decide, ?_, ?_⟩ <;> simp [Chain.load]

end Epsie.C05
