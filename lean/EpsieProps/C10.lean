/-
  C10 — Transdimensional states are well formed: index = number of active components.

  Statements only (helper lemmas: EpsieProofs/TransdimLemmas.lean; model:
  EpsieModel/Transdim.lean).  A point is the model index `k` and one slot per in-model
  proposal, `none` = every parameter of the component is NaN, `some vs` = finite
  values; "inactive ⇒ all NaN, active ⇒ finite" is the meaning of the two
  constructors, and what `WF` adds is: one slot per proposal, `k` = number of active
  slots, `kmin ≤ k ≤ kmax` (the model proposal's bounds) and, for a point that carries
  a `_state` entry, `_state` = the point's NaN pattern.

  Hypotheses that the proofs force and that the real constructor does NOT check are
  explicit: `0 ≤ kmin` and `kmax ≤ K` (needed only for "the step never raises"; the
  harness runs the real code with `kmax > K` and with `kmin < 0` and reports the
  numpy `choice` error), start values that are themselves well formed, and
  `start_position` assigned only while no record is retained.
-/
import EpsieProofs.TransdimLemmas
namespace Epsie.C10
open Transdim

/-- Well-formedness of a recorded point and of a point carrying `_state`. -/
abbrev DataWF := Transdim.DataWF
abbrev WF := Transdim.WF

/-- Every point that `NestedTransdimensional._jump` returns from a well-formed point is
    well formed, including its `_state`: the index equals the number of active slots of the
    proposed point, the proposed mask is the proposed point's NaN pattern, and the index
    is within the model proposal's bounds — for births and deaths of any multiplicity and
    same-dimension moves, all oracle values (`jump = .ok` means the real code returned). -/
theorem C10_jump_wf {cfg : Cfg} {x y : SPoint} {i : JumpIn} (hx : WF cfg x)
    (h : jump cfg x i = .ok y) : WF cfg y :=
  jump_ok_wf hx h

/-- With `0 ≤ kmin` and `kmax ≤ K` the jump from a well-formed point returns (never raises)
    for every possible outcome of the draws, and what it returns is well formed. -/
theorem C10_jump_wf_total {cfg : Cfg} {x : SPoint} {i : JumpIn} (hx : WF cfg x)
    (h0 : 0 ≤ cfg.kmin) (hK : cfg.kmax ≤ cfg.K) (hv : i.Valid cfg x) :
    ∃ y, jump cfg x i = .ok y ∧ WF cfg y := by
  obtain ⟨y, hy⟩ := jump_total hx h0 hK hv
  exact ⟨y, hy, jump_ok_wf hx hy⟩

/-- The sample size requested from `Generator.choice(..., replace=False)` never exceeds
    the candidate set, and `BoundedDiscrete._jump` is never asked to jump from outside its
    bounds: neither error branch of the jump is reachable from a well-formed point. -/
theorem C10_choice_feasible {cfg : Cfg} {x : SPoint} (hx : WF cfg x) (h0 : 0 ≤ cfg.kmin)
    (hK : cfg.kmax ≤ cfg.K) (i : JumpIn) (hb : cfg.kmin ≤ i.newk ∧ i.newk ≤ cfg.kmax) :
    (i.newk - x.pt.k).natAbs ≤ (candidates (decide (i.newk - x.pt.k > 0)) x.state).length ∧
    jump cfg x i ≠ .raiseChoice ∧ jump cfg x i ≠ .raiseBounds := by
  have hf := choice_feasible hx h0 hK i.newk hb
  refine ⟨hf, ?_, ?_⟩ <;>
  · unfold jump
    have hb1 : cfg.kmin ≤ x.pt.k ∧ x.pt.k ≤ cfg.kmax := ⟨hx.data.lo, hx.data.hi⟩
    simp only [hb1, hb, and_self, not_true_eq_false, if_false]
    by_cases hdk : i.newk - x.pt.k = 0
    · simp [hdk]
    · have : ¬ (candidates (decide (i.newk - x.pt.k > 0)) x.state).length < (i.newk - x.pt.k).natAbs := by
        omega
      simp only [hdk, if_false, this]
      split <;> simp

/-- Without `kmax ≤ K` the claim is false: the constructor accepts index bounds wider
    than the number of in-model proposals, and the first jump to `k = K+1` makes numpy's
    `choice` raise (K = 1, bounds (0, 2), from the full model). -/
theorem C10_choice_infeasible_beyond_K :
    jump { K := 1, kmin := 0, kmax := 2 } { pt := { k := 1, comps := [some [0]] }, state := [true] }
      { newk := 2, chosen := [], birth := [[]], move := [[]] } = .raiseChoice := by
  decide

/-- Every state reachable from a freshly built ladder by ANY sequence of operations —
    setting start positions, steps of all levels with arbitrary oracle values and
    accept/reject outcomes, temperature sweeps with arbitrary `swap_index`, clears,
    checkpoints and resumes from any earlier checkpoint — is well formed at every level:
    every retained record, the start position, the current position together with the
    chain's internal `_active_props`, the last proposed point with its `_state`, and
    every checkpointed current / proposed position.  No bound on the number of levels,
    components or operations. -/
theorem C10_reachable_wf {cfg : Cfg} {n : Nat} {ops : List Op} {c : PT}
    (hok : OkRun cfg (PT.fresh n) ops) (hrun : (PT.fresh n).run cfg ops = some c) :
    (∀ l ∈ c.levels,
      (∀ p ∈ l.recs, DataWF cfg p) ∧
      (∀ p, l.start = some p → DataWF cfg p) ∧
      (∀ cur, l.current = some cur → WF cfg { pt := cur, state := l.active }) ∧
      (∀ y, l.proposed = some y → WF cfg y)) ∧
    (∀ sv, c.saved = some sv → ∀ s ∈ sv,
      DataWF cfg s.cur ∧ ∀ y, s.proposed = some y → WF cfg y) := by
  have h := ptwf_run ops (ptwf_fresh cfg n) hok hrun
  refine ⟨fun l hl => ?_, h.saved⟩
  have hl' := h.levels l hl
  exact ⟨hl'.recs, hl'.start,
    fun cur hc => ⟨current_dataWF hl' hc, hl'.active cur hc⟩, hl'.proposed⟩

/-- On a reachable state, with `0 ≤ kmin` and `kmax ≤ K`, a step whose draws are possible
    (new index within the model proposal's bounds, `choice` returning `|dk|` distinct
    candidates) never raises. -/
theorem C10_reachable_step_total {cfg : Cfg} {n : Nat} {ops : List Op} {c : PT}
    (hok : OkRun cfg (PT.fresh n) ops) (hrun : (PT.fresh n).run cfg ops = some c)
    (h0 : 0 ≤ cfg.kmin) (hK : cfg.kmax ≤ cfg.K)
    {l : Level} (hl : l ∈ c.levels) {cur : Point} (hcur : l.current = some cur) (i : StepIn)
    (hv : i.jump.Valid cfg { pt := cur, state := l.active }) :
    ∃ l', l.step cfg i = some l' :=
  step_total ((ptwf_run ops (ptwf_fresh cfg n) hok hrun).levels l hl) hcur h0 hK hv

/-- Which in-model proposals `NestedTransdimensional._update` updates after a step (from
    the second iteration on): those that were active before the step and are active in
    the recorded point — after an accepted step exactly the components that made an
    in-model jump, after a rejected step every component active in the current point
    (also one that the rejected proposal would have switched off). -/
theorem C10_update_rule {cfg : Cfg} {n : Nat} {ops : List Op} {c : PT}
    (hok : OkRun cfg (PT.fresh n) ops) (hrun : (PT.fresh n).run cfg ops = some c)
    {l l' : Level} (hl : l ∈ c.levels) {i : StepIn} (h : l.step cfg i = some l')
    (hit : 1 ≤ l.iteration) :
    ∃ cur y, l.current = some cur ∧ jump cfg { pt := cur, state := l.active } i.jump = .ok y ∧
      l'.updated = (List.range cfg.K).map fun j =>
        l.active.getD j false && (if i.accept then y.state.getD j false else l.active.getD j false) :=
  updated_after_step ((ptwf_run ops (ptwf_fresh cfg n) hok hrun).levels l hl) h hit

/-! ### Non-vacuity: a concrete ladder that is born, dies, is swapped, cleared and resumed -/

def cfg0 : Cfg := { K := 3, kmin := 0, kmax := 3 }

def p1 : Point := { k := 1, comps := [some [1/2], none, none] }
def p2 : Point := { k := 2, comps := [none, some [3], some [-1/4]] }

def ops0 : List Op :=
  [ .start [p1, p2],
    -- level 0: birth of components 1 and 2 (accepted); level 1: death of component 2 (rejected); then a swap
    .step [ { jump := { newk := 3, chosen := [2, 1], birth := [[], [7], [9]], move := [[5/8], [], []] }, accept := true },
            { jump := { newk := 1, chosen := [2], birth := [[], [], []], move := [[], [13/4], []] }, accept := false } ]
          (some [1, 0]),
    .save,
    .clear,
    -- same-dimension move on level 0, death of two components on level 1
    .step [ { jump := { newk := 2, chosen := [], birth := [[], [], []], move := [[], [2], [0]] }, accept := true },
            { jump := { newk := 1, chosen := [0, 2], birth := [[], [], []], move := [[], [1], []] }, accept := true } ]
          none,
    .load,
    .step [ { jump := { newk := 2, chosen := [], birth := [[], [], []], move := [[], [2], [0]] }, accept := false },
            { jump := { newk := 3, chosen := [], birth := [[], [], []], move := [[1], [1], [1]] }, accept := true } ]
          (some [0, 1]) ]

example : ∃ c, (PT.fresh 2).run cfg0 ops0 = some c ∧ OkRun cfg0 (PT.fresh 2) ops0 ∧
    (c.levels.map (·.active)) = [[false, true, true], [true, true, true]] := by
  refine ⟨_, rfl, ⟨⟨?_, ?_⟩, fun c' _ => okRun_noStart _ c' (by decide)⟩, by decide⟩
  · intro p hp
    simp only [List.mem_cons, List.not_mem_nil, or_false] at hp
    rcases hp with rfl | rfl
    · exact ⟨rfl, by decide, by decide, by decide⟩
    · exact ⟨rfl, by decide, by decide, by decide⟩
  · intro l hl
    simp only [PT.fresh, List.mem_replicate] at hl
    rw [hl.2]

example : WF cfg0 { pt := p2, state := [false, true, true] } :=
  ⟨⟨rfl, by decide, by decide, by decide⟩, by decide⟩

example : JumpIn.Valid cfg0 { pt := p1, state := [true, false, false] }
    { newk := 3, chosen := [2, 1], birth := [], move := [] } := by
  refine ⟨by decide, fun _ => ⟨by decide, by decide, ?_⟩⟩
  decide

end Epsie.C10
