/-
  C01, source tie over the extended values: `Chain._acceptance_ratio` as translated from
  `epsie/chain/chain.py` over `EL` (finite / -inf / +inf / nan, `EpsieModel/ExtLog.lean`), so that
  the region "a likelihood vanishes" (`logl = -inf`) is inside a theorem.

  * `C01_source_ext_finite`: on finite arguments the extended translation is the rational one
    (`Gen.acceptanceRatio`, tied to the model in `C01Source.lean`);
  * `C01_source_ext_beta0_never_raises`: at `beta = 0` the likelihoods are not read at all, whatever
    they are (`-inf`, even `nan`): the result is the prior (x proposal) ratio, never the raise;
  * `C01_source_ext_zero_likelihood_rejected` / `_from_zero_likelihood_accepted` /
    `_both_zero_raises`: the three cases with a vanishing likelihood at `beta > 0`;
  * `C01_source_ext_unrepaired_formula_is_nan`: the pre-repair expression at `beta = 0` with
    `logl = -inf` is `nan` (the pinned counterexample of the defect).

  In `Gen.acceptanceRatioX` the value `((false, ARX.nan), us)` stands for the code's
  `raise ValueError('NaN acceptance!')`.
-/
import EpsieProps.C01Source
namespace Epsie.C01

/-- The rational model's acceptance probability among the extended ones. -/
def arx : AR → ARX
  | .zero => .zero
  | .one => .one
  | .exp l => .exp l

/-- A result of the rational translation as a result of the extended one: same accepted flag,
    same remaining stream, acceptance probability through `arx`. -/
def arxRes (r : (Bool × AR) × List Rat) : (Bool × ARX) × List Rat := ((r.1.1, arx r.1.2), r.2)

theorem arx_ne_nan (a : AR) : arx a ≠ ARX.nan := by cases a <;> simp [arx]

theorem arx_toAR (a : AR) : (arx a).toAR = some a := by cases a <;> rfl

/-! ### The two translations, with the part after `logar` is known factored out -/

/-- The code from `if logar > 0` on, over the extended values. -/
def extTail (logar : EL) (us : List Rat) : (Bool × ARX) × List Rat :=
  if decide (logar > 0) then ((true, ARX.one), us)
  else if ARX.isNan (ARX.ofExp logar) then ((false, ARX.nan), us)
  else ((ARX.uLe (Src.draw us) (ARX.ofExp logar), ARX.ofExp logar), us.tail)

/-- The code from `if logar > 0` on, over the rationals. -/
def ratTail (logar : Rat) (us : List Rat) : (Bool × AR) × List Rat :=
  if decide (logar > 0) then ((true, AR.one), us)
  else ((Src.uLe (Src.draw us) (AR.exp logar), AR.exp logar), us.tail)

theorem ext_unfold (logp logl beta clp cll : EL) (s : Bool) (rev fwd : EL) (us : List Rat) :
    Gen.acceptanceRatioX logp logl beta clp cll s rev fwd us =
      if beta = 0 then
        (if s then extTail (logp - clp) us else extTail ((logp - clp) + (rev - fwd)) us)
      else
        (if s then extTail (((logp + (logl * beta)) - clp) - (cll * beta)) us
         else extTail ((((logp + (logl * beta)) - clp) - (cll * beta)) + (rev - fwd)) us) := by
  cases s <;> simp [Gen.acceptanceRatioX, extTail]

theorem rat_unfold (logp logl beta clp cll : Rat) (s : Bool) (rev fwd : Rat) (us : List Rat) :
    Gen.acceptanceRatio logp logl beta clp cll s rev fwd us =
      if beta = 0 then
        (if s then ratTail (logp - clp) us else ratTail ((logp - clp) + (rev - fwd)) us)
      else
        (if s then ratTail (((logp + (logl * beta)) - clp) - (cll * beta)) us
         else ratTail ((((logp + (logl * beta)) - clp) - (cll * beta)) + (rev - fwd)) us) := by
  cases s <;> simp [Gen.acceptanceRatio, ratTail]

/-! ### `EL` arithmetic on the constructors -/

theorem el_zero : (0 : EL) = EL.fin 0 := rfl

theorem el_fin_eq_zero (b : Rat) : (EL.fin b = (0 : EL)) ↔ b = 0 := by
  rw [el_zero]; simp

theorem el_add (a b : EL) : a + b = EL.add a b := rfl
theorem el_sub (a b : EL) : a - b = EL.add a (EL.neg b) := rfl
theorem el_mul (a b : EL) : a * b = EL.mul a b := rfl
theorem el_gt (a b : EL) : (a > b) = (EL.ltb b a = true) := rfl

theorem el_fin_add (a b : Rat) : EL.fin a + EL.fin b = EL.fin (a + b) := rfl
theorem el_fin_sub (a b : Rat) : EL.fin a - EL.fin b = EL.fin (a - b) := by
  show EL.fin (a + -b) = EL.fin (a - b)
  rw [Rat.sub_eq_add_neg]
theorem el_fin_mul (a b : Rat) : EL.fin a * EL.fin b = EL.fin (a * b) := rfl

/-- The tail of the code on a finite `logar` is the rational tail. -/
theorem extTail_fin (l : Rat) (us : List Rat) : extTail (.fin l) us = arxRes (ratTail l us) := by
  unfold extTail ratTail arxRes
  by_cases h : l > 0
  · have h' : 0 < l := h
    simp [el_gt, el_zero, EL.ltb, h', arx]
  · have h' : ¬ 0 < l := h
    simp [el_gt, el_zero, EL.ltb, h', arx, ARX.ofExp, ARX.isNan, ARX.uLe, Src.uLe]

/-- `-inf` times a positive finite number. -/
theorem el_ninf_mul_pos (b : Rat) (hb : b > 0) : EL.ninf * EL.fin b = EL.ninf := by
  have h0 : b ≠ 0 := fun h => by rw [h] at hb; exact Rat.lt_irrefl hb
  have hb' : 0 < b := hb
  simp [el_mul, EL.mul, EL.infTimes, h0, hb']

theorem el_fin_ne_zero_of_pos (b : Rat) (hb : b > 0) : ¬ (EL.fin b = (0 : EL)) := by
  rw [el_fin_eq_zero]
  intro h; rw [h] at hb; exact Rat.lt_irrefl hb

/-! ### 1. Finite arguments -/

/-- On finite arguments the extended translation is the rational one: same accepted flag, same
    acceptance probability (through `arx`), same remaining stream. -/
theorem C01_source_ext_finite (logp logl beta clp cll : Rat) (symmetric : Bool) (rev fwd : Rat)
    (us : List Rat) :
    Gen.acceptanceRatioX (.fin logp) (.fin logl) (.fin beta) (.fin clp) (.fin cll) symmetric
        (.fin rev) (.fin fwd) us
      = arxRes (Gen.acceptanceRatio logp logl beta clp cll symmetric rev fwd us) := by
  rw [ext_unfold, rat_unfold]
  simp only [el_fin_eq_zero, el_fin_add, el_fin_sub, el_fin_mul, extTail_fin]
  by_cases hb : beta = 0 <;> cases symmetric <;> simp [hb]

/-- In particular the code does not raise on finite arguments. -/
theorem C01_source_ext_finite_no_raise (logp logl beta clp cll : Rat) (symmetric : Bool)
    (rev fwd : Rat) (us : List Rat) :
    (Gen.acceptanceRatioX (.fin logp) (.fin logl) (.fin beta) (.fin clp) (.fin cll) symmetric
        (.fin rev) (.fin fwd) us).1.2 ≠ ARX.nan := by
  rw [C01_source_ext_finite]
  exact arx_ne_nan _

/-! ### 2. Infinite temperature: the likelihoods are not read -/

/-- At `beta = 0`, finite priors and (when the proposal is not symmetric) finite proposal
    densities, whatever the two log-likelihoods are (`-inf`, `+inf`, `nan` included), the result is
    the rational translation's for the prior (x proposal) ratio alone; it is never the raise.
    When `symmetric = true`, `rev` and `fwd` are arbitrary too (they are not read), and `r`, `f`
    are then irrelevant on the right-hand side. -/
theorem C01_source_ext_beta0_never_raises (logp clp : Rat) (logl cll : EL) (symmetric : Bool)
    (rev fwd : EL) (r f : Rat) (hrev : symmetric = false → rev = .fin r)
    (hfwd : symmetric = false → fwd = .fin f) (us : List Rat) :
    Gen.acceptanceRatioX (.fin logp) logl 0 (.fin clp) cll symmetric rev fwd us
        = arxRes (Gen.acceptanceRatio logp 0 0 clp 0 symmetric r f us)
      ∧ (Gen.acceptanceRatioX (.fin logp) logl 0 (.fin clp) cll symmetric rev fwd us).1.2
          ≠ ARX.nan := by
  have key : Gen.acceptanceRatioX (.fin logp) logl 0 (.fin clp) cll symmetric rev fwd us
      = arxRes (Gen.acceptanceRatio logp 0 0 clp 0 symmetric r f us) := by
    rw [ext_unfold, rat_unfold]
    cases symmetric
    · rw [hrev rfl, hfwd rfl]
      simp [el_fin_add, el_fin_sub, extTail_fin]
    · simp [el_fin_sub, extTail_fin]
  exact ⟨key, by rw [key]; exact arx_ne_nan _⟩

/-! ### 3.–5. A vanishing likelihood at finite temperature -/

/-- The proposed point has likelihood 0 (`logl = -inf`), the current one does not: acceptance
    probability exactly 0, one uniform consumed, rejected whatever it is. -/
theorem C01_source_ext_zero_likelihood_rejected (logp beta clp cll : Rat) (hb : beta > 0)
    (symmetric : Bool) (rev fwd : EL) (r f : Rat) (hrev : symmetric = false → rev = .fin r)
    (hfwd : symmetric = false → fwd = .fin f) (us : List Rat) :
    Gen.acceptanceRatioX (.fin logp) .ninf (.fin beta) (.fin clp) (.fin cll) symmetric rev fwd us
      = ((false, ARX.zero), us.tail) := by
  rw [ext_unfold, if_neg (el_fin_ne_zero_of_pos beta hb), el_ninf_mul_pos beta hb]
  cases symmetric
  · rw [hrev rfl, hfwd rfl]
    simp [el_fin_mul, el_add, el_sub, EL.add, EL.neg, extTail, el_gt, el_zero, EL.ltb,
      ARX.ofExp, ARX.isNan, ARX.uLe]
  · simp [el_fin_mul, el_add, el_sub, EL.add, EL.neg, extTail, el_gt, el_zero, EL.ltb,
      ARX.ofExp, ARX.isNan, ARX.uLe]

/-- The current point has likelihood 0 (`current_logl = -inf`), the proposed one does not:
    `logar = +inf > 0`, accepted surely with `ar = 1.`, no uniform consumed. -/
theorem C01_source_ext_from_zero_likelihood_accepted (logp logl beta clp : Rat) (hb : beta > 0)
    (symmetric : Bool) (rev fwd : EL) (r f : Rat) (hrev : symmetric = false → rev = .fin r)
    (hfwd : symmetric = false → fwd = .fin f) (us : List Rat) :
    Gen.acceptanceRatioX (.fin logp) (.fin logl) (.fin beta) (.fin clp) .ninf symmetric rev fwd us
      = ((true, ARX.one), us) := by
  rw [ext_unfold, if_neg (el_fin_ne_zero_of_pos beta hb), el_ninf_mul_pos beta hb]
  cases symmetric
  · rw [hrev rfl, hfwd rfl]
    simp [el_fin_mul, el_add, el_sub, EL.add, EL.neg, extTail, el_gt,
      el_zero, EL.ltb]
  · simp [el_fin_mul, el_add, el_sub, EL.add, EL.neg, extTail, el_gt,
      el_zero, EL.ltb]

/-- Both points have likelihood 0: `-inf - -inf` is `nan` and the code raises
    (`ValueError('NaN acceptance!')`), whatever the proposal densities are. -/
theorem C01_source_ext_both_zero_raises (logp beta clp : Rat) (hb : beta > 0)
    (symmetric : Bool) (rev fwd : EL) (us : List Rat) :
    Gen.acceptanceRatioX (.fin logp) .ninf (.fin beta) (.fin clp) .ninf symmetric rev fwd us
      = ((false, ARX.nan), us) := by
  rw [ext_unfold, if_neg (el_fin_ne_zero_of_pos beta hb), el_ninf_mul_pos beta hb]
  cases symmetric <;>
    simp [el_add, el_sub, EL.add, EL.neg, extTail, el_gt, el_zero, EL.ltb, ARX.ofExp, ARX.isNan]

/-! ### 6. The defect that was repaired -/

/-- The pre-repair expression (the general formula used also at `beta = 0`) with a proposed point of
    likelihood 0: `-inf * 0 = nan`, so `logar = nan` for every current log-likelihood. -/
theorem C01_source_ext_unrepaired_formula_is_nan (logp clp : Rat) (cll : EL) :
    ((EL.fin logp + EL.ninf * (0 : EL)) - EL.fin clp) - (cll * (0 : EL)) = EL.nan := by
  simp [el_zero, el_add, el_sub, el_mul, EL.mul, EL.infTimes, EL.add]

/-- Hence the unrepaired code raised there: not `> 0`, `exp` of it is NaN. -/
theorem C01_source_ext_unrepaired_raised (logp clp : Rat) (cll : EL) (us : List Rat) :
    extTail (((EL.fin logp + EL.ninf * (0 : EL)) - EL.fin clp) - (cll * (0 : EL))) us
      = ((false, ARX.nan), us) := by
  rw [C01_source_ext_unrepaired_formula_is_nan]
  simp [extTail, el_gt, EL.ltb, ARX.ofExp, ARX.isNan]

/-! ### 7. Concrete runs -/

-- vanishing likelihood at infinite temperature, prior ratio exp(-1), log u = -3 ≤ -1: accepted
example : Gen.acceptanceRatioX (.fin (-2)) .ninf 0 (.fin (-1)) (.fin (-4)) true .nan .nan [-3, 5]
    = ((true, ARX.exp (-1)), [5]) := by decide +kernel
-- the same with log u = -1/2 > -1: rejected, still no raise
example : Gen.acceptanceRatioX (.fin (-2)) .ninf 0 (.fin (-1)) (.fin (-4)) true .nan .nan [-1/2, 5]
    = ((false, ARX.exp (-1)), [5]) := by decide +kernel
-- vanishing likelihood at beta = 1/2: probability 0, uniform consumed
example : Gen.acceptanceRatioX (.fin (-2)) .ninf (.fin (1/2)) (.fin (-1)) (.fin (-4)) false
    (.fin (-1)) (.fin (-2)) [-3, 5] = ((false, ARX.zero), [5]) := by decide +kernel
-- leaving a point of vanishing likelihood: sure, stream untouched
example : Gen.acceptanceRatioX (.fin (-2)) (.fin (-7)) (.fin (1/2)) (.fin (-1)) .ninf false
    (.fin (-1)) (.fin (-2)) [-3, 5] = ((true, ARX.one), [-3, 5]) := by decide +kernel
-- 0/0: the raise
example : Gen.acceptanceRatioX (.fin (-2)) .ninf (.fin (1/2)) (.fin (-1)) .ninf true 0 0 [-3, 5]
    = ((false, ARX.nan), [-3, 5]) := by decide +kernel

end Epsie.C01
