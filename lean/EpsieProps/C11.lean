/-
  C11 — Transdimensional moves are reversible for the intended target f/C.

  Statements only (helper lemmas: EpsieProofs/TransdimLemmas.lean; model:
  EpsieModel/Transdim.lean).

  `logqCode xi givenx d` is `NestedTransdimensional._logpdf(xi, givenx)` over the
  log-densities `d` reported by the real constituents; `qCode = exp(logqCode)`.  The
  TRUE law of the composite jump has, in addition, the factor `1 / nWays` for the
  uniform choice of the `|dk|` components that are switched
  (`Generator.choice(candidates, size=|dk|, replace=False)`: every subset equally
  likely): `qTrue = qCode / nWays`, `nWays = C(#candidates, |dk|)`.  `Cw cfg x = C(K, k(x))`
  is the number of ways of choosing as many active components as `x` has, and
  `fReal β logl logp = exp(logp + β·logl)` is prior × likelihood^β.

  Trusted definitions (not provable from the code): numpy's `choice` is uniform over
  subsets, and the constituents' reported log-densities are the laws of their draws
  (C02; probed on the real code by the C11 search, which recomputes the index-jump law
  from the real `BoundedDiscrete.jump`).
-/
import EpsieProofs.TransdimLemmas
namespace Epsie.C11
open Transdim

/-- `C(K,k)·C(K−k,d) = C(K,k+d)·C(k+d,d)`, for all `K k d`. -/
theorem C11_choose_identity (K k d : ℕ) :
    K.choose k * (K - k).choose d = K.choose (k + d) * (k + d).choose d :=
  choose_identity K k d

/-- For any two well-formed points (a birth or a death of any multiplicity, or a
    same-dimension move): `ways(x→x')·C(x) = ways(x'→x)·C(x')`, in the model's own
    executable quantities. -/
theorem C11_ways_balance {cfg : Cfg} {x x' : SPoint} (hx : WF cfg x) (hx' : WF cfg x') :
    nWays x' x * Cw cfg x = nWays x x' * Cw cfg x' :=
  ways_balance hx hx'

/-- The ratio of the densities that the code reports differs from the ratio of the true
    densities by exactly `C(x)/C(x')`:
    `qCode(x|x')/qCode(x'|x) = qTrue(x|x')/qTrue(x'|x) · C(x)/C(x')`. -/
theorem C11_code_ratio {cfg : Cfg} {x x' : SPoint} (hx : WF cfg x) (hx' : WF cfg x')
    (drev dfwd : Dens) :
    qCode x x' drev / qCode x' x dfwd
      = (qTrue x x' drev / qTrue x' x dfwd) * ((Cw cfg x : ℝ) / (Cw cfg x' : ℝ)) :=
  code_ratio hx hx' drev dfwd

/-- The Hastings term is applied whenever the model proposal is not symmetric (every
    bounded discrete class has `symmetric = False`; checked on the live classes by the
    harness): the nested proposal then contributes `logq(x|x') − logq(x'|x)` in full,
    whatever the flags of the in-model proposals and of the other constituents. -/
theorem C11_hastings_applied (cfg : Cfg) (hm : cfg.modelSym = false) (qrev qfwd : Rat)
    (others : List (Bool × Rat × Rat)) :
    hastings cfg.tdSymmetric qrev qfwd others
      = (qrev - qfwd) + (others.filter (fun o => !o.1)).foldl (fun acc o => acc + (o.2.1 - o.2.2)) 0 := by
  simp [hastings, Cfg.tdSymmetric, hm]

/-- With a symmetric model proposal (e.g. the unbounded `NormalDiscrete`) and symmetric
    in-model proposals the whole Hastings term — birth densities included — is skipped:
    the code then does NOT target f/C.  (Why the class documentation demands a bounded
    model proposal.) -/
theorem C11_hastings_skipped_when_symmetric (cfg : Cfg) (hm : cfg.modelSym = true)
    (hi : cfg.innerSym.all id = true) (qrev qfwd : Rat) :
    hastings cfg.tdSymmetric qrev qfwd [] = 0 := by
  simp [hastings, Cfg.tdSymmetric, hm, hi]

/-- The recorded acceptance probability of a step `x → x'` is
    `min(1, f(x')·C(x)·qTrue(x|x') / (f(x)·C(x')·qTrue(x'|x)))`
    (times the density ratio `exp g` of the other non-symmetric constituents of the joint
    proposal, `g = 0` when there are none). -/
theorem C11_acceptance {cfg : Cfg} {x x' : SPoint} (hx : WF cfg x) (hx' : WF cfg x')
    (hm : cfg.modelSym = false)
    (beta logl logp logl' logp' : Rat) (drev dfwd : Dens) (others : List (Bool × Rat × Rat)) :
    arReal (arOf (logAR beta logl logp logl' logp'
        (hastings cfg.tdSymmetric (logqCode x x' drev) (logqCode x' x dfwd) others)))
      = min 1 (fReal beta logl' logp' * (Cw cfg x : ℝ) * qTrue x x' drev
                / (fReal beta logl logp * (Cw cfg x' : ℝ) * qTrue x' x dfwd)
               * Real.exp (((others.filter (fun o => !o.1)).foldl
                    (fun acc o => acc + (o.2.1 - o.2.2)) 0 : Rat) : ℝ)) := by
  rw [C11_hastings_applied cfg hm]
  exact acceptance_eq hx hx' beta logl logp logl' logp' _ drev dfwd

/-- Detailed balance of the real step for the target f/C and the true proposal law:
    `(f/C)(x)·qTrue(x'|x)·a(x,x') = (f/C)(x')·qTrue(x|x')·a(x',x)`, where `a(x,x')` is what
    `Chain.step` records for the move `x → x'` and `a(x',x)` what it records for the
    reverse move (same reported densities, roles exchanged). -/
theorem C11_reversible {cfg : Cfg} {x x' : SPoint} (hx : WF cfg x) (hx' : WF cfg x')
    (hm : cfg.modelSym = false)
    (beta logl logp logl' logp' : Rat) (drev dfwd : Dens) :
    (fReal beta logl logp / (Cw cfg x : ℝ)) * qTrue x' x dfwd
        * arReal (arOf (logAR beta logl logp logl' logp'
            (hastings cfg.tdSymmetric (logqCode x x' drev) (logqCode x' x dfwd) [])))
      = (fReal beta logl' logp' / (Cw cfg x' : ℝ)) * qTrue x x' drev
        * arReal (arOf (logAR beta logl' logp' logl logp
            (hastings cfg.tdSymmetric (logqCode x' x dfwd) (logqCode x x' drev) []))) := by
  rw [C11_hastings_applied cfg hm, C11_hastings_applied cfg hm]
  simp only [List.filter_nil, List.foldl_nil, add_zero]
  exact reversible_core hx hx' beta logl logp logl' logp' drev dfwd

/-- A proposal outside the prior (`logp = −∞`, `f(x') = 0`) is rejected with recorded
    probability 0, and the chain never sits at such a point: both sides of the balance
    equation vanish. -/
theorem C11_reversible_forced_reject (piX qfwd piX' qrev a' : ℝ) (h0 : piX' = 0) :
    piX * qfwd * arReal AR.zero = piX' * qrev * a' := by
  simp [arReal, h0]

/-- On a finite configuration space: a kernel that proposes with `q` and accepts with
    `a(x,y) = min(1, f(y)·C(x)·q(x|y) / (f(x)·C(y)·q(y|x)))` — the form established by
    `C11_acceptance` — leaves `f/C` stationary. -/
theorem C11_stationary {X : Type} [Fintype X] [DecidableEq X] (f C : X → ℝ) (q a : X → X → ℝ)
    (hf : ∀ x, 0 ≤ f x) (hC : ∀ x, 0 < C x) (hq : ∀ x y, 0 ≤ q x y)
    (ha : ∀ x y, a x y = min 1 (f y * C x * q y x / (f x * C y * q x y))) (y : X) :
    ∑ x, (f x / C x) * (q x y * a x y + if x = y then 1 - ∑ z, q x z * a x z else 0)
      = f y / C y :=
  mh_stationary (fun x => f x / C x) q a (fc_detailed_balance f C q a hf hC hq ha) y

/-- The marginal of the model index under f/C: with configurations = (active set `A` of
    `K` components, values `v`), the f/C-mass of `k` active components is the AVERAGE over
    the `C(K,k)` equally sized sub-models of their unnormalised evidences
    `Z_A = Σ_v f(A, v)` (the index prior is a factor of `f`). -/
theorem C11_index_marginal (K : ℕ) {V : Type} [Fintype V] (f : Finset (Fin K) → V → ℝ) (k : ℕ) :
    ∑ x ∈ (Finset.univ : Finset (Finset (Fin K) × V)).filter (fun x => x.1.card = k),
        f x.1 x.2 / (K.choose x.1.card : ℝ)
      = (∑ A ∈ Finset.powersetCard k (Finset.univ : Finset (Fin K)), ∑ v, f A v)
          / ((Finset.powersetCard k (Finset.univ : Finset (Fin K))).card : ℝ) :=
  index_marginal K f k

/-! ### Non-vacuity -/

def cfg0 : Cfg := { K := 3, kmin := 0, kmax := 3, modelSym := false, innerSym := [true, true, true] }

def x0 : SPoint := { pt := { k := 1, comps := [some [1/2], none, none] }, state := [true, false, false] }
def x1 : SPoint := { pt := { k := 3, comps := [some [5/8], some [7], some [9]] }, state := [true, true, true] }

example : WF cfg0 x0 := ⟨⟨rfl, by decide, by decide, by decide⟩, by decide⟩
example : WF cfg0 x1 := ⟨⟨rfl, by decide, by decide, by decide⟩, by decide⟩
example : cfg0.modelSym = false := rfl
/-- A double birth from one active component of three: one way forward (both inactive
    ones), three ways back (which two of the three die); C(3,1) = 3, C(3,3) = 1. -/
example : nWays x1 x0 = 1 ∧ nWays x0 x1 = 3 ∧ Cw cfg0 x0 = 3 ∧ Cw cfg0 x1 = 1 := by decide
/-- The code's log-density of that birth: index + the two births + the in-model jump of
    the component active on both sides; of the reverse death: index + in-model only. -/
example : logqCode x1 x0 { index := -1, birth := [100, -2, -3], inModel := [-5, 100, 100] } = -11 ∧
    logqCode x0 x1 { index := -2, birth := [100, 100, 100], inModel := [-5, 100, 100] } = -7 := by
  constructor <;> (simp [logqCode, sumSel, x0, x1, List.range_succ, List.filter]; norm_num)

example : (3 : ℕ).choose 1 * (3 - 1).choose 2 = (3 : ℕ).choose (1 + 2) * (1 + 2).choose 2 := by decide

end Epsie.C11
