/-
  C09 — Swaps exchange whole states, hot to cold, on schedule, fully recorded.

  Model: `PTChain.step` (sweep iff `ntemps > 1 ∧ iteration % s = 0`),
  `PTChain.applySwap` (the "apply" block: position, stats, blob move as ONE value
  `St`; the acceptance part `Acc` of the record stays), `Swap.loop`, the row store
  at `(len-1)/s` and the row views `rows.take (len/s)` — the code's arithmetic.
  That `swap_index` arises from adjacent exchanges applied from the hottest pair
  downwards is `C03_sweep_refines_sequential` (EpsieProps/C03.lean).
-/
import EpsieProofs.SweepApply
import EpsieProofs.SweepPerm
import EpsieProps.C08
namespace Epsie.C09
open Chain

/-- When a sweep is due: more than one level and the iteration just reached is a multiple
    of the swap interval. -/
theorem C09_due_iff (n s it : Nat) : PTChain.sweepDue n s it = true ↔ (n > 1 ∧ it % s = 0) := by
  simp [PTChain.sweepDue]

/-- A sweep happens exactly at the iterations that are multiples of the swap interval
    (and only with more than one level): `step` = step every level, then sweep iff due. -/
theorem C09_schedule {c c' : PTChain} {i : PTChain.StepIn} (h : c.step i = some c') :
    ∃ ls, PTChain.stepLevels c.levels i.levels = some ls ∧
      (PTChain.sweepDue ls.length c.s (PTChain.iteration { c with levels := ls }) = true →
          PTChain.swapTemperatures { c with levels := ls } i.sweep = some c') ∧
      (PTChain.sweepDue ls.length c.s (PTChain.iteration { c with levels := ls }) = false →
          c' = { c with levels := ls }) := by
  unfold PTChain.step at h
  simp only [bind, Option.bind] at h
  cases h1 : PTChain.stepLevels c.levels i.levels with
  | none => simp [h1] at h
  | some ls =>
    simp only [h1] at h
    refine ⟨ls, rfl, ?_, ?_⟩
    · intro hd
      simp only [PTChain.ntemps, hd, if_true] at h
      exact h
    · intro hd
      simp only [PTChain.ntemps, hd] at h
      simp [pure] at h
      exact h.symm

/-- The sweep permutes COMPLETE states: afterwards level `t` holds — as its current
    position, log-likelihood, log-prior and blob, one value — exactly what level
    `swap_index[t]` held before; its acceptance record is not exchanged; earlier records of
    the level are untouched. (Hypothesis: every level has just been stepped, i.e. has a last
    record — which is when the code sweeps.) -/
theorem C09_whole_state_permuted (reset : Bool) (ls : List Chain) (idx : List Nat) (t : Nat)
    (ht : t < ls.length) (hsrc : idx.getD t t < ls.length)
    (hlast : ∀ l ∈ ls, 0 < l.len ∧ ∃ r, rowAt l.scratch (l.len - 1) = some r) :
    let new := (PTChain.applySwap reset ls idx)[t]'(by rw [applySwap_length]; exact ht)
    let old := ls[t]
    new.current = (ls[idx.getD t t]).current ∧
    (rowAt new.scratch (old.len - 1)).map (·.acc) = (rowAt old.scratch (old.len - 1)).map (·.acc) ∧
    (∀ j, j ≠ old.len - 1 → rowAt new.scratch j = rowAt old.scratch j) ∧
    new.len = old.len := by
  intro new old
  have hnew : new = PTChain.maybeReset (reset && idx.getD t t != t)
      (PTChain.maybeRewrite ls[t] ((ls.map (·.current)).getD (idx.getD t t) none)) :=
    applySwap_getElem reset ls idx t ht
  obtain ⟨hl, r, hr⟩ := hlast ls[t] (List.getElem_mem ht)
  generalize hk : idx.getD t t = k at *
  -- the source level's current state exists
  obtain ⟨hls, rs, hrs⟩ := hlast ls[k] (List.getElem_mem hsrc)
  have hsrc_cur : (ls[k]).current = some rs.st := by
    unfold current
    have : (ls[k]).len ≠ 0 := by omega
    simp only [this, if_false, hrs]
    rfl
  have hold : (ls.map (·.current)).getD k none = some rs.st := by
    unfold List.getD
    rw [List.getElem?_map, List.getElem?_eq_getElem hsrc]
    simp [hsrc_cur]
  rw [hnew, hold]
  simp only [PTChain.maybeRewrite]
  obtain ⟨h1, h2, h3⟩ := current_rewriteLast (st := rs.st) hl hr
  obtain ⟨g1, g2, g3⟩ := current_maybeReset (reset && k != t) (PTChain.rewriteLast ls[t] rs.st)
  refine ⟨by rw [g1, h1, hsrc_cur], ?_, ?_, ?_⟩
  · rw [g2, h2, hr]; rfl
  · intro j hj; rw [g2]; exact h3 j hj
  · rw [g3]
    obtain ⟨f1, f2, _⟩ := rewriteLast_fields ls[t] rs.st
    show (PTChain.rewriteLast ls[t] rs.st).len = (ls[t]).len
    simp [len_def, f1, f2]

/-- With `reset_after_swap`, exactly the levels whose state was exchanged are reset. -/
theorem C09_reset_exactly_swapped (ls : List Chain) (idx : List Nat) (t : Nat) (ht : t < ls.length) :
    let new := (PTChain.applySwap true ls idx)[t]'(by rw [applySwap_length]; exact ht)
    (idx.getD t t ≠ t → new.props = (ls[t]).props.map PropSt.reset) ∧
    (idx.getD t t = t → new.props = (ls[t]).props) := by
  intro new
  have hnew : new = PTChain.maybeReset (true && idx.getD t t != t)
      (PTChain.maybeRewrite ls[t] ((ls.map (·.current)).getD (idx.getD t t) none)) :=
    applySwap_getElem true ls idx t ht
  have hp : ∀ o, (PTChain.maybeRewrite ls[t] o).props = (ls[t]).props := by
    intro o; cases o with
    | none => rfl
    | some st => exact (rewriteLast_fields ls[t] st).2.2.2.2.1
  generalize hk : idx.getD t t = k at *
  constructor
  · intro hne
    have hb : (true && k != t) = true := by simp [hne]
    rw [hnew, hb]
    simp only [PTChain.maybeReset, if_true, resetProposals, hp]
  · intro he
    have hb : (true && k != t) = false := by simp [he]
    rw [hnew, hb]
    simp only [PTChain.maybeReset, Bool.false_eq_true, if_false, hp]

/-- `swap_index` after a complete hot-to-cold pass: the state now in slot `t` came from slot
    `t-1` or hotter, i.e. a colder state moves up at most one level per sweep — for every
    ladder length, ladder, log-likelihood assignment and every outcome of the random decisions. -/
theorem C09_colder_moves_up_at_most_one (betas logls us : List Rat) (row : Swap.Row)
    (rest : List Rat) (hn : 0 < betas.length) (h : Swap.sweep betas logls us = some (row, rest)) :
    row.idx.length = betas.length ∧ ∀ t v, row.idx[t]? = some v → t ≤ v + 1 := by
  unfold Swap.sweep at h
  simp only at h
  split at h
  · simp at h
  · rename_i s' rest' hl
    simp only [Option.some.injEq, Prod.mk.injEq] at h
    obtain ⟨hrow, _⟩ := h
    have := Swap.idxInv_loop (n := betas.length) betas logls (betas.length - 1) _ us s' rest'
      (by omega) (Swap.idxInv_init betas.length hn) hl
    rw [← hrow]
    refine ⟨this.len, ?_⟩
    intro t v hv
    by_cases h0 : t = 0
    · omega
    · exact this.above t v (by omega) hv

/-- `swap_index` is a PERMUTATION of the level numbers, for every ladder length, ladder,
    log-likelihood assignment and every outcome of the random decisions: each level number occurs
    exactly once — no state is duplicated and none is lost by the bookkeeping of a sweep. -/
theorem C09_swap_index_is_permutation (betas logls us : List Rat) (row : Swap.Row) (rest : List Rat)
    (h : Swap.sweep betas logls us = some (row, rest)) :
    row.idx.Perm (List.range betas.length) ∧ row.idx.Nodup ∧ ∀ k, k ∈ row.idx ↔ k < betas.length := by
  have hp := Swap.sweep_perm betas logls us row rest h
  refine ⟨hp, hp.nodup_iff.mpr List.nodup_range, ?_⟩
  intro k
  rw [hp.mem_iff, List.mem_range]

/-- CONSERVATION: applying a sweep whose `swap_index` is a permutation (which it always is:
    `C09_swap_index_is_permutation`) to levels that have just been stepped leaves the collection of
    complete states (position, log-likelihood, log-prior, blob as ONE value) unchanged as a multiset:
    the states are re-dealt over the levels, none is lost, duplicated or altered. -/
theorem C09_states_conserved (reset : Bool) (ls : List Chain) (idx : List Nat)
    (hperm : idx.Perm (List.range ls.length))
    (hlast : ∀ l ∈ ls, 0 < l.len ∧ ∃ r, rowAt l.scratch (l.len - 1) = some r) :
    ((PTChain.applySwap reset ls idx).map (·.current)).Perm (ls.map (·.current)) := by
  have hlen : idx.length = ls.length := by simpa using hperm.length_eq
  have hmem : ∀ t (ht : t < idx.length), idx[t] < ls.length := by
    intro t ht
    have : idx[t] ∈ List.range ls.length := hperm.mem_iff.mp (List.getElem_mem ht)
    simpa using this
  -- after the sweep, level t holds what level idx[t] held
  have h1 : (PTChain.applySwap reset ls idx).map (·.current)
      = idx.map (fun k => (ls.map (·.current)).getD k none) := by
    apply List.ext_getElem
    · simp [applySwap_length, hlen]
    · intro t h₁ h₂
      have ht : t < ls.length := by simpa [applySwap_length] using h₁
      have hti : t < idx.length := by omega
      have hd : idx.getD t t = idx[t] := by simp [List.getD, List.getElem?_eq_getElem hti]
      have hsrc : idx.getD t t < ls.length := by rw [hd]; exact hmem t hti
      have := (C09_whole_state_permuted reset ls idx t ht hsrc hlast).1
      simp only [List.getElem_map]
      have hget : ∀ k (hk : k < ls.length), (ls[k]).current = (ls.map (·.current)).getD k none := by
        intro k hk; simp [List.getD, List.getElem?_eq_getElem hk]
      rw [this, hget _ hsrc, hd]
  have h2 : (List.range ls.length).map (fun k => (ls.map (·.current)).getD k none) = ls.map (·.current) := by
    apply List.ext_getElem
    · simp
    · intro t h₁ h₂
      have ht : t < ls.length := by simpa using h₁
      simp [List.getD, List.getElem?_eq_getElem ht]
  rw [h1]
  exact (hperm.map _).trans (List.Perm.of_eq h2)

/-- Every level that has just been stepped has a last record. -/
theorem stepLevels_last {ls ls' : List Chain} {is : List Chain.StepIn} (hinv : ∀ l ∈ ls, Inv l)
    (h : PTChain.stepLevels ls is = some ls') :
    ls'.length = ls.length ∧ ∀ l ∈ ls', 0 < l.len ∧ ∃ r, rowAt l.scratch (l.len - 1) = some r := by
  induction ls generalizing is ls' with
  | nil => simp [PTChain.stepLevels] at h; subst h; simp
  | cons l ls ih =>
    cases is with
    | nil => simp [PTChain.stepLevels] at h
    | cons i is =>
      simp only [PTChain.stepLevels, bind, Option.bind] at h
      cases h1 : l.step i with
      | none => simp [h1] at h
      | some l' =>
        simp only [h1] at h
        cases h2 : PTChain.stepLevels ls is with
        | none => simp [h2] at h
        | some ls'' =>
          simp [h2] at h; subst h
          obtain ⟨hl, hrest⟩ := ih (fun z hz => hinv z (by simp [hz])) h2
          refine ⟨by simp [hl], ?_⟩
          intro x hx
          simp at hx
          rcases hx with rfl | hx
          · have hi := hinv l (by simp)
            have hi' := inv_step hi h1
            obtain ⟨cur, _, hit, hlc, _⟩ := step_fields h1
            have hlen : x.len = l.len + 1 := by
              have := hi.lc_le
              simp [len_def, hit, hlc]; omega
            exact ⟨by omega, hi'.rows (x.len - 1) (by omega)⟩
          · exact hrest x hx

theorem setBetas_currents (c : PTChain) (nb : List Rat) :
    (c.setBetas nb).levels.map (·.current) = c.levels.map (·.current) := by
  unfold PTChain.setBetas
  simp only [List.map_map]
  apply List.ext_getElem
  · simp
  · intro t h₁ h₂
    simp only [List.getElem_map, Function.comp, List.getElem_zip]
    rfl

/-- ONE ITERATION CONSERVES THE STATES. For every chain whose levels are structurally sound
    (`Inv`: true of every reachable chain) and whose ladder has one beta per level: an iteration
    first steps every level (giving `ls`) and then, whether or not a sweep is due and whatever the
    sweep decides, the complete states held by the levels afterwards are exactly those of `ls`,
    re-dealt: the sweep moves whole states and neither loses, duplicates nor alters any. -/
theorem C09_iteration_conserves_states {c c' : PTChain} {i : PTChain.StepIn}
    (hinv : ∀ l ∈ c.levels, Inv l) (hb : c.betas.length = c.levels.length) (h : c.step i = some c') :
    ∃ ls, PTChain.stepLevels c.levels i.levels = some ls ∧
      (c'.levels.map (·.current)).Perm (ls.map (·.current)) := by
  unfold PTChain.step at h
  simp only [bind, Option.bind] at h
  cases h1 : PTChain.stepLevels c.levels i.levels with
  | none => simp [h1] at h
  | some ls =>
    simp only [h1] at h
    refine ⟨ls, rfl, ?_⟩
    obtain ⟨hlen, hlast⟩ := stepLevels_last hinv h1
    split at h
    · unfold PTChain.swapTemperatures at h
      split at h
      · rename_i row hsw
        simp only [Option.some.injEq] at h
        subst h
        have hperm : row.idx.Perm (List.range ls.length) := by
          have := Swap.sweep_perm _ _ _ _ _ hsw
          simpa [hb, hlen] using this
        have hcons := C09_states_conserved c.resetAfterSwap ls row.idx hperm hlast
        unfold PTChain.afterSweep
        simp only
        split
        · rw [setBetas_currents]; exact hcons
        · exact hcons
      · simp at h
    · simp [pure] at h; subst h; exact List.Perm.refl _

/-- The swap history: the row of a sweep is stored at the index equal to the number of
    earlier sweeps since the last clear (so one row per sweep, in order, never overwriting
    an earlier one), whatever the swap interval and wherever the last clear fell. -/
theorem C09_rows_stored_in_order (c : PTChain) (row : Swap.Row) (nb : List Rat)
    (hs : 0 < c.s) (hdue : c.iteration % c.s = 0) (hlc : c.lastclear < c.iteration) :
    (c.len - 1) / c.s = c.nsweeps - 1 ∧
    rowAt (c.afterSweep row nb).rows (c.nsweeps - 1) = some row ∧
    ∀ j, j ≠ c.nsweeps - 1 → rowAt (c.afterSweep row nb).rows j = rowAt c.rows j := by
  have hidx : (c.len - 1) / c.s = c.nsweeps - 1 := by
    unfold PTChain.len PTChain.nsweeps
    exact row_index_arith c.s c.iteration c.lastclear hs hdue hlc
  have hrows : (c.afterSweep row nb).rows = setAt c.rows ((c.len - 1) / c.s) row := by
    unfold PTChain.afterSweep; simp only; split <;> rfl
  refine ⟨hidx, ?_, ?_⟩
  · rw [hrows, hidx, rowAt_setAt_same]
  · intro j hj; rw [hrows, hidx, rowAt_setAt_ne _ _ _ _ hj]

/-- The views `temperature_swaps` / `temperature_acceptance` return `len // s` rows. When the
    last clear fell on a multiple of the swap interval this is the number of sweeps since the
    clear, so the views show exactly one row per sweep (PARTIAL: see the counterexample below). -/
theorem C09_rows_view_partial (c : PTChain) (hs : 0 < c.s) (hlc : c.lastclear % c.s = 0)
    (hle : c.lastclear ≤ c.iteration) : c.nrows = c.nsweeps := by
  unfold PTChain.nrows PTChain.nsweeps PTChain.len
  obtain ⟨q, hq⟩ : ∃ q, c.lastclear = c.s * q := ⟨c.lastclear / c.s, by
    have := Nat.div_add_mod c.lastclear c.s; omega⟩
  have h1 : c.lastclear / c.s = q := by rw [hq, Nat.mul_div_cancel_left q hs]
  have h2 : c.iteration / c.s = q + (c.iteration - c.lastclear) / c.s := by
    have : c.iteration = c.s * q + (c.iteration - c.lastclear) := by omega
    rw [this, Nat.mul_add_div hs]
    congr 2
    omega
  rw [h1, h2, Nat.add_sub_cancel_left]

/-- In general the views never show more rows than there were sweeps, and at most one fewer. -/
theorem C09_rows_view_bounds (c : PTChain) (hs : 0 < c.s) (hle : c.lastclear ≤ c.iteration) :
    c.nrows ≤ c.nsweeps ∧ c.nsweeps ≤ c.nrows + 1 := by
  unfold PTChain.nrows PTChain.nsweeps PTChain.len
  have h1 := Nat.div_add_mod c.iteration c.s
  have h2 := Nat.div_add_mod c.lastclear c.s
  have h3 := Nat.div_add_mod (c.iteration - c.lastclear) c.s
  have m1 := Nat.mod_lt c.iteration hs
  have m2 := Nat.mod_lt c.lastclear hs
  have m3 := Nat.mod_lt (c.iteration - c.lastclear) hs
  generalize c.iteration / c.s = a at *
  generalize c.lastclear / c.s = b at *
  generalize (c.iteration - c.lastclear) / c.s = d at *
  generalize c.iteration % c.s = ra at *
  generalize c.lastclear % c.s = rb at *
  generalize (c.iteration - c.lastclear) % c.s = rd at *
  -- s*a + ra = it, s*b + rb = lc, s*d + rd = it - lc
  have hab : b ≤ a := by
    rcases Nat.lt_or_ge a b with h | h
    · have : c.s * (a + 1) ≤ c.s * b := Nat.mul_le_mul_left _ h
      rw [Nat.mul_add, Nat.mul_one] at this
      omega
    · exact h
  have e : c.s * a = c.s * b + c.s * (a - b) := by
    rw [← Nat.mul_add]; congr 1; omega
  constructor
  · -- d ≤ a - b
    rcases Nat.lt_or_ge (a - b) d with h | h
    · have : c.s * (a - b + 1) ≤ c.s * d := Nat.mul_le_mul_left _ h
      rw [Nat.mul_add, Nat.mul_one] at this
      omega
    · exact h
  · rcases Nat.lt_or_ge (d + 1) (a - b) with h | h
    · have : c.s * (d + 1 + 1) ≤ c.s * (a - b) := Nat.mul_le_mul_left _ h
      rw [Nat.mul_add, Nat.mul_add, Nat.mul_one] at this
      omega
    · exact h

/-- PINNED COUNTEREXAMPLE (known finding F6): swap interval 3, cleared at iteration 5, now at
    iteration 6: one sweep has happened since the clear and its row is stored, but the views
    return `len // 3 = 0` rows. The full statement "the swap history holds exactly one row
    for every sweep since the last clear" is false of the current code for clears that do not
    fall on a multiple of the swap interval. -/
theorem C09_pinned_counterexample :
    ∃ c : PTChain, c.s = 3 ∧ c.lastclear = 5 ∧ c.iteration = 6 ∧ c.nsweeps = 1 ∧ c.nrows = 0 :=
  ⟨{ levels := [{ beta := 1, props := [], iteration := 6, lastclear := 5 }], betas := [1], s := 3 },
   rfl, rfl, rfl, rfl, rfl⟩

/-! ### Non-vacuity: concrete states meeting the hypotheses above -/

/-- The chain of `C08.ops0`: two levels, swap interval 1, one iteration in which the cold level
    rejected, the hot level accepted a better point, and the sweep exchanged them. -/
def pt1 : PTChain := PTChain.runOps (PTChain.fresh [1, 1/2] 1 [C08.cfg0]) C08.ops0

example : pt1.rowsView = [some { idx := [1, 0], ars := [.one] }] ∧ pt1.nsweeps = 1 ∧
    pt1.levels.map (·.current) =
      [some ⟨[.num 0], 0, 0, []⟩, some ⟨[.num 1], -1, 0, []⟩] := by decide +kernel

/-- `hlast` of `C09_whole_state_permuted` and the hypotheses of `C09_rows_stored_in_order`. -/
example : (∀ l ∈ pt1.levels, 0 < l.len ∧ ∃ r, rowAt l.scratch (l.len - 1) = some r) ∧
    0 < pt1.s ∧ pt1.iteration % pt1.s = 0 ∧ pt1.lastclear < pt1.iteration := by
  have h : pt1.levels.all (fun l => decide (0 < l.len) && (rowAt l.scratch (l.len - 1)).isSome) = true ∧
      0 < pt1.s ∧ pt1.iteration % pt1.s = 0 ∧ pt1.lastclear < pt1.iteration := by decide +kernel
  refine ⟨?_, h.2⟩
  intro l hl
  have := List.all_eq_true.mp h.1 l hl
  simp only [Bool.and_eq_true, decide_eq_true_eq] at this
  exact ⟨this.1, Option.isSome_iff_exists.mp this.2⟩

/-- The hypotheses of `C09_iteration_conserves_states` are met by the chain of `C08.ops0` right
    before its iteration (start positions set, scratch grown), and that iteration succeeds. -/
def pt0 : PTChain := PTChain.runOps (PTChain.fresh [1, 1/2] 1 [C08.cfg0]) (C08.ops0.take 2)

example : (∀ l ∈ pt0.levels, Inv l) ∧ pt0.betas.length = pt0.levels.length ∧
    ∃ i c', C08.ops0[2]? = some (.step i) ∧ pt0.step i = some c' := by
  refine ⟨?_, by decide +kernel, ?_⟩
  · exact lift_runOps Chain.Inv (fun c op h => inv_apply h op) (fun c b h => ⟨h.1, h.2⟩)
      (c := PTChain.fresh [1, 1/2] 1 [C08.cfg0]) (by
        intro l hl
        simp only [PTChain.fresh, List.mem_map] at hl
        obtain ⟨b, _, rfl⟩ := hl
        exact inv_fresh b [C08.cfg0] 0) (C08.ops0.take 2)
  · have h : (pt0.step
        { levels := [ { jumps := [[.num 3]], eval := C08.m0 [.num 3], rev := [0], fwd := [0], logu := -1 },
                      { jumps := [[.num 0]], eval := C08.m0 [.num 0], rev := [0], fwd := [0], logu := 0 } ],
          sweep := { us := [], newBetas := [] } }).isSome = true := by decide +kernel
    obtain ⟨c', hc'⟩ := Option.isSome_iff_exists.mp h
    exact ⟨_, c', rfl, hc'⟩

/-- A three-level sweep in which a uniform decides: the hottest state descends two levels in
    one sweep, each colder state moves up exactly one; with a larger uniform the second
    exchange is refused. -/
example : Swap.sweep [1, 1/2, 1/4] [0, -3, -1] [-1] =
      some ({ idx := [2, 0, 1], ars := [.exp (-1/2), .one] }, []) ∧
    Swap.sweep [1, 1/2, 1/4] [0, -3, -1] [-1/4] =
      some ({ idx := [0, 2, 1], ars := [.exp (-1/2), .one] }, []) := by decide +kernel

end Epsie.C09
