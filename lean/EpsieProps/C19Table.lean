/-
  C19 — the obligations about the tables measured on the current /repo source.
  They are the hypotheses of the general theorems of `EpsieProps/C19.lean`.
  This module is NOT imported by `EpsieProps.lean`: the check
  (`harness/props/C19.py`) builds it by name on every run and reports which of
  these theorems no longer holds.
-/
import EpsieModel.Generated.Tables
import EpsieModel.Generated.Alias
namespace Epsie.C19Table
open Alias

/-- Stored initial arrays are never handed out for in-place mutation, and on the
    generator's forced history the first and the second reset restored the
    construction-time distribution and set `start_step = nsteps`. -/
theorem C19_table_reset_discipline : ResetDiscipline Generated.families := by decide

/-- The finer table: no in-place attribute gets the stored object itself (neither at
    construction nor at a reset), and whatever an update changes a reset restores. -/
theorem C19_table_alias_reset_ok : ResetOK Generated.aliasVariants := by decide

/-- Measured behaviour of every adaptive variant over three resets. -/
theorem C19_table_alias_behaves : BehavesRestored Generated.aliasVariants := by decide

/-- Soundness of the model against the measurements. -/
theorem C19_table_model_sound : ModelSoundC19 Generated.aliasVariants := by decide

/-- Every probe ran. -/
theorem C19_table_probes_ran : Generated.probeErrors = [] ∧ Generated.aliasProbeErrors = [] := by decide

end Epsie.C19Table
