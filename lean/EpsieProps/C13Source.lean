/-
  C13, source tie: the `_update` methods of the five adaptive proposal classes as
  harness/gen_source.py translates them on every run from the Python source
  (`Gen.veitchUpdate`  = `AdaptiveSupport._update`,            normal.py,
   `Gen.atUpdate`      = `ATAdaptiveSupport._update`,          normal.py,
   `Gen.eigUpdate`     = `AdaptiveEigenvectorSupport._update`, eigenvector.py,
   `Gen.vmfUpdate`     = `AdaptiveIsotropicSolidAngleSupport._update`, solid_angle.py,
   `Gen.ssUpdate`      = `SSAdaptiveSupport._update`,          normal.py)
  are, for ALL arguments, the hand-written model's: the window guard on the clock
  `dk = nsteps - start_step + 1` is `PropSt.inWindow` (`1 ≤ dk < T` for the Veitch
  class, `1 < dk < T` for Andrieu–Thoms / eigenvector / von Mises–Fisher, none for
  Sivia–Skilling) and the scalar update formulas are `Adapt.veitchComp ∘ veitchAlpha`,
  `Adapt.atLam` / the moment recursions of `Adapt.atBody`, `Adapt.vmfLogKappa`,
  `Adapt.ssBranch` / `ssAlpha` / `ssAllowed` / `ssBody`.

  Arrays are translated componentwise (one generic component), the decay gain `g`
  and `numpy.exp` / `numpy.sqrt` are oracle parameters, all numbers are exact `Rat`.
  Core Lean only.

  The directional corollaries at the end (`C13_source_*_widens/_narrows/_direction_*`,
  `C13_source_*_frozen`) are the C13 property itself, read off the code as translated.
-/
import EpsieModel.Generated.Source
import EpsieModel.Adapt
import EpsieProps.C15Source
set_option linter.unusedVariables false
namespace Epsie.C13
open Epsie.Adapt

/-! ## The window guards of the translated code are `PropSt.inWindow` -/

/-- `1 <= dk < adaptation_duration` (AdaptiveSupport) is the model's window `.veitch`. -/
theorem guard_veitch (p : PropSt) (hw : p.cfg.window = .veitch) :
    (decide (1 ≤ ((p.nsteps : Int) - (p.startStep : Int)) + 1) &&
      decide (((p.nsteps : Int) - (p.startStep : Int)) + 1 < (p.cfg.T : Int))) = p.inWindow := by
  unfold PropSt.inWindow PropSt.dkUpdate
  simp [hw]

/-- `1 < dk < adaptation_duration` (AT, eigenvector, solid angle) is the model's window `.at`. -/
theorem guard_at (p : PropSt) (hw : p.cfg.window = .at) :
    (decide (1 < ((p.nsteps : Int) - (p.startStep : Int)) + 1) &&
      decide (((p.nsteps : Int) - (p.startStep : Int)) + 1 < (p.cfg.T : Int))) = p.inWindow := by
  unfold PropSt.inWindow PropSt.dkUpdate
  simp [hw]

/-! ## Veitch et al. (`AdaptiveSupport._update`) -/

/-- The translated `_update` on an arbitrary clock (no `PropSt`): the guard is
    `1 ≤ dk ∧ dk < T`, the body is the model's `veitchComp (veitchAlpha xi accepted)`.
    In particular the code's `/ 10.` is exactly the model's `/ 10`. -/
theorem C13_source_veitch_raw (nsteps start T : Int) (accepted : Bool) (xi g delta sigma : Rat) :
    Gen.veitchUpdate nsteps start T accepted xi g delta sigma
      = if 1 ≤ nsteps - start + 1 ∧ nsteps - start + 1 < T
        then veitchComp (veitchAlpha xi accepted) g delta sigma else sigma := by
  unfold Gen.veitchUpdate veitchComp veitchAlpha
  by_cases h1 : 1 ≤ nsteps - start + 1 <;> by_cases h2 : nsteps - start + 1 < T <;>
    cases accepted <;> simp [h1, h2]

/-- `AdaptiveSupport._update` as translated = the model: inside `PropSt.inWindow` each width
    becomes `veitchComp (veitchAlpha xi accepted) g delta sigma`, outside nothing changes. -/
theorem C13_source_veitch (p : PropSt) (hw : p.cfg.window = .veitch)
    (accepted : Bool) (xi g delta sigma : Rat) :
    Gen.veitchUpdate (p.nsteps : Int) (p.startStep : Int) (p.cfg.T : Int) accepted xi g delta sigma
      = if p.inWindow then veitchComp (veitchAlpha xi accepted) g delta sigma else sigma := by
  unfold Gen.veitchUpdate
  simp only [guard_veitch p hw]
  unfold veitchComp veitchAlpha
  cases p.inWindow <;> cases accepted <;> simp

/-- Tie to the vector-valued `veitchBody`: component `i` of the model's new widths is the
    translated update of component `i`, with the gain read from the model's table at the clock. -/
theorem C13_source_veitch_body {n : Nat} (p : PropSt) (hw : p.cfg.window = .veitch)
    (hin : p.inWindow = true) (c : VeitchCfg Rat n) (accepted : Bool) (std : Vector Rat n)
    (i : Fin n) :
    Gen.veitchUpdate (p.nsteps : Int) (p.startStep : Int) (p.cfg.T : Int) accepted c.xi
        (c.gain p.dkUpdate) c.deltas[i] std[i]
      = (veitchBody c accepted p.dkUpdate std)[i] := by
  rw [C13_source_veitch p hw]
  simp [hin, veitchBody]

/-- Frozen after (and before) the window. -/
theorem C13_source_veitch_frozen (p : PropSt) (hw : p.cfg.window = .veitch)
    (hout : p.inWindow = false) (accepted : Bool) (xi g delta sigma : Rat) :
    Gen.veitchUpdate (p.nsteps : Int) (p.startStep : Int) (p.cfg.T : Int) accepted xi g delta sigma
      = sigma := by
  rw [C13_source_veitch p hw]; simp [hout]

/-! ## Andrieu–Thoms (`ATAdaptiveSupport._update`) -/

/-- Global scaling (`componentwise = False`): outside the window nothing changes; inside it
    `log λ ← atLam g xi log λ ar`, `mean ← mean + g (x - mean)` and
    `unit_cov ← unit_cov + g ((x-mean)² - unit_cov)` (diagonal) resp.
    `unit_cov + g (dfdf - unit_cov)` (full; `dfdf` is the entry of `df dfᵀ`). -/
theorem C13_source_at_global (p : PropSt) (hw : p.cfg.window = .at) (diagonal : Bool)
    (xi g ar cw x dfdf log_lambda mean unit_cov : Rat) :
    Gen.atUpdate (p.nsteps : Int) (p.startStep : Int) (p.cfg.T : Int) false diagonal
        xi g ar cw x dfdf log_lambda mean unit_cov
      = if p.inWindow then
          (atLam g xi log_lambda ar, mean + g * (x - mean),
            if diagonal then unit_cov + g * ((x - mean) * (x - mean) - unit_cov)
            else unit_cov + g * (dfdf - unit_cov))
        else (log_lambda, mean, unit_cov) := by
  unfold Gen.atUpdate
  simp only [guard_at p hw]
  unfold atLam
  cases p.inWindow <;> cases diagonal <;> simp

/-- Componentwise scaling: the same with `log λ_j ← log λ_j + cw_j`, where `cw_j` is the
    increment the code computes from the virtual one-coordinate moves
    (`dk * (ar_j - target_rate)`, i.e. `atLam` again: `C13_source_at_componentwise_lam`). -/
theorem C13_source_at_componentwise (p : PropSt) (hw : p.cfg.window = .at) (diagonal : Bool)
    (xi g ar cw x dfdf log_lambda mean unit_cov : Rat) :
    Gen.atUpdate (p.nsteps : Int) (p.startStep : Int) (p.cfg.T : Int) true diagonal
        xi g ar cw x dfdf log_lambda mean unit_cov
      = if p.inWindow then
          (log_lambda + cw, mean + g * (x - mean),
            if diagonal then unit_cov + g * ((x - mean) * (x - mean) - unit_cov)
            else unit_cov + g * (dfdf - unit_cov))
        else (log_lambda, mean, unit_cov) := by
  unfold Gen.atUpdate
  simp only [guard_at p hw]
  cases p.inWindow <;> cases diagonal <;> simp

/-- With the increment of coordinate `j` being `g * (ar_j - xi)` the componentwise `log λ_j`
    is the model's `atLam g xi (log λ_j) ar_j`. -/
theorem C13_source_at_componentwise_lam (p : PropSt) (hw : p.cfg.window = .at)
    (hin : p.inWindow = true) (diagonal : Bool)
    (xi g ar arj x dfdf log_lambda mean unit_cov : Rat) :
    (Gen.atUpdate (p.nsteps : Int) (p.startStep : Int) (p.cfg.T : Int) true diagonal
        xi g ar (g * (arj - xi)) x dfdf log_lambda mean unit_cov).1
      = atLam g xi log_lambda arj := by
  rw [C13_source_at_componentwise p hw]; simp [hin, atLam]

/-- Frozen outside the window, whatever the flags: `(log λ, mean, unit_cov)` is returned as is. -/
theorem C13_source_at_frozen (p : PropSt) (hw : p.cfg.window = .at) (hout : p.inWindow = false)
    (componentwise diagonal : Bool) (xi g ar cw x dfdf log_lambda mean unit_cov : Rat) :
    Gen.atUpdate (p.nsteps : Int) (p.startStep : Int) (p.cfg.T : Int) componentwise diagonal
        xi g ar cw x dfdf log_lambda mean unit_cov
      = (log_lambda, mean, unit_cov) := by
  cases componentwise
  · rw [C13_source_at_global p hw]; simp [hout]
  · rw [C13_source_at_componentwise p hw]; simp [hout]

/-! ### Tie to the vector/matrix-valued `atBody` (any dimension `n`, coordinate by coordinate) -/

/-- `log λ`, global: the translated first component is `lamAt` of the model's new `logLam`. -/
theorem C13_source_at_body_lam_global {n : Nat} (p : PropSt) (hw : p.cfg.window = .at)
    (hin : p.inWindow = true) (c : ATCfg Rat) (i : ATIn Rat n) (s : ATSt Rat n) (l : Rat)
    (hl : s.logLam = .glob l) (j : Fin n) (diagonal : Bool) (cw x dfdf mean unit_cov : Rat) :
    (Gen.atUpdate (p.nsteps : Int) (p.startStep : Int) (p.cfg.T : Int) false diagonal
        c.xi (c.gain p.dkUpdate) i.ar cw x dfdf l mean unit_cov).1
      = lamAt (atBody c i p.dkUpdate s).logLam j := by
  rw [C13_source_at_global p hw]
  simp [hin, atBody, hl, lamAt]

/-- `log λ_j`, componentwise (increment `g (ar_j - xi)` from the virtual move of coordinate `j`). -/
theorem C13_source_at_body_lam_componentwise {n : Nat} (p : PropSt) (hw : p.cfg.window = .at)
    (hin : p.inWindow = true) (c : ATCfg Rat) (i : ATIn Rat n) (s : ATSt Rat n) (l : Vector Rat n)
    (hl : s.logLam = .comp l) (j : Fin n) (diagonal : Bool) (x dfdf mean unit_cov : Rat) :
    (Gen.atUpdate (p.nsteps : Int) (p.startStep : Int) (p.cfg.T : Int) true diagonal
        c.xi (c.gain p.dkUpdate) i.ar (c.gain p.dkUpdate * (i.vars[j] - c.xi)) x dfdf
        l[j] mean unit_cov).1
      = lamAt (atBody c i p.dkUpdate s).logLam j := by
  rw [C13_source_at_componentwise p hw]
  simp [hin, atBody, hl, lamAt, atLam]

/-- The running mean, coordinate `j` (both scalings, both shapes). -/
theorem C13_source_at_body_mean {n : Nat} (p : PropSt) (hw : p.cfg.window = .at)
    (hin : p.inWindow = true) (c : ATCfg Rat) (i : ATIn Rat n) (s : ATSt Rat n) (j : Fin n)
    (componentwise diagonal : Bool) (cw dfdf log_lambda unit_cov : Rat) :
    (Gen.atUpdate (p.nsteps : Int) (p.startStep : Int) (p.cfg.T : Int) componentwise diagonal
        c.xi (c.gain p.dkUpdate) i.ar cw i.x[j] dfdf log_lambda s.mean[j] unit_cov).2.1
      = (atBody c i p.dkUpdate s).mean[j] := by
  cases componentwise
  · rw [C13_source_at_global p hw]; simp [hin, atBody]
  · rw [C13_source_at_componentwise p hw]; simp [hin, atBody]

/-- The unit covariance, diagonal shape, coordinate `j`. -/
theorem C13_source_at_body_ucov_diag {n : Nat} (p : PropSt) (hw : p.cfg.window = .at)
    (hin : p.inWindow = true) (c : ATCfg Rat) (i : ATIn Rat n) (s : ATSt Rat n) (v : Vector Rat n)
    (hv : s.ucov = .diag v) (j : Fin n) (componentwise : Bool) (cw dfdf log_lambda : Rat) :
    ∃ v' : Vector Rat n, (atBody c i p.dkUpdate s).ucov = .diag v' ∧
    (Gen.atUpdate (p.nsteps : Int) (p.startStep : Int) (p.cfg.T : Int) componentwise true
        c.xi (c.gain p.dkUpdate) i.ar cw i.x[j] dfdf log_lambda s.mean[j] v[j]).2.2
      = v'[j] := by
  refine ⟨_, by simp only [atBody, hv]; rfl, ?_⟩
  cases componentwise
  · rw [C13_source_at_global p hw]; simp [hin]
  · rw [C13_source_at_componentwise p hw]; simp [hin]

/-- The unit covariance, full shape, entry `(j, k)`: the oracle `dfdf` is the `(j,k)` entry of
    `df dfᵀ` with `df = x - mean` (the old mean). -/
theorem C13_source_at_body_ucov_full {n : Nat} (p : PropSt) (hw : p.cfg.window = .at)
    (hin : p.inWindow = true) (c : ATCfg Rat) (i : ATIn Rat n) (s : ATSt Rat n) (M : Mat Rat n)
    (hM : s.ucov = .full M) (j k : Fin n) (componentwise : Bool) (cw x log_lambda mean : Rat) :
    ∃ M' : Mat Rat n, (atBody c i p.dkUpdate s).ucov = .full M' ∧
    (Gen.atUpdate (p.nsteps : Int) (p.startStep : Int) (p.cfg.T : Int) componentwise false
        c.xi (c.gain p.dkUpdate) i.ar cw x
        ((i.x[j] - s.mean[j]) * (i.x[k] - s.mean[k])) log_lambda mean M[j][k]).2.2
      = M'[j][k] := by
  refine ⟨_, by simp only [atBody, hM]; rfl, ?_⟩
  cases componentwise
  · rw [C13_source_at_global p hw]; simp [hin]
  · rw [C13_source_at_componentwise p hw]; simp [hin]

/-! ## Adaptive eigenvector (`AdaptiveEigenvectorSupport._update`) -/

/-- The first component records whether the guarded block (recursive covariance / mean update,
    `eigh`, rescaling of the eigenvalues) ran: it runs, and `log λ` moves by `g (ar - xi)`
    (`atLam`), exactly when the clock is inside the window; otherwise nothing changes. -/
theorem C13_source_eig (p : PropSt) (hw : p.cfg.window = .at) (xi g ar log_lambda : Rat) :
    Gen.eigUpdate (p.nsteps : Int) (p.startStep : Int) (p.cfg.T : Int) xi g ar log_lambda
      = (p.inWindow, if p.inWindow then atLam g xi log_lambda ar else log_lambda) := by
  unfold Gen.eigUpdate
  simp only [guard_at p hw]
  unfold atLam
  cases p.inWindow <;> simp

/-- The same, spelled as the request does: `log λ` moves by exactly `g * (ar - xi)` in the window. -/
theorem C13_source_eig_increment (p : PropSt) (hw : p.cfg.window = .at)
    (xi g ar log_lambda : Rat) :
    (Gen.eigUpdate (p.nsteps : Int) (p.startStep : Int) (p.cfg.T : Int) xi g ar log_lambda).2
      = if p.inWindow then log_lambda + g * (ar - xi) else log_lambda := by
  rw [C13_source_eig p hw]; rfl

/-- Tie to `eigBody`: whenever the model's body returns a state, its `logLam` is the translated one. -/
theorem C13_source_eig_body {n : Nat} (p : PropSt) (hw : p.cfg.window = .at)
    (hin : p.inWindow = true) (c : ATCfg Rat) (tol : Rat) (i : EigIn Rat n) (s s' : EigSt Rat n)
    (h : eigBody c tol i p.dkUpdate p.nsteps s = some s') :
    (Gen.eigUpdate (p.nsteps : Int) (p.startStep : Int) (p.cfg.T : Int) c.xi
        (c.gain p.dkUpdate) i.ar s.logLam).2 = s'.logLam := by
  rw [C13_source_eig p hw]
  unfold eigBody at h
  simp only [hin, if_true]
  cases hc : eigClip tol i.w with
  | none => simp [hc] at h
  | some w =>
    simp only [hc, Option.some.injEq] at h
    rw [← h]

theorem C13_source_eig_frozen (p : PropSt) (hw : p.cfg.window = .at) (hout : p.inWindow = false)
    (xi g ar log_lambda : Rat) :
    Gen.eigUpdate (p.nsteps : Int) (p.startStep : Int) (p.cfg.T : Int) xi g ar log_lambda
      = (false, log_lambda) := by
  rw [C13_source_eig p hw]; simp [hout]

/-! ## Adaptive von Mises–Fisher (`AdaptiveIsotropicSolidAngleSupport._update`) -/

theorem C13_source_vmf (p : PropSt) (hw : p.cfg.window = .at) (xi g ar log_kappa : Rat) :
    Gen.vmfUpdate (p.nsteps : Int) (p.startStep : Int) (p.cfg.T : Int) xi g ar log_kappa
      = if p.inWindow then vmfLogKappa g xi log_kappa ar else log_kappa := by
  unfold Gen.vmfUpdate
  simp only [guard_at p hw]
  unfold vmfLogKappa
  cases p.inWindow <;> simp

/-- Tie to `vmfBody`: whenever the model's body returns a state (the `kappa` / `norm` setters
    did not raise), its `logKappa` is the translated one. -/
theorem C13_source_vmf_body (p : PropSt) (hw : p.cfg.window = .at) (hin : p.inWindow = true)
    (c : ATCfg Rat) (i : VmfIn Rat) (s s' : VmfSt Rat)
    (h : vmfBody c i p.dkUpdate s = some s') :
    Gen.vmfUpdate (p.nsteps : Int) (p.startStep : Int) (p.cfg.T : Int) c.xi
        (c.gain p.dkUpdate) i.ar s.logKappa = s'.logKappa := by
  rw [C13_source_vmf p hw]
  unfold vmfBody at h
  simp only [hin, if_true]
  by_cases h1 : 0 < i.ek <;> by_cases h2 : 0 ≤ i.nm <;> simp [h1, h2] at h
  rw [← h]

theorem C13_source_vmf_frozen (p : PropSt) (hw : p.cfg.window = .at) (hout : p.inWindow = false)
    (xi g ar log_kappa : Rat) :
    Gen.vmfUpdate (p.nsteps : Int) (p.startStep : Int) (p.cfg.T : Int) xi g ar log_kappa
      = log_kappa := by
  rw [C13_source_vmf p hw]; simp [hout]

/-! ## Sivia–Skilling (`SSAdaptiveSupport._update`, no window) -/

/-- The accepted counter advances by `1` on an accepted step and by `0` otherwise, on every path. -/
theorem C13_source_ss_count (nsteps start : Int) (accepted diagonal : Bool) (xi : Rat)
    (EXP SQRT : Rat → Rat) (mx max_std : Rat) (n_accepted : Int) (scale : Rat) :
    (Gen.ssUpdate nsteps start accepted diagonal xi EXP SQRT mx max_std n_accepted scale).1
      = n_accepted + (if accepted then 1 else 0) := by
  unfold Gen.ssUpdate
  simp only []
  repeat' split
  all_goals rfl

/-- The code's `n_iter = nsteps - (start_step - 1) + 1` is the model's `dkUpdate + 1`. -/
theorem C13_source_ss_clock (p : PropSt) :
    (p.nsteps : Int) - ((p.startStep : Int) - 1) + 1 = p.dkUpdate + 1 := by
  unfold PropSt.dkUpdate; omega

/-- The factor the translated code computes (before the square root of the diagonal case), keyed
    by the model's `ssBranch xi (n / nIter)`: `rate > xi ↦ EXP (1/n_accepted)`,
    `rate < xi ↦ EXP (-1/n_rejected)` with `n_rejected = n_iter - n_accepted`, else `1`.
    `n`, `nIter` are the code's Python ints. -/
def ssFactorSrc (xi : Rat) (EXP : Rat → Rat) (n nIter : Int) : Rat :=
  match ssBranch xi ((n : Rat) / (nIter : Rat)) with
  | .up => EXP ((1 : Rat) / (n : Rat))
  | .down => EXP ((-1 : Rat) / ((nIter - n : Int) : Rat))
  | .same => 1

/-- Exact characterisation of the translated `_update`, for all arguments:
    with `n = n_accepted + [accepted]`, `nIter = nsteps - (start_step - 1) + 1`,
    `a₀ = ssFactorSrc xi EXP n nIter` (the branch is the model's `ssBranch xi (n / nIter)`),
    `a = SQRT a₀` for a diagonal proposal and `a₀` otherwise, the scale entry is multiplied by `a`
    iff `a ≤ 1 ∨ a * mx ≤ cap`, `cap = max_std` (diagonal) resp. `max_std²` (full). -/
theorem C13_source_ss_branch (nsteps start : Int) (accepted diagonal : Bool) (xi : Rat)
    (EXP SQRT : Rat → Rat) (mx max_std : Rat) (n_accepted : Int) (scale : Rat) :
    Gen.ssUpdate nsteps start accepted diagonal xi EXP SQRT mx max_std n_accepted scale
      = (n_accepted + (if accepted then 1 else 0),
          if (if diagonal then SQRT (ssFactorSrc xi EXP (n_accepted + (if accepted then 1 else 0))
                  (nsteps - (start - 1) + 1))
              else ssFactorSrc xi EXP (n_accepted + (if accepted then 1 else 0))
                  (nsteps - (start - 1) + 1)) ≤ 1
            ∨ (if diagonal then SQRT (ssFactorSrc xi EXP (n_accepted + (if accepted then 1 else 0))
                  (nsteps - (start - 1) + 1))
              else ssFactorSrc xi EXP (n_accepted + (if accepted then 1 else 0))
                  (nsteps - (start - 1) + 1)) * mx
                ≤ (if diagonal then max_std else max_std * max_std)
          then scale *
            (if diagonal then SQRT (ssFactorSrc xi EXP (n_accepted + (if accepted then 1 else 0))
                  (nsteps - (start - 1) + 1))
              else ssFactorSrc xi EXP (n_accepted + (if accepted then 1 else 0))
                  (nsteps - (start - 1) + 1))
          else scale) := by
  unfold Gen.ssUpdate ssFactorSrc ssBranch
  simp only [gt_iff_lt]
  generalize n_accepted + (if accepted then 1 else 0) = n
  generalize nsteps - (start - 1) + 1 = nIter
  by_cases h1 : xi < (n : Rat) / (nIter : Rat)
  · cases diagonal <;> simp only [h1, if_true, decide_true, Bool.false_eq_true, if_false]
    · by_cases h : EXP (1 / (n : Rat)) ≤ 1 ∨ EXP (1 / (n : Rat)) * mx ≤ max_std * max_std
      · rw [if_pos h, if_pos (by simpa using h)]
      · rw [if_neg h, if_neg (by simpa using h)]
    · by_cases h : SQRT (EXP (1 / (n : Rat))) ≤ 1 ∨ SQRT (EXP (1 / (n : Rat))) * mx ≤ max_std
      · rw [if_pos h, if_pos (by simpa using h)]
      · rw [if_neg h, if_neg (by simpa using h)]
  · by_cases h2 : (n : Rat) / (nIter : Rat) < xi
    · cases diagonal <;>
        simp only [h1, h2, if_true, decide_true, decide_false, Bool.false_eq_true, if_false]
      · by_cases h : EXP (-1 / ((nIter - n : Int) : Rat)) ≤ 1 ∨
            EXP (-1 / ((nIter - n : Int) : Rat)) * mx ≤ max_std * max_std
        · rw [if_pos h, if_pos (by simpa using h)]
        · rw [if_neg h, if_neg (by simpa using h)]
      · by_cases h : SQRT (EXP (-1 / ((nIter - n : Int) : Rat))) ≤ 1 ∨
            SQRT (EXP (-1 / ((nIter - n : Int) : Rat))) * mx ≤ max_std
        · rw [if_pos h, if_pos (by simpa using h)]
        · rw [if_neg h, if_neg (by simpa using h)]
    · cases diagonal <;>
        simp only [h1, h2, if_true, decide_false, Bool.false_eq_true, if_false]
      · have h : (1 : Rat) ≤ 1 ∨ (1 : Rat) * mx ≤ max_std * max_std := Or.inl Rat.le_refl
        rw [if_pos h, if_pos (by simp)]
      · by_cases h : SQRT 1 ≤ 1 ∨ SQRT 1 * mx ≤ max_std
        · rw [if_pos h, if_pos (by simpa using h)]
        · rw [if_neg h, if_neg (by simpa using h)]

/-- With the model's clock: `nIter` is `dkUpdate + 1`. -/
theorem C13_source_ss_branch_clock (p : PropSt) (accepted diagonal : Bool) (xi : Rat)
    (EXP SQRT : Rat → Rat) (mx max_std : Rat) (n_accepted : Int) (scale : Rat) :
    ∃ a : Rat,
      a = (if diagonal then SQRT (ssFactorSrc xi EXP (n_accepted + (if accepted then 1 else 0))
              (p.dkUpdate + 1))
           else ssFactorSrc xi EXP (n_accepted + (if accepted then 1 else 0)) (p.dkUpdate + 1)) ∧
      Gen.ssUpdate (p.nsteps : Int) (p.startStep : Int) accepted diagonal xi EXP SQRT mx max_std
          n_accepted scale
        = (n_accepted + (if accepted then 1 else 0),
            if a ≤ 1 ∨ a * mx ≤ (if diagonal then max_std else max_std * max_std)
            then scale * a else scale) := by
  refine ⟨_, rfl, ?_⟩
  rw [C13_source_ss_branch, C13_source_ss_clock]

/-- `ssFactorSrc` is the model's `ssAlpha` under the obvious reading of the oracle tables:
    `alphaUp k = f (EXP (1/k))`, `alphaDown k = f (EXP (-1/k))` with `f = id` (full covariance) or
    `f = SQRT` (diagonal).  Two differences of packaging, both made explicit here:
    * in the `same` branch (`rate = xi`) the code computes `f 1` (`numpy.sqrt(1.)` when diagonal)
      where the model has the literal `1`: hence the hypothesis `f 1 = 1`;
    * the model's `n_rejected = nIter - n` is a truncated subtraction of naturals, the code's is a
      Python int: they agree when `n ≤ nIter` (accepted steps never outnumber updates;
      `C14_ss_never_raises` shows this is an invariant).  For `n > nIter` the branch `down` needs
      `xi > n / nIter > 1`, a target rate above 1. -/
theorem C13_source_ss_alpha (c : SSCfg Rat) (EXP f : Rat → Rat) (n nIter : Nat) (hle : n ≤ nIter)
    (hup : ∀ k : Nat, c.alphaUp k = f (EXP ((1 : Rat) / (k : Rat))))
    (hdown : ∀ k : Nat, c.alphaDown k = f (EXP ((-1 : Rat) / (k : Rat))))
    (hf1 : f 1 = 1) :
    f (ssFactorSrc c.xi EXP (n : Int) (nIter : Int)) = ssAlpha c n nIter := by
  unfold ssFactorSrc ssAlpha
  simp only [Rat.intCast_natCast]
  cases ssBranch c.xi ((n : Rat) / (nIter : Rat)) with
  | up => simp only [hup]
  | down =>
    simp only [hdown]
    have : ((nIter : Int) - (n : Int)) = ((nIter - n : Nat) : Int) := by omega
    rw [this, Rat.intCast_natCast]
  | same => simpa using hf1

/-- The code's `alpha <= 1 or alpha * max <= cap` is the model's `ssAllowed` (finite cap, non-empty
    scale array with maximum `mx`). -/
theorem C13_source_ss_allowed {m : Nat} (c : SSCfg Rat) (cap mx a : Rat) (vals : Vector Rat m)
    (hcap : c.cap = some cap) (hmx : vmax vals = some mx) :
    ssAllowed c a vals = (decide (a ≤ 1) || decide (a * mx ≤ cap)) := by
  unfold ssAllowed
  simp only [hcap, hmx]

/-- Tie to the model's `ssBody` (the whole Sivia–Skilling update), for a proposal with a finite
    `max_std`: the model's body does not raise and every entry `j` of its new scale array, and its
    new counter, are what the translated `_update` returns for that entry.
    Hypotheses = the reading of the oracles (`hcap`, `hup`, `hdown`, `hsq`: see
    `C13_source_ss_alpha`), `mx` is the maximum of the scale array, and the two clock facts
    `0 < n_iter` (no ZeroDivisionError: the model maps that to `none`) and `n ≤ n_iter`. -/
theorem C13_source_ss_body {m : Nat} (p : PropSt) (c : SSCfg Rat) (EXP SQRT : Rat → Rat)
    (diagonal accepted : Bool) (max_std mx : Rat) (s : SSSt Rat m)
    (hcap : c.cap = some (if diagonal then max_std else max_std * max_std))
    (hup : ∀ k : Nat, c.alphaUp k
        = (if diagonal then SQRT (EXP ((1 : Rat) / (k : Rat))) else EXP ((1 : Rat) / (k : Rat))))
    (hdown : ∀ k : Nat, c.alphaDown k
        = (if diagonal then SQRT (EXP ((-1 : Rat) / (k : Rat))) else EXP ((-1 : Rat) / (k : Rat))))
    (hsq : diagonal = true → SQRT 1 = 1)
    (hmx : vmax s.vals = some mx)
    (hpos : 0 < p.dkUpdate + 1)
    (hle : ((s.nAcc + (if accepted then 1 else 0) : Nat) : Int) ≤ p.dkUpdate + 1) :
    ∃ s' : SSSt Rat m, ssBody c accepted p.dkUpdate s = some s' ∧ ∀ j : Fin m,
      Gen.ssUpdate (p.nsteps : Int) (p.startStep : Int) accepted diagonal c.xi EXP SQRT mx max_std
          (s.nAcc : Int) s.vals[j]
        = ((s'.nAcc : Int), s'.vals[j]) := by
  have hnot : ¬ (p.dkUpdate + 1 ≤ 0) := by omega
  refine ⟨{ nAcc := s.nAcc + (if accepted then 1 else 0)
            vals := if ssAllowed c (ssAlpha c (s.nAcc + (if accepted then 1 else 0))
                          (p.dkUpdate + 1).toNat) s.vals
                    then s.vals.map (fun v => v * ssAlpha c (s.nAcc + (if accepted then 1 else 0))
                          (p.dkUpdate + 1).toNat)
                    else s.vals },
    by unfold ssBody; simp only [hnot, if_false], ?_⟩
  intro j
  rw [C13_source_ss_branch, C13_source_ss_clock]
  -- the clock as a natural number
  obtain ⟨N, hN⟩ : ∃ N : Nat, p.dkUpdate + 1 = (N : Int) := ⟨(p.dkUpdate + 1).toNat, by omega⟩
  have hcnt : (s.nAcc : Int) + (if accepted then 1 else 0)
      = ((s.nAcc + (if accepted then 1 else 0) : Nat) : Int) := by cases accepted <;> simp
  rw [hcnt, hN]
  rw [hN] at hle
  have hle' : s.nAcc + (if accepted then 1 else 0) ≤ N := by omega
  simp only [Int.toNat_natCast]
  generalize s.nAcc + (if accepted then 1 else 0) = n at hle' ⊢
  -- the factor
  have hα : (if diagonal then SQRT (ssFactorSrc c.xi EXP (n : Int) (N : Int))
      else ssFactorSrc c.xi EXP (n : Int) (N : Int)) = ssAlpha c n N := by
    cases diagonal with
    | true =>
      simp only [if_true] at hup hdown ⊢
      exact C13_source_ss_alpha c EXP SQRT n N hle' hup hdown (hsq rfl)
    | false =>
      simp only [Bool.false_eq_true, if_false] at hup hdown ⊢
      exact C13_source_ss_alpha c EXP id n N hle' hup hdown rfl
  rw [hα]
  simp only [C13_source_ss_allowed c _ mx _ s.vals hcap hmx]
  by_cases h : ssAlpha c n N ≤ 1 ∨
      ssAlpha c n N * mx ≤ (if diagonal then max_std else max_std * max_std)
  · have hb : (decide (ssAlpha c n N ≤ 1) || decide (ssAlpha c n N * mx
        ≤ (if diagonal then max_std else max_std * max_std))) = true := by simpa using h
    simp only [if_pos h, hb, if_true, Fin.getElem_fin, Vector.getElem_map]
  · have hb : (decide (ssAlpha c n N ≤ 1) || decide (ssAlpha c n N * mx
        ≤ (if diagonal then max_std else max_std * max_std))) = false := by simpa using h
    simp only [if_neg h, hb, Bool.false_eq_true, if_false]

/-! ## Direction of the adaptation, read off the translated code (property C13 on the source)

  Inside the window: an accepted step widens a Veitch width and a rejected one never widens it;
  an acceptance ratio above the target raises `log λ` (Andrieu–Thoms, eigenvector) and lowers
  `log κ` (von Mises–Fisher: smaller κ = wider), one below the target does the opposite.
  Outside the window nothing moves: the `*_frozen` theorems above. -/

private theorem lt_add_of_pos' (a b : Rat) (h : 0 < b) : a < a + b := by grind
private theorem add_lt_of_neg' (a b : Rat) (h : b < 0) : a + b < a := by grind
private theorem div10_pos (a : Rat) (h : 0 < a) : 0 < a / 10 := by
  rw [Rat.div_def]; exact Rat.mul_pos h (Rat.inv_pos.2 (by decide))
private theorem mul_sub_pos (g a b : Rat) (hg : 0 < g) (h : b < a) : 0 < g * (a - b) :=
  Rat.mul_pos hg ((Rat.lt_iff_sub_pos b a).1 h)
private theorem mul_sub_neg (g a b : Rat) (hg : 0 < g) (h : a < b) : g * (a - b) < 0 := by
  have := mul_sub_pos g b a hg h
  have e : g * (a - b) = -(g * (b - a)) := by grind
  rw [e]; grind

/-- Accepted, inside the window, `xi < 1`, positive gain and prior width: the width strictly grows.
    DIFFERENCE FROM THE REQUESTED STATEMENT: the hypothesis `0 ≤ sigma` is needed.  The code
    installs the new width only if it is `> 0` (`lzidx = newsigmas <= 0`), so for a (meaningless)
    negative width the step can be discarded and the width stays put, e.g.
    `sigma = -1, xi = 0, g = 1, delta = 1`: `newsigma = -9/10 ≤ 0`, result `-1`, not `> -1`
    (the `example` after this theorem).  Widths are positive in every reachable state. -/
theorem C13_source_veitch_widens (p : PropSt) (hw : p.cfg.window = .veitch)
    (hin : p.inWindow = true) (xi g delta sigma : Rat)
    (hg : 0 < g) (hd : 0 < delta) (hxi : xi < 1) (hs : 0 ≤ sigma) :
    sigma < Gen.veitchUpdate (p.nsteps : Int) (p.startStep : Int) (p.cfg.T : Int) true
              xi g delta sigma := by
  rw [C13_source_veitch p hw]
  simp only [hin, if_true, veitchComp, veitchAlpha]
  have h1 : 0 < 1 - xi := (Rat.lt_iff_sub_pos xi 1).1 hxi
  have h2 : 0 < (1 - xi) * g * delta / 10 := div10_pos _ (Rat.mul_pos (Rat.mul_pos h1 hg) hd)
  have h3 : ¬ (sigma + (1 - xi) * g * delta / 10 ≤ 0) := by grind
  rw [if_neg h3]
  exact lt_add_of_pos' _ _ h2

/-- The counterexample showing that `0 ≤ sigma` cannot be dropped (clock `dk = 1`, `T = 10`). -/
example : Gen.veitchUpdate 5 5 10 true 0 1 1 (-1) = -1 := by decide +kernel

/-- Rejected, inside the window: the width does not grow ... -/
theorem C13_source_veitch_narrows (p : PropSt) (hw : p.cfg.window = .veitch)
    (hin : p.inWindow = true) (xi g delta sigma : Rat)
    (hxi : 0 < xi) (hg : 0 < g) (hd : 0 < delta) :
    Gen.veitchUpdate (p.nsteps : Int) (p.startStep : Int) (p.cfg.T : Int) false
        xi g delta sigma ≤ sigma := by
  rw [C13_source_veitch p hw]
  simp only [hin, if_true, veitchComp, veitchAlpha, Bool.false_eq_true, if_false]
  have h2 : 0 < xi * g * delta / 10 := div10_pos _ (Rat.mul_pos (Rat.mul_pos hxi hg) hd)
  have e : -xi * g * delta / 10 = -(xi * g * delta / 10) := by grind
  by_cases h3 : sigma + -xi * g * delta / 10 ≤ 0
  · rw [if_pos h3]; exact Rat.le_refl
  · rw [if_neg h3, e]; grind

/-- ... and strictly shrinks whenever the shrunk width is still positive (otherwise the code
    keeps the old width: `veitchComp`). -/
theorem C13_source_veitch_narrows_strict (p : PropSt) (hw : p.cfg.window = .veitch)
    (hin : p.inWindow = true) (xi g delta sigma : Rat)
    (hxi : 0 < xi) (hg : 0 < g) (hd : 0 < delta) (hs : xi * g * delta / 10 < sigma) :
    Gen.veitchUpdate (p.nsteps : Int) (p.startStep : Int) (p.cfg.T : Int) false
        xi g delta sigma < sigma ∧
    0 < Gen.veitchUpdate (p.nsteps : Int) (p.startStep : Int) (p.cfg.T : Int) false
        xi g delta sigma := by
  rw [C13_source_veitch p hw]
  simp only [hin, if_true, veitchComp, veitchAlpha, Bool.false_eq_true, if_false]
  have h2 : 0 < xi * g * delta / 10 := div10_pos _ (Rat.mul_pos (Rat.mul_pos hxi hg) hd)
  have e : -xi * g * delta / 10 = -(xi * g * delta / 10) := by grind
  have h3 : ¬ (sigma + -xi * g * delta / 10 ≤ 0) := by rw [e]; grind
  rw [if_neg h3, e]
  constructor <;> grind

/-- Andrieu–Thoms, global scaling: `ar > xi` raises `log λ` ... -/
theorem C13_source_at_direction_up (p : PropSt) (hw : p.cfg.window = .at)
    (hin : p.inWindow = true) (diagonal : Bool)
    (xi g ar cw x dfdf log_lambda mean unit_cov : Rat) (hg : 0 < g) (h : xi < ar) :
    log_lambda < (Gen.atUpdate (p.nsteps : Int) (p.startStep : Int) (p.cfg.T : Int) false diagonal
        xi g ar cw x dfdf log_lambda mean unit_cov).1 := by
  rw [C13_source_at_global p hw]
  simp only [hin, if_true, atLam]
  exact lt_add_of_pos' _ _ (mul_sub_pos g ar xi hg h)

/-- ... and `ar < xi` lowers it. -/
theorem C13_source_at_direction_down (p : PropSt) (hw : p.cfg.window = .at)
    (hin : p.inWindow = true) (diagonal : Bool)
    (xi g ar cw x dfdf log_lambda mean unit_cov : Rat) (hg : 0 < g) (h : ar < xi) :
    (Gen.atUpdate (p.nsteps : Int) (p.startStep : Int) (p.cfg.T : Int) false diagonal
        xi g ar cw x dfdf log_lambda mean unit_cov).1 < log_lambda := by
  rw [C13_source_at_global p hw]
  simp only [hin, if_true, atLam]
  exact add_lt_of_neg' _ _ (mul_sub_neg g ar xi hg h)

/-- Componentwise scaling: coordinate `j` follows the acceptance ratio `ar_j` of its own virtual
    move (increment `g (ar_j - xi)`). -/
theorem C13_source_at_direction_componentwise (p : PropSt) (hw : p.cfg.window = .at)
    (hin : p.inWindow = true) (diagonal : Bool)
    (xi g ar arj x dfdf log_lambda mean unit_cov : Rat) (hg : 0 < g) :
    (xi < arj → log_lambda <
      (Gen.atUpdate (p.nsteps : Int) (p.startStep : Int) (p.cfg.T : Int) true diagonal
        xi g ar (g * (arj - xi)) x dfdf log_lambda mean unit_cov).1) ∧
    (arj < xi →
      (Gen.atUpdate (p.nsteps : Int) (p.startStep : Int) (p.cfg.T : Int) true diagonal
        xi g ar (g * (arj - xi)) x dfdf log_lambda mean unit_cov).1 < log_lambda) := by
  rw [C13_source_at_componentwise p hw]
  simp only [hin, if_true]
  exact ⟨fun h => lt_add_of_pos' _ _ (mul_sub_pos g arj xi hg h),
         fun h => add_lt_of_neg' _ _ (mul_sub_neg g arj xi hg h)⟩

/-- Eigenvector proposal: the same for its `log λ`. -/
theorem C13_source_eig_direction_up (p : PropSt) (hw : p.cfg.window = .at)
    (hin : p.inWindow = true) (xi g ar log_lambda : Rat) (hg : 0 < g) (h : xi < ar) :
    log_lambda <
      (Gen.eigUpdate (p.nsteps : Int) (p.startStep : Int) (p.cfg.T : Int) xi g ar log_lambda).2 := by
  rw [C13_source_eig p hw]
  simp only [hin, if_true, atLam]
  exact lt_add_of_pos' _ _ (mul_sub_pos g ar xi hg h)

theorem C13_source_eig_direction_down (p : PropSt) (hw : p.cfg.window = .at)
    (hin : p.inWindow = true) (xi g ar log_lambda : Rat) (hg : 0 < g) (h : ar < xi) :
    (Gen.eigUpdate (p.nsteps : Int) (p.startStep : Int) (p.cfg.T : Int) xi g ar log_lambda).2
      < log_lambda := by
  rw [C13_source_eig p hw]
  simp only [hin, if_true, atLam]
  exact add_lt_of_neg' _ _ (mul_sub_neg g ar xi hg h)

/-- von Mises–Fisher: `ar > xi` LOWERS `log κ` (the distribution widens) ... -/
theorem C13_source_vmf_direction_up (p : PropSt) (hw : p.cfg.window = .at)
    (hin : p.inWindow = true) (xi g ar log_kappa : Rat) (hg : 0 < g) (h : xi < ar) :
    Gen.vmfUpdate (p.nsteps : Int) (p.startStep : Int) (p.cfg.T : Int) xi g ar log_kappa
      < log_kappa := by
  rw [C13_source_vmf p hw]
  simp only [hin, if_true, vmfLogKappa]
  exact add_lt_of_neg' _ _ (mul_sub_neg g xi ar hg h)

/-- ... and `ar < xi` raises it (narrows). -/
theorem C13_source_vmf_direction_down (p : PropSt) (hw : p.cfg.window = .at)
    (hin : p.inWindow = true) (xi g ar log_kappa : Rat) (hg : 0 < g) (h : ar < xi) :
    log_kappa <
      Gen.vmfUpdate (p.nsteps : Int) (p.startStep : Int) (p.cfg.T : Int) xi g ar log_kappa := by
  rw [C13_source_vmf p hw]
  simp only [hin, if_true, vmfLogKappa]
  exact lt_add_of_pos' _ _ (mul_sub_pos g xi ar hg h)

/-! ## Non-vacuity: concrete numbers (kernel-checked) -/

/-- A proposal state whose clock is `dk = nsteps - start_step + 1`, for the examples. -/
def exState (w : Window) (T raw start : Nat) : PropSt :=
  { cfg := { params := [0], symmetric := true, adaptive := true, k := 1, dur := 0, window := w,
             T := T, start0 := 1, comp := false, savesNsteps := true }
    raw := raw, startStep := start, events := [] }

-- the hypotheses of the theorems above are satisfiable (and the window has the stated edges)
example : (exState .veitch 10 5 5).inWindow = true ∧ (exState .veitch 10 5 5).dkUpdate = 1 := by
  decide
example : (exState .at 10 5 5).inWindow = false ∧ (exState .at 10 6 5).inWindow = true := by decide
example : (exState .veitch 10 14 5).dkUpdate = 10 ∧ (exState .veitch 10 14 5).inWindow = false ∧
    (exState .at 10 14 5).inWindow = false ∧ (exState .at 10 13 5).inWindow = true := by decide

-- Veitch, dk = 3 of T = 10: accepted widens 1 ↦ 1 + (3/4)(1/2)·2/10, rejected narrows
example : Gen.veitchUpdate 7 5 10 true (1/4) (1/2) 2 1 = 43/40 := by decide +kernel
example : Gen.veitchUpdate 7 5 10 false (1/4) (1/2) 2 1 = 39/40 := by decide +kernel
-- a rejected step that would make the width ≤ 0 is discarded
example : Gen.veitchUpdate 7 5 10 false (1/2) 1 20 1 = 1 := by decide +kernel
-- window edges: dk = 1 adapts (Veitch), dk = T does not, dk = 0 does not
example : Gen.veitchUpdate 5 5 10 true (1/4) (1/2) 2 1 = 43/40 := by decide +kernel
example : Gen.veitchUpdate 14 5 10 true (1/4) (1/2) 2 1 = 1 := by decide +kernel
example : Gen.veitchUpdate 4 5 10 true (1/4) (1/2) 2 1 = 1 := by decide +kernel

-- Andrieu–Thoms, dk = 3: log λ ← 0 + (1/2)(3/4 - 1/4), mean ← 1 + (1/2)(3 - 1), cov (diag / full)
example : Gen.atUpdate 7 5 10 false true (1/4) (1/2) (3/4) 0 3 7 0 1 1 = (1/4, 2, 5/2) := by
  decide +kernel
example : Gen.atUpdate 7 5 10 false false (1/4) (1/2) (3/4) 0 3 7 0 1 1 = (1/4, 2, 4) := by
  decide +kernel
example : Gen.atUpdate 7 5 10 true true (1/4) (1/2) (3/4) (-1/8) 3 7 0 1 1 = (-1/8, 2, 5/2) := by
  decide +kernel
-- window edges: dk = 1 does NOT adapt (Andrieu–Thoms: `1 < dk`), dk = T does not, dk = T-1 does
example : Gen.atUpdate 5 5 10 false true (1/4) (1/2) (3/4) 0 3 7 0 1 1 = (0, 1, 1) := by
  decide +kernel
example : Gen.atUpdate 14 5 10 false true (1/4) (1/2) (3/4) 0 3 7 0 1 1 = (0, 1, 1) := by
  decide +kernel
example : Gen.atUpdate 13 5 10 false true (1/4) (1/2) (3/4) 0 3 7 0 1 1 = (1/4, 2, 5/2) := by
  decide +kernel

-- eigenvector and von Mises–Fisher: opposite signs, same window
example : Gen.eigUpdate 7 5 10 (1/4) (1/2) (3/4) 0 = (true, 1/4) := by decide +kernel
example : Gen.eigUpdate 5 5 10 (1/4) (1/2) (3/4) 0 = (false, 0) := by decide +kernel
example : Gen.eigUpdate 14 5 10 (1/4) (1/2) (3/4) 0 = (false, 0) := by decide +kernel
example : Gen.vmfUpdate 7 5 10 (1/4) (1/2) (3/4) 0 = -1/4 := by decide +kernel
example : Gen.vmfUpdate 5 5 10 (1/4) (1/2) (3/4) 0 = 0 := by decide +kernel
example : Gen.vmfUpdate 14 5 10 (1/4) (1/2) (3/4) 0 = 0 := by decide +kernel

-- Sivia–Skilling (oracles: EXP t = 1 + t, SQRT = id), start_step = 1, nsteps = 3: n_iter = 4.
-- 2 accepted + this one = 3 of 4 > 1/2: factor EXP(1/3) = 4/3, allowed by the cap (4/3·3 ≤ 4)
example : Gen.ssUpdate 3 1 true true (1/2) (fun t => 1 + t) id 3 4 2 6 = (3, 8) := by
  decide +kernel
-- ... but not by a cap of 3: count advances, scale stays
example : Gen.ssUpdate 3 1 true true (1/2) (fun t => 1 + t) id 3 3 2 6 = (3, 6) := by
  decide +kernel
-- 0 accepted, rejected: 0 of 4 < 1/2: factor EXP(-1/4) = 3/4 ≤ 1, always applied
example : Gen.ssUpdate 3 1 false false (1/2) (fun t => 1 + t) id 100 1 0 8 = (0, 6) := by
  decide +kernel
-- rate = xi exactly: factor 1
example : Gen.ssUpdate 3 1 true false (1/2) (fun t => 1 + t) id 3 4 1 6 = (2, 6) := by
  decide +kernel
example : ssFactorSrc (1/2) (fun t => 1 + t) 3 4 = 4/3 ∧ ssFactorSrc (1/2) (fun t => 1 + t) 0 4 = 3/4
    ∧ ssFactorSrc (1/2) (fun t => 1 + t) 2 4 = 1 := by decide +kernel

end Epsie.C13
