/-
  C08, source tie: `BaseChain.__len__` and the index arithmetic and read set of
  `Chain.__getitem__`, translated from the source on every run, agree with the model's
  `Chain.len` and `Chain.getitem` (row `pyModNat i len` of every scratch array) for all
  chain states and all Python integer indices.
-/
import EpsieModel.Generated.Source
import EpsieModel.Chain
namespace Epsie.C08

/-- `len(chain) = iteration - lastclear` (no truncation happens: `lastclear ≤ iteration`). -/
theorem C08_source_len (c : Chain) (h : c.lastclear ≤ c.iteration) :
    Gen.chainLen (c.iteration : Int) (c.lastclear : Int) = (c.len : Int) := by
  unfold Gen.chainLen Chain.len
  omega

/-- Every array that `chain[i]` reads is read at the row the model's `getitem` uses, for every
    (also negative, also out-of-range) index; the blobs are read iff the chain has blobs. -/
theorem C08_source_getitem_reads (c : Chain) (i : Int) (hasblobs : Bool) (hlen : 0 < c.len) :
    Gen.getitemReads i (c.len : Int) hasblobs
      = (["positions", "stats", "acceptance"] ++ (if hasblobs then ["blobs"] else [])).map
          (fun nm => (nm, ((pyModNat i c.len : Nat) : Int))) := by
  unfold Gen.getitemReads pyModNat Src.pmod
  have hpos : (0 : Int) ≤ (c.len : Int) := Int.natCast_nonneg _
  have hne : (c.len : Int) ≠ 0 := by omega
  rw [Int.fmod_eq_emod_of_nonneg _ hpos]
  have hnn : 0 ≤ i % (c.len : Int) := Int.emod_nonneg _ hne
  rw [Int.toNat_of_nonneg hnn]
  cases hasblobs <;> simp

/-- The row read is inside the retained history. -/
theorem C08_source_getitem_row_in_range (c : Chain) (i : Int) (hlen : 0 < c.len) :
    ∀ e ∈ Gen.getitemReads i (c.len : Int) true, 0 ≤ e.2 ∧ e.2 < (c.len : Int) := by
  intro e he
  rw [C08_source_getitem_reads c i true hlen] at he
  have hne : (c.len : Int) ≠ 0 := by omega
  have h1 : 0 ≤ i % (c.len : Int) := Int.emod_nonneg _ hne
  have h2 : i % (c.len : Int) < (c.len : Int) := Int.emod_lt_of_pos _ (by omega)
  have : ((pyModNat i c.len : Nat) : Int) = i % (c.len : Int) := by
    unfold pyModNat; exact Int.toNat_of_nonneg h1
  simp only [List.mem_map] at he
  obtain ⟨nm, _, rfl⟩ := he
  simp only [this]
  exact ⟨h1, h2⟩

example : Gen.getitemReads (-1) 5 false = [("positions", 4), ("stats", 4), ("acceptance", 4)] := by decide

end Epsie.C08
