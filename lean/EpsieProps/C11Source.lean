/-
  C11, source tie: `NestedTransdimensional._logpdf(xi, givenx)` as translated from
  `epsie/proposals/nested_transdimensional.py` on every run by harness/gen_source.py
  (`Gen.tdLogpdf`)

      lp = 0
      lp += self.model_proposal.logpdf(...)                       -- `indexDensity`
      current_state = givenx['_state'];  proposed_state = xi['_state']
      dk = xi[k] - givenx[k]
      if dk > 0:
          for prop in self.proposals[~current_state & proposed_state]:
              lp += prop.birth_distribution.logpdf(...)           -- `birth[j]`
      for prop in self.proposals[current_state & proposed_state]:
          lp += prop.logpdf(...)                                  -- `inModel[j]`

  computes the same number as the hand-written model `Transdim.logqCode`, about which the C11
  theorems (EpsieProps/C11.lean) are proved.  The translator turned each masked loop into a fold
  over the component index `j` in `0..K-1` guarded by the mask at `j`; the model sums with
  `List.foldl` over `(List.range n).filter sel`.

  No length side condition is needed: both sides read a missing mask entry as `false`
  (`Src.get` on `List Bool` falls back to `default = false`, the model uses `getD j false`) and a
  missing density as `0` (`(default : Rat) = 0` by `rfl`, the model uses `getD j 0`).

  Route: `Src.rangeUp 0 n` is `List.range n` cast to `Int` (`src11_rangeUp`); a guarded fold is
  the start value plus the fold over the filtered list (`src11_foldl_guard`); hence each translated
  loop is `init + sumSel n sel vals` (`src11_loop`).
-/
import EpsieModel.Generated.Source
import EpsieModel.Transdim
namespace Epsie.C11
open Epsie Transdim

/-! ### Prelude operations on natural indices -/

theorem src11_get_bool (l : List Bool) (i : Nat) : Src.get l (i : Int) = l.getD i false := by
  unfold Src.get
  have h : ¬ ((i : Int) < 0) := by omega
  simp only [h, if_false, Int.toNat_natCast]
  rfl

theorem src11_get_rat (l : List Rat) (i : Nat) : Src.get l (i : Int) = l.getD i 0 := by
  unfold Src.get
  have h : ¬ ((i : Int) < 0) := by omega
  simp only [h, if_false, Int.toNat_natCast]
  rfl

theorem src11_rangeUp (n : Nat) :
    Src.rangeUp 0 (n : Int) = (List.range n).map (fun (t : Nat) => (t : Int)) := by
  unfold Src.rangeUp
  have h : ((n : Int) - 0).toNat = n := by omega
  rw [h]
  apply List.map_congr_left
  intro i _
  omega

/-! ### A guarded fold is a fold over the filtered list -/

theorem src11_foldl_shift (f : Nat → Rat) (l : List Nat) :
    ∀ a b : Rat, l.foldl (fun acc j => acc + f j) (a + b) = a + l.foldl (fun acc j => acc + f j) b := by
  induction l with
  | nil => intro a b; rfl
  | cons x l ih =>
    intro a b
    simp only [List.foldl_cons]
    rw [Rat.add_assoc, ih]

theorem src11_foldl_guard (sel : Nat → Bool) (f : Nat → Rat) (l : List Nat) :
    ∀ init : Rat,
      l.foldl (fun acc j => if sel j then acc + f j else acc) init
        = init + (l.filter sel).foldl (fun acc j => acc + f j) 0 := by
  induction l with
  | nil => intro init; simp [Rat.add_zero]
  | cons x l ih =>
    intro init
    simp only [List.foldl_cons, List.filter_cons]
    cases hx : sel x with
    | false => simp only [Bool.false_eq_true, if_false]; exact ih init
    | true =>
      simp only [if_true, List.foldl_cons]
      have hs : (l.filter sel).foldl (fun acc j => acc + f j) (f x)
          = f x + (l.filter sel).foldl (fun acc j => acc + f j) 0 := by
        rw [← src11_foldl_shift, Rat.add_zero]
      rw [ih, Rat.zero_add, hs, Rat.add_assoc]

/-- One translated masked loop: the start value plus the model's selected sum. -/
theorem src11_loop (n : Nat) (selI : Int → Bool) (sel : Nat → Bool) (vals : List Rat)
    (hsel : ∀ j : Nat, selI (j : Int) = sel j) (init : Rat) :
    Src.forIn (Src.rangeUp 0 (n : Int)) init
        (fun j lp => if selI j then lp + Src.get vals j else lp)
      = init + sumSel n sel vals := by
  unfold Src.forIn sumSel
  rw [src11_rangeUp, List.foldl_map]
  simp only [hsel, src11_get_rat]
  exact src11_foldl_guard sel (fun j => vals.getD j 0) (List.range n) init

/-! ### The tie -/

/-- The translated `_logpdf` with its loops replaced by the model's selected sums, for ALL
    arguments (`K` a natural number). -/
theorem C11_source_logpdf_parts (n : Nat) (idx : Rat) (kxi kgiven : Int) (cur prop : List Bool)
    (birth inModel : List Rat) :
    Gen.tdLogpdf (n : Int) idx kxi kgiven cur prop birth inModel
      = idx
        + (if kxi - kgiven > 0
            then sumSel n (fun j => !(cur.getD j false) && prop.getD j false) birth else 0)
        + sumSel n (fun j => cur.getD j false && prop.getD j false) inModel := by
  unfold Gen.tdLogpdf
  have hb : ∀ j : Nat, ((!(Src.get cur (j : Int))) && (Src.get prop (j : Int)))
      = (fun j => !(cur.getD j false) && prop.getD j false) j := by
    intro j; simp only [src11_get_bool]
  have hi : ∀ j : Nat, ((Src.get cur (j : Int)) && (Src.get prop (j : Int)))
      = (fun j => cur.getD j false && prop.getD j false) j := by
    intro j; simp only [src11_get_bool]
  by_cases hdk : kxi - kgiven > 0
  · simp only [hdk, decide_true, if_true]
    rw [src11_loop n (fun j => (!(Src.get cur j)) && (Src.get prop j)) _ birth hb,
      src11_loop n (fun j => (Src.get cur j) && (Src.get prop j)) _ inModel hi, Rat.zero_add]
  · simp only [hdk, decide_false, if_false, Bool.false_eq_true]
    rw [src11_loop n (fun j => (Src.get cur j) && (Src.get prop j)) _ inModel hi, Rat.zero_add,
      Rat.add_zero]

/-- **C11, source tie.**  The translated `NestedTransdimensional._logpdf`, called as the real
    method is (`K` proposals = the length of the `'_state'` mask of `givenx`, current state that of
    `givenx`, proposed state that of `xi`), IS the model's `logqCode` — no side condition. -/
theorem C11_source_logpdf (xi givenx : SPoint) (d : Dens) :
    Gen.tdLogpdf ((givenx.state.length : Nat) : Int) d.index xi.pt.k givenx.pt.k
        givenx.state xi.state d.birth d.inModel
      = logqCode xi givenx d := by
  rw [C11_source_logpdf_parts]
  rfl

/-- On a death or a same-dimension move (`kxi ≤ kgiven`) the birth densities are not read. -/
theorem C11_source_no_birth_term_on_death (K : Int) (idx : Rat) (kxi kgiven : Int)
    (cur prop : List Bool) (birth birth' inModel : List Rat) (h : kxi ≤ kgiven) :
    Gen.tdLogpdf K idx kxi kgiven cur prop birth inModel
      = Gen.tdLogpdf K idx kxi kgiven cur prop birth' inModel := by
  have hdk : ¬ (kxi - kgiven > 0) := by omega
  unfold Gen.tdLogpdf
  simp only [hdk, decide_false, if_false, Bool.false_eq_true]

/-- What the code's density does NOT contain.  The reported log-density is the sum of exactly
    three parts — the index density, the birth densities of the components switched on (only when
    `dk > 0`), the in-model densities of the components active on both sides — each of them a sum
    of oracle densities selected by the two masks.  No part depends on the NUMBER of candidate
    components from which `Generator.choice` picked the `|dk|` switched ones: the binomial factor
    `nWays xi givenx` of the true law (`logqTrue`) is absent, and so is any term for a death.
    This is the discrepancy `C11_code_ratio` (EpsieProps/C11.lean) accounts for. -/
theorem C11_source_no_choice_term (xi givenx : SPoint) (d : Dens) :
    Gen.tdLogpdf ((givenx.state.length : Nat) : Int) d.index xi.pt.k givenx.pt.k
        givenx.state xi.state d.birth d.inModel
      = d.index
        + (if xi.pt.k - givenx.pt.k > 0
            then sumSel givenx.state.length
              (fun j => !(givenx.state.getD j false) && xi.state.getD j false) d.birth
            else 0)
        + sumSel givenx.state.length
            (fun j => givenx.state.getD j false && xi.state.getD j false) d.inModel
      ∧ (logqTrue xi givenx d).log
          = Gen.tdLogpdf ((givenx.state.length : Nat) : Int) d.index xi.pt.k givenx.pt.k
              givenx.state xi.state d.birth d.inModel
      ∧ (logqTrue xi givenx d).ways = nWays xi givenx := by
  refine ⟨C11_source_logpdf_parts _ _ _ _ _ _ _ _, ?_, rfl⟩
  rw [C11_source_logpdf]
  rfl

/-! ### Concrete runs of the translated code (`K = 3`) -/

/-- A birth of component 1 (`k: 1 → 2`, mask `[T,F,F] → [T,T,F]`): index density `1/2`, birth
    density of component 1 (`5`), in-model density of component 0 (`1/3`); the two candidates the
    choice had (`nWays = C(2,1) = 2`) leave no trace in the reported value. -/
example :
    Gen.tdLogpdf 3 (1/2) 2 1 [true, false, false] [true, true, false] [7, 5, 11] [1/3, 1/5, 1/7]
        = 1/2 + 5 + 1/3
      ∧ nWays ⟨⟨2, []⟩, [true, true, false]⟩ ⟨⟨1, []⟩, [true, false, false]⟩ = 2 := by
  decide +kernel

/-- A same-dimension move (`k: 2 → 2`, mask `[T,T,F]` on both sides): index density plus the
    in-model densities of components 0 and 1; the birth list is not read.  And the reverse of the
    birth above (a death) reports the index density plus the in-model density of component 0 only. -/
example :
    Gen.tdLogpdf 3 (1/2) 2 2 [true, true, false] [true, true, false] [7, 5, 11] [1/3, 1/5, 1/7]
        = 1/2 + 1/3 + 1/5
      ∧ Gen.tdLogpdf 3 (1/2) 1 2 [true, true, false] [true, false, false] [7, 5, 11] [1/3, 1/5, 1/7]
        = 1/2 + 1/3 := by
  decide +kernel

end Epsie.C11
