/-
  C16 — the obligations about the tables measured on the current /repo source
  (`harness/gen_tables.py` → `Generated/Tables.lean`, `harness/gen_alias.py` →
  `Generated/Alias.lean`).  They are the hypotheses of the general theorems of
  `EpsieProps/C16.lean`.  This module is NOT imported by `EpsieProps.lean`: the
  check (`harness/props/C16.py`) builds it by name on every run and reports which
  of these theorems no longer holds; a failure here is what sends the check into
  its full failing-input search on the real code.
-/
import EpsieModel.Generated.Tables
import EpsieModel.Generated.Alias
namespace Epsie.C16Table
open Alias

/-- Every array that an update mutates in place is copied by `state` and by `set_state`. -/
theorem C16_table_copy_discipline : CopyDiscipline Generated.families := by decide

/-- On the generator's forced history no snapshot changed and no loaded copy was coupled. -/
theorem C16_table_snapshot_is_value : SnapshotIsValue Generated.families := by decide

/-- The same discipline on the finer table (constructor variants; arrays shared between
    two attributes of one proposal count as in-place for both). -/
theorem C16_table_alias_copy_ok : CopyOK Generated.aliasVariants := by decide

/-- Measured behaviour of every variant. -/
theorem C16_table_alias_behaves : BehavesAsValue Generated.aliasVariants := by decide

/-- Soundness of the model against the measurements: every variant that obeys the
    discipline behaved as the theorems of `C16.lean` predict. -/
theorem C16_table_model_sound : ModelSoundC16 Generated.aliasVariants := by decide

/-- Every probe ran. -/
theorem C16_table_probes_ran : Generated.probeErrors = [] ∧ Generated.aliasProbeErrors = [] := by decide

end Epsie.C16Table
