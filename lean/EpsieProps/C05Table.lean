/-
  C05, generated obligation: every exported proposal class carries in `state`, and restores in
  `set_state`, everything a future step reads (step counter, start step, adaptive payload —
  measured bit for bit on a forced history by harness/gen_tables.py on every run).
-/
import EpsieModel.Generated.Tables
namespace Epsie.C05

theorem C05_table_state_complete : StateComplete Generated.families := by decide

end Epsie.C05
