/-
  C06, source tie: `Chain.clear` and the scratch growth requested by `BaseSampler.run`,
  translated from the source on every run, agree with the model's `Chain.clear` and
  `Chain.extendFor` for all chain states.
-/
import EpsieModel.Generated.Source
import EpsieModel.Chain
namespace Epsie.C06

/-- `clear()` after at least one iteration: the start position / stats / blob become the current
    ones, every scratch array is cleared to the current scratch length (the blobs iff the chain has
    blobs), `lastclear` becomes the iteration. -/
theorem C06_source_clear_used {α σ β : Type} (hasblobs : Bool) (it lc sl : Int) (cp : α) (cs : σ) (cb : β)
    (s0 : α) (st0 : σ) (b0 : β) (h : it > 0) :
    Gen.chainClear α σ β hasblobs it lc sl cp cs cb s0 st0 b0
      = (cp, cs, (if hasblobs then cb else b0),
         [("positions", sl), ("stats", sl), ("acceptance", sl)] ++ (if hasblobs then [("blobs", sl)] else []),
         it) := by
  unfold Gen.chainClear Src.wr
  cases hasblobs <;> simp [h]

/-- `clear()` before the first iteration only moves `lastclear`. -/
theorem C06_source_clear_fresh {α σ β : Type} (hasblobs : Bool) (it lc sl : Int) (cp : α) (cs : σ) (cb : β)
    (s0 : α) (st0 : σ) (b0 : β) (h : ¬ it > 0) :
    Gen.chainClear α σ β hasblobs it lc sl cp cs cb s0 st0 b0 = (s0, st0, b0, [], it) := by
  unfold Gen.chainClear
  simp [h]

/-- Tie to the model: `lastclear` and the start state after the translated `clear` are those of
    `Chain.clear` (the model keeps position, stats and blob of the start in one `St`). -/
theorem C06_source_clear_model_fresh (c : Chain) (hasblobs : Bool) (sl : Int) (h : ¬ c.iteration > 0) :
    let r := Gen.chainClear (Option St) Unit Unit hasblobs (c.iteration : Int) (c.lastclear : Int) sl
               c.current () () c.start () ()
    r.1 = c.clear.start ∧ r.2.2.2.2 = (c.clear.lastclear : Int) ∧ r.2.2.2.1 = [] ∧ c.clear.scratch = c.scratch := by
  intro r
  have h' : ¬ ((c.iteration : Int) > 0) := by omega
  simp only [r, C06_source_clear_fresh _ _ _ _ _ _ _ _ _ _ h']
  simp [Chain.clear, h]

theorem C06_source_clear_model_used (c : Chain) (hasblobs : Bool) (sl : Int) (h : c.iteration > 0) :
    let r := Gen.chainClear (Option St) Unit Unit hasblobs (c.iteration : Int) (c.lastclear : Int) sl
               c.current () () c.start () ()
    r.1 = c.clear.start ∧ r.2.2.2.2 = (c.clear.lastclear : Int) := by
  intro r
  have h' : (c.iteration : Int) > 0 := by omega
  simp only [r, C06_source_clear_used _ _ _ _ _ _ _ _ _ _ h']
  simp [Chain.clear, h]

/-- `run(n)` asks for `scratchlen + max(n - (scratchlen - len), 0)` rows: the model's `extendFor`. -/
theorem C06_source_run_growth (c : Chain) (n : Nat) :
    Gen.runGrowth (n : Int) (c.scratchlen : Int) (c.len : Int) = ((c.extendFor n).scratchlen : Int) := by
  unfold Gen.runGrowth Chain.extendFor Chain.setScratchlen
  simp only []
  omega

/-- After the growth `n` more records fit: `len + n ≤ scratchlen'`. -/
theorem C06_source_run_growth_enough (n sl len : Int) :
    len + n ≤ Gen.runGrowth n sl len := by
  unfold Gen.runGrowth
  omega

example : Gen.runGrowth 5 8 6 = 11 ∧ Gen.runGrowth 2 8 6 = 8 := by decide

end Epsie.C06
