/-
  C01, source tie: `Chain._acceptance_ratio` as translated from
  `epsie/chain/chain.py` on every run by harness/gen_source.py is, for all arguments,
  the model's acceptance decision (`Chain.logAR`, `Chain.decision`, `Decision.accepted`,
  `Decision.ar`, `Decision.usesUniform`) about which the C01 theorems are proved.
  The NaN test of the code (`numpy.isnan(ar)` → raise) is outside the rational model.
  At beta = 0 the code computes `logp - current_logp` (repair of the 0 * -inf defect): equal to the
  model's `logAR` because `logl * 0 = 0` for every finite `logl` (`C01_source_logar`, case `beta = 0`).
-/
import EpsieModel.Generated.Source
import EpsieModel.Chain
namespace Epsie.C01
open Chain

/-- The joint Hastings term as the translated code adds it: `rev - fwd` unless symmetric. -/
def hOf (symmetric : Bool) (rev fwd : Rat) : Rat := if symmetric then 0 else rev - fwd

theorem C01_source_logar (beta : Rat) (cur : St) (logl logp : Rat) (symmetric : Bool) (rev fwd : Rat)
    (us : List Rat) :
    let d := decision beta cur { logl := logl, logp := some logp, blob := [] } (hOf symmetric rev fwd)
    Gen.acceptanceRatio logp logl beta cur.logp cur.logl symmetric rev fwd us
      = ((d.accepted (Src.draw us), d.ar), if d.usesUniform then us.tail else us) := by
  intro d
  unfold Gen.acceptanceRatio
  have key : ∀ (l0 : Rat), l0 = logp + logl * beta - cur.logp - cur.logl * beta →
      (if (!symmetric) = true then
        (if decide (l0 + (rev - fwd) > 0) = true then ((true, AR.one), us)
         else ((Src.uLe (Src.draw us) (AR.exp (l0 + (rev - fwd))), AR.exp (l0 + (rev - fwd))), us.tail))
       else
        (if decide (l0 > 0) = true then ((true, AR.one), us)
         else ((Src.uLe (Src.draw us) (AR.exp l0), AR.exp l0), us.tail)))
      = ((d.accepted (Src.draw us), d.ar), if d.usesUniform then us.tail else us) := by
    intro l0 hl0
    cases symmetric
    · have hl : l0 + (rev - fwd) = logAR beta cur logl logp (hOf false rev fwd) := by
        simp [logAR, hOf, hl0]
      simp only [Bool.not_false, if_true, hl]
      by_cases hpos : logAR beta cur logl logp (hOf false rev fwd) > 0
      · have hd : d = .sure := by simp [d, decision, hpos]
        simp [hpos, hd, Decision.accepted, Decision.ar, Decision.usesUniform]
      · have hd : d = .draw (logAR beta cur logl logp (hOf false rev fwd)) := by simp [d, decision, hpos]
        simp [hpos, hd, Decision.accepted, Decision.ar, Decision.usesUniform, Src.uLe]
    · have hl : l0 = logAR beta cur logl logp (hOf true rev fwd) := by
        simp [logAR, hOf, hl0, Rat.add_zero]
      simp only [Bool.not_true, Bool.false_eq_true, if_false, hl]
      by_cases hpos : logAR beta cur logl logp (hOf true rev fwd) > 0
      · have hd : d = .sure := by simp [d, decision, hpos]
        simp [hpos, hd, Decision.accepted, Decision.ar, Decision.usesUniform]
      · have hd : d = .draw (logAR beta cur logl logp (hOf true rev fwd)) := by simp [d, decision, hpos]
        simp [hpos, hd, Decision.accepted, Decision.ar, Decision.usesUniform, Src.uLe]
  by_cases hb : beta = 0
  · -- infinite temperature: the code leaves the likelihood out; `logl * 0 = 0` in exact arithmetic
    simp only [hb, decide_true, if_true]
    have := key (logp - cur.logp) (by subst hb; simp [Rat.mul_zero, Rat.add_zero, Rat.sub_eq_add_neg, Rat.neg_zero])
    simpa using this
  · simp only [hb, decide_false, Bool.false_eq_true, if_false]
    have := key (logp + logl * beta - cur.logp - cur.logl * beta) rfl
    simpa using this

/-- The term the translated code adds is the model's joint Hastings term when the reported joint
    densities are the sums over the contributing constituents (`JointProposal._logpdf`). -/
theorem C01_source_hastings (ps : List PropSt) (rev fwd : List Rat) :
    hOf (jointSymmetric ps) (sumContrib ps rev) (sumContrib ps fwd) = hastings ps rev fwd := by
  unfold hOf hastings
  rfl

/-- A uniform is consumed exactly when the model's decision is a draw. -/
theorem C01_source_uniform_use (beta : Rat) (cur : St) (logl logp : Rat) (symmetric : Bool) (rev fwd : Rat)
    (us : List Rat) :
    (Gen.acceptanceRatio logp logl beta cur.logp cur.logl symmetric rev fwd us).2
      = if (decision beta cur { logl := logl, logp := some logp, blob := [] } (hOf symmetric rev fwd)).usesUniform
        then us.tail else us := by
  have h := C01_source_logar beta cur logl logp symmetric rev fwd us
  simp only at h
  rw [h]

example : Gen.acceptanceRatio (-1) (-2) (1/2) (-1) (-4) true 0 0 [-3] = ((true, AR.one), [-3]) := by
  decide +kernel
example : Gen.acceptanceRatio (-1) (-6) (1/2) (-1) (-4) false (-1) (-2) [-3, 5] = ((false, AR.exp 0), [5])
    ∨ Gen.acceptanceRatio (-1) (-6) (1/2) (-1) (-4) false (-1) (-2) [-3, 5] = ((true, AR.exp 0), [5]) := by
  decide +kernel

end Epsie.C01
